/-
Deep embedding of the crate's API ORCHESTRATION functions — the straight-line code of src/server.rs and src/client.rs (and
`calculate_session_key` of src/srp_internal.rs) that decides which value goes into which computation, what is compared with what, what is
returned on which branch and when the random number generator is asked:

    let x = f(a, &self.b, ..);        let x = f(..)?;        let x = f(..).expect("..");        let x = T::randomized();
    let ok = a == b;                  if a != b { return Err(E { .. }); }                       self.f.randomize_data();
    Ok((S { .. }, *p.as_le_bytes()))  Ok(S { .. })            S { .. }            f(..)          (*p.as_le_bytes(), c)

`tools/gen_api.py` translates each function from the working tree on every run into an `ApiFn` (Gen/CodeApi.lean).  Arguments are ATOMS — a
local or parameter, a field of `self`, `self` itself — seen through the conversions that are the identity on the model's values (`&`, `*`,
`.as_le_bytes()`, `Proof::from_le_bytes(..)` and its siblings in src/key.rs, whose bodies the glue facts pin); anything else has to be bound
by a `let` of one of the forms above or the translator emits `unsupported`.  This file is the MEANING of those terms.  Callees are looked up by
name in an environment supplied by the theorem (the model's function for that name); random draws come from an explicit list and what is left
of it is part of the result, so "drawn on this path, not on that one" is visible.  An ill-typed term, an unknown name, an exhausted draw
list, a `T::randomized()` of a type outside `drawKinds` have no meaning (`none`); a Rust panic (`expect` on `Err`, a panic inside a callee) is
`some (.panic ..)`.  Two things this meaning does NOT say, and the theorems therefore do not either (reviewed in notes/audit_h/REPORT.md):
a callee is a function of its arguments — it cannot take from the draw list, so "exactly one draw" is about the translated function's own
statements and assumes the callees it names do not draw (true of every callee that is itself translated: none of the term languages has a
draw outside `MiniApi`, and the `*_linked_*` theorems run linked callees on an empty draw list); and the draw kinds are interchangeable —
each takes the head of the list, whatever its length (the widths 32 / 32 / 16 are the business of C15's own theorems).  The environment
tables of Props/Source/ApiBase.lean answer an ill-typed CALL with the panic "ill-typed call", not with `none`; the three theorems stated up
to panic text (`C15_translated_into_proof`, `C03_translated_client_new`, `C03_linked_client_new`) could not tell that from a Rust panic on
inputs where the model panics too — on all other inputs (every accepted key) they can.
-/
import WowSrp.Model.Srp
namespace WowSrp.MiniApi

inductive AVal where
  | bytes (b : Bytes)
  | nstr (u : NStr)
  | num (n : Nat)
  | bool (b : Bool)
  | struct (name : String) (fields : List (String × AVal))     -- a struct value, fields sorted by name
  | ok (v : AVal)
  | err (v : AVal)
  | tup (a b : AVal)

inductive Atom where
  | var (n : String)
  | field (n : String)       -- `self.n`
  | self_                    -- `self`
deriving Repr, DecidableEq

inductive Rhs where
  | atom (a : Atom)
  | call (fn : String) (args : List Atom)
  | draw (kind : String)                                  -- `Kind::randomized()`
  | mk (name : String) (fields : List (String × Atom))
  | eq (a b : Atom)
  | ne (a b : Atom)
deriving Repr, DecidableEq

inductive Ret where
  | val (r : Rhs)
  | ok (r : Rhs)
  | err (r : Rhs)
  | okTup (r : Rhs) (a : Atom)
  | tup (a b : Atom)                                      -- `(a, b)` as the tail
  | expect (r : Rhs) (msg : String)                       -- `f(..).expect("..")` as the tail
deriving Repr, DecidableEq

inductive Stmt where
  | let_ (n : String) (r : Rhs)
  | letTry (n : String) (r : Rhs)
  | letExpect (n : String) (r : Rhs) (msg : String)
  | ifNeRet (a b : Atom) (ret : Ret)
  | drawField (f : String)                                -- `self.f.randomize_data()`
deriving Repr, DecidableEq

structure ApiFn where
  selfType : String                  -- "" for a free function
  params : List String
  body : List Stmt
  tail : Ret
  unsupported : Option String
deriving Repr, DecidableEq

abbrev Fields := List (String × AVal)
abbrev Prims := String → Option (List AVal → Out AVal)

structure St where
  env : Fields
  self : Fields
  draws : List Bytes

def lookup (fs : Fields) (n : String) : Option AVal := (fs.find? (fun p => p.1 == n)).map Prod.snd

def setField (fs : Fields) (n : String) (v : AVal) : Fields := fs.map (fun p => if p.1 == n then (p.1, v) else p)

def Atom.val (s : St) (selfType : String) : Atom → Option AVal
  | .var n => lookup s.env n
  | .field n => lookup s.self n
  | .self_ => some (.struct selfType s.self)

def atomsVal (s : St) (selfType : String) : List Atom → Option (List AVal)
  | [] => some []
  | a :: r => do
    let x ← a.val s selfType
    let y ← atomsVal s selfType r
    pure (x :: y)

def fieldsVal (s : St) (selfType : String) : List (String × Atom) → Option Fields
  | [] => some []
  | (n, a) :: r => do
    let x ← a.val s selfType
    let y ← fieldsVal s selfType r
    pure ((n, x) :: y)

/-- `==` / `!=` are only ever applied to byte-string values (the key types derive `PartialEq` over their one array field) -/
def eqVal : AVal → AVal → Option Bool
  | .bytes a, .bytes b => some (a == b)
  | _, _ => none

/-- the types whose `randomized()` IS a fresh draw of the whole value (src/key.rs, bodies pinned by the glue facts); `T::randomized()` of any
    other type has no meaning here -/
def drawKinds : List String := ["ReconnectData", "PrivateKey", "Salt"]

/-- value of a right-hand side and the state after it (a draw consumes the head of the draw list) -/
def Rhs.eval (P : Prims) (selfType : String) (s : St) : Rhs → Option (Out (AVal × St))
  | .atom a => (a.val s selfType).map (fun v => .ok (v, s))
  | .call fn args => do
    let f ← P fn
    let vs ← atomsVal s selfType args
    pure ((f vs).bind (fun v => .ok (v, s)))
  | .draw kind => match s.draws with
    | [] => none
    | d :: r => if drawKinds.contains kind then some (.ok (.bytes d, { s with draws := r })) else none
  | .mk name fs => (fieldsVal s selfType fs).map (fun v => .ok (.struct name v, s))
  | .eq a b => do
    let x ← a.val s selfType
    let y ← b.val s selfType
    let r ← eqVal x y
    pure (.ok (.bool r, s))
  | .ne a b => do
    let x ← a.val s selfType
    let y ← b.val s selfType
    let r ← eqVal x y
    pure (.ok (.bool (!r), s))

/-- outcome of a function: the returned value, `self` afterwards, the draws that were not used -/
abbrev Res := Out (AVal × Fields × List Bytes)

def Ret.eval (P : Prims) (selfType : String) (s : St) : Ret → Option Res
  | .val r => (r.eval P selfType s).map (fun o => o.bind (fun (v, s') => .ok (v, s'.self, s'.draws)))
  | .ok r => (r.eval P selfType s).map (fun o => o.bind (fun (v, s') => .ok (.ok v, s'.self, s'.draws)))
  | .err r => (r.eval P selfType s).map (fun o => o.bind (fun (v, s') => .ok (.err v, s'.self, s'.draws)))
  | .tup a b => match a.val s selfType, b.val s selfType with
    | some x, some y => some (.ok (.tup x y, s.self, s.draws))
    | _, _ => none
  | .okTup r a => match r.eval P selfType s with
    | none => none
    | some (.panic m) => some (.panic m)
    | some (.ok (v, s')) => (a.val s' selfType).map (fun w => .ok (.ok (.tup v w), s'.self, s'.draws))
  | .expect r msg => match r.eval P selfType s with
    | none => none
    | some (.panic m) => some (.panic m)
    | some (.ok (.ok v, s')) => some (.ok (v, s'.self, s'.draws))
    | some (.ok (.err _, _)) => some (.panic msg)
    | some (.ok _) => none

def bindVar (s : St) (n : String) (v : AVal) : St := { s with env := (n, v) :: s.env }

def runBody (P : Prims) (selfType : String) : List Stmt → Ret → St → Option Res
  | [], tail, s => tail.eval P selfType s
  | .let_ n r :: rest, tail, s => match r.eval P selfType s with
    | none => none
    | some (.panic m) => some (.panic m)
    | some (.ok (v, s')) => runBody P selfType rest tail (bindVar s' n v)
  | .letTry n r :: rest, tail, s => match r.eval P selfType s with
    | none => none
    | some (.panic m) => some (.panic m)
    | some (.ok (.ok v, s')) => runBody P selfType rest tail (bindVar s' n v)
    | some (.ok (.err e, s')) => some (.ok (.err e, s'.self, s'.draws))
    | some (.ok _) => none
  | .letExpect n r msg :: rest, tail, s => match r.eval P selfType s with
    | none => none
    | some (.panic m) => some (.panic m)
    | some (.ok (.ok v, s')) => runBody P selfType rest tail (bindVar s' n v)
    | some (.ok (.err _, _)) => some (.panic msg)
    | some (.ok _) => none
  | .ifNeRet a b ret :: rest, tail, s =>
    match a.val s selfType, b.val s selfType with
    | some x, some y => match eqVal x y with
      | some true => runBody P selfType rest tail s
      | some false => ret.eval P selfType s
      | none => none
    | _, _ => none
  | .drawField f :: rest, tail, s => match s.draws, lookup s.self f with
    | d :: r, some _ => runBody P selfType rest tail { s with self := setField s.self f (.bytes d), draws := r }
    | _, _ => none

/-- the function the translated term denotes: `self` (empty for a free function), the arguments in the order of the signature, the draws -/
def ApiFn.run (f : ApiFn) (P : Prims) (self : Fields) (args : List AVal) (draws : List Bytes) : Option Res :=
  match f.unsupported with
  | some _ => none
  | none => if args.length = f.params.length then runBody P f.selfType f.body f.tail ⟨f.params.zip args, self, draws⟩ else none

end WowSrp.MiniApi
