/-
Deep embedding of the two kinds of straight-line code that fix the header wire format:

  builders   `let size = size.to_be_bytes(); let opcode = opcode.to_le_bytes(); let mut header = [size[0], size[1], opcode[0], ..];`
             (Vanilla / TBC `encrypt_server_header`, `encrypt_client_header`; Wrath `encrypt_client_header`; the two branches of Wrath
             `encrypt_server_header` with `set_large_header(size[1])`)
  parsers    `u16::from_be_bytes([b[0], b[1]])`, `u32::from_le_bytes([b[2], b[3], b[4], b[5]])`, `u32::from_be_bytes([0, clear_large_header(b[0]), b[1], b[2]])`
             (`ServerHeader::from_array`, `ClientHeader::from_array`, Wrath `from_small_array` / `from_large_array`)

`tools/gen_code.py` translates those functions from the working tree into terms of `LByte` / `ParseSpec` (Gen/Code.lean);
`Props/Source/Layouts*.lean` prove, for all sizes and opcodes / all byte arrays, that they denote the model's layout and parse
functions.  Import-free (core only).
-/
import WowSrp.Model.Basic
import WowSrp.Gen.Constants
namespace WowSrp.MiniLayout

inductive Field where
  | size
  | opcode
deriving Repr, DecidableEq

def Field.val (size opcode : Nat) : Field → Nat
  | .size => size
  | .opcode => opcode

/-- one element of the `[..]` literal that becomes the header -/
inductive LByte where
  | be (f : Field) (width i : Nat)   -- `f.to_be_bytes()[i]` for an integer type of `width` bytes
  | le (f : Field) (width i : Nat)   -- `f.to_le_bytes()[i]`
  | setLarge (b : LByte)             -- `set_large_header(b)`
  | unsupported (text : String)
deriving Repr, DecidableEq

def LByte.eval (size opcode : Nat) : LByte → UInt8
  | .be f w i => UInt8.ofNat (f.val size opcode / 256 ^ (w - 1 - i) % 256)
  | .le f _ i => UInt8.ofNat (f.val size opcode / 256 ^ i % 256)
  | .setLarge b => b.eval size opcode ||| UInt8.ofNat Gen.wrathSetMask
  | .unsupported _ => 0

def layoutBytes (l : List LByte) (size opcode : Nat) : Bytes := l.map (·.eval size opcode)

/-- `if size > threshold { large } else { small }` -/
structure Branching where
  threshold : Nat
  large : List LByte
  small : List LByte
deriving Repr, DecidableEq

def Branching.bytes (b : Branching) (size opcode : Nat) : Bytes :=
  if size > b.threshold then layoutBytes b.large size opcode else layoutBytes b.small size opcode

/-- one element of the `[..]` literal handed to `from_be_bytes` / `from_le_bytes` -/
inductive PByte where
  | at (i : Nat)                 -- `b[i]`
  | zero                         -- the literal 0
  | clearLarge (p : PByte)       -- `clear_large_header(p)`
  | loc (p : PByte)              -- a `let`-bound local holding p (transparent)
  | unsupported (text : String)
deriving Repr, DecidableEq

def PByte.eval (b : Bytes) : PByte → UInt8
  | .at i => b.getD i 0
  | .zero => 0
  | .clearLarge p => p.eval b &&& UInt8.ofNat Gen.wrathClearMask
  | .loc p => p.eval b
  | .unsupported _ => 0

inductive Order where
  | be
  | le
deriving Repr, DecidableEq

def Order.value (o : Order) (bs : List UInt8) : Nat :=
  match o with
  | .be => bs.foldl (fun acc x => acc * 256 + x.toNat) 0
  | .le => bs.foldr (fun x acc => x.toNat + 256 * acc) 0

/-- `Self { size: <order>(sizeBytes), opcode: <order>(opBytes) }` over an array of `len` bytes -/
structure ParseSpec where
  len : Nat
  sizeOrder : Order
  sizeBytes : List PByte
  opOrder : Order
  opBytes : List PByte
  ok : Bool            -- false: the translator met something it has no meaning for
deriving Repr, DecidableEq

def ParseSpec.eval (p : ParseSpec) (b : Bytes) : Option (Nat × Nat) :=
  if p.ok && b.length == p.len then
    some (p.sizeOrder.value (p.sizeBytes.map (·.eval b)), p.opOrder.value (p.opBytes.map (·.eval b)))
  else none

end WowSrp.MiniLayout
