/-
Model of src/integrity.rs. Assumption about the `hmac` crate recorded here: successive
`update` calls are concatenation of the message (checked by every correspondence run).
-/
import WowSrp.Model.Crypto
namespace WowSrp

def finalise (C : Crypto) (seed checksum : Bytes) : Bytes := C.sha1 (seed ++ checksum)

/-- `login_integrity_check_generic` -/
def integrityGeneric (C : Crypto) (allFiles salt pk : Bytes) : Bytes :=
  finalise C pk (C.hmac salt allFiles)

/-- `checksum` helper: five `update`s -/
def integrityChecksum (C : Crypto) (seed f1 f2 f3 f4 f5 : Bytes) : Bytes :=
  C.hmac seed ((((([] ++ f1) ++ f2) ++ f3) ++ f4) ++ f5)

/-- `login_integrity_check_windows` -/
def integrityWindows (C : Crypto) (f1 f2 f3 f4 f5 salt pk : Bytes) : Bytes :=
  finalise C pk (integrityChecksum C salt f1 f2 f3 f4 f5)

/-- `login_integrity_check_mac` (its own five `update`s) -/
def integrityMac (C : Crypto) (f1 f2 f3 f4 f5 salt pk : Bytes) : Bytes :=
  finalise C pk (C.hmac salt ((((([] ++ f1) ++ f2) ++ f3) ++ f4) ++ f5))

/-- `reconnect_integrity_check` -/
def integrityReconnect (C : Crypto) (salt : Bytes) : Bytes :=
  finalise C salt (List.replicate 20 0)

end WowSrp
