/-
Model of the world-login proof: src/vanilla_header/internal.rs and the three `ProofSeed`s
(src/vanilla_header/mod.rs, src/tbc_header/mod.rs, src/wrath_header/mod.rs).
-/
import WowSrp.Model.Wrath
import WowSrp.Model.Srp
namespace WowSrp

/-- `calculate_world_server_proof(username, session_key, server_seed, client_seed)` -/
def calculateWorldServerProof (C : Crypto) (U K : Bytes) (serverSeed clientSeed : Nat) : Bytes :=
  C.sha1 (U ++ leN 4 0 ++ leN 4 clientSeed ++ leN 4 serverSeed ++ K)

/-- `ProofSeed::default()`: `thread_rng().next_u32()` of the 4 drawn bytes (little endian) -/
def ProofSeed.ofDraw (draw : Bytes) : Nat := ofLE (draw.take 4)

/-- `ProofSeed::seed` -/
def ProofSeed.seed (s : Nat) : Nat := s

/-- `ProofSeed::into_client_header_crypto`, Vanilla / TBC: (proof, crypto) -/
def ProofSeed.intoClientHeaderCrypto (C : Crypto) (e : Exp) (seed : Nat) (u : NStr) (K : Bytes)
    (serverSeed : Nat) : Bytes × HeaderCrypto :=
  (calculateWorldServerProof C u.asRef K serverSeed seed, HeaderCrypto.new C e K)

/-- `ProofSeed::into_server_header_crypto`, Vanilla / TBC -/
def ProofSeed.intoServerHeaderCrypto (C : Crypto) (e : Exp) (seed : Nat) (u : NStr) (K proof : Bytes)
    (clientSeed : Nat) : Except MatchProofsError HeaderCrypto :=
  let serverProof := calculateWorldServerProof C u.asRef K seed clientSeed
  if serverProof != proof then .error ⟨proof, serverProof⟩ else .ok (HeaderCrypto.new C e K)

/-- Wrath `ProofSeed::into_client_header_crypto` -/
def ProofSeed.wrathIntoClient (C : Crypto) (seed : Nat) (u : NStr) (K : Bytes) (serverSeed : Nat) :
    Out (Bytes × WClientCrypto) := do
  let proof := calculateWorldServerProof C u.asRef K serverSeed seed
  let crypto ← WClientCrypto.new C K
  pure (proof, crypto)

/-- Wrath `ProofSeed::into_server_header_crypto` -/
def ProofSeed.wrathIntoServer (C : Crypto) (seed : Nat) (u : NStr) (K proof : Bytes) (clientSeed : Nat) :
    Out (Except MatchProofsError WServerCrypto) :=
  let serverProof := calculateWorldServerProof C u.asRef K seed clientSeed
  if serverProof != proof then .ok (.error ⟨proof, serverProof⟩) else do
    let c ← WServerCrypto.new C K
    pure (.ok c)

end WowSrp
