/-
Model of src/pin.rs
-/
import WowSrp.Model.Deps
import WowSrp.Model.Crypto
import WowSrp.Gen.Constants
namespace WowSrp

/-- the `while pin != 0` loop of `pin_to_bytes`: digits least significant first, written to
    `out_pin_array[i]` (panics past the 10-byte array) -/
def pinDigitsRev : Nat → Nat → List UInt8
  | 0, _ => []
  | fuel+1, pin => if pin = 0 then [] else UInt8.ofNat (pin % 10) :: pinDigitsRev fuel (pin / 10)

/-- `pin_to_bytes` -/
def pinToBytes (pin : Nat) : Out Bytes :=
  let d := pinDigitsRev 64 pin
  if d.length ≤ Gen.maxPinLength then .ok d.reverse else .panic "pin.rs:105 index out of bounds"

/-- inner copy loop: `for i in 0..copy_size { grid[r + i] = grid[r + i + 1]; }` -/
def pinShift (grid : Bytes) (r : Nat) : Nat → Nat → Out Bytes
  | 0, _ => .ok grid
  | c+1, j =>
    match grid[r + j + 1]? with
    | none => .panic "pin.rs:128 index out of bounds"
    | some v =>
      if r + j < grid.length then pinShift (grid.set (r + j) v) r c (j + 1)
      else .panic "pin.rs:128 index out of bounds"

/-- the outer loop of `remap_pin_grid`, `i` counting down from 10 to 1 -/
def remapLoop : Nat → Bytes → Nat → Bytes → Out Bytes
  | 0, _, _, out => .ok out
  | i+1, grid, seed, out =>
    let r := seed % (i+1)
    match grid[r]? with
    | none => .panic "pin.rs:123 index out of bounds"
    | some v => do
      let grid' ← pinShift grid r (i + 1 - r - 1) 0
      remapLoop i grid' (seed / (i+1)) (out ++ [v])

/-- `remap_pin_grid` -/
def remapPinGrid (seed : Nat) : Out Bytes :=
  remapLoop Gen.maxPinLength Gen.pinInitialGrid seed []

/-- position lookup with `.unwrap()` -/
def findIdx (grid : Bytes) (b : UInt8) : Out UInt8 :=
  match grid.findIdx? (· == b) with
  | some i => .ok (UInt8.ofNat i)
  | none => .panic "pin.rs:78 unwrap on None"

def mapOut {α β} (f : α → Out β) : List α → Out (List β)
  | [] => .ok []
  | x :: xs => do
    let y ← f x
    let ys ← mapOut f xs
    pure (y :: ys)

/-- `calculate_hash` -/
def pinCalculateHash (C : Crypto) (pin seed : Nat) (serverSalt clientSalt : Bytes) : Out (Option Bytes) := do
  let bytes ← pinToBytes pin
  if bytes.length < Gen.minPinLength || bytes.length > Gen.maxPinLength then pure none else
  let grid ← remapPinGrid seed
  let idx ← mapOut (findIdx grid) bytes
  let ascii := idx.map (· + UInt8.ofNat Gen.pinAsciiOffset)
  let inner := C.sha1 (serverSalt ++ ascii)
  pure (some (C.sha1 (clientSalt ++ inner)))

/-- `verify_client_pin_hash` -/
def pinVerify (C : Crypto) (pin seed : Nat) (serverSalt clientSalt hash : Bytes) : Out Bool := do
  let r ← pinCalculateHash C pin seed serverSalt clientSalt
  match r with
  | some h => pure (h == hash)
  | none => pure false

end WowSrp
