/-
Deep embedding of `NormalizedString::new` (the inner function of src/normalized_string.rs) — the decision that C13 is about:

    if s.len() > MAX as usize || s.is_empty() { return Err(StringTooLong); }
    let mut array = [0_u8; MAX as usize];
    for (i, c) in s.chars().enumerate() {
        if !c.is_ascii() || c.is_ascii_control() { return Err(CharacterNotAllowed(c)); }
        array[i] = c.to_ascii_uppercase() as u8;
    }
    Ok(NormalizedString { s: array, length: s.len() as u8 })

`tools/gen_str.py` translates it from the working tree on every run into a `NewProg` (Gen/CodeStr.lean); this file is its meaning.  A Rust `&str`
is a `List Char`; `s.len()` is the UTF-8 byte count, `s.chars().count()` the number of characters; `||` and `&&` short-circuit (all the
predicates are total, so that is not observable); `c as u8` truncates; `array[i] = ..` panics out of bounds.
`Props/Source/StrNew.lean` proves the translated program equal to the model's `NStr.new` for EVERY string.
-/
import WowSrp.Model.NStr
namespace WowSrp.MiniStr

/-- a number computed from the whole string -/
inductive SNum where
  | byteLen                      -- `s.len()`
  | charCount                    -- `s.chars().count()`
  | lit (n : Nat)
deriving Repr, DecidableEq

/-- a condition on the whole string -/
inductive SCond where
  | gt (a b : SNum)
  | ge (a b : SNum)
  | eq (a b : SNum)
  | isEmpty                      -- `s.is_empty()`
  | or (c d : SCond)
  | and (c d : SCond)
  | not (c : SCond)
deriving Repr, DecidableEq

/-- a predicate on one character -/
inductive CPred where
  | isAscii                      -- `c.is_ascii()`
  | isAsciiControl               -- `c.is_ascii_control()`
  | isControl                    -- `c.is_control()` (Unicode Cc: C0, DEL, C1)
  | isAsciiGraphic               -- `c.is_ascii_graphic()`  0x21..=0x7E
  | isAsciiAlphanumeric          -- `c.is_ascii_alphanumeric()`
  | or (p q : CPred)
  | and (p q : CPred)
  | not (p : CPred)
deriving Repr, DecidableEq

/-- what is stored for one accepted character -/
inductive CMap where
  | upperAsU8                    -- `c.to_ascii_uppercase() as u8`
  | asU8                         -- `c as u8`
  | lowerAsU8                    -- `c.to_ascii_lowercase() as u8`
deriving Repr, DecidableEq

structure NewProg where
  tooLong : SCond                -- `if <cond> { return Err(StringTooLong); }`
  arrayLen : Nat                 -- `[0_u8; N]`
  notAllowed : CPred             -- `if <pred> { return Err(CharacterNotAllowed(c)); }`
  store : CMap                   -- `array[i] = <map>;`
  length : SNum                  -- `length: <num> as u8`
  unsupported : Option String    -- set when the source is outside the translated frame
deriving Repr, DecidableEq

def SNum.eval (cs : List Char) : SNum → Nat
  | .byteLen => utf8Len cs
  | .charCount => cs.length
  | .lit n => n

def SCond.eval (cs : List Char) : SCond → Bool
  | .gt a b => decide (a.eval cs > b.eval cs)
  | .ge a b => decide (a.eval cs ≥ b.eval cs)
  | .eq a b => decide (a.eval cs = b.eval cs)
  | .isEmpty => cs.isEmpty
  | .or c d => c.eval cs || d.eval cs
  | .and c d => c.eval cs && d.eval cs
  | .not c => !c.eval cs

def CPred.eval (c : Char) : CPred → Bool
  | .isAscii => decide (c.toNat < 128)
  | .isAsciiControl => decide (c.toNat < 32) || decide (c.toNat = 127)
  | .isControl => decide (c.toNat < 32) || (decide (127 ≤ c.toNat) && decide (c.toNat < 160))
  | .isAsciiGraphic => decide (0x21 ≤ c.toNat) && decide (c.toNat ≤ 0x7E)
  | .isAsciiAlphanumeric => (decide (0x30 ≤ c.toNat) && decide (c.toNat ≤ 0x39)) || (decide (0x41 ≤ c.toNat) && decide (c.toNat ≤ 0x5A)) || (decide (0x61 ≤ c.toNat) && decide (c.toNat ≤ 0x7A))
  | .or p q => p.eval c || q.eval c
  | .and p q => p.eval c && q.eval c
  | .not p => !p.eval c

def CMap.eval (c : Char) : CMap → UInt8
  | .upperAsU8 => if 0x61 ≤ c.toNat ∧ c.toNat ≤ 0x7A then UInt8.ofNat (c.toNat - 32) else UInt8.ofNat c.toNat
  | .asU8 => UInt8.ofNat c.toNat
  | .lowerAsU8 => if 0x41 ≤ c.toNat ∧ c.toNat ≤ 0x5A then UInt8.ofNat (c.toNat + 32) else UInt8.ofNat c.toNat

/-- the `for (i, c) in s.chars().enumerate()` loop -/
def fill (p : NewProg) : List Char → Nat → Bytes → NSOut Bytes
  | [], _, arr => .ok arr
  | c :: cs, i, arr =>
    if p.notAllowed.eval c then .err (.notAllowed c)
    else if i < arr.length then fill p cs (i + 1) (arr.set i (p.store.eval c))
    else .panic "index out of bounds"

/-- the function the translated program denotes -/
def NewProg.run (p : NewProg) (cs : List Char) : NSOut NStr :=
  match p.unsupported with
  | some _ => .panic "source outside the translated subset"
  | none =>
    if p.tooLong.eval cs then .err .tooLong
    else match fill p cs 0 (List.replicate p.arrayLen 0) with
      | .ok arr => .ok ⟨arr, p.length.eval cs % 256⟩
      | .err e => .err e
      | .panic s => .panic s

end WowSrp.MiniStr
