/-
Hash primitives. Theorems are stated for an arbitrary `C : Crypto`; `Crypto.real` is the
executable instance (SHA-1 per FIPS 180-4, HMAC per RFC 2104, MD5 per RFC 1321) that the
driver runs and that kernel-evaluated facts (`decide +kernel`) are about.
The `sha-1`, `hmac` and `md5` crates are dependencies of wow_srp, not code under study;
they are tied to `Crypto.real` by every correspondence run and by published test vectors.
-/
import WowSrp.Model.Basic
namespace WowSrp

structure Crypto where
  sha1 : Bytes → Bytes
  /-- `hmac key msg` = HMAC-SHA1 -/
  hmac : Bytes → Bytes → Bytes
  md5 : Bytes → Bytes

/-- output-length facts, the only thing ever assumed about the primitives -/
structure Crypto.WF (C : Crypto) : Prop where
  sha1_len : ∀ m, (C.sha1 m).length = 20
  hmac_len : ∀ k m, (C.hmac k m).length = 20
  md5_len : ∀ m, (C.md5 m).length = 16

namespace Sha1
def rotl (x : UInt32) (n : UInt32) : UInt32 := (x <<< n) ||| (x >>> (32 - n))

def pad (msg : Bytes) : Bytes :=
  let l := msg.length
  let k := (119 - l % 64) % 64   -- zero bytes so that total ≡ 56 mod 64
  let bits : Nat := l * 8
  msg ++ [(0x80:UInt8)] ++ List.replicate k (0:UInt8) ++
    (List.range 8).map (fun i => UInt8.ofNat (bits >>> (8 * (7 - i))))

def word (b0 b1 b2 b3 : UInt8) : UInt32 :=
  (b0.toUInt32 <<< 24) ||| (b1.toUInt32 <<< 16) ||| (b2.toUInt32 <<< 8) ||| b3.toUInt32

def words : Bytes → List UInt32
  | b0 :: b1 :: b2 :: b3 :: rest => word b0 b1 b2 b3 :: words rest
  | _ => []

def schedule (w16 : Array UInt32) : Array UInt32 := Id.run do
  let mut w := w16
  for i in [16:80] do
    w := w.push (rotl (w[i-3]! ^^^ w[i-8]! ^^^ w[i-14]! ^^^ w[i-16]!) 1)
  return w

structure St where
  a : UInt32
  b : UInt32
  c : UInt32
  d : UInt32
  e : UInt32
deriving DecidableEq

def round (i : Nat) (w : UInt32) (s : St) : St :=
  let (f, k) :=
    if i < 20 then ((s.b &&& s.c) ||| ((~~~ s.b) &&& s.d), (0x5A827999 : UInt32))
    else if i < 40 then (s.b ^^^ s.c ^^^ s.d, 0x6ED9EBA1)
    else if i < 60 then ((s.b &&& s.c) ||| (s.b &&& s.d) ||| (s.c &&& s.d), 0x8F1BBCDC)
    else (s.b ^^^ s.c ^^^ s.d, 0xCA62C1D6)
  let t := rotl s.a 5 + f + s.e + k + w
  ⟨t, s.a, rotl s.b 30, s.c, s.d⟩

def compress (h : St) (block : Bytes) : St :=
  let w := schedule (words block).toArray
  let s := (List.range 80).foldl (fun s i => round i w[i]! s) h
  ⟨h.a + s.a, h.b + s.b, h.c + s.c, h.d + s.d, h.e + s.e⟩

def blocks : Nat → Bytes → List Bytes
  | 0, _ => []
  | n+1, l => if l.isEmpty then [] else l.take 64 :: blocks n (l.drop 64)

def be (x : UInt32) : Bytes :=
  [(x >>> 24).toUInt8, (x >>> 16).toUInt8, (x >>> 8).toUInt8, x.toUInt8]

def sha1 (msg : Bytes) : Bytes :=
  let p := pad msg
  let h := (blocks (p.length / 64 + 1) p).foldl compress
    ⟨0x67452301, 0xEFCDAB89, 0x98BADCFE, 0x10325476, 0xC3D2E1F0⟩
  be h.a ++ be h.b ++ be h.c ++ be h.d ++ be h.e
end Sha1

namespace Md5
def rotl (x : UInt32) (n : UInt32) : UInt32 := (x <<< n) ||| (x >>> (32 - n))

def sTab : Array UInt32 := #[
  7,12,17,22,7,12,17,22,7,12,17,22,7,12,17,22,
  5,9,14,20,5,9,14,20,5,9,14,20,5,9,14,20,
  4,11,16,23,4,11,16,23,4,11,16,23,4,11,16,23,
  6,10,15,21,6,10,15,21,6,10,15,21,6,10,15,21]

def kTab : Array UInt32 := #[
  0xd76aa478, 0xe8c7b756, 0x242070db, 0xc1bdceee, 0xf57c0faf, 0x4787c62a, 0xa8304613, 0xfd469501,
  0x698098d8, 0x8b44f7af, 0xffff5bb1, 0x895cd7be, 0x6b901122, 0xfd987193, 0xa679438e, 0x49b40821,
  0xf61e2562, 0xc040b340, 0x265e5a51, 0xe9b6c7aa, 0xd62f105d, 0x02441453, 0xd8a1e681, 0xe7d3fbc8,
  0x21e1cde6, 0xc33707d6, 0xf4d50d87, 0x455a14ed, 0xa9e3e905, 0xfcefa3f8, 0x676f02d9, 0x8d2a4c8a,
  0xfffa3942, 0x8771f681, 0x6d9d6122, 0xfde5380c, 0xa4beea44, 0x4bdecfa9, 0xf6bb4b60, 0xbebfbc70,
  0x289b7ec6, 0xeaa127fa, 0xd4ef3085, 0x04881d05, 0xd9d4d039, 0xe6db99e5, 0x1fa27cf8, 0xc4ac5665,
  0xf4292244, 0x432aff97, 0xab9423a7, 0xfc93a039, 0x655b59c3, 0x8f0ccc92, 0xffeff47d, 0x85845dd1,
  0x6fa87e4f, 0xfe2ce6e0, 0xa3014314, 0x4e0811a1, 0xf7537e82, 0xbd3af235, 0x2ad7d2bb, 0xeb86d391]

def pad (msg : Bytes) : Bytes :=
  let l := msg.length
  let k := (119 - l % 64) % 64
  let bits : Nat := l * 8
  msg ++ [(0x80:UInt8)] ++ List.replicate k (0:UInt8) ++
    (List.range 8).map (fun i => UInt8.ofNat (bits >>> (8 * i)))

def word (b0 b1 b2 b3 : UInt8) : UInt32 :=
  (b3.toUInt32 <<< 24) ||| (b2.toUInt32 <<< 16) ||| (b1.toUInt32 <<< 8) ||| b0.toUInt32

def words : Bytes → List UInt32
  | b0 :: b1 :: b2 :: b3 :: rest => word b0 b1 b2 b3 :: words rest
  | _ => []

structure St where
  a : UInt32
  b : UInt32
  c : UInt32
  d : UInt32

def round (m : Array UInt32) (s : St) (i : Nat) : St :=
  let (f, g) :=
    if i < 16 then ((s.b &&& s.c) ||| ((~~~ s.b) &&& s.d), i)
    else if i < 32 then ((s.d &&& s.b) ||| ((~~~ s.d) &&& s.c), (5*i + 1) % 16)
    else if i < 48 then (s.b ^^^ s.c ^^^ s.d, (3*i + 5) % 16)
    else (s.c ^^^ (s.b ||| (~~~ s.d)), (7*i) % 16)
  let f2 := f + s.a + kTab[i]! + m[g]!
  ⟨s.d, s.b + rotl f2 sTab[i]!, s.b, s.c⟩

def compress (h : St) (block : Bytes) : St :=
  let m := (words block).toArray
  let s := (List.range 64).foldl (round m) h
  ⟨h.a + s.a, h.b + s.b, h.c + s.c, h.d + s.d⟩

def le (x : UInt32) : Bytes :=
  [x.toUInt8, (x >>> 8).toUInt8, (x >>> 16).toUInt8, (x >>> 24).toUInt8]

def md5 (msg : Bytes) : Bytes :=
  let p := pad msg
  let h := (Sha1.blocks (p.length / 64 + 1) p).foldl compress
    ⟨0x67452301, 0xefcdab89, 0x98badcfe, 0x10325476⟩
  le h.a ++ le h.b ++ le h.c ++ le h.d
end Md5

/-- HMAC (RFC 2104) over a hash with 64-byte blocks -/
def hmacWith (h : Bytes → Bytes) (key msg : Bytes) : Bytes :=
  let k0 := if key.length > 64 then h key else key
  let k := k0 ++ List.replicate (64 - k0.length) 0
  h (k.map (· ^^^ 0x5c) ++ h (k.map (· ^^^ 0x36) ++ msg))

def Crypto.real : Crypto where
  sha1 := Sha1.sha1
  hmac := hmacWith Sha1.sha1
  md5 := Md5.md5

end WowSrp
