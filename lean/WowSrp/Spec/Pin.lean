/-
Spec layer — what the PIN hash *means*, as short as possible:
  layout  = the seed read as a factorial-base (Lehmer) code: select without replacement from 0..9,
  digits  = decimal digits, most significant first,
  hash    = SHA-1(client salt | SHA-1(server salt | ASCII('0' + position of each digit in the layout))),
            none for PINs below 1000.
`Spec.pick` is also the Spec of the matrix-card coordinate selection (C18).
-/
import WowSrp.Model.Crypto
namespace WowSrp.Spec

/-- selection without replacement: `n` times, take element number `seed % (remaining length)` out of the
    remaining list and continue with `seed / (remaining length)` -/
def pick {α : Type} : Nat → List α → Nat → List α
  | 0, _, _ => []
  | n+1, l, seed =>
    if h : l.length = 0 then [] else
      let r := seed % l.length
      have : r < l.length := Nat.mod_lt _ (by omega)
      l[r] :: pick n (l.eraseIdx r) (seed / l.length)

/-- the keypad layout for a grid seed: for i = 10 down to 1 pick index `seed % i` of the remaining
    digits, `seed := seed / i` -/
def lehmer (seed : Nat) : List Nat := pick 10 (List.range 10) seed

/-- decimal digits, least significant first; 0 has no digits -/
def digitsRev (n : Nat) : List Nat :=
  if h : n = 0 then [] else n % 10 :: digitsRev (n / 10)
termination_by n
decreasing_by omega

/-- decimal digits, most significant first; 0 has no digits -/
def digits (n : Nat) : List Nat := (digitsRev n).reverse

/-- value of a digit string, most significant first (used to characterise `digits`) -/
def ofDigits (ds : List Nat) : Nat := ds.foldl (fun a d => 10 * a + d) 0

/-- the PIN hash -/
def pinHash (C : Crypto) (pin seed : Nat) (serverSalt clientSalt : Bytes) : Option Bytes :=
  if pin < 1000 then none else
    some (C.sha1 (clientSalt ++ C.sha1 (serverSalt ++
      (digits pin).map (fun d => UInt8.ofNat (0x30 + (lehmer seed).idxOf d)))))

end WowSrp.Spec
