/-
Spec layer — what a header-crypto *session* does, op by op, in terms of the two textbook ciphers
(`Spec/Header.lean`: the Vanilla/TBC recurrence; `Spec/Rc4.lean`: RC4) and the wire layouts.

A session is two independent cipher streams (one per direction) and nothing else:

* Vanilla/TBC: per direction `(key, n, prev)` — the key, the position in it, the last ciphertext byte;
* Wrath: per direction an RC4 generator state, plus (client only) the four plaintext bytes of a long
  server header whose fifth byte has not been decrypted yet;
* `isSplit` remembers whether the object has been split into halves; it influences nothing but the
  answer to `unsplit`.

The RC4 states are the *Spec's* (`Spec.Rc4`: a list of naturals and two naturals, arithmetic mod 256),
not the model's (`u8` fields, an array, panicking indexing): this file is then readable with the two
textbook definitions alone, and nothing in it can panic. The model's state is tied to it by `Rc4.abs`
(`Lemmas/Rc4Spec.lean`).

From the model only data and wire-format functions are used: the op vocabulary (`HOp`, `HOut`), the
scripted reader / writer (`readExact`, `writeAll`, `dataBytes`), the header plaintext layouts
(`serverHeaderBytes`, `clientHeaderBytes`, `wrathServerHeaderBytes`) and the Wrath marker-bit
functions (`largeHeader`, `clearLargeHeader`).
-/
import WowSrp.Spec.Header
import WowSrp.Spec.Rc4
import WowSrp.Model.Session
namespace WowSrp.Spec

/-! ### the two stream ciphers -/

/-- one direction of a Vanilla/TBC connection -/
structure Stream where
  key : Bytes
  n : Nat          -- stream position, reduced mod the key length
  prev : UInt8     -- last ciphertext byte seen
deriving DecidableEq, Repr

/-- the stream after the ciphertext bytes `cipher` have gone through it (either direction) -/
def Stream.after (s : Stream) (cipher : Bytes) : Stream :=
  { s with n := (s.n + cipher.length) % s.key.length, prev := cipher.getLastD s.prev }

def Stream.encrypt (s : Stream) (plain : Bytes) : Stream × Bytes :=
  let cipher := recEnc s.key s.n s.prev plain
  (s.after cipher, cipher)

def Stream.decrypt (s : Stream) (cipher : Bytes) : Stream × Bytes :=
  (s.after cipher, recDec s.key s.n s.prev cipher)

/-- RC4 in either direction: xor with the next keystream bytes -/
def Rc4.crypt (st : Rc4) (data : Bytes) : Rc4 × Bytes :=
  (Rc4.advance data.length st,
   List.zipWith (fun x k => x ^^^ UInt8.ofNat k) data (Rc4.keystream data.length st))

/-! ### the abstract session -/

inductive Ciphers where
  | vt (e : Exp) (enc dec : Stream)             -- Vanilla / TBC, either role
  | wcli (enc dec : Rc4) (stash : Bytes)        -- Wrath client
  | wsrv (enc dec : Rc4)                        -- Wrath server
deriving DecidableEq, Repr

structure SpecState where
  ciphers : Ciphers
  isSplit : Bool
deriving DecidableEq, Repr

def Ciphers.encrypt : Ciphers → Bytes → Ciphers × Bytes
  | .vt e en de, plain => let (en', c) := en.encrypt plain; (.vt e en' de, c)
  | .wcli en de st, plain => let (en', c) := en.crypt plain; (.wcli en' de st, c)
  | .wsrv en de, plain => let (en', c) := en.crypt plain; (.wsrv en' de, c)

def Ciphers.decrypt : Ciphers → Bytes → Ciphers × Bytes
  | .vt e en de, cipher => let (de', p) := de.decrypt cipher; (.vt e en de', p)
  | .wcli en de st, cipher => let (de', p) := de.crypt cipher; (.wcli en de' st, p)
  | .wsrv en de, cipher => let (de', p) := de.crypt cipher; (.wsrv en de', p)

/-! ### wire format -/

/-- (size, opcode) of a plaintext header: two bytes of size, big endian, then the opcode, little endian
    (2 bytes from a server, 4 from a client) -/
def headerOf (p : Bytes) : Nat × Nat := (ofBE (p.take 2), ofLE (p.drop 2))

/-- Wrath long server header: marker bit in the first byte, three bytes of size, 2 bytes of opcode -/
def isLarge (p : Bytes) : Bool := largeHeader (p.headD 0)
def largeHeaderOf (p : Bytes) : Nat × Nat :=
  (ofBE ((p.take 3).modifyHead clearLargeHeader), ofLE (p.drop 3))

/-- payload bytes a read call took from the reader -/
def consumed (script rest : List REv) : Nat := dataBytes script - dataBytes rest

/-- the plaintext an op pushes through the *encrypt* direction of this kind of object
    (`none`: not an encrypt-side op, or no such method) -/
def Ciphers.plainOf : Ciphers → HOp → Option Bytes
  | _, .enc data => some data
  | .vt .., .encServer size op | .vt .., .writeServer size op _ => some (serverHeaderBytes size op)
  | .wsrv .., .encServer size op | .wsrv .., .writeServer size op _ => some (wrathServerHeaderBytes size op)
  | .vt .., .encClient size op | .vt .., .writeClient size op _ => some (clientHeaderBytes size op)
  | .wcli .., .encClient size op | .wcli .., .writeClient size op _ => some (clientHeaderBytes size op)
  | _, _ => none

/-- what the caller gets to see of the ciphertext: the bytes, or (write ops) the result of `write_all`
    on them and what reached the sink; the cipher has moved on either way -/
def emit : HOp → Bytes → HOut
  | .writeServer _ _ script, cipher | .writeClient _ _ script, cipher =>
    match writeAll script cipher [] with
    | (.ok _, sink) => .writeOk sink
    | (.error k, sink) => .writeErr k sink
  | _, cipher => .bytes cipher

/-- decrypt a fixed-size header -/
def Ciphers.decHeader (c : Ciphers) (wire : Bytes) : Ciphers × HOut :=
  let (c', p) := c.decrypt wire
  (c', .header (headerOf p).1 (headerOf p).2)

/-- `read_exact` of `n` bytes, then decrypt a fixed-size header; a reader failure changes nothing -/
def Ciphers.readHeader (c : Ciphers) (n : Nat) (script : List REv) : Ciphers × HOut :=
  match readExact script n [] with
  | (.error k, rest) => (c, .readErr k (consumed script rest) true)
  | (.ok wire, rest) =>
    let (c', p) := c.decrypt wire
    (c', .readOk (headerOf p).1 (headerOf p).2 (consumed script rest))

/-- Wrath client: four bytes; if the marker bit is set in the first plaintext byte, a fifth. A failure
    at the fifth byte leaves the state after the first four (stream advanced, plaintext stashed). -/
def wrathReadServer (en de : Rc4) (stash : Bytes) (script : List REv) : Ciphers × HOut :=
  match readExact script 4 [] with
  | (.error k, rest) => (.wcli en de stash, .readErr k (consumed script rest) true)
  | (.ok wire, rest) =>
    let (de4, p) := de.crypt wire
    if !isLarge p then (.wcli en de4 stash, .readOk (headerOf p).1 (headerOf p).2 (consumed script rest)) else
    match readExact rest 1 [] with
    | (.error k, rest') => (.wcli en de4 p, .readErr k (consumed script rest') false)
    | (.ok fifth, rest') =>
      let (de5, q) := de4.crypt fifth
      (.wcli en de5 p, .readOk (largeHeaderOf (p ++ q)).1 (largeHeaderOf (p ++ q)).2 (consumed script rest'))

/-- one op on the cipher streams (`none`: this kind of object has no such method) -/
def Ciphers.step (c : Ciphers) (op : HOp) : Option (Ciphers × HOut) :=
  match c.plainOf op with
  | some plain => let (c', cipher) := c.encrypt plain; some (c', emit op cipher)
  | none =>
    match c, op with
    | _, .dec wire => let (c', p) := c.decrypt wire; some (c', .bytes p)
    | .vt .., .decServer wire => some (c.decHeader wire)
    | .vt .., .decClient wire | .wsrv .., .decClient wire => some (c.decHeader wire)
    | .vt .., .readServer script => some (c.readHeader 4 script)
    | .vt .., .readClient script | .wsrv .., .readClient script => some (c.readHeader 6 script)
    | .wcli en de stash, .readServer script => some (wrathReadServer en de stash script)
    | .wcli en de stash, .attempt wire =>
      let (de', p) := de.crypt wire
      some (if isLarge p then (.wcli en de' p, .more)
            else (.wcli en de' stash, .header (headerOf p).1 (headerOf p).2))
    | .wcli en de stash, .large byte =>
      let (de', q) := de.crypt [byte]
      some (.wcli en de' stash, .header (largeHeaderOf (stash ++ q)).1 (largeHeaderOf (stash ++ q)).2)
    | _, _ => none

def Ciphers.isVanilla : Ciphers → Bool
  | .vt .vanilla _ _ => true
  | _ => false

/-- one op on a session -/
def specStep (s : SpecState) (op : HOp) : SpecState × HOut :=
  match op with
  | .split => ({ s with isSplit := true }, .done)
  | .clone => (s, .done)
  | .unsplit =>
    -- Vanilla halves re-join (both directions hold the same key: part of the invariant); no such method elsewhere
    if s.ciphers.isVanilla && s.isSplit then ({ s with isSplit := false }, .done) else (s, .na)
  | op =>
    match s.ciphers.step op with
    | some (c', out) => ({ s with ciphers := c' }, out)
    | none => (s, .na)

def specRun : SpecState → List HOp → SpecState × List HOut
  | s, [] => (s, [])
  | s, op :: ops =>
    let (s', out) := specStep s op
    let (s'', outs) := specRun s' ops
    (s'', out :: outs)

end WowSrp.Spec
