/-
Spec layer — RC4 as in the textbook / RFC 6229 description, on natural numbers with explicit
`mod 256`, independent of the model's `u8` arithmetic and arrays:

  KSA:   S[i] := i (i = 0..255);  j := 0;
         for i = 0..255:  j := (j + S[i] + key[i mod keylength]) mod 256;  swap S[i], S[j]
  PRGA:  i := (i + 1) mod 256;  j := (j + S[i]) mod 256;  swap S[i], S[j];
         output S[(S[i] + S[j]) mod 256]

(`l[k]!` is used for brevity; on a 256-entry table with indices reduced mod 256 and a non-empty key
every access is in range.)
-/
namespace WowSrp.Spec

/-- exchange `S[a]` and `S[b]` -/
def swap (S : List Nat) (a b : Nat) : List Nat := (S.set a S[b]!).set b S[a]!

/-- one iteration of the key-scheduling loop; the state is (table, j) -/
def ksaStep (key : List Nat) (st : List Nat × Nat) (i : Nat) : List Nat × Nat :=
  let j := (st.2 + st.1[i]! + key[i % key.length]!) % 256
  (swap st.1 i j, j)

/-- key-scheduling algorithm: the table after all 256 iterations, from the identity table -/
def ksa (key : List Nat) : List Nat :=
  ((List.range 256).foldl (ksaStep key) (List.range 256, 0)).1

/-- generator state -/
structure Rc4 where
  S : List Nat
  i : Nat
  j : Nat
deriving DecidableEq, Repr

/-- state after keying -/
def Rc4.init (key : List Nat) : Rc4 := ⟨ksa key, 0, 0⟩

/-- one step of the pseudo-random generation algorithm: new state and output byte -/
def Rc4.prga (st : Rc4) : Rc4 × Nat :=
  let i := (st.i + 1) % 256
  let j := (st.j + st.S[i]!) % 256
  let S := swap st.S i j
  (⟨S, i, j⟩, S[(S[i]! + S[j]!) % 256]!)

/-- the next `n` keystream bytes -/
def Rc4.keystream : Nat → Rc4 → List Nat
  | 0, _ => []
  | n+1, st => st.prga.2 :: Rc4.keystream n st.prga.1

/-- the state after `n` keystream bytes -/
def Rc4.advance : Nat → Rc4 → Rc4
  | 0, st => st
  | n+1, st => Rc4.advance n st.prga.1

/-- RC4-drop[d] keystream: discard the first `d` bytes -/
def rc4DropKeystream (key : List Nat) (d n : Nat) : List Nat :=
  Rc4.keystream n (Rc4.advance d (Rc4.init key))

end WowSrp.Spec
