/-
Spec layer — what the Vanilla/TBC header cipher *means*, as short as possible:
  c_n = (x_n xor key[n mod L]) + c_(n-1)  (mod 256),  c_(-1) = 0.
-/
import WowSrp.Model.Basic
namespace WowSrp.Spec

/-- the recurrence, from stream position `n` with previous ciphertext byte `prev` -/
def recEnc (key : Bytes) (n : Nat) (prev : UInt8) : Bytes → Bytes
  | [] => []
  | x :: xs =>
    let c := (x ^^^ key[n % key.length]!) + prev
    c :: recEnc key (n + 1) c xs

/-- its inverse: x_n = (c_n - c_(n-1)) xor key[n mod L] -/
def recDec (key : Bytes) (n : Nat) (prev : UInt8) : Bytes → Bytes
  | [] => []
  | c :: cs => ((c - prev) ^^^ key[n % key.length]!) :: recDec key (n + 1) c cs

/-- ciphertext of a whole stream from the start of a connection -/
def vanillaStream (key : Bytes) (xs : Bytes) : Bytes := recEnc key 0 0 xs

end WowSrp.Spec
