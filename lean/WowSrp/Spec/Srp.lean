/-
Spec layer — the World of Warcraft flavour of SRP6, as mathematics on natural numbers and byte strings.
SHA-1 is a parameter (`C.sha1`); numbers travel as 32-byte little-endian strings (`leN 32`).
Nothing here mentions big-integer libraries, arrays, padding loops or panics.
-/
import WowSrp.Model.Crypto
namespace WowSrp.Spec

/-- the modulus N (one number; primes.rs stores it in both byte orders) -/
def N : Nat := 0x894B645E89E1535BBDAD5B8B290650530801B18EBFBF5E8FAB3C82872A3E9BB7

/-- `x = H(salt | H(U ':' P))`, read little endian -/
def x (C : Crypto) (U P salt : Bytes) : Nat := ofLE (C.sha1 (salt ++ C.sha1 (U ++ [0x3a] ++ P)))

/-- verifier `v = g^x mod N` -/
def v (g x N : Nat) : Nat := g ^ x % N

/-- server public key `B = (k·v + g^b) mod N`, k = 3, g = 7 -/
def B (v b : Nat) : Nat := (3 * v + 7 ^ b % N) % N

/-- client public key `A = g^a mod N'` for the announced group -/
def A (g a N' : Nat) : Nat := g ^ a % N'

/-- scrambling parameter `u = H(A | B)` over the 32-byte little-endian fields, read little endian -/
def u (C : Crypto) (A B : Nat) : Nat := ofLE (C.sha1 (leN 32 A ++ leN 32 B))

/-- server secret `S = (A · v^u)^b mod N` -/
def Sserver (A v u b : Nat) : Nat := (A * (v ^ u % N)) ^ b % N

/-- client secret `S = (B − k·g^x)^(a + u·x) mod N'` over the integers with the non-negative
    (Euclidean) remainder; the base is negative whenever `B < 3·(g^x mod N')` -/
def Sclient (B x a u g N' : Nat) : Nat :=
  ((((B : Int) - 3 * ((g ^ x % N' : Nat) : Int)) ^ (a + u * x)) % (N' : Int)).toNat

/-- number of low-order zero bytes of a little-endian string -/
def zeros (s : Bytes) : Nat := (s.takeWhile (· == 0)).length

/-- remove the low-order zero bytes, and one more byte if an odd number of them was removed -/
def strip (s : Bytes) : Bytes := s.drop (zeros s + zeros s % 2)

/-- split into the bytes at even and at odd positions -/
def halves : Bytes → Bytes × Bytes
  | a :: b :: r => (a :: (halves r).1, b :: (halves r).2)
  | _ => ([], [])

/-- `g₀ h₀ g₁ h₁ …` -/
def zipInterleave (G H : Bytes) : Bytes := (List.zip G H).flatMap (fun p => [p.1, p.2])

/-- SHA_Interleave (RFC 2945 §3.1) of a little-endian secret -/
def interleave (C : Crypto) (s : Bytes) : Bytes :=
  let t := strip s
  zipInterleave (C.sha1 (halves t).1) (C.sha1 (halves t).2)

/-- session key `K = SHA_Interleave(LE32(S))` -/
def K (C : Crypto) (S : Nat) : Bytes := interleave C (leN 32 S)

/-- client proof `M1 = H(H(N) xor H(g) | H(U) | salt | A | B | K)`; `g` is hashed as its single byte -/
def M1 (C : Crypto) (nLE : Bytes) (g : Nat) (U salt A B K : Bytes) : Bytes :=
  C.sha1 (xorBytes (C.sha1 nLE) (C.sha1 (leN 1 g)) ++ C.sha1 U ++ salt ++ A ++ B ++ K)

/-- server proof `M2 = H(A | M1 | K)` -/
def M2 (C : Crypto) (A M1 K : Bytes) : Bytes := C.sha1 (A ++ M1 ++ K)

end WowSrp.Spec
