/-
C15 — every ephemeral secret, salt, challenge and seed is freshly random per use — PARTIAL by nature.

What the model carries: every random draw of the Rust code is an *explicit argument* of the model
function (the correspondence harness injects exactly those bytes through the `rand` shim). The
theorems below show that each observable output is an injective function of exactly the bytes drawn
for that call: identity for salts, challenges and seeds; `ofLE` of all 32 bytes for private keys.
Hence distinct draws give distinct values, every output byte is the corresponding drawn byte, nothing
is cached, truncated or replaced by a constant; card digits are ≤ 9 and each costs whole 4-byte samples.

What no model can exhibit: that `ThreadRng` itself is unpredictable and does not repeat. That is the
trusted `rand` crate; the thorough tier of the checker adds a *statistical* test for it, so labelled.
The convenience generators that merely return drawn bytes (`get_salt_value`, `get_pin_salt`,
`get_pin_grid_seed`, `get_matrix_card_seed`) have no model function: they are the identity on the
draw and are covered only by the correspondence runs.
-/
import WowSrp.Model.Srp
import WowSrp.Model.World
import WowSrp.Model.MatrixCard
import WowSrp.Lemmas.Layout
namespace WowSrp
open WowSrp.Layout

/-! ### salts and challenges: the output is the draw -/

/-- **registration salt**: the verifier stores exactly the drawn salt (and the given username) -/
theorem C15_salt (C : Crypto) (be : Backend) (u p : NStr) (salt : Bytes) (v : SrpVerifier)
    (h : SrpVerifier.fromUsernameAndPassword C be u p salt = .ok v) :
    v.salt = salt ∧ v.username = u := by
  unfold SrpVerifier.fromUsernameAndPassword at h
  cases h1 : calculatePasswordVerifier C be u.asRef p.asRef salt with
  | panic s => rw [h1] at h; cases h
  | ok pv =>
    rw [h1] at h
    simp only [Out.bind_ok, Out.pure_eq] at h
    injection h with h
    subst h
    exact ⟨rfl, rfl⟩

/-- **server reconnect challenge at login**: the session object holds exactly the 16 drawn bytes -/
theorem C15_login_challenge (C : Crypto) (be : Backend) (p : SrpProof) (A M1 chal : Bytes)
    (srv : SrpServer) (M2 : Bytes) (h : p.intoServer C be A M1 chal = .ok (.ok (srv, M2))) :
    srv.reconnectChallengeData = chal := by
  unfold SrpProof.intoServer at h
  cases h1 : calculateSessionKey C be A p.serverPublicKey p.passwordVerifier p.serverPrivateKey with
  | panic s => rw [h1] at h; cases h
  | ok K =>
    rw [h1] at h
    simp only [Out.bind_ok] at h
    split at h
    · cases h
    · simp only [Out.pure_eq] at h
      injection h with h
      injection h with h
      injection h with h h'
      rw [← h]

/-- **refresh after every attempt, on both verdicts**: the challenge afterwards is that attempt's draw -/
theorem C15_reconnect_refresh (C : Crypto) (s : SrpServer) (cd proof draw : Bytes) :
    (s.verifyReconnectionAttempt C cd proof draw).2.reconnectChallengeData = draw ∧
    ((s.verifyReconnectionAttempt C cd proof draw).1 = true ∨
     (s.verifyReconnectionAttempt C cd proof draw).1 = false) := by
  refine ⟨rfl, ?_⟩
  cases (s.verifyReconnectionAttempt C cd proof draw).1 <;> simp

/-- **client reconnect challenge**: what the client sends is exactly its draw, and that draw is what
    its proof covers -/
theorem C15_client_challenge (C : Crypto) (c : SrpClient) (serverChallenge cd : Bytes) :
    (c.calculateReconnectValues C serverChallenge cd).1 = cd ∧
    (c.calculateReconnectValues C serverChallenge cd).2 =
      C.sha1 (c.username.asRef ++ cd ++ serverChallenge ++ c.sessionKey) := ⟨rfl, rfl⟩

/-! ### world-login seeds -/

/-- **seed = the four drawn bytes**: `ProofSeed::new` of a 4-byte draw is a `u32`, its little-endian
    bytes are the draw, and different draws give different seeds -/
theorem C15_seed (d d' : Bytes) (hd : d.length = 4) (hd' : d'.length = 4) :
    ProofSeed.ofDraw d < 2 ^ 32 ∧ leN 4 (ProofSeed.ofDraw d) = d ∧
    (ProofSeed.ofDraw d = ProofSeed.ofDraw d' → d = d') := by
  have ht : d.take 4 = d := by rw [← hd]; exact List.take_length
  have ht' : d'.take 4 = d' := by rw [← hd']; exact List.take_length
  unfold ProofSeed.ofDraw
  rw [ht, ht']
  refine ⟨?_, ?_, fun h => ofLE_inj d d' (hd.trans hd'.symm) h⟩
  · have := ofLE_lt d
    rw [hd] at this
    exact this
  · have := leN_ofLE d
    rwa [hd] at this

/-! ### private keys: all 32 drawn bytes enter -/

/-- `ofLE` is injective on 32-byte draws: no byte of a private key is dropped or masked -/
theorem C15_private_key_value (k k' : Bytes) (hk : k.length = 32) (hk' : k'.length = 32)
    (h : ofLE k = ofLE k') : k = k' := ofLE_inj k k' (hk.trans hk'.symm) h

/-- **server private key**: `into_proof` stores the drawn `b` itself, and the public key it publishes is
    computed from the exponent `ofLE b` — the number all 32 drawn bytes encode -/
theorem C15_server_private_key (be : Backend) (s : SrpVerifier) (b : Bytes) (p : SrpProof)
    (h : s.intoProof be b = .ok p) :
    p.serverPrivateKey = b ∧
    calculateServerPublicKey be s.passwordVerifier b = .ok (.ok p.serverPublicKey) ∧
    calculateServerPublicKey be s.passwordVerifier b =
      (do let t ← be.modpow gBig (ofLE b) nBig
          let B ← remOut (kBig * ofLE s.passwordVerifier + t) nBig
          PublicKey.tryFromBigint be B) := by
  unfold SrpVerifier.intoProof SrpVerifier.withSpecificPrivateKey at h
  cases h1 : calculateServerPublicKey be s.passwordVerifier b with
  | panic site => rw [h1] at h; cases h
  | ok r =>
    rw [h1] at h
    cases r with
    | error e => cases h
    | ok B =>
      simp only [Out.bind_ok, Out.pure_eq] at h
      injection h with h
      subst h
      exact ⟨rfl, rfl, h1.symm.trans rfl⟩

/-- **client private key**: the client's public key is computed from the exponent `ofLE a`, and the
    challenge object stores that public key -/
theorem C15_client_private_key (C : Crypto) (be : Backend) (u pw : NStr) (g : Nat) (nLE B salt a : Bytes)
    (cc : SrpClientChallenge) (h : SrpClientChallenge.new C be u pw g nLE B salt a = .ok cc) :
    calculateClientPublicKey be a g nLE = .ok (.ok cc.clientPublicKey) ∧
    calculateClientPublicKey be a g nLE =
      (do let A ← be.modpow g (ofLE a) (ofLE nLE)
          PublicKey.clientTryFromBigint be A (ofLE nLE)) := by
  refine ⟨?_, rfl⟩
  unfold SrpClientChallenge.new at h
  cases h1 : calculateClientPublicKey be a g nLE with
  | panic s => rw [h1] at h; cases h
  | ok r =>
    rw [h1] at h
    simp only [Out.bind_ok] at h
    cases r with
    | error e => cases h
    | ok A =>
      simp only at h
      cases h2 : calculateClientS be B (calculateX C u.asRef pw.asRef salt) a (calculateU C A B) g nLE with
      | panic s => rw [h2] at h; cases h
      | ok S =>
        rw [h2] at h
        simp only [Out.bind_ok] at h
        cases h3 : calculateInterleaved C S with
        | panic s => rw [h3] at h; cases h
        | ok K =>
          rw [h3] at h
          simp only [Out.bind_ok, Out.pure_eq] at h
          injection h with h
          subst h
          rfl

/-! ### matrix-card digits -/

/-- tie to the source: digits are drawn from `0..=9`, so rand's `range` is 10 and its rejection
    zone `u32::MAX - (2^32 - 10) % 10` -/
theorem C15_uniform_constants :
    Gen.minMatrixCardValue = 0 ∧ Gen.maxMatrixCardValue = 9 ∧ uniformRange = 10 ∧
    uniformZone = 4294967289 := by decide

/-- rand's acceptance test for one `u32` sample `v` -/
def sampleAccepted (v : Nat) : Bool := v * uniformRange % 2 ^ 32 ≤ uniformZone
/-- the digit an accepted sample yields: the high word of the widening multiplication -/
def sampleDigit (v : Nat) : UInt8 := UInt8.ofNat (Gen.minMatrixCardValue + v * uniformRange / 2 ^ 32)

/-- every `u32` sample yields a digit 0..9 -/
theorem sampleDigit_le (v : Nat) (hv : v < 2 ^ 32) : (sampleDigit v).toNat ≤ 9 := by
  unfold sampleDigit
  have h1 : uniformRange = 10 := by decide
  have h2 : Gen.minMatrixCardValue = 0 := by decide
  rw [h1, h2, Nat.zero_add, UInt8.toNat_ofNat']
  have hq : v * 10 / 2 ^ 32 < 10 := by omega
  generalize v * 10 / 2 ^ 32 = q at hq ⊢
  omega

/-- **exact account of `fill_matrix_card_values`**: whenever it returns, the consumed part of the
    stream is a sequence of whole 4-byte samples, the digits are exactly the accepted samples' high
    words in order (one accepted sample per card byte, rejected samples produce nothing), there are
    exactly `n` of them, and the rest of the stream is untouched -/
theorem C15_digits_exact (fuel n : Nat) (rng ds rest : Bytes)
    (h : fillDigits fuel n rng = some (ds, rest)) :
    ∃ samples : List Bytes, (∀ s ∈ samples, s.length = 4) ∧ rng = samples.flatten ++ rest ∧
      ds = ((samples.map ofLE).filter sampleAccepted).map sampleDigit ∧ ds.length = n := by
  induction fuel generalizing n rng ds rest with
  | zero =>
    cases n with
    | zero =>
      simp only [fillDigits, Option.some.injEq, Prod.mk.injEq] at h
      exact ⟨[], by simp, by simp [h.2], by simp [← h.1], by simp [← h.1]⟩
    | succ n => simp [fillDigits] at h
  | succ fuel ih =>
    cases n with
    | zero =>
      simp only [fillDigits, Option.some.injEq, Prod.mk.injEq] at h
      exact ⟨[], by simp, by simp [h.2], by simp [← h.1], by simp [← h.1]⟩
    | succ n =>
      unfold fillDigits at h
      split at h
      · cases h
      · next hlen =>
        have hlen : 4 ≤ rng.length := by omega
        have hsplit : rng = rng.take 4 ++ rng.drop 4 := (List.take_append_drop 4 rng).symm
        have htl : (rng.take 4).length = 4 := by simp [List.length_take]; omega
        simp only at h
        split at h
        · next hacc =>
          cases hr : fillDigits fuel n (rng.drop 4) with
          | none => rw [hr] at h; cases h
          | some r =>
            obtain ⟨ds', rest'⟩ := r
            rw [hr] at h
            simp only [Option.some.injEq, Prod.mk.injEq] at h
            obtain ⟨samples, hs4, hrng, hds, hn⟩ := ih n (rng.drop 4) ds' rest' hr
            refine ⟨rng.take 4 :: samples, ?_, ?_, ?_, ?_⟩
            · intro s hs
              rcases List.mem_cons.1 hs with e | e
              · rw [e]; exact htl
              · exact hs4 s e
            · rw [List.flatten_cons, List.append_assoc, ← h.2, ← hrng]; exact hsplit
            · have ha : sampleAccepted (ofLE (rng.take 4)) = true := by
                simp only [sampleAccepted, decide_eq_true_eq]; exact hacc
              rw [List.map_cons, List.filter_cons_of_pos ha, List.map_cons, ← hds, ← h.1]
              rfl
            · rw [← h.1, List.length_cons, hn]
        · next hrej =>
          obtain ⟨samples, hs4, hrng, hds, hn⟩ := ih (n + 1) (rng.drop 4) ds rest h
          refine ⟨rng.take 4 :: samples, ?_, ?_, ?_, hn⟩
          · intro s hs
            rcases List.mem_cons.1 hs with e | e
            · rw [e]; exact htl
            · exact hs4 s e
          · rw [List.flatten_cons, List.append_assoc, ← hrng]; exact hsplit
          · have ha : ¬ sampleAccepted (ofLE (rng.take 4)) = true := by
              simp only [sampleAccepted, decide_eq_true_eq]; exact hrej
            rw [List.map_cons, List.filter_cons_of_neg ha]
            exact hds

/-- **digits stay within 0..9**, one per requested card byte, and the stream is consumed in whole
    4-byte samples, at least one per digit -/
theorem C15_digits (fuel n : Nat) (rng ds rest : Bytes)
    (h : fillDigits fuel n rng = some (ds, rest)) :
    (∀ d ∈ ds, d.toNat ≤ 9) ∧ ds.length = n ∧
    ∃ k, n ≤ k ∧ rng.length = 4 * k + rest.length ∧ rest = rng.drop (4 * k) := by
  obtain ⟨samples, hs4, hrng, hds, hn⟩ := C15_digits_exact fuel n rng ds rest h
  have hflat : ∀ (l : List Bytes), (∀ s ∈ l, s.length = 4) → l.flatten.length = 4 * l.length := by
    intro l
    induction l with
    | nil => intro _; rfl
    | cons a l ih =>
      intro hl
      rw [List.flatten_cons, List.length_append, hl a (List.mem_cons_self),
        ih (fun s hs => hl s (List.mem_cons_of_mem _ hs)), List.length_cons]
      omega
  refine ⟨?_, hn, samples.length, ?_, ?_, ?_⟩
  · intro d hd
    rw [hds] at hd
    obtain ⟨v, hv, rfl⟩ := List.mem_map.1 hd
    have hv' := (List.mem_filter.1 hv).1
    obtain ⟨s, hs, rfl⟩ := List.mem_map.1 hv'
    apply sampleDigit_le
    have := ofLE_lt s
    rw [hs4 s hs] at this
    exact this
  · rw [← hn, hds, List.length_map]
    calc ((samples.map ofLE).filter sampleAccepted).length ≤ (samples.map ofLE).length :=
          List.length_filter_le _ _
      _ = samples.length := List.length_map _
  · rw [hrng, List.length_append, hflat samples hs4]
  · rw [hrng, ← hflat samples hs4, List.drop_left]

/-! ### non-vacuity -/
section
/-- a stream whose first sample (0x19999999: `lo = 2^32 - 6 > zone`) is rejected and whose next two
    are accepted: two digits (0 and 5), twelve bytes consumed, the rest left alone -/
example : fillDigits 5 2 [0x99, 0x99, 0x99, 0x19, 0, 0, 0, 0, 0, 0, 0, 0x80, 7, 7] = some ([0, 5], [7, 7]) := by
  decide
example : sampleAccepted 0x19999999 = false ∧ sampleAccepted 0xFFFFFFFF = true ∧ sampleDigit 0xFFFFFFFF = 9 ∧
    sampleAccepted 0 = true ∧ sampleDigit 0 = 0 := by
  decide
end

end WowSrp
