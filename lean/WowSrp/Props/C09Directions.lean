/-
C09 — the two Wrath directions for ONE concrete session key under the executable primitives
(`Crypto.real`): TESTS (one input), labelled as such, evaluated by the kernel; kept in a module of
their own because each evaluation costs 15–30 s.

`C09_shared_state_gives_key_collision` (Props/C09.lean) reduces "the two directions share an RC4 state
at some point" to "the two key schedules KSA(HMAC(S, K)) and KSA(HMAC(R, K)) coincide". For the key
below the kernel evaluates both HMACs and both key schedules (the latter on the textbook RC4 of
`Spec/Rc4.lean`, tied to the model by `Rc4.new_abs`) and finds them different; by the reduction the two
directions then differ right after the 1024-byte drop and after every further equal number of bytes.

Evaluating the two post-drop states *directly* in the kernel (2 × 1024 PRGA steps on 256-entry tables)
takes about 8 minutes; that direct comparison is therefore an `#eval` at the end of the file (compiled
evaluation, not a proof), next to the kernel-checked derivation.
-/
import WowSrp.Props.C09
namespace WowSrp

/-- the session key of the test: 40 bytes 3, 10, 17, … (7·i + 3 mod 256) -/
def C09_testK : Bytes := (List.range 40).map fun i => UInt8.ofNat (7 * i + 3)

def C09_testKeyS : Bytes :=
  [181, 224, 80, 33, 181, 103, 25, 220, 179, 177, 124, 173, 86, 12, 78, 128, 158, 47, 45, 0]
def C09_testKeyR : Bytes :=
  [222, 121, 71, 79, 19, 101, 163, 207, 214, 122, 213, 193, 56, 244, 213, 208, 45, 9, 60, 252]

/-- TEST: HMAC-SHA1(S, K) under `Crypto.real` -/
theorem C09_test_hmacS : Crypto.real.hmac Gen.wrathS C09_testK = C09_testKeyS := by decide +kernel
/-- TEST: HMAC-SHA1(R, K) under `Crypto.real` -/
theorem C09_test_hmacR : Crypto.real.hmac Gen.wrathR C09_testK = C09_testKeyR := by decide +kernel

/-- TEST: the two textbook key schedules differ -/
theorem C09_test_ksa_differ :
    Spec.Rc4.init (C09_testKeyS.map UInt8.toNat) ≠ Spec.Rc4.init (C09_testKeyR.map UInt8.toNat) := by
  decide +kernel

/-- hence no key collision for this session key: the model's `Rc4::new` on the two derived keys gives
    different states -/
theorem C09_test_no_key_collision :
    Rc4.new (Crypto.real.hmac Gen.wrathS C09_testK) ≠ Rc4.new (Crypto.real.hmac Gen.wrathR C09_testK) := by
  rw [C09_test_hmacS, C09_test_hmacR]
  obtain ⟨rS, hS, _, aS⟩ := Rc4.new_abs C09_testKeyS (by decide)
  obtain ⟨rR, hR, _, aR⟩ := Rc4.new_abs C09_testKeyR (by decide)
  rw [hS, hR]
  intro h
  have e : rS = rR := Out.ok.inj h
  apply C09_test_ksa_differ
  rw [← aS, ← aR, e]

/-- **TEST (one concrete K, `Crypto.real`): the two directions are in different RC4 states right after
    the 1024-byte drop, and after every further `n` bytes** — kernel-checked: two HMACs and two key
    schedules by evaluation, the 1024 + n PRGA steps by `C09_no_key_collision_gives_disjoint_states`
    (injectivity of the PRGA step), not by evaluation -/
theorem C09_test_directions_differ :
    ∃ c2s s2c, InnerCrypto.new Crypto.real C09_testK Gen.wrathS = .ok c2s ∧
      InnerCrypto.new Crypto.real C09_testK Gen.wrathR = .ok s2c ∧ c2s ≠ s2c ∧
      ∀ n, Rc4.advance n c2s ≠ Rc4.advance n s2c := by
  obtain ⟨c2s, s2c, h₁, h₂, hd⟩ :=
    C09_no_key_collision_gives_disjoint_states Crypto.real C09_testK C09_test_no_key_collision
  obtain ⟨_, r₁, _, _, _, _, n₁, i₁, _⟩ := C09_key_derivation Crypto.real C09_testK Gen.wrathS
  obtain ⟨_, r₂, _, _, _, _, n₂, i₂, _⟩ := C09_key_derivation Crypto.real C09_testK Gen.wrathR
  have inv₁ : c2s.Inv := by rw [h₁] at n₁; rw [Out.ok.inj n₁]; exact i₁
  have inv₂ : s2c.Inv := by rw [h₂] at n₂; rw [Out.ok.inj n₂]; exact i₂
  have key : ∀ n, Rc4.advance n c2s ≠ Rc4.advance n s2c := by
    intro n
    obtain ⟨r₁, r₂, o₁, o₂, a₁, a₂, hne⟩ :=
      hd (List.replicate n 0) (List.replicate n 0) rfl
    rw [Rc4.apply_zeros c2s inv₁ n] at a₁
    rw [Rc4.apply_zeros s2c inv₂ n] at a₂
    have e₁ := (Prod.mk.inj (Out.ok.inj a₁)).1
    have e₂ := (Prod.mk.inj (Out.ok.inj a₂)).1
    rw [e₁, e₂]
    exact hne
  exact ⟨c2s, s2c, h₁, h₂, key 0, key⟩

/- TEST by compiled evaluation (not a proof; the kernel needs ~8 min for the same comparison): the two
   post-drop states computed directly by the model, and their first 8 keystream bytes.
   Expected output: `false`, then two different byte lists. -/
#eval (InnerCrypto.new Crypto.real C09_testK Gen.wrathS) == (InnerCrypto.new Crypto.real C09_testK Gen.wrathR)
#eval (do let r ← InnerCrypto.new Crypto.real C09_testK Gen.wrathS; let (_, ks) ← r.apply (List.replicate 8 0); pure ks : Out Bytes)
#eval (do let r ← InnerCrypto.new Crypto.real C09_testK Gen.wrathR; let (_, ks) ← r.apply (List.replicate 8 0); pure ks : Out Bytes)

end WowSrp

#print axioms WowSrp.C09_test_no_key_collision
#print axioms WowSrp.C09_test_directions_differ
