/-
C11 — All header entry points agree; failed reads leave the cipher untouched.
Property theorems only; helper lemmas live in Lemmas/Io.lean (the std::io model) and
Lemmas/HeaderIo.lean.

Reading guide
* a reader is a script of `read()` results (`REv`), a writer a script of `write()` results (`WEv`);
  `readExact` / `writeAll` are std's loops over them (Model/Deps.lean), characterised completely by
  `readExact_ok_spec`, `readExact_fail_spec`, `writeAll_spec` (Lemmas/Io.lean);
* `pre` always denotes a *benign* prefix of a reader script: non-empty chunks of any sizes
  interleaved with any number of `Interrupted` results; `dataOf pre` are the bytes it carries;
* `ev.failKind = some k` says `ev` is a `read()` result that makes `read_exact` give up with kind `k`
  (`.err k` — any of the injected `io::ErrorKind`s —, `.eof`, an empty `.data`; both of the latter
  give `UnexpectedEof`).
-/
import WowSrp.Lemmas.HeaderIo
import WowSrp.Lemmas.MapOk
namespace WowSrp

/-- tie to the source: the header lengths the wrappers read (regenerated on every run) -/
theorem C11_constants :
    Gen.vanillaServerHeaderLength = 4 ∧ Gen.vanillaClientHeaderLength = 6 ∧
    Gen.wrathClientHeaderLength = 6 ∧ Gen.wrathServerHeaderMinLength = 4 ∧
    Gen.wrathServerHeaderMaxLength = 5 := by decide

/-! ## failed reads leave the decrypter exactly as it was -/

/-- **Vanilla/TBC `read_and_decrypt_server_header`**: whenever `read_exact` fails — whatever the
    reason, wherever in the 4 bytes — the wrapper returns that very error and the *same* half `h` -/
theorem C11_failed_read_server (e : Exp) (h : Half) (script rest : List REv) (k : IoKind)
    (hr : readExact script 4 [] = (.error k, rest)) :
    h.readServerHeader e script = .ok ⟨h, .error k, rest⟩ := by
  have h4 : Gen.vanillaServerHeaderLength = 4 := rfl
  simp only [Half.readServerHeader, h4, hr]

/-- **Vanilla/TBC `read_and_decrypt_client_header`** (6 bytes), likewise -/
theorem C11_failed_read_client (e : Exp) (h : Half) (script rest : List REv) (k : IoKind)
    (hr : readExact script 6 [] = (.error k, rest)) :
    h.readClientHeader e script = .ok ⟨h, .error k, rest⟩ := by
  have h6 : Gen.vanillaClientHeaderLength = 6 := rfl
  simp only [Half.readClientHeader, h6, hr]

/-- **Wrath `ServerDecrypterHalf::read_and_decrypt_client_header`** (6 bytes), likewise -/
theorem C11_failed_read_wrath_server (r : Rc4) (script rest : List REv) (k : IoKind)
    (hr : readExact script 6 [] = (.error k, rest)) :
    wServerReadHeader r script = .ok ⟨r, .error k, rest⟩ := by
  have h6 : Gen.wrathClientHeaderLength = 6 := rfl
  simp only [wServerReadHeader, h6, hr]

/-- **Wrath `ClientDecrypterHalf::read_and_decrypt_server_header`**, failure within the first 4
    bytes: the same half comes back (RC4 state and the saved 4-byte header both untouched) -/
theorem C11_failed_read_wrath_client (h : WClientDec) (script rest : List REv) (k : IoKind)
    (hr : readExact script 4 [] = (.error k, rest)) :
    h.readServerHeader script = .ok ⟨h, .error k, rest⟩ := by
  simp only [WClientDec.readServerHeader, hr]

/-- **a failure injected at every byte offset of every fixed-length header kind, for every error
    kind**: the reader delivers `(dataOf pre).length < n` bytes (offset 0 … n-1, fragmented and
    interrupted at will) and then fails with `ev`; every wrapper reports that event's kind, leaves the
    cipher state untouched, and has consumed the script exactly up to the failing event -/
theorem C11_failed_read_at_offset (pre tail : List REv) (ev : REv) (k : IoKind)
    (hb : ∀ x ∈ pre, x.benign = true) (hk : ev.failKind = some k) :
    (∀ (e : Exp) (h : Half), (dataOf pre).length < 4 →
        h.readServerHeader e (pre ++ ev :: tail) = .ok ⟨h, .error k, tail⟩) ∧
    (∀ (e : Exp) (h : Half), (dataOf pre).length < 6 →
        h.readClientHeader e (pre ++ ev :: tail) = .ok ⟨h, .error k, tail⟩) ∧
    (∀ (r : Rc4), (dataOf pre).length < 6 →
        wServerReadHeader r (pre ++ ev :: tail) = .ok ⟨r, .error k, tail⟩) ∧
    (∀ (h : WClientDec), (dataOf pre).length < 4 →
        h.readServerHeader (pre ++ ev :: tail) = .ok ⟨h, .error k, tail⟩) :=
  ⟨fun e h hn => C11_failed_read_server e h _ _ k (readExact_fail_stop pre tail ev 4 k [] hb hn hk),
   fun e h hn => C11_failed_read_client e h _ _ k (readExact_fail_stop pre tail ev 6 k [] hb hn hk),
   fun r hn => C11_failed_read_wrath_server r _ _ k (readExact_fail_stop pre tail ev 6 k [] hb hn hk),
   fun h hn => C11_failed_read_wrath_client h _ _ k (readExact_fail_stop pre tail ev 4 k [] hb hn hk)⟩

/-- the reader simply has nothing more to give before the header is complete: `UnexpectedEof`,
    state untouched -/
theorem C11_failed_read_short (pre : List REv) (hb : ∀ x ∈ pre, x.benign = true) :
    (∀ (e : Exp) (h : Half), (dataOf pre).length < 4 →
        h.readServerHeader e pre = .ok ⟨h, .error kindUnexpectedEof, []⟩) ∧
    (∀ (e : Exp) (h : Half), (dataOf pre).length < 6 →
        h.readClientHeader e pre = .ok ⟨h, .error kindUnexpectedEof, []⟩) ∧
    (∀ (r : Rc4), (dataOf pre).length < 6 →
        wServerReadHeader r pre = .ok ⟨r, .error kindUnexpectedEof, []⟩) ∧
    (∀ (h : WClientDec), (dataOf pre).length < 4 →
        h.readServerHeader pre = .ok ⟨h, .error kindUnexpectedEof, []⟩) :=
  ⟨fun e h hn => C11_failed_read_server e h _ _ _ (readExact_fail_end pre 4 [] hb hn),
   fun e h hn => C11_failed_read_client e h _ _ _ (readExact_fail_end pre 6 [] hb hn),
   fun r hn => C11_failed_read_wrath_server r _ _ _ (readExact_fail_end pre 6 [] hb hn),
   fun h hn => C11_failed_read_wrath_client h _ _ _ (readExact_fail_end pre 4 [] hb hn)⟩

/-- non-vacuity: two bytes in two fragments with an interruption in between, then error kind 7 -/
example (e : Exp) (h : Half) :
    h.readServerHeader e [.data [1], .interrupted, .data [2], .err 7, .data [3, 4]]
      = .ok ⟨h, .error 7, [.data [3, 4]]⟩ :=
  (C11_failed_read_at_offset [.data [1], .interrupted, .data [2]] [.data [3, 4]] (.err 7) 7
    (by decide) rfl).1 e h (by decide)

/-! ## the Wrath 5-byte header that fails at the fifth byte -/

/-- **failure at the fifth byte**: the first 4 bytes arrived and decrypted to a large-header marker,
    then the read of the 5th byte fails. The wrapper reports that error and the decrypter is exactly
    as after `attempt_decrypt_server_header(first 4 bytes)` (4 keystream bytes consumed, the 4
    plaintext bytes saved). The state is *not* the one before the call. -/
theorem C11_wrath_fifth_byte (h h' : WClientDec) (script rest rest' : List REv) (buf4 : Bytes) (k : IoKind)
    (h4 : readExact script 4 [] = (.ok buf4, rest))
    (ha : h.attempt buf4 = .ok (h', .additionalByteRequired))
    (h5 : readExact rest 1 [] = (.error k, rest')) :
    h.readServerHeader script = .ok ⟨h', .error k, rest'⟩ := by
  simp only [WClientDec.readServerHeader, h4, ha, Out.bind_ok, h5, Out.pure_eq]

/-- the same at script level: exactly 4 bytes (any fragmentation) and then a failing event -/
theorem C11_wrath_fifth_byte_at_offset (h h' : WClientDec) (pre tail : List REv) (ev : REv) (k : IoKind)
    (hb : ∀ x ∈ pre, x.benign = true) (h4 : (dataOf pre).length = 4) (hk : ev.failKind = some k)
    (ha : h.attempt (dataOf pre) = .ok (h', .additionalByteRequired)) :
    h.readServerHeader (pre ++ ev :: tail) = .ok ⟨h', .error k, tail⟩ := by
  obtain ⟨rest, hr, hs, hstop, hafter⟩ := readExact_benign_ok pre (ev :: tail) 4 hb (by omega)
  have hd : (dataOf pre).take 4 = dataOf pre := List.take_of_length_le (by omega)
  have hdrop : (dataOf pre).drop 4 = [] := List.drop_of_length_le (by omega)
  rw [hd] at hr
  have hfail : readExact (ev :: tail) 1 [] = (.error k, tail) := by
    simpa using readExact_fail_stop [] tail ev 1 k [] (by simp) (by simp [dataOf]) hk
  have hs0 : (streamOf (ev :: tail)).length < 1 := by
    by_cases hlt : (streamOf (ev :: tail)).length < 1
    · exact hlt
    · have := (readExact_ok_spec (ev :: tail) 1 [] (by omega)).1
      rw [hfail] at this; simp at this
  have hsp := readExact_fail_spec (ev :: tail) 1 [] hs0
  rw [hfail] at hsp
  simp only [Prod.mk.injEq, Except.error.injEq] at hsp
  have h5 : readExact rest 1 [] = (.error k, tail) := by
    rw [readExact_fail_spec rest 1 [] (by rw [hs, hdrop]; simpa using hs0), hstop, hafter,
        ← hsp.1, ← hsp.2]
  exact C11_wrath_fifth_byte h h' _ rest tail _ k hr ha h5

/-- **supplying the byte later completes the header**: after the failed call the caller holds the
    state `h'`; `h'.decrypt_large_server_header(b)` then yields exactly the header *and* the final
    state that an undisturbed read of the same five bytes would have produced from the original
    state `h` (for every clean reader delivering those five bytes) -/
theorem C11_wrath_fifth_byte_resume (h h' : WClientDec) (failing rest rest' : List REv) (buf4 : Bytes)
    (k : IoKind)
    (h4 : readExact failing 4 [] = (.ok buf4, rest))
    (ha : h.attempt buf4 = .ok (h', .additionalByteRequired))
    (h5 : readExact rest 1 [] = (.error k, rest')) :
    h.readServerHeader failing = .ok ⟨h', .error k, rest'⟩ ∧
    ∀ (clean r₄ r₅ : List REv) (b : UInt8),
      readExact clean 4 [] = (.ok buf4, r₄) → readExact r₄ 1 [] = (.ok [b], r₅) →
      h.readServerHeader clean =
        match h'.decryptLarge b with
        | .panic p => .panic p
        | .ok (h'', hdr) => .ok ⟨h'', .ok hdr, r₅⟩ := by
  refine ⟨C11_wrath_fifth_byte h h' failing rest rest' buf4 k h4 ha h5, ?_⟩
  intro clean r₄ r₅ b c4 c5
  simp only [WClientDec.readServerHeader, c4, ha, Out.bind_ok, c5, List.headD_cons]
  cases h'.decryptLarge b with
  | panic p => rfl
  | ok r => rfl

/-- non-vacuity: an RC4 state (the identity permutation) whose first keystream byte is 2, so that the
    bytes `82 01 02 03` decrypt to a large-header marker; the reader fails (kind 5) at the fifth byte -/
example :
    let h : WClientDec := ⟨⟨(Array.range 256).map UInt8.ofNat, 0, 0⟩, [0, 0, 0, 0]⟩
    ∃ h', h.attempt [0x82, 1, 2, 3] = .ok (h', .additionalByteRequired) ∧ h'.header = [0x80, 4, 5, 14] ∧
      h.readServerHeader ([.data [0x82, 1], .interrupted, .data [2, 3]] ++ .err 5 :: [])
        = .ok ⟨h', .error 5, []⟩ := by
  intro h
  have hk : (h.attempt [0x82, 1, 2, 3]).mapOk (fun r => (r.1.header, r.2))
      = .ok ([0x80, 4, 5, 14], .additionalByteRequired) := by decide +kernel
  cases ha : h.attempt [0x82, 1, 2, 3] with
  | panic p => rw [ha] at hk; simp [Out.mapOk] at hk
  | ok r =>
    obtain ⟨h', a⟩ := r
    rw [ha] at hk
    simp only [Out.mapOk, Out.ok.injEq, Prod.mk.injEq] at hk
    obtain ⟨h1, h2⟩ := hk
    subst h2
    exact ⟨h', rfl, h1, C11_wrath_fifth_byte_at_offset h h' _ [] (.err 5) 5 (by decide) rfl rfl ha⟩

/-! ## a failing writer's error is reported, never swallowed -/

/-- **every write wrapper is: typed helper, then `write_all`, result passed through unchanged.**
    The `io::Result` returned is literally `write_all`'s, the bytes that reached the writer are
    literally what `write_all` wrote, and the cipher has advanced by one header in either case
    (the header was encrypted into a local buffer before the write). -/
theorem C11_write_wrappers (script : List WEv) (size opcode : Nat) :
    (∀ (e : Exp) (h : Half), h.writeServerHeader e size opcode script =
        match h.encryptServerHeader e size opcode with
        | .panic p => .panic p
        | .ok (h', hdr) => .ok ⟨h', (writeAll script hdr []).1, (writeAll script hdr []).2⟩) ∧
    (∀ (e : Exp) (h : Half), h.writeClientHeader e size opcode script =
        match h.encryptClientHeader e size opcode with
        | .panic p => .panic p
        | .ok (h', hdr) => .ok ⟨h', (writeAll script hdr []).1, (writeAll script hdr []).2⟩) ∧
    (∀ (h : WServerEnc), h.writeServerHeader size opcode script =
        match h.encryptServerHeader size opcode with
        | .panic p => .panic p
        | .ok (h', hdr) => .ok ⟨h', (writeAll script hdr []).1, (writeAll script hdr []).2⟩) ∧
    (∀ (r : Rc4), wClientWriteHeader r size opcode script =
        match wClientEncryptHeader r size opcode with
        | .panic p => .panic p
        | .ok (r', hdr) => .ok ⟨r', (writeAll script hdr []).1, (writeAll script hdr []).2⟩) := by
  refine ⟨fun e h => ?_, fun e h => ?_, fun h => ?_, fun r => ?_⟩
  · unfold Half.writeServerHeader
    cases h.encryptServerHeader e size opcode with
    | panic p => rfl
    | ok r => rfl
  · unfold Half.writeClientHeader
    cases h.encryptClientHeader e size opcode with
    | panic p => rfl
    | ok r => rfl
  · unfold WServerEnc.writeServerHeader
    cases h.encryptServerHeader size opcode with
    | panic p => rfl
    | ok r => rfl
  · unfold wClientWriteHeader
    cases wClientEncryptHeader r size opcode with
    | panic p => rfl
    | ok r => rfl

/-- what any of the four wrappers does with the header `hdr` its typed helper produced -/
def wroteHeader {σ : Type} (st : σ) (script : List WEv) (hdr : Bytes) : Out (IoRes σ Unit Bytes) :=
  .ok ⟨st, (writeAll script hdr []).1, (writeAll script hdr []).2⟩

/-- **error propagation**: if `write_all` on the encrypted header fails with kind `k` — the writer's
    own error kind, or `WriteZero` when it returned `Ok(0)` — each wrapper returns `Err(k)`;
    strictly fewer than all header bytes, and only a prefix of the header, reached the writer -/
theorem C11_write_error_propagates {σ : Type} (st : σ) (script : List WEv) (hdr : Bytes) (k : IoKind)
    (hw : (writeAll script hdr []).1 = .error k) :
    ∃ m, m < hdr.length ∧ wroteHeader st script hdr = .ok ⟨st, .error k, hdr.take m⟩ := by
  obtain ⟨m, hm, hs⟩ := writeAll_error_sink script hdr [] k hw
  exact ⟨m, hm, by simp [wroteHeader, hw, hs]⟩

/-- **success**: on `Ok(())` the bytes that reached the writer are exactly the bytes the typed helper
    returns -/
theorem C11_write_ok {σ : Type} (st : σ) (script : List WEv) (hdr : Bytes)
    (hw : (writeAll script hdr []).1 = .ok ()) :
    wroteHeader st script hdr = .ok ⟨st, .ok (), hdr⟩ := by
  have hs := writeAll_ok_sink script hdr [] hw
  simp [wroteHeader, hw, hs]

/-- **a failure injected at every byte offset, for every error kind**: the writer accepts
    `accepted pre < hdr.length` bytes (in portions of any sizes ≥ 1, interrupted at will) and then
    fails with kind `k`, or returns `Ok(0)`: the wrapper's result is `Err(k)` resp. `Err(WriteZero)`
    and the writer holds exactly the first `accepted pre` header bytes -/
theorem C11_write_error_at_offset {σ : Type} (st : σ) (pre tail : List WEv) (hdr : Bytes) (k : IoKind)
    (hb : ∀ x ∈ pre, x.benign = true) (hlen : accepted pre < hdr.length) :
    wroteHeader st (pre ++ .err k :: tail) hdr = .ok ⟨st, .error k, hdr.take (accepted pre)⟩ ∧
    wroteHeader st (pre ++ .accept 0 :: tail) hdr
      = .ok ⟨st, .error kindWriteZero, hdr.take (accepted pre)⟩ := by
  simp [wroteHeader, writeAll_err pre tail hdr [] k hb hlen, writeAll_zero pre tail hdr [] hb hlen]

/-- a writer that takes everything, however slowly, gets everything -/
theorem C11_write_ok_fragmented {σ : Type} (st : σ) (pre tail : List WEv) (hdr : Bytes)
    (hb : ∀ x ∈ pre, x.benign = true) (hlen : tail = [] ∨ hdr.length ≤ accepted pre) :
    wroteHeader st (pre ++ tail) hdr = .ok ⟨st, .ok (), hdr⟩ := by
  simp [wroteHeader, writeAll_ok pre tail hdr [] hb hlen]

/-- the wrappers in terms of `wroteHeader` (so the four theorems above apply to each of them) -/
theorem C11_write_wrappers_wrote (script : List WEv) (size opcode : Nat) :
    (∀ (e : Exp) (h h' : Half) (hdr : Bytes), h.encryptServerHeader e size opcode = .ok (h', hdr) →
        h.writeServerHeader e size opcode script = wroteHeader h' script hdr) ∧
    (∀ (e : Exp) (h h' : Half) (hdr : Bytes), h.encryptClientHeader e size opcode = .ok (h', hdr) →
        h.writeClientHeader e size opcode script = wroteHeader h' script hdr) ∧
    (∀ (h h' : WServerEnc) (hdr : Bytes), h.encryptServerHeader size opcode = .ok (h', hdr) →
        h.writeServerHeader size opcode script = wroteHeader h' script hdr) ∧
    (∀ (r r' : Rc4) (hdr : Bytes), wClientEncryptHeader r size opcode = .ok (r', hdr) →
        wClientWriteHeader r size opcode script = wroteHeader r' script hdr) := by
  obtain ⟨a, b, c, d⟩ := C11_write_wrappers script size opcode
  exact ⟨fun e h h' hdr hh => by rw [a, hh]; rfl, fun e h h' hdr hh => by rw [b, hh]; rfl,
         fun h h' hdr hh => by rw [c, hh]; rfl, fun r r' hdr hh => by rw [d, hh]; rfl⟩

/-- **never swallowed**, read off the wrapper's own return value `r`: its `io::Result` *is*
    `write_all`'s result on the header the typed helper produced, so a wrapper that returns `Ok(())`
    has handed every header byte to the writer, and a `write_all` error `k` comes back as `Err(k)` -/
theorem C11_write_never_swallowed (script : List WEv) (size opcode : Nat) :
    (∀ (e : Exp) (h : Half) r, h.writeServerHeader e size opcode script = .ok r →
      ∃ hdr, h.encryptServerHeader e size opcode = .ok (r.state, hdr) ∧
        r.result = (writeAll script hdr []).1 ∧ r.rest = (writeAll script hdr []).2 ∧
        (r.result = .ok () → r.rest = hdr)) ∧
    (∀ (e : Exp) (h : Half) r, h.writeClientHeader e size opcode script = .ok r →
      ∃ hdr, h.encryptClientHeader e size opcode = .ok (r.state, hdr) ∧
        r.result = (writeAll script hdr []).1 ∧ r.rest = (writeAll script hdr []).2 ∧
        (r.result = .ok () → r.rest = hdr)) ∧
    (∀ (h : WServerEnc) r, h.writeServerHeader size opcode script = .ok r →
      ∃ hdr, h.encryptServerHeader size opcode = .ok (r.state, hdr) ∧
        r.result = (writeAll script hdr []).1 ∧ r.rest = (writeAll script hdr []).2 ∧
        (r.result = .ok () → r.rest = hdr)) ∧
    (∀ (rc : Rc4) r, wClientWriteHeader rc size opcode script = .ok r →
      ∃ hdr, wClientEncryptHeader rc size opcode = .ok (r.state, hdr) ∧
        r.result = (writeAll script hdr []).1 ∧ r.rest = (writeAll script hdr []).2 ∧
        (r.result = .ok () → r.rest = hdr)) := by
  obtain ⟨a, b, c, d⟩ := C11_write_wrappers script size opcode
  refine ⟨fun e h r hr => ?_, fun e h r hr => ?_, fun h r hr => ?_, fun rc r hr => ?_⟩
  · rw [a] at hr
    cases hh : h.encryptServerHeader e size opcode with
    | panic p => rw [hh] at hr; simp at hr
    | ok x =>
      obtain ⟨h', hdr⟩ := x
      rw [hh] at hr
      simp only [Out.ok.injEq] at hr
      subst hr
      exact ⟨hdr, rfl, rfl, rfl, fun hok => by simpa using writeAll_ok_sink script hdr [] hok⟩
  · rw [b] at hr
    cases hh : h.encryptClientHeader e size opcode with
    | panic p => rw [hh] at hr; simp at hr
    | ok x =>
      obtain ⟨h', hdr⟩ := x
      rw [hh] at hr
      simp only [Out.ok.injEq] at hr
      subst hr
      exact ⟨hdr, rfl, rfl, rfl, fun hok => by simpa using writeAll_ok_sink script hdr [] hok⟩
  · rw [c] at hr
    cases hh : h.encryptServerHeader size opcode with
    | panic p => rw [hh] at hr; simp at hr
    | ok x =>
      obtain ⟨h', hdr⟩ := x
      rw [hh] at hr
      simp only [Out.ok.injEq] at hr
      subst hr
      exact ⟨hdr, rfl, rfl, rfl, fun hok => by simpa using writeAll_ok_sink script hdr [] hok⟩
  · rw [d] at hr
    cases hh : wClientEncryptHeader rc size opcode with
    | panic p => rw [hh] at hr; simp at hr
    | ok x =>
      obtain ⟨h', hdr⟩ := x
      rw [hh] at hr
      simp only [Out.ok.injEq] at hr
      subst hr
      exact ⟨hdr, rfl, rfl, rfl, fun hok => by simpa using writeAll_ok_sink script hdr [] hok⟩

/-- the helpers return 4 resp. 6 bytes, so "every byte offset" above means 0 … 3 resp. 0 … 5
    (Wrath server headers: 4 or 5, see C10) -/
theorem C11_header_lengths (e : Exp) (h h' : Half) (size opcode : Nat) (hdr : Bytes) :
    (h.encryptServerHeader e size opcode = .ok (h', hdr) → hdr.length = 4) ∧
    (h.encryptClientHeader e size opcode = .ok (h', hdr) → hdr.length = 6) :=
  ⟨fun hh => runSteps_length _ _ _ _ _ hh, fun hh => runSteps_length _ _ _ _ _ hh⟩

/-- a panic of the typed helper (impossible for well-formed halves, C07/C08) is a panic of the wrapper:
    nothing is written -/
theorem C11_write_panic (e : Exp) (h : Half) (size opcode : Nat) (script : List WEv) (p : String)
    (hp : h.encryptServerHeader e size opcode = .panic p) :
    h.writeServerHeader e size opcode script = .panic p := by
  rw [(C11_write_wrappers script size opcode).1, hp]

/-- non-vacuity: a Vanilla server header written to a writer that takes 1 byte, is interrupted,
    takes 2 more and then fails with kind 9: three ciphertext bytes are out, the error is reported,
    the cipher has advanced by the whole header -/
example :
    let K := (List.range 40).map UInt8.ofNat
    (Half.newEnc Crypto.real .vanilla K).writeServerHeader .vanilla 0x1234 0x01ee
        [.accept 1, .interrupted, .accept 2, .err 9, .accept 5]
      = .ok ⟨⟨K, 4, 0x35⟩, .error 9, [0x12, 0x47, 0x33]⟩ := by
  intro K
  have henc : (Half.newEnc Crypto.real .vanilla K).encryptServerHeader .vanilla 0x1234 0x01ee
      = .ok (⟨K, 4, 0x35⟩, [0x12, 0x47, 0x33, 0x35]) := by decide
  rw [(C11_write_wrappers_wrote _ _ _).1 _ _ _ _ henc]
  exact (C11_write_error_at_offset _ [.accept 1, .interrupted, .accept 2] [.accept 5] _ 9
    (by decide) (by decide)).1

/-! ## successful reads: wrapper = `read_exact`, then the typed helper; fragmentation is irrelevant -/

/-- **Vanilla/TBC server header**: if `read_exact` delivers the 4 bytes `buf`, the wrapper's header and
    final state are those of `decrypt_server_header(buf)` -/
theorem C11_read_ok_server (e : Exp) (h : Half) (script rest : List REv) (buf : Bytes)
    (hr : readExact script 4 [] = (.ok buf, rest)) :
    h.readServerHeader e script =
      match h.decryptServerHeader e buf with
      | .panic p => .panic p
      | .ok (h', hdr) => .ok ⟨h', .ok hdr, rest⟩ := by
  have h4 : Gen.vanillaServerHeaderLength = 4 := rfl
  simp only [Half.readServerHeader, h4, hr]
  cases h.decryptServerHeader e buf with
  | panic p => rfl
  | ok r => rfl

/-- **Vanilla/TBC client header** (6 bytes) -/
theorem C11_read_ok_client (e : Exp) (h : Half) (script rest : List REv) (buf : Bytes)
    (hr : readExact script 6 [] = (.ok buf, rest)) :
    h.readClientHeader e script =
      match h.decryptClientHeader e buf with
      | .panic p => .panic p
      | .ok (h', hdr) => .ok ⟨h', .ok hdr, rest⟩ := by
  have h6 : Gen.vanillaClientHeaderLength = 6 := rfl
  simp only [Half.readClientHeader, h6, hr]
  cases h.decryptClientHeader e buf with
  | panic p => rfl
  | ok r => rfl

/-- **Wrath client header read by the server** (6 bytes) -/
theorem C11_read_ok_wrath_server (r : Rc4) (script rest : List REv) (buf : Bytes)
    (hr : readExact script 6 [] = (.ok buf, rest)) :
    wServerReadHeader r script =
      match wServerDecryptHeader r buf with
      | .panic p => .panic p
      | .ok (r', hdr) => .ok ⟨r', .ok hdr, rest⟩ := by
  have h6 : Gen.wrathClientHeaderLength = 6 := rfl
  simp only [wServerReadHeader, h6, hr]
  cases wServerDecryptHeader r buf with
  | panic p => rfl
  | ok r => rfl

/-- **Wrath server header read by the client, 4-byte case**: `attempt` on the 4 bytes yields a header -/
theorem C11_read_ok_wrath_client_small (h h' : WClientDec) (script rest : List REv) (buf4 : Bytes)
    (size opcode : Nat)
    (h4 : readExact script 4 [] = (.ok buf4, rest))
    (ha : h.attempt buf4 = .ok (h', .header size opcode)) :
    h.readServerHeader script = .ok ⟨h', .ok (size, opcode), rest⟩ := by
  simp only [WClientDec.readServerHeader, h4, ha, Out.bind_ok, Out.pure_eq]

/-- **Wrath server header read by the client, 5-byte case**: `attempt` asks for one more byte, the
    second `read_exact` delivers it (necessarily exactly one byte), `decrypt_large_server_header`
    finishes -/
theorem C11_read_ok_wrath_client_large (h h' : WClientDec) (script rest rest' : List REv) (buf4 b : Bytes)
    (h4 : readExact script 4 [] = (.ok buf4, rest))
    (ha : h.attempt buf4 = .ok (h', .additionalByteRequired))
    (h5 : readExact rest 1 [] = (.ok b, rest')) :
    ∃ b0, b = [b0] ∧
      h.readServerHeader script =
        match h'.decryptLarge b0 with
        | .panic p => .panic p
        | .ok (h'', hdr) => .ok ⟨h'', .ok hdr, rest'⟩ := by
  have hl := readExact_length rest 1 [] b rest' h5
  match b, hl with
  | [b0], _ =>
    refine ⟨b0, rfl, ?_⟩
    simp only [WClientDec.readServerHeader, h4, ha, Out.bind_ok, h5, List.headD_cons]
    cases h'.decryptLarge b0 with
    | panic p => rfl
    | ok r => rfl

/-- **fragmentation and interruptions change nothing (fixed-length headers)**: a reader that delivers at
    least `n` bytes in fragments of any sizes with any interruptions gives the header and state of
    the typed helper on the first `n` bytes — a function of the bytes alone — and leaves the unread
    bytes in the reader -/
theorem C11_read_fragmentation (pre tail : List REv) (hb : ∀ x ∈ pre, x.benign = true) :
    (∀ (e : Exp) (h : Half), 4 ≤ (dataOf pre).length →
      ∃ rest, streamOf rest = (dataOf pre).drop 4 ++ streamOf tail ∧
        h.readServerHeader e (pre ++ tail) =
          match h.decryptServerHeader e ((dataOf pre).take 4) with
          | .panic p => .panic p
          | .ok (h', hdr) => .ok ⟨h', .ok hdr, rest⟩) ∧
    (∀ (e : Exp) (h : Half), 6 ≤ (dataOf pre).length →
      ∃ rest, streamOf rest = (dataOf pre).drop 6 ++ streamOf tail ∧
        h.readClientHeader e (pre ++ tail) =
          match h.decryptClientHeader e ((dataOf pre).take 6) with
          | .panic p => .panic p
          | .ok (h', hdr) => .ok ⟨h', .ok hdr, rest⟩) ∧
    (∀ (r : Rc4), 6 ≤ (dataOf pre).length →
      ∃ rest, streamOf rest = (dataOf pre).drop 6 ++ streamOf tail ∧
        wServerReadHeader r (pre ++ tail) =
          match wServerDecryptHeader r ((dataOf pre).take 6) with
          | .panic p => .panic p
          | .ok (r', hdr) => .ok ⟨r', .ok hdr, rest⟩) := by
  refine ⟨fun e h hn => ?_, fun e h hn => ?_, fun r hn => ?_⟩
  · obtain ⟨rest, hr, hs, _, _⟩ := readExact_benign_ok pre tail 4 hb hn
    exact ⟨rest, hs, C11_read_ok_server e h _ rest _ hr⟩
  · obtain ⟨rest, hr, hs, _, _⟩ := readExact_benign_ok pre tail 6 hb hn
    exact ⟨rest, hs, C11_read_ok_client e h _ rest _ hr⟩
  · obtain ⟨rest, hr, hs, _, _⟩ := readExact_benign_ok pre tail 6 hb hn
    exact ⟨rest, hs, C11_read_ok_wrath_server r _ rest _ hr⟩

/-- the same for the variable-length Wrath server header: with the five bytes `buf4 ++ [b4]` available
    (in any fragmentation — in particular split anywhere between the two internal reads), the
    result is `attempt(buf4)` followed, if asked for, by `decrypt_large_server_header(b4)` -/
theorem C11_read_fragmentation_wrath_client (h : WClientDec) (pre tail : List REv) (buf4 more : Bytes)
    (b4 : UInt8) (hb : ∀ x ∈ pre, x.benign = true) (h4 : buf4.length = 4)
    (hd : dataOf pre = buf4 ++ b4 :: more) :
    ∃ rest₄ rest₅, streamOf rest₄ = b4 :: more ++ streamOf tail ∧ streamOf rest₅ = more ++ streamOf tail ∧
      h.readServerHeader (pre ++ tail) =
        match h.attempt buf4 with
        | .panic p => .panic p
        | .ok (h', .header size opcode) => .ok ⟨h', .ok (size, opcode), rest₄⟩
        | .ok (h', .additionalByteRequired) =>
          match h'.decryptLarge b4 with
          | .panic p => .panic p
          | .ok (h'', hdr) => .ok ⟨h'', .ok hdr, rest₅⟩ := by
  obtain ⟨rest, hr, hs, _, _⟩ := readExact_benign_ok pre tail 4 hb (by rw [hd]; simp; omega)
  have ht : (dataOf pre).take 4 = buf4 := by rw [hd, ← h4]; simp
  have hdr : (dataOf pre).drop 4 = b4 :: more := by rw [hd, ← h4]; simp
  rw [ht] at hr
  rw [hdr] at hs
  obtain ⟨g1, g2, _, _⟩ := readExact_ok_spec rest 1 [] (by rw [hs]; simp)
  rw [hs] at g1 g2
  have h5 : readExact rest 1 [] = (.ok [b4], (readExact rest 1 []).2) :=
    Prod.ext (by simpa using g1) rfl
  refine ⟨rest, (readExact rest 1 []).2, by simpa using hs, by simpa using g2, ?_⟩
  cases hatt : h.attempt buf4 with
  | panic p => simp only [WClientDec.readServerHeader, hr, hatt]; rfl
  | ok r =>
    obtain ⟨h', a⟩ := r
    cases a with
    | header size opcode => exact C11_read_ok_wrath_client_small h h' _ rest buf4 size opcode hr hatt
    | additionalByteRequired =>
      obtain ⟨b0, hb0, heq⟩ := C11_read_ok_wrath_client_large h h' _ rest _ buf4 [b4] hr hatt h5
      simp only [List.cons.injEq, and_true] at hb0
      subst hb0
      exact heq

/-- **two readers delivering the same bytes are indistinguishable**: same header or same error-free
    outcome and the same cipher state afterwards, for all four read wrappers
    (stated on the observable outcome `(state, io::Result)`) -/
theorem C11_read_fragmentation_same (pre₁ pre₂ tail₁ tail₂ : List REv)
    (hb₁ : ∀ x ∈ pre₁, x.benign = true) (hb₂ : ∀ x ∈ pre₂, x.benign = true)
    (hsame : dataOf pre₁ = dataOf pre₂) :
    (∀ (e : Exp) (h : Half), 4 ≤ (dataOf pre₁).length →
      (h.readServerHeader e (pre₁ ++ tail₁)).mapOk IoRes.outcome
        = (h.readServerHeader e (pre₂ ++ tail₂)).mapOk IoRes.outcome) ∧
    (∀ (e : Exp) (h : Half), 6 ≤ (dataOf pre₁).length →
      (h.readClientHeader e (pre₁ ++ tail₁)).mapOk IoRes.outcome
        = (h.readClientHeader e (pre₂ ++ tail₂)).mapOk IoRes.outcome) ∧
    (∀ (r : Rc4), 6 ≤ (dataOf pre₁).length →
      (wServerReadHeader r (pre₁ ++ tail₁)).mapOk IoRes.outcome
        = (wServerReadHeader r (pre₂ ++ tail₂)).mapOk IoRes.outcome) ∧
    (∀ (h : WClientDec), 5 ≤ (dataOf pre₁).length →
      (h.readServerHeader (pre₁ ++ tail₁)).mapOk IoRes.outcome
        = (h.readServerHeader (pre₂ ++ tail₂)).mapOk IoRes.outcome) := by
  refine ⟨fun e h hn => ?_, fun e h hn => ?_, fun r hn => ?_, fun h hn => ?_⟩
  · obtain ⟨r1, _, e1⟩ := (C11_read_fragmentation pre₁ tail₁ hb₁).1 e h hn
    obtain ⟨r2, _, e2⟩ := (C11_read_fragmentation pre₂ tail₂ hb₂).1 e h (hsame ▸ hn)
    rw [e1, e2, hsame]
    cases h.decryptServerHeader e ((dataOf pre₂).take 4) <;> rfl
  · obtain ⟨r1, _, e1⟩ := (C11_read_fragmentation pre₁ tail₁ hb₁).2.1 e h hn
    obtain ⟨r2, _, e2⟩ := (C11_read_fragmentation pre₂ tail₂ hb₂).2.1 e h (hsame ▸ hn)
    rw [e1, e2, hsame]
    cases h.decryptClientHeader e ((dataOf pre₂).take 6) <;> rfl
  · obtain ⟨r1, _, e1⟩ := (C11_read_fragmentation pre₁ tail₁ hb₁).2.2 r hn
    obtain ⟨r2, _, e2⟩ := (C11_read_fragmentation pre₂ tail₂ hb₂).2.2 r (hsame ▸ hn)
    rw [e1, e2, hsame]
    cases wServerDecryptHeader r ((dataOf pre₂).take 6) <;> rfl
  · have hsplit : dataOf pre₁ = (dataOf pre₁).take 4 ++ (dataOf pre₁)[4] :: (dataOf pre₁).drop 5 := by
      conv => lhs; rw [← List.take_append_drop 4 (dataOf pre₁)]
      congr 1
      exact List.drop_eq_getElem_cons (by omega)
    have hl : ((dataOf pre₁).take 4).length = 4 := by simp; omega
    obtain ⟨_, _, _, _, e1⟩ :=
      C11_read_fragmentation_wrath_client h pre₁ tail₁ _ _ _ hb₁ hl hsplit
    obtain ⟨_, _, _, _, e2⟩ :=
      C11_read_fragmentation_wrath_client h pre₂ tail₂ _ _ _ hb₂ hl (hsame.symm.trans hsplit)
    rw [e1, e2]
    cases h.attempt ((dataOf pre₁).take 4) with
    | panic p => rfl
    | ok r =>
      obtain ⟨h', a⟩ := r
      cases a with
      | header s o => rfl
      | additionalByteRequired =>
        simp only
        cases h'.decryptLarge (dataOf pre₁)[4] <;> rfl

/-- non-vacuity: six bytes delivered as 1 + (interrupt) + 3 + 2, then an error that is never reached -/
example :
    let K := (List.range 40).map UInt8.ofNat
    ∃ rest, streamOf rest = [] ∧
      (Half.newDec Crypto.real .vanilla K).readClientHeader .vanilla
        ([.data [9], .interrupted, .data [8, 7, 6], .data [5, 4]] ++ [.err 3])
      = .ok ⟨⟨K, 6, 4⟩, .ok (0x09fe, 0xfafbfcfd), rest⟩ := by
  intro K
  obtain ⟨rest, hs, he⟩ := (C11_read_fragmentation [.data [9], .interrupted, .data [8, 7, 6], .data [5, 4]]
    [.err 3] (by decide)).2.1 .vanilla (Half.newDec Crypto.real .vanilla K) (by decide)
  refine ⟨rest, hs, ?_⟩
  rw [he]
  have hd : (Half.newDec Crypto.real .vanilla K).decryptClientHeader .vanilla [9, 8, 7, 6, 5, 4]
      = .ok (⟨K, 6, 4⟩, (0x09fe, 0xfafbfcfd)) := by decide
  exact (by rw [show List.take 6 (dataOf [REv.data [9], .interrupted, .data [8, 7, 6], .data [5, 4]])
    = [9, 8, 7, 6, 5, 4] from rfl, hd])

/-! ## typed helpers = raw operation on the wire layout -/

/-- **server header wire layout**: big-endian size, little-endian opcode -/
theorem C11_layout_server (size opcode : Nat) :
    serverHeaderBytes size opcode =
      [UInt8.ofNat (size / 256 % 256), UInt8.ofNat (size % 256),
       UInt8.ofNat (opcode % 256), UInt8.ofNat (opcode / 256 % 256)] := rfl

/-- **client header wire layout**: big-endian `u16` size, little-endian `u32` opcode -/
theorem C11_layout_client (size opcode : Nat) :
    clientHeaderBytes size opcode =
      [UInt8.ofNat (size / 256 % 256), UInt8.ofNat (size % 256),
       UInt8.ofNat (opcode % 256), UInt8.ofNat (opcode / 256 % 256),
       UInt8.ofNat (opcode / 65536 % 256), UInt8.ofNat (opcode / 16777216 % 256)] := by
  simp only [clientHeaderBytes, be16, leN, List.cons_append, List.nil_append, Nat.div_div_eq_div_mul]

/-- the byte values, for arguments that fit their Rust types (`u16`, `u16`) -/
theorem C11_layout_server_values (size opcode : Nat) (hs : size < 65536) (ho : opcode < 65536) :
    (serverHeaderBytes size opcode).map UInt8.toNat = [size / 256, size % 256, opcode % 256, opcode / 256] := by
  rw [C11_layout_server]
  simp only [List.map_cons, List.map_nil, UInt8.toNat_ofNat']
  have h1 : size / 256 % 256 = size / 256 := Nat.mod_eq_of_lt (by omega)
  have h2 : opcode / 256 % 256 = opcode / 256 := Nat.mod_eq_of_lt (by omega)
  simp only [h1, h2, Nat.mod_mod, Nat.reducePow]

/-- **parse ∘ layout = id** for every `u16` size and `u16` opcode -/
theorem C11_parse_layout_server (size opcode : Nat) (hs : size < 65536) (ho : opcode < 65536) :
    parseServerHeader (serverHeaderBytes size opcode) = .ok (size, opcode) := by
  rw [C11_layout_server]
  simp only [parseServerHeader, UInt8.toNat_ofNat', Nat.reducePow, Nat.mod_mod]
  congr 2 <;> omega

/-- **parse ∘ layout = id** for every `u16` size and `u32` opcode -/
theorem C11_parse_layout_client (size opcode : Nat) (hs : size < 65536) (ho : opcode < 4294967296) :
    parseClientHeader (clientHeaderBytes size opcode) = .ok (size, opcode) := by
  rw [C11_layout_client]
  simp only [parseClientHeader, UInt8.toNat_ofNat', Nat.reducePow, Nat.mod_mod]
  congr 2 <;> omega

/-- **Vanilla/TBC typed helpers are the raw operation on the layout**: the encrypting helpers encrypt
    the layout bytes (same output bytes, same final state); the decrypting helpers decrypt the array
    and parse the plaintext with the inverse of the layout -/
theorem C11_typed_eq_raw (e : Exp) (h : Half) :
    (∀ size opcode, h.encryptServerHeader e size opcode = h.encrypt e (serverHeaderBytes size opcode)) ∧
    (∀ size opcode, h.encryptClientHeader e size opcode = h.encrypt e (clientHeaderBytes size opcode)) ∧
    (∀ data, h.decryptServerHeader e data =
      match h.decrypt e data with
      | .panic p => .panic p
      | .ok (h', plain) =>
        match parseServerHeader plain with
        | .panic p => .panic p
        | .ok hdr => .ok (h', hdr)) ∧
    (∀ data, h.decryptClientHeader e data =
      match h.decrypt e data with
      | .panic p => .panic p
      | .ok (h', plain) =>
        match parseClientHeader plain with
        | .panic p => .panic p
        | .ok hdr => .ok (h', hdr)) := by
  refine ⟨fun _ _ => rfl, fun _ _ => rfl, fun data => ?_, fun data => ?_⟩
  · unfold Half.decryptServerHeader
    cases h.decrypt e data with
    | panic p => rfl
    | ok r =>
      obtain ⟨h', plain⟩ := r
      simp only [Out.bind_ok]
      cases parseServerHeader plain <;> rfl
  · unfold Half.decryptClientHeader
    cases h.decrypt e data with
    | panic p => rfl
    | ok r =>
      obtain ⟨h', plain⟩ := r
      simp only [Out.bind_ok]
      cases parseClientHeader plain <;> rfl

/-- **Wrath typed helpers are the raw RC4 operation on the layout** (layouts themselves: C10).
    `ServerEncrypterHalf::encrypt_server_header` returns the bytes and the RC4 state of `encrypt` on
    the 4- or 5-byte layout (it additionally keeps a copy of them in its scratch buffer);
    the client helper encrypts the 6-byte client layout; the server-side decrypting helper applies
    RC4 and parses with the inverse of that layout; `attempt` / `decrypt_large` apply RC4 to the 4
    resp. 1 bytes they are given -/
theorem C11_typed_eq_raw_wrath :
    (∀ (h : WServerEnc) size opcode, h.encryptServerHeader size opcode =
      match h.encrypt (wrathServerHeaderBytes size opcode) with
      | .panic p => .panic p
      | .ok (h', out) => .ok (⟨h'.rc4, out ++ h.serverHeader.drop out.length⟩, out)) ∧
    (∀ (r : Rc4) size opcode, wClientEncryptHeader r size opcode = r.apply (clientHeaderBytes size opcode)) ∧
    (∀ (r : Rc4) data, wServerDecryptHeader r data =
      match r.apply data with
      | .panic p => .panic p
      | .ok (r', plain) =>
        match parseClientHeader plain with
        | .panic p => .panic p
        | .ok hdr => .ok (r', hdr)) ∧
    (∀ (h : WClientDec) buf, h.attempt buf =
      match h.decrypt buf with
      | .panic p => .panic p
      | .ok (h', plain) =>
        match plain with
        | [b0, b1, b2, b3] =>
          if largeHeader b0 then .ok (⟨h'.rc4, plain⟩, .additionalByteRequired)
          else .ok (h', .header (b0.toNat * 256 + b1.toNat) (b2.toNat + 256 * b3.toNat))
        | _ => .panic "header array length") ∧
    (∀ (h : WClientDec) byte, h.decryptLarge byte =
      match h.decrypt [byte] with
      | .panic p => .panic p
      | .ok (h', plain) =>
        match parseLarge (h.header ++ plain) with
        | .panic p => .panic p
        | .ok hdr => .ok (h', hdr)) := by
  refine ⟨fun h size opcode => ?_, fun _ _ _ => rfl, fun r data => ?_, fun h buf => ?_, fun h byte => ?_⟩
  · simp only [WServerEnc.encryptServerHeader, WServerEnc.encrypt]
    cases h.rc4.apply (wrathServerHeaderBytes size opcode) with
    | panic p => rfl
    | ok r => rfl
  · unfold wServerDecryptHeader
    cases r.apply data with
    | panic p => rfl
    | ok r =>
      obtain ⟨r', plain⟩ := r
      simp only [Out.bind_ok]
      cases parseClientHeader plain <;> rfl
  · unfold WClientDec.attempt WClientDec.decrypt
    cases h.rc4.apply buf with
    | panic p => rfl
    | ok r =>
      obtain ⟨r', plain⟩ := r
      simp only [Out.bind_ok, Out.pure_eq]
      match plain with
      | [] | [_] | [_, _] | [_, _, _] | _ :: _ :: _ :: _ :: _ :: _ => rfl
      | [b0, b1, b2, b3] =>
        simp only
        split <;> rfl
  · unfold WClientDec.decryptLarge WClientDec.decrypt
    cases h.rc4.apply [byte] with
    | panic p => rfl
    | ok r =>
      obtain ⟨r', plain⟩ := r
      simp only [Out.bind_ok, Out.pure_eq]
      cases parseLarge (h.header ++ plain) <;> rfl

/-! ## the combined object and split halves -/

/-- **every facade method of `HeaderCrypto` returns its half's result and replaces only that half** —
    including Vanilla's separately coded `HeaderCrypto::decrypt_client_header` (last clause, both
    expansions), which therefore agrees with `DecrypterHalf::decrypt_client_header` -/
theorem C11_facade_eq_half (e : Exp) (hc : HeaderCrypto) :
    (∀ d, hc.encryptData e d =
      match hc.encrypt.encrypt e d with
      | .panic p => .panic p
      | .ok (h', out) => .ok ({ hc with encrypt := h' }, out)) ∧
    (∀ d, hc.decryptData e d =
      match hc.decrypt.decrypt e d with
      | .panic p => .panic p
      | .ok (h', out) => .ok ({ hc with decrypt := h' }, out)) ∧
    (∀ size opcode, hc.encryptServerHeader e size opcode =
      match hc.encrypt.encryptServerHeader e size opcode with
      | .panic p => .panic p
      | .ok (h', out) => .ok ({ hc with encrypt := h' }, out)) ∧
    (∀ size opcode, hc.encryptClientHeader e size opcode =
      match hc.encrypt.encryptClientHeader e size opcode with
      | .panic p => .panic p
      | .ok (h', out) => .ok ({ hc with encrypt := h' }, out)) ∧
    (∀ d, hc.decryptServerHeader e d =
      match hc.decrypt.decryptServerHeader e d with
      | .panic p => .panic p
      | .ok (h', hdr) => .ok ({ hc with decrypt := h' }, hdr)) ∧
    (∀ d, hc.decryptClientHeader e d =
      match hc.decrypt.decryptClientHeader e d with
      | .panic p => .panic p
      | .ok (h', hdr) => .ok ({ hc with decrypt := h' }, hdr)) := by
  refine ⟨fun d => ?_, fun d => ?_, fun s o => ?_, fun s o => ?_, fun d => ?_, fun d => ?_⟩
  · unfold HeaderCrypto.encryptData
    cases hc.encrypt.encrypt e d <;> rfl
  · unfold HeaderCrypto.decryptData
    cases hc.decrypt.decrypt e d <;> rfl
  · unfold HeaderCrypto.encryptServerHeader
    cases hc.encrypt.encryptServerHeader e s o <;> rfl
  · unfold HeaderCrypto.encryptClientHeader
    cases hc.encrypt.encryptClientHeader e s o <;> rfl
  · unfold HeaderCrypto.decryptServerHeader
    cases hc.decrypt.decryptServerHeader e d <;> rfl
  · cases e with
    | tbc =>
      unfold HeaderCrypto.decryptClientHeader
      simp only
      cases hc.decrypt.decryptClientHeader .tbc d <;> rfl
    | vanilla =>
      unfold HeaderCrypto.decryptClientHeader HeaderCrypto.decryptData Half.decryptClientHeader
      simp only
      cases hc.decrypt.decrypt .vanilla d with
      | panic p => rfl
      | ok r =>
        obtain ⟨h', plain⟩ := r
        simp only [Out.bind_ok, Out.pure_eq]
        cases parseClientHeader plain <;> rfl

/-- the same in "returns … ↔ the half returns …" form, for the raw data methods -/
theorem C11_facade_eq_half_iff (e : Exp) (hc hc' : HeaderCrypto) (d out : Bytes) :
    (hc.encryptData e d = .ok (hc', out) ↔
      ∃ h', hc.encrypt.encrypt e d = .ok (h', out) ∧ hc' = { hc with encrypt := h' }) ∧
    (hc.decryptData e d = .ok (hc', out) ↔
      ∃ h', hc.decrypt.decrypt e d = .ok (h', out) ∧ hc' = { hc with decrypt := h' }) := by
  rw [(C11_facade_eq_half e hc).1 d, (C11_facade_eq_half e hc).2.1 d]
  constructor
  · cases hc.encrypt.encrypt e d with
    | panic p => simp
    | ok r =>
      obtain ⟨h', o⟩ := r
      simp only [Out.ok.injEq, Prod.mk.injEq]
      constructor
      · rintro ⟨a, b⟩; exact ⟨h', ⟨rfl, b⟩, a.symm⟩
      · rintro ⟨h2, ⟨a, b⟩, c⟩; subst a; exact ⟨c.symm, b⟩
  · cases hc.decrypt.decrypt e d with
    | panic p => simp
    | ok r =>
      obtain ⟨h', o⟩ := r
      simp only [Out.ok.injEq, Prod.mk.injEq]
      constructor
      · rintro ⟨a, b⟩; exact ⟨h', ⟨rfl, b⟩, a.symm⟩
      · rintro ⟨h2, ⟨a, b⟩, c⟩; subst a; exact ⟨c.symm, b⟩

/-- **the Read / Write wrappers of the combined object**
    (`HeaderCrypto::{read_and_decrypt_server_header, read_and_decrypt_client_header,
    write_encrypted_server_header, write_encrypted_client_header}`, Vanilla and TBC), for every reader /
    writer script: the facade's outcome is the half's wrapper's outcome (panic ↦ the same panic,
    `Out.mapOk`) with the new half put back into the *same* combined object; the `io::Result` and what
    is left of the reader script / what reached the sink are the half's -/
theorem C11_facade_io_eq_half (e : Exp) (hc : HeaderCrypto) :
    (∀ script, hc.readServerHeader e script =
      (hc.decrypt.readServerHeader e script).mapOk fun r =>
        ⟨{ hc with decrypt := r.state }, r.result, r.rest⟩) ∧
    (∀ script, hc.readClientHeader e script =
      (hc.decrypt.readClientHeader e script).mapOk fun r =>
        ⟨{ hc with decrypt := r.state }, r.result, r.rest⟩) ∧
    (∀ size opcode script, hc.writeServerHeader e size opcode script =
      (hc.encrypt.writeServerHeader e size opcode script).mapOk fun r =>
        ⟨{ hc with encrypt := r.state }, r.result, r.rest⟩) ∧
    (∀ size opcode script, hc.writeClientHeader e size opcode script =
      (hc.encrypt.writeClientHeader e size opcode script).mapOk fun r =>
        ⟨{ hc with encrypt := r.state }, r.result, r.rest⟩) := by
  refine ⟨fun sc => ?_, fun sc => ?_, fun s o w => ?_, fun s o w => ?_⟩
  · unfold HeaderCrypto.readServerHeader
    cases hc.decrypt.readServerHeader e sc <;> rfl
  · unfold HeaderCrypto.readClientHeader
    cases hc.decrypt.readClientHeader e sc <;> rfl
  · unfold HeaderCrypto.writeServerHeader
    cases hc.encrypt.writeServerHeader e s o w <;> rfl
  · unfold HeaderCrypto.writeClientHeader
    cases hc.encrypt.writeClientHeader e s o w <;> rfl

/-- **the same in "returns … ↔ the half returns …" / "panics ↔ the half panics" form**: the facade returns
    an `IoRes` iff the half's wrapper returns one with the same `io::Result` and the same remaining
    script / sink, and the facade's state is the old combined object with only that half replaced -/
theorem C11_facade_io_eq_half_iff (e : Exp) (hc : HeaderCrypto) (size opcode : Nat)
    (w : List WEv) (script : List REv) :
    (∀ R, hc.readServerHeader e script = .ok R ↔
      ∃ r, hc.decrypt.readServerHeader e script = .ok r ∧
        R.state = { hc with decrypt := r.state } ∧ R.result = r.result ∧ R.rest = r.rest) ∧
    (∀ R, hc.readClientHeader e script = .ok R ↔
      ∃ r, hc.decrypt.readClientHeader e script = .ok r ∧
        R.state = { hc with decrypt := r.state } ∧ R.result = r.result ∧ R.rest = r.rest) ∧
    (∀ R, hc.writeServerHeader e size opcode w = .ok R ↔
      ∃ r, hc.encrypt.writeServerHeader e size opcode w = .ok r ∧
        R.state = { hc with encrypt := r.state } ∧ R.result = r.result ∧ R.rest = r.rest) ∧
    (∀ R, hc.writeClientHeader e size opcode w = .ok R ↔
      ∃ r, hc.encrypt.writeClientHeader e size opcode w = .ok r ∧
        R.state = { hc with encrypt := r.state } ∧ R.result = r.result ∧ R.rest = r.rest) ∧
    (∀ p, (hc.readServerHeader e script = .panic p ↔ hc.decrypt.readServerHeader e script = .panic p) ∧
      (hc.readClientHeader e script = .panic p ↔ hc.decrypt.readClientHeader e script = .panic p) ∧
      (hc.writeServerHeader e size opcode w = .panic p ↔ hc.encrypt.writeServerHeader e size opcode w = .panic p) ∧
      (hc.writeClientHeader e size opcode w = .panic p ↔ hc.encrypt.writeClientHeader e size opcode w = .panic p)) := by
  obtain ⟨h1, h2, h3, h4⟩ := C11_facade_io_eq_half e hc
  rw [h1 script, h2 script, h3 size opcode w, h4 size opcode w]
  simp only [Out.mapOk_eq_ok_iff, Out.mapOk_eq_panic_iff]
  refine ⟨fun R => ?_, fun R => ?_, fun R => ?_, fun R => ?_, fun p => ⟨trivial, trivial, trivial, trivial⟩⟩ <;>
  · constructor
    · rintro ⟨r, h1, h2⟩
      exact ⟨r, h1, by rw [h2], by rw [h2], by rw [h2]⟩
    · rintro ⟨r, h1, h2, h3, h4⟩
      refine ⟨r, h1, ?_⟩
      cases R
      simp only at h2 h3 h4
      rw [h2, h3, h4]

/-- **a failed read through the facade leaves the whole combined object as it was**: if `read_exact`
    fails within the 4 bytes (`HeaderCrypto::read_and_decrypt_server_header`) / the 6 bytes
    (`HeaderCrypto::read_and_decrypt_client_header`) — whatever the reason, wherever — the facade reports
    the reader's error, has consumed the script as far as `read_exact` did, and returns the *same*
    object `hc` (both halves) -/
theorem C11_failed_read_facade (e : Exp) (hc : HeaderCrypto) (script rest : List REv) (k : IoKind) :
    (readExact script 4 [] = (.error k, rest) →
      hc.readServerHeader e script = .ok ⟨hc, .error k, rest⟩) ∧
    (readExact script 6 [] = (.error k, rest) →
      hc.readClientHeader e script = .ok ⟨hc, .error k, rest⟩) := by
  constructor
  · intro hr
    rw [(C11_facade_io_eq_half e hc).1 script, C11_failed_read_server e hc.decrypt script rest k hr]
    rfl
  · intro hr
    rw [(C11_facade_io_eq_half e hc).2.1 script, C11_failed_read_client e hc.decrypt script rest k hr]
    rfl

/-- **injected at every byte offset, for every error kind**: the reader delivers fewer than 4 / 6 bytes
    (fragmented and interrupted at will: `pre` is a benign prefix), then fails with `ev`; the facade
    reports that event's kind, the combined object is unchanged, and the script has been consumed
    exactly up to the failing event -/
theorem C11_failed_read_facade_at_offset (e : Exp) (hc : HeaderCrypto) (pre tail : List REv) (ev : REv)
    (k : IoKind) (hb : ∀ x ∈ pre, x.benign = true) (hk : ev.failKind = some k) :
    ((dataOf pre).length < 4 →
      hc.readServerHeader e (pre ++ ev :: tail) = .ok ⟨hc, .error k, tail⟩) ∧
    ((dataOf pre).length < 6 →
      hc.readClientHeader e (pre ++ ev :: tail) = .ok ⟨hc, .error k, tail⟩) :=
  ⟨fun hn => (C11_failed_read_facade e hc _ _ k).1 (readExact_fail_stop pre tail ev 4 k [] hb hn hk),
   fun hn => (C11_failed_read_facade e hc _ _ k).2 (readExact_fail_stop pre tail ev 6 k [] hb hn hk)⟩

/-- the reader simply has nothing more to give before the header is complete: `UnexpectedEof`, the
    combined object untouched -/
theorem C11_failed_read_facade_short (e : Exp) (hc : HeaderCrypto) (pre : List REv)
    (hb : ∀ x ∈ pre, x.benign = true) :
    ((dataOf pre).length < 4 →
      hc.readServerHeader e pre = .ok ⟨hc, .error kindUnexpectedEof, []⟩) ∧
    ((dataOf pre).length < 6 →
      hc.readClientHeader e pre = .ok ⟨hc, .error kindUnexpectedEof, []⟩) :=
  ⟨fun hn => (C11_failed_read_facade e hc _ _ _).1 (readExact_fail_end pre 4 [] hb hn),
   fun hn => (C11_failed_read_facade e hc _ _ _).2 (readExact_fail_end pre 6 [] hb hn)⟩

/-- non-vacuity: three bytes in two fragments with an interruption in between, then error kind 7 -/
example (e : Exp) (hc : HeaderCrypto) :
    hc.readServerHeader e [.data [1], .interrupted, .data [2, 3], .err 7, .data [4, 5]]
      = .ok ⟨hc, .error 7, [.data [4, 5]]⟩ ∧
    hc.readClientHeader e [.data [1], .interrupted, .data [2, 3], .err 7, .data [4, 5]]
      = .ok ⟨hc, .error 7, [.data [4, 5]]⟩ :=
  have h := C11_failed_read_facade_at_offset e hc [.data [1], .interrupted, .data [2, 3]] [.data [4, 5]]
    (.err 7) 7 (by decide) rfl
  ⟨h.1 (by decide), h.2 (by decide)⟩

/-- **split halves are literally the two fields**, so using a split half *is* using the half the facade
    delegates to. The Read/Write wrappers exist on the halves *and* on the combined object
    (`HeaderCrypto.readServerHeader`, … in Model/Header.lean); the facade's are the halves' with the half
    put back (`C11_facade_io_eq_half`), so everything proved about the halves' wrappers above carries over -/
theorem C11_split_is_fields (hc : HeaderCrypto) : hc.split = (hc.encrypt, hc.decrypt) := rfl

/-- all four routes to a server header agree: facade, split half, typed helper, raw call on the layout -/
theorem C11_agree_encrypt_server_header (e : Exp) (hc : HeaderCrypto) (size opcode : Nat) :
    hc.encryptServerHeader e size opcode = hc.encryptData e (serverHeaderBytes size opcode) ∧
    hc.split.1.encryptServerHeader e size opcode = hc.encrypt.encrypt e (serverHeaderBytes size opcode) ∧
    hc.encryptClientHeader e size opcode = hc.encryptData e (clientHeaderBytes size opcode) ∧
    hc.split.1.encryptClientHeader e size opcode = hc.encrypt.encrypt e (clientHeaderBytes size opcode) :=
  ⟨rfl, rfl, rfl, rfl⟩

end WowSrp

#print axioms WowSrp.C11_facade_io_eq_half
#print axioms WowSrp.C11_facade_io_eq_half_iff
#print axioms WowSrp.C11_failed_read_facade
#print axioms WowSrp.C11_failed_read_facade_at_offset
#print axioms WowSrp.C11_failed_read_facade_short
#print axioms WowSrp.C11_split_is_fields
