/-
C10 — Wrath server headers of both lengths round-trip and keep the stream in step.
Property theorems only; helper lemmas and the scenario definitions used in the statements
(`dataScript`, `WClientDec.twoStep`, `serverEmitAll`, `clientReadAll`, `clientTwoStepAll`) live in
Lemmas/WrathCodec.lean, RC4 facts in Lemmas/Rc4.lean.

Sizes are `u32`, opcodes `u16` in the Rust; here they are `Nat` with the bounds as hypotheses.
The wire format carries 23 bits of size, so the round trip is claimed for `size ≤ 0x7FFFFF` only
(for larger `u32` sizes the top bits are silently dropped by the server — not part of this property).
-/
import WowSrp.Lemmas.WrathCodec
namespace WowSrp

/-- tie to the source: threshold and the three masks as the Rust spells them (regenerated every run) -/
theorem C10_constants :
    Gen.wrathLargeThreshold = 0x7FFF ∧ Gen.wrathSetMask = 0x80 ∧ Gen.wrathClearMask = 0x7F ∧
    Gen.wrathTestMask = 0x80 ∧ Gen.wrathServerHeaderMinLength = 4 ∧ Gen.wrathServerHeaderMaxLength = 5 := by
  decide

/-- **length**: 4 plaintext bytes when `size ≤ 0x7FFF`, otherwise 5 — for every size and opcode -/
theorem C10_len (size op : Nat) :
    (wrathServerHeaderBytes size op).length = if size ≤ 0x7FFF then 4 else 5 :=
  wrathServerHeaderBytes_length size op

/-- **marker**: for every size the wire format can carry, the first plaintext byte has bit 0x80 set
    exactly when the header is a long one (`size > 0x7FFF`); `largeHeader` is the client's test -/
theorem C10_marker (size op : Nat) (hs : size ≤ 0x7FFFFF) :
    ∃ b0 rest, wrathServerHeaderBytes size op = b0 :: rest ∧
      (b0 &&& 0x80 ≠ 0 ↔ size > 0x7FFF) ∧ (largeHeader b0 = true ↔ size > 0x7FFF) := by
  have hm : ∀ n, n % 256 < 256 := fun n => Nat.mod_lt _ (by decide)
  have hlh : ∀ b : UInt8, largeHeader b = true ↔ b &&& 0x80 ≠ 0 := by
    intro b
    have : UInt8.ofNat Gen.wrathTestMask = 0x80 := by decide
    simp [largeHeader, this]
  rw [wrathServerHeaderBytes_eq]
  by_cases hbig : size > 0x7FFF
  · rw [if_pos hbig]
    have h1 : size / 65536 % 256 = size / 65536 := Nat.mod_eq_of_lt (by omega)
    have hl := (largeHeader_marked ⟨size / 65536, by omega⟩).1
    simp only at hl
    rw [← h1] at hl
    exact ⟨_, _, rfl, by rw [← hlh]; simp [hl, hbig], by simp [hl, hbig]⟩
  · rw [if_neg hbig]
    have hl := largeHeader_small ⟨size / 256 % 256, by omega⟩
    simp only at hl
    exact ⟨_, _, rfl, by rw [← hlh]; simp [hl, hbig], by simp [hl, hbig]⟩

/-- **decode ∘ encode = id** on plaintext: for all 2^23 sizes and all 2^16 opcodes, choosing the
    parser by the marker of the first byte (as the client does) gives back exactly (size, opcode).
    Covers the boundary 0x7FFF/0x8000, sizes ≥ 0x400000 (other high bits of the top byte), opcodes
    with a high byte. -/
theorem C10_decode_encode (size op : Nat) (hs : size ≤ 0x7FFFFF) (ho : op < 65536) :
    ∃ b0 rest, wrathServerHeaderBytes size op = b0 :: rest ∧
      (if largeHeader b0 then parseLarge (b0 :: rest) else parseSmall (b0 :: rest)) = .ok (size, op) := by
  by_cases hbig : size > 0x7FFF
  · obtain ⟨b0, b1, b2, b3, b4, he, hl, hp⟩ := wrath_large_codec size op hbig hs ho
    exact ⟨b0, _, he, by simp only [hl, if_true, hp]⟩
  · obtain ⟨b0, b1, b2, b3, he, hl, hp⟩ := wrath_small_codec size op (by omega) ho
    exact ⟨b0, _, he, by simp only [hl, Bool.false_eq_true, if_false, hp]⟩

/-- **server emits**: from any state whose RC4 table is intact, for every size and opcode,
    `encrypt_server_header` does not panic, hands out 4 or 5 bytes as above, these are the RC4
    encryption of the plaintext, the RC4 state advances accordingly (and stays intact), and the
    internal 5-byte buffer is overwritten from the front -/
theorem C10_server_emits (h : WServerEnc) (hinv : h.rc4.Inv) (size op : Nat) :
    ∃ h' enc, h.encryptServerHeader size op = .ok (h', enc) ∧
      enc.length = (if size ≤ 0x7FFF then 4 else 5) ∧
      h.rc4.apply (wrathServerHeaderBytes size op) = .ok (h'.rc4, enc) ∧ h'.rc4.Inv ∧
      h'.serverHeader = enc ++ h.serverHeader.drop enc.length := by
  obtain ⟨r', enc, happ, hinv', hlen, hemit⟩ := WServerEnc.encryptServerHeader_spec h hinv size op
  exact ⟨_, enc, hemit, hlen, happ, hinv', rfl⟩

/-- **round trip, read-based call**: server encrypter and client decrypter in equal RC4 states (C09:
    that is how `new` leaves them, and how every earlier header left them). For every size up to
    0x7FFFFF and every opcode, a reader holding exactly the emitted bytes makes
    `read_and_decrypt_server_header` return `Ok((size, op))`, nothing is left unread, and the two RC4
    states are equal again. -/
theorem C10_roundtrip_read (s : WServerEnc) (c : WClientDec) (heq : c.rc4 = s.rc4) (hinv : s.rc4.Inv)
    (size op : Nat) (hs : size ≤ 0x7FFFFF) (ho : op < 65536)
    (s' : WServerEnc) (enc : Bytes) (hemit : s.encryptServerHeader size op = .ok (s', enc)) :
    ∃ c', c.readServerHeader [.data enc] = .ok ⟨c', .ok (size, op), []⟩ ∧ c'.rc4 = s'.rc4 ∧ s'.rc4.Inv := by
  obtain ⟨s1, enc1, hemit1, hinv1, hlen, c', heq', hread, _, _⟩ := wrath_header_single s c heq hinv size op hs ho
  rw [hemit] at hemit1
  injection hemit1 with e; injection e with e1 e2
  subst e1; subst e2
  refine ⟨c', ?_, heq', hinv1⟩
  have := hread [] []
  have hne : enc.isEmpty = false := by
    cases enc with
    | nil => split at hlen <;> simp at hlen
    | cons _ _ => rfl
  simpa [dataScript, hne] using this

/-- the same with more traffic behind the header: exactly the emitted bytes are consumed, the rest of
    the stream (`more`) and of the reader's script (`tail`) is untouched -/
theorem C10_roundtrip_read_stream (s : WServerEnc) (c : WClientDec) (heq : c.rc4 = s.rc4) (hinv : s.rc4.Inv)
    (size op : Nat) (hs : size ≤ 0x7FFFFF) (ho : op < 65536)
    (s' : WServerEnc) (enc : Bytes) (hemit : s.encryptServerHeader size op = .ok (s', enc))
    (more : Bytes) (tail : List REv) :
    ∃ c', c.readServerHeader (dataScript (enc ++ more) tail) = .ok ⟨c', .ok (size, op), dataScript more tail⟩ ∧
      c'.rc4 = s'.rc4 := by
  obtain ⟨s1, enc1, hemit1, hinv1, hlen, c', heq', hread, _, _⟩ := wrath_header_single s c heq hinv size op hs ho
  rw [hemit] at hemit1
  injection hemit1 with e; injection e with e1 e2
  subst e1; subst e2
  exact ⟨c', hread more tail, heq'⟩

/-- **round trip, two-step path**: `attempt_decrypt_server_header` on the first four emitted bytes
    answers `Header(size, op)` when the header is short (and there is no fifth byte), and
    `AdditionalByteRequired` when it is long, in which case `decrypt_large_server_header` on the fifth
    byte returns `(size, op)`. Either way the final client state is *the same value* `c'` that the
    read-based call ends in, and its RC4 equals the server's. -/
theorem C10_roundtrip_attempt (s : WServerEnc) (c : WClientDec) (heq : c.rc4 = s.rc4) (hinv : s.rc4.Inv)
    (size op : Nat) (hs : size ≤ 0x7FFFFF) (ho : op < 65536)
    (s' : WServerEnc) (enc : Bytes) (hemit : s.encryptServerHeader size op = .ok (s', enc)) :
    ∃ c', c.readServerHeader [.data enc] = .ok ⟨c', .ok (size, op), []⟩ ∧ c'.rc4 = s'.rc4 ∧
      c.twoStep enc = .ok (c', (size, op), []) ∧
      (if size ≤ 0x7FFF then c.attempt (enc.take 4) = .ok (c', .header size op) ∧ enc.drop 4 = []
       else ∃ c1 b, c.attempt (enc.take 4) = .ok (c1, .additionalByteRequired) ∧ enc.drop 4 = [b] ∧
         c1.decryptLarge b = .ok (c', (size, op))) := by
  obtain ⟨s1, enc1, hemit1, hinv1, hlen, c', heq', hread, htwo, hatt⟩ := wrath_header_single s c heq hinv size op hs ho
  rw [hemit] at hemit1
  injection hemit1 with e; injection e with e1 e2
  subst e1; subst e2
  refine ⟨c', ?_, heq', by simpa using htwo [], hatt⟩
  have := hread [] []
  have hne : enc.isEmpty = false := by
    cases enc with
    | nil => split at hlen <;> simp at hlen
    | cons _ _ => rfl
  simpa [dataScript, hne] using this

/-- **any sequence, both paths**: for every finite list of headers (sizes ≤ 0x7FFFFF, opcodes
    < 65536; short and long mixed in any order), starting from equal RC4 states: the server emits them
    all without panic; the concatenated output has exactly 4 resp. 5 bytes per header; decoding it
    header by header through `read_and_decrypt_server_header` (reader holding the whole stream) and
    through the two-step path both yield exactly the list, consume exactly the emitted bytes, end in
    the same client state, and leave client RC4 = server RC4 — so the connection can go on. -/
theorem C10_sequence (hdrs : List (Nat × Nat)) (hb : ∀ h ∈ hdrs, h.1 ≤ 0x7FFFFF ∧ h.2 < 65536)
    (s : WServerEnc) (c : WClientDec) (heq : c.rc4 = s.rc4) (hinv : s.rc4.Inv) :
    ∃ s' wire, serverEmitAll s hdrs = .ok (s', wire) ∧ s'.rc4.Inv ∧
      wire.length = (hdrs.map (fun h => if h.1 ≤ 0x7FFF then 4 else 5)).sum ∧
      ∃ c', c'.rc4 = s'.rc4 ∧
        clientReadAll hdrs.length c (dataScript wire []) = .ok (c', hdrs, []) ∧
        clientTwoStepAll hdrs.length c wire = .ok (c', hdrs, []) := by
  obtain ⟨s', wire, hall, hinv', hlen, c', heq', hread, htwo⟩ := wrath_header_sequence hdrs hb s c heq hinv
  refine ⟨s', wire, hall, hinv', hlen, c', heq', ?_, ?_⟩
  · simpa [dataScript] using hread [] []
  · simpa using htwo []

/-- the same on a fresh connection: both ends built from the same session key by their own
    constructors (which never panic), for any `Crypto` -/
theorem C10_sequence_fresh (C : Crypto) (K : Bytes) (hdrs : List (Nat × Nat))
    (hb : ∀ h ∈ hdrs, h.1 ≤ 0x7FFFFF ∧ h.2 < 65536) :
    ∃ s c s' wire c', WServerEnc.new C K = .ok s ∧ WClientDec.new C K = .ok c ∧
      serverEmitAll s hdrs = .ok (s', wire) ∧ c'.rc4 = s'.rc4 ∧
      clientReadAll hdrs.length c (dataScript wire []) = .ok (c', hdrs, []) ∧
      clientTwoStepAll hdrs.length c wire = .ok (c', hdrs, []) := by
  obtain ⟨r, hinv, hs, hc⟩ := wrath_pair_s2c C K
  obtain ⟨s', wire, hall, _, _, c', heq', hread, htwo⟩ := C10_sequence hdrs hb ⟨r, _⟩ ⟨r, _⟩ rfl hinv
  exact ⟨_, _, s', wire, c', hs, hc, hall, heq', hread, htwo⟩

/-! non-vacuity / tests (kernel-evaluated on the executable model). The hypotheses of the theorems
    above (equal RC4 states, intact table, bounds) are met by the constructors for every key — that
    is `C10_sequence_fresh`. Below: the plaintext at the boundary sizes 0x7FFF (short) / 0x8000 (long)
    and at the largest size with opcode 0xFFFF, and a mixed sequence through the cipher from the
    identity-table RC4 state (what `Rc4::new(&[])` gives; cheap to evaluate). -/
example : wrathServerHeaderBytes 0x7FFF 0x1EE = [0x7F, 0xFF, 0xEE, 0x01] ∧
    wrathServerHeaderBytes 0x8000 0x1EE = [0x80, 0x80, 0x00, 0xEE, 0x01] ∧
    wrathServerHeaderBytes 0x7FFFFF 0xFFFF = [0xFF, 0xFF, 0xFF, 0xFF, 0xFF] := by decide
example : (⟨rc4Init, 0, 0⟩ : Rc4).Inv := rc4Init_size
example :
    (let r0 : Rc4 := ⟨rc4Init, 0, 0⟩
     let hdrs := [(0x7FFF, 0x1EE), (0x8000, 0x1EE), (0, 0), (0x7FFFFF, 0xFFFF), (0x400000, 0x100)]
     match serverEmitAll ⟨r0, [0, 0, 0, 0, 0]⟩ hdrs with
     | .ok (s', wire) =>
       wire.length == 23 &&
       (match clientTwoStepAll 5 ⟨r0, [0, 0, 0, 0]⟩ wire with
        | .ok (c', hs, rest) => hs == hdrs && rest == [] && c'.rc4.state.toList == s'.rc4.state.toList &&
            c'.rc4.i == 23 && s'.rc4.i == 23 && c'.rc4.j == s'.rc4.j
        | .panic _ => false)
     | .panic _ => false) = true := by decide +kernel

end WowSrp
