/-
C19 (continued) — the agreement of the two big-integer back ends on `modpow`, PROVED from separate,
library-faithful definitions instead of assumed by a shared one.

`Backend.modpow` (`Model/Deps.lean`) is one definition used for both back ends, so `C19_modpow_agree`
(`Props/C19.lean`) by itself says nothing about the libraries. Here:

* `numModpow`  (`Model/BigIntLib.lean`) follows num-bigint 0.4 `BigInt::modpow` line by line
  (zero-modulus assert, power of the MAGNITUDE, early return on zero, `m - r` for a negative base with an
  odd exponent);
* `rugModpow` follows the `srp-fast-math` branch of /repo/src/bigint.rs over rug's `secure_pow_mod`
  (panics unless exponent > 0 and modulus odd) and `pow_mod(..).unwrap()` (`Err` iff zero modulus), both
  with GMP's value: the Euclidean residue of the INTEGER power;

and each is proved EQUAL (panic site label included) to `Backend.modpow` for that back end, for all
bases (negative included), all exponents (zero included) and all moduli (zero, one, even included).
Every theorem about `Backend.modpow` in the development therefore holds of the faithful definitions.

What remains ASSUMED about the libraries (trusted base, `DESIGN.md` §4), precisely:
1. num-bigint `BigUint::modpow(x, e, m)` returns `x^e mod m` for `m ≠ 0` (Montgomery for odd `m`, plain
   square-and-multiply for even `m`; for `m = 1` both give 0) and panics for `m = 0`.
2. GMP `mpz_powm` / `mpz_powm_sec` return the residue `0 ≤ r < m` of `base^exp` for `exp ≥ 0`, `m > 0`
   (for `mpz_powm_sec`: `exp > 0`, `m` odd), also for a negative base.
3. rug's `pow_mod` returns `Err` for a non-negative exponent iff the modulo is zero, and `secure_pow_mod`
   panics iff `exponent ≤ 0` or the modulo is even (its documented panics; `xmpz::powm_sec`).
4. `from_bytes_le` / `from_digits(.., LsfLe)` both read a little-endian byte string as the natural number
   `ofLE` (SHARED by definition in the model: `ofLE`), and `+`, `*`, `-` are integer arithmetic in both.
5. `%` (`Rem`) is SHARED by definition (`remOut`): on non-negative operands — the only ones it is
   applied to in this crate — it is the mathematical remainder in both libraries, and both panic on a
   zero divisor.
6. `to_bytes_le` is NOT shared: `Backend.toBytesLe .num` is num-bigint's (`[0]` for zero, else minimal
   little-endian bytes), `Backend.toBytesLe .rug` is rug's `to_digits(LsfLe)` (`[]` for zero, else the
   same bytes); `C19_toBytesLe_faithful` below ties them to the per-library definitions and
   `C19_bytes_agree` (`Props/C19.lean`) proves agreement after the fixed-size copy.
-/
import WowSrp.Lemmas.BigIntLib
import WowSrp.Props.C19
namespace WowSrp

/-- **the sign fix-up is the Euclidean residue** (the one non-trivial fact): for a negative base and an
    odd exponent, `(base^e) mod m` (non-negative residue) is `m - (|base|^e % m)` when
    `|base|^e % m ≠ 0`, and `0` otherwise -/
theorem C19_neg_base_sign_fixup (base : Int) (e m : Nat) (hm : 0 < m) (hb : base < 0) (he : e % 2 = 1) :
    (base.natAbs ^ e % m ≠ 0 → (base ^ e) % (m : Int) = ((m - base.natAbs ^ e % m : Nat) : Int)) ∧
    (base.natAbs ^ e % m = 0 → (base ^ e) % (m : Int) = 0) := by
  have h := neg_base_odd_pow_emod base e m hm hb he
  exact ⟨fun hne => by rw [h, if_neg hne], fun h0 => by rw [h, if_pos h0]⟩

/-- in every other case (non-negative base, or even exponent) the residue is the magnitude's -/
theorem C19_no_sign_fixup (base : Int) (e m : Nat) (h : 0 ≤ base ∨ e % 2 = 0) :
    (base ^ e) % (m : Int) = ((base.natAbs ^ e % m : Nat) : Int) := by
  rcases h with h | h
  · exact nonneg_base_pow_emod base e m h
  · exact neg_base_even_pow_emod base e m h

/-- **num-bigint's `BigInt::modpow` is the shared definition** — literally, panic label included; all
    bases, exponents, moduli -/
theorem C19_num_modpow_faithful (base : Int) (e m : Nat) :
    numModpow base e m = Backend.modpow .num base e m := by
  by_cases hm : m = 0
  · subst hm; rfl
  · have hpos : 0 < m := Nat.pos_of_ne_zero hm
    obtain ⟨r, hr, hv⟩ := numModpow_value base e m hpos
    rw [hr, Backend.modpow_ok .num base e m hpos]
    congr 1
    have := modpowVal_spec base e m hpos
    omega

/-- rug's `pow_mod` for a non-negative exponent: `Err` iff zero modulus, else the shared value -/
theorem C19_rug_pow_mod (base : Int) (e m : Nat) :
    (rugPowMod base e m = none ↔ m = 0) ∧
    (0 < m → rugPowMod base e m = some (modpowVal base e m)) := by
  unfold rugPowMod
  refine ⟨?_, fun hm => ?_⟩
  · split <;> simp [*]
  · rw [if_neg (by omega), gmpPowm_eq_modpowVal base e m hm]

/-- rug's `secure_pow_mod`: panics exactly outside "exponent > 0 and modulus odd", else the shared
    value -/
theorem C19_rug_secure_pow_mod (base : Int) (e m : Nat) :
    ((∃ s, rugSecurePowMod base e m = .panic s) ↔ ¬ (e > 0 ∧ m % 2 = 1)) ∧
    (e > 0 ∧ m % 2 = 1 → rugSecurePowMod base e m = .ok (modpowVal base e m)) := by
  unfold rugSecurePowMod
  refine ⟨?_, fun h => ?_⟩
  · by_cases h1 : e > 0
    · by_cases h2 : m % 2 = 1
      · simp [h1, h2]
      · simp [h1, h2]
    · simp [h1]
  · have hm : 0 < m := by omega
    rw [if_neg (by omega), if_neg (by omega), gmpPowm_eq_modpowVal base e m hm]

/-- **the `srp-fast-math` body of `Integer::modpow` is the shared definition** — literally, panic label
    included; all bases, exponents, moduli. In particular the `secure_pow_mod` panics are unreachable
    (the guard is exactly their negation) and the `unwrap` fails exactly for a zero modulus. -/
theorem C19_rug_modpow_faithful (base : Int) (e m : Nat) :
    rugModpow base e m = Backend.modpow .rug base e m := by
  unfold rugModpow
  by_cases hg : e > 0 ∧ m % 2 = 1
  · rw [if_pos hg, (C19_rug_secure_pow_mod base e m).2 hg, Backend.modpow_ok .rug base e m (by omega)]
  · rw [if_neg hg]
    by_cases hm : m = 0
    · subst hm; rfl
    · have hpos : 0 < m := Nat.pos_of_ne_zero hm
      rw [(C19_rug_pow_mod base e m).2 hpos, Backend.modpow_ok .rug base e m hpos]

/-- **the back ends agree, from the library semantics**: the num-bigint route and the rug route — two
    different definitions — return the same number whenever either returns one, panic on exactly the
    same inputs (a zero modulus and nothing else), and for a positive modulus both return the
    non-negative residue of the integer power -/
theorem C19_backends_agree_from_library_semantics (base : Int) (e m : Nat) :
    (numModpow base e m).sameOutcome (rugModpow base e m) ∧
    (∀ r, numModpow base e m = .ok r ↔ rugModpow base e m = .ok r) ∧
    ((∃ s, numModpow base e m = .panic s) ↔ m = 0) ∧
    ((∃ s, rugModpow base e m = .panic s) ↔ m = 0) ∧
    (0 < m → ∃ r : Nat, numModpow base e m = .ok r ∧ rugModpow base e m = .ok r ∧ r < m ∧
      (r : Int) = (base ^ e) % (m : Int)) := by
  rw [C19_num_modpow_faithful, C19_rug_modpow_faithful]
  refine ⟨C19_modpow_sameOutcome base e m, fun r => C19_modpow_agree base e m r,
    C19_modpow_panic_iff .num base e m, C19_modpow_panic_iff .rug base e m, fun hm => ?_⟩
  exact ⟨_, Backend.modpow_ok .num base e m hm, Backend.modpow_ok .rug base e m hm,
    modpowVal_lt base e m hm, modpowVal_spec base e m hm⟩

/-- for a positive modulus the two library routes are literally equal -/
theorem C19_backends_agree_eq (base : Int) (e m : Nat) (hm : 0 < m) :
    numModpow base e m = rugModpow base e m := by
  rw [C19_num_modpow_faithful, C19_rug_modpow_faithful, Backend.modpow_indep .rug base e m hm]

/-- **why the guard in /repo/src/bigint.rs is needed**: the pre-fix body (`secure_pow_mod`
    unconditionally) panics for every zero exponent and every even modulus, where num-bigint returns a
    value whenever the modulus is non-zero — the two back ends then DISAGREE -/
theorem C19_prefix_rug_diverges (base : Int) (e m : Nat) (hm : 0 < m) (h : e = 0 ∨ m % 2 = 0) :
    (∃ s, rugModpowPreFix base e m = .panic s) ∧ (∃ r, numModpow base e m = .ok r) ∧
    ¬ (numModpow base e m).sameOutcome (rugModpowPreFix base e m) := by
  have hp : ∃ s, rugModpowPreFix base e m = .panic s :=
    (C19_rug_secure_pow_mod base e m).1.2 (by omega)
  have hok : numModpow base e m = .ok (modpowVal base e m) := by
    rw [C19_num_modpow_faithful, Backend.modpow_ok .num base e m hm]
  obtain ⟨s, hs⟩ := hp
  refine ⟨⟨s, hs⟩, ⟨_, hok⟩, ?_⟩
  rw [hok, hs]
  exact id

/-- `to_bytes_le`: the two branches of `Backend.toBytesLe` ARE the two libraries' separate behaviours
    (`Model/BigIntLib.lean`: num-bigint `BigUint::to_bytes_le` gives `[0]` for zero, rug's
    `to_digits(LsfLe)` gives `[]`); they differ exactly at zero and denote the same number -/
theorem C19_toBytesLe_faithful (n : Nat) :
    Backend.toBytesLe .num n = numToBytesLe n ∧ Backend.toBytesLe .rug n = rugToDigitsLsfLe n ∧
    (numToBytesLe n = rugToDigitsLsfLe n ↔ n ≠ 0) ∧
    numToBytesLe 0 = [0] ∧ rugToDigitsLsfLe 0 = [] ∧
    ofLE (numToBytesLe n) = n ∧ ofLE (rugToDigitsLsfLe n) = n := by
  refine ⟨rfl, rfl, ?_, rfl, toLE_zero, Backend.ofLE_toBytesLe .num n, Backend.ofLE_toBytesLe .rug n⟩
  unfold numToBytesLe rugToDigitsLsfLe
  by_cases h : n = 0
  · subst h; rw [toLE_zero]; simp
  · simp [h]

/-! ### non-vacuity: the faithful definitions evaluated -/

/-- negative base, odd exponent, odd modulus (`secure_pow_mod` route): `(-3)^5 = -243 ≡ 10 (mod 23)`;
    num-bigint: `243 % 23 = 13`, `23 - 13 = 10` -/
example : numModpow (-3) 5 23 = .ok 10 ∧ rugModpow (-3) 5 23 = .ok 10 ∧
    rugSecurePowMod (-3) 5 23 = .ok 10 := by decide
/-- negative base, odd exponent, EVEN modulus (`pow_mod` route): `-243 ≡ 21 (mod 22)`; pre-fix rug panics -/
example : numModpow (-3) 5 22 = .ok 21 ∧ rugModpow (-3) 5 22 = .ok 21 ∧
    rugModpowPreFix (-3) 5 22 = .panic "rug secure_pow_mod: modulo not odd" := by decide
/-- negative base, even exponent: no fix-up -/
example : numModpow (-3) 4 23 = .ok 12 ∧ rugModpow (-3) 4 23 = .ok 12 := by decide
/-- negative base, odd exponent, magnitude residue zero: the early return, not `m - 0 = m` -/
example : numModpow (-6) 3 9 = .ok 0 ∧ rugModpow (-6) 3 9 = .ok 0 := by decide
/-- exponent 0 (`pow_mod` route; pre-fix rug panics) -/
example : numModpow (-3) 0 23 = .ok 1 ∧ rugModpow (-3) 0 23 = .ok 1 ∧
    rugModpowPreFix (-3) 0 23 = .panic "rug secure_pow_mod: exponent not greater than zero" := by decide
/-- modulus 1 (odd: `secure_pow_mod` route for a positive exponent), also with exponent 0 -/
example : numModpow (-3) 5 1 = .ok 0 ∧ rugModpow (-3) 5 1 = .ok 0 ∧
    numModpow (-3) 0 1 = .ok 0 ∧ rugModpow (-3) 0 1 = .ok 0 ∧ numModpow 0 0 1 = .ok 0 := by decide
/-- modulus 0: both panic (num-bigint's assert; rug's `unwrap` of `Err`), `pow_mod` itself returns `Err` -/
example : numModpow (-3) 5 0 = .panic "num-bigint modpow: zero modulus" ∧
    rugModpow (-3) 5 0 = .panic "rug pow_mod: zero modulus" ∧ rugPowMod (-3) 5 0 = none ∧
    rugModpow (-3) 0 0 = .panic "rug pow_mod: zero modulus" := by decide
/-- zero base -/
example : numModpow 0 5 23 = .ok 0 ∧ rugModpow 0 5 23 = .ok 0 ∧
    numModpow 0 0 23 = .ok 1 ∧ rugModpow 0 0 23 = .ok 1 := by decide
/-- the hypotheses of `C19_prefix_rug_diverges` and `C19_neg_base_sign_fixup` are satisfiable -/
example : ((0 : Nat) < 22 ∧ 22 % 2 = 0) ∧ ((-3 : Int) < 0 ∧ 5 % 2 = 1 ∧ (-3 : Int).natAbs ^ 5 % 23 ≠ 0) := by
  decide

#print axioms C19_neg_base_sign_fixup
#print axioms C19_no_sign_fixup
#print axioms C19_num_modpow_faithful
#print axioms C19_rug_pow_mod
#print axioms C19_rug_secure_pow_mod
#print axioms C19_rug_modpow_faithful
#print axioms C19_backends_agree_from_library_semantics
#print axioms C19_backends_agree_eq
#print axioms C19_prefix_rug_diverges
#print axioms C19_toBytesLe_faithful

end WowSrp
