/-
C13 — Credential strings: exactly 1..16 printable ASCII bytes, upper-cased.
Property theorems only; helper lemmas live in Lemmas/NStr.lean.

A Rust `&str` is a `List Char` (Unicode scalar values); `utf8Len` is its `len()` in bytes.
Vocabulary (defined in Lemmas/NStr.lean, independent of the model):
* `upperSpec c`  — the byte `c` is stored as: `a..z ↦ A..Z`, every other code unchanged
                   (pinned down numerically by `C13_upperSpec_spec`);
* `SameUpToAsciiCase cs cs'` — same length, and position by position the characters are equal or
                   one is `a..z` and the other the corresponding `A..Z`;
* `bytesToChars` (model) — read stored text back as a string.
-/
import WowSrp.Lemmas.NStr
namespace WowSrp

/-- tie to the source: `MAXIMUM_STRING_LENGTH_IN_BYTES` is 16 (re-checked against the regenerated
    constants on every run) -/
theorem C13_constants : Gen.maximumStringLength = 16 ∧ maxLen = 16 := by decide

/-- what `upperSpec` is, numerically: a lower-case ASCII letter loses 32 (`a..z ↦ A..Z`), every other
    ASCII character keeps its code -/
theorem C13_upperSpec_spec (c : Char) :
    (0x61 ≤ c.toNat ∧ c.toNat ≤ 0x7A → (upperSpec c).toNat = c.toNat - 32) ∧
    (¬ (0x61 ≤ c.toNat ∧ c.toNat ≤ 0x7A) → c.toNat < 128 → (upperSpec c).toNat = c.toNat) :=
  ⟨upperSpec_lower c, upperSpec_other c⟩

/-- **acceptance**: a string is accepted iff it is 1..16 bytes long and consists solely of the ASCII
    characters 0x20..0x7E — for every string whatsoever -/
theorem C13_accept_iff (cs : List Char) :
    (∃ n, NStr.new cs = .ok n) ↔
      (1 ≤ utf8Len cs ∧ utf8Len cs ≤ 16 ∧ ∀ c ∈ cs, 0x20 ≤ c.toNat ∧ c.toNat ≤ 0x7E) := by
  constructor
  · rintro ⟨n, h⟩; exact ((new_ok_iff cs n).mp h).1
  · intro h; exact ⟨_, (new_ok_iff cs _).mpr ⟨h, rfl⟩⟩

/-- **value**: when accepted, the text view is the input with `a..z ↦ A..Z` and nothing else changed,
    the stored length is the input's length (in characters = in bytes), the array is the text followed
    by zeros up to 16 bytes, and the `as_ref()` of the Rust (`from_utf8(&s[..length]).unwrap()`)
    neither slices out of range nor fails to decode -/
theorem C13_value (cs : List Char) (n : NStr) (h : NStr.new cs = .ok n) :
    n.asRef = cs.map upperSpec ∧
    n.length = cs.length ∧ n.length = utf8Len cs ∧
    n.s = n.asRef ++ List.replicate (16 - cs.length) 0 ∧ n.s.length = 16 ∧
    n.asRefOut = .ok n.asRef := by
  obtain ⟨⟨h1, h2, hall⟩, rfl⟩ := (new_ok_iff cs n).mp h
  have hl := utf8Len_eq_length cs hall
  have hlen : (cs.map upperSpec).length = cs.length := by simp
  have htake : (padTo 16 (cs.map upperSpec)).take cs.length = cs.map upperSpec := by
    rw [← hlen]; exact padTo_take 16 _
  have hplen : (padTo 16 (cs.map upperSpec)).length = 16 := padTo_length 16 _ (by omega)
  have hasref : (NStr.mk (padTo 16 (cs.map upperSpec)) cs.length).asRef = cs.map upperSpec := htake
  refine ⟨hasref, rfl, hl.symm, ?_, hplen, ?_⟩
  · rw [hasref]; simp [padTo]
  · unfold NStr.asRefOut
    rw [hasref]
    simp only [htake, hplen]
    rw [map_upperSpec_all_lt cs hall]
    have : ¬ cs.length > 16 := by omega
    simp [this]

/-- **length errors**: empty or over-long (in bytes) input is reported as a length error,
    regardless of its content -/
theorem C13_errors_length (cs : List Char) (h : utf8Len cs = 0 ∨ utf8Len cs > 16) :
    NStr.new cs = .err .tooLong := new_tooLong cs h

/-- **character errors**: an input of 1..16 bytes containing a character outside 0x20..0x7E is
    refused reporting the *first* such character -/
theorem C13_errors_first (pre : List Char) (c : Char) (post : List Char)
    (h1 : 1 ≤ utf8Len (pre ++ c :: post)) (h2 : utf8Len (pre ++ c :: post) ≤ 16)
    (hpre : ∀ x ∈ pre, 0x20 ≤ x.toNat ∧ x.toNat ≤ 0x7E)
    (hc : ¬ (0x20 ≤ c.toNat ∧ c.toNat ≤ 0x7E)) :
    NStr.new (pre ++ c :: post) = .err (.notAllowed c) := new_err pre c post h1 h2 hpre hc

/-- the three cases above are exhaustive: every string is accepted, or has a bad length, or has a
    first offending character -/
theorem C13_errors (cs : List Char) :
    (utf8Len cs = 0 ∨ utf8Len cs > 16 → NStr.new cs = .err .tooLong) ∧
    (1 ≤ utf8Len cs → utf8Len cs ≤ 16 → (¬ ∀ c ∈ cs, 0x20 ≤ c.toNat ∧ c.toNat ≤ 0x7E) →
      ∃ pre c post, cs = pre ++ c :: post ∧ (∀ x ∈ pre, 0x20 ≤ x.toNat ∧ x.toNat ≤ 0x7E) ∧
        ¬ (0x20 ≤ c.toNat ∧ c.toNat ≤ 0x7E) ∧ NStr.new cs = .err (.notAllowed c)) := by
  refine ⟨new_tooLong cs, fun h1 h2 hall => ?_⟩
  obtain ⟨pre, c, post, rfl, hp, hc⟩ := exists_first_not Allowed cs hall
  exact ⟨pre, c, post, rfl, hp, hc, new_err pre c post h1 h2 hp hc⟩

/-- **no panic**: no string — multi-byte characters at the 16-byte limit included — makes the
    constructor panic (the character index never exceeds the byte index) -/
theorem C13_no_panic (cs : List Char) : ∀ p, NStr.new cs ≠ .panic p := new_no_panic cs

/-- **idempotent**: re-normalising the stored text gives the same value -/
theorem C13_idempotent (cs : List Char) (n : NStr) (h : NStr.new cs = .ok n) :
    NStr.new (bytesToChars n.asRef) = .ok n := by
  obtain ⟨hasref, _, _, _, _, _⟩ := C13_value cs n h
  obtain ⟨⟨h1, h2, hall⟩, rfl⟩ := (new_ok_iff cs n).mp h
  rw [hasref]
  have hl := utf8Len_eq_length cs hall
  have hall' : ∀ c ∈ bytesToChars (cs.map upperSpec), Allowed c := by
    intro c hc
    simp only [bytesToChars, List.map_map, List.mem_map, Function.comp] at hc
    obtain ⟨d, hd, rfl⟩ := hc
    exact (upperSpec_ofNat_upperSpec d (hall d hd)).1
  have hlen : (bytesToChars (cs.map upperSpec)).length = cs.length := by simp [bytesToChars]
  have hmap : (bytesToChars (cs.map upperSpec)).map upperSpec = cs.map upperSpec := by
    simp only [bytesToChars, List.map_map]
    apply List.map_congr_left
    intro d hd
    exact (upperSpec_ofNat_upperSpec d (hall d hd)).2
  have hl' := utf8Len_eq_length _ hall'
  rw [new_ok _ (by omega) (by omega) hall', hmap, hlen]

/-- **case-insensitive**: two strings that agree up to ASCII letter case get the same result —
    the same value when accepted, and the same error otherwise -/
theorem C13_case_insensitive (cs cs' : List Char) (h : SameUpToAsciiCase cs cs') :
    NStr.new cs = NStr.new cs' := by
  unfold NStr.new
  rw [sameCase_utf8Len h, fill_sameCase cs cs' _ _ h]
  have : cs.isEmpty = cs'.isEmpty := by
    have := sameCase_length h
    cases cs <;> cases cs' <;> simp_all
  rw [this]

/-- in particular acceptance is insensitive to case -/
theorem C13_case_insensitive_accept (cs cs' : List Char) (h : SameUpToAsciiCase cs cs') (n : NStr) :
    NStr.new cs = .ok n ↔ NStr.new cs' = .ok n := by
  rw [C13_case_insensitive cs cs' h]

/-- and conversely: two accepted strings get the same value *exactly* when they agree up to ASCII
    letter case (nothing else is identified by normalisation) -/
theorem C13_same_value_iff (cs cs' : List Char) (n n' : NStr)
    (h : NStr.new cs = .ok n) (h' : NStr.new cs' = .ok n') :
    n = n' ↔ SameUpToAsciiCase cs cs' := by
  constructor
  · rintro rfl
    obtain ⟨e, _⟩ := C13_value cs n h
    obtain ⟨e', _⟩ := C13_value cs' n h'
    exact sameCase_of_map_eq cs cs' ((new_ok_iff cs n).mp h).1.2.2 ((new_ok_iff cs' n).mp h').1.2.2
      (by rw [← e, ← e'])
  · intro hs
    rw [C13_case_insensitive cs cs' hs, h'] at h
    cases h; rfl

/-- **ordering and equality follow the text**: for values produced by the constructor, the derived
    `Ord` on (zero-padded array, length) is the lexicographic byte order on the text (no stored byte
    is zero, so padding sorts first exactly as "shorter" does), and two values are equal iff their
    texts are — so `==`, `cmp` and `Hash` are functions of the normalised text alone -/
theorem C13_ord (ca cb : List Char) (a b : NStr) (ha : NStr.new ca = .ok a) (hb : NStr.new cb = .ok b) :
    NStr.derivedCmp a b = lexCmp a.asRef b.asRef ∧ (a = b ↔ a.asRef = b.asRef) := by
  obtain ⟨ea, _, _, _, _, _⟩ := C13_value ca a ha
  obtain ⟨eb, _, _, _, _, _⟩ := C13_value cb b hb
  obtain ⟨⟨_, ha2, halla⟩, rfl⟩ := (new_ok_iff ca a).mp ha
  obtain ⟨⟨_, hb2, hallb⟩, rfl⟩ := (new_ok_iff cb b).mp hb
  have hla := utf8Len_eq_length ca halla
  have hlb := utf8Len_eq_length cb hallb
  have hnz : ∀ (cs : List Char), (∀ c ∈ cs, Allowed c) → ∀ x ∈ cs.map upperSpec, x ≠ 0 := by
    intro cs hall x hx
    obtain ⟨c, hc, rfl⟩ := List.mem_map.mp hx
    exact upperSpec_ne_zero c (hall c hc)
  constructor
  · rw [ea, eb]
    have := derived_eq_text 16 (ca.map upperSpec) (cb.map upperSpec) (hnz ca halla) (hnz cb hallb)
      (by simp; omega) (by simp; omega)
    simpa [NStr.derivedCmp] using this
  · constructor
    · intro h; rw [h]
    · intro h
      rw [ea, eb] at h
      have : ca.length = cb.length := by simpa using congrArg List.length h
      rw [h, this]

/-! ### non-vacuity: concrete instances -/

/-- "alice" is accepted and stored as "ALICE" (0x41 0x4C 0x49 0x43 0x45) -/
example : ∃ n, NStr.new ['a', 'l', 'i', 'c', 'e'] = .ok n ∧ n.asRef = [0x41, 0x4C, 0x49, 0x43, 0x45] ∧
    n.length = 5 := by
  refine ⟨_, new_ok _ (by decide) (by decide) (by decide), by decide, rfl⟩

/-- a 16-byte string is accepted -/
example : ∃ n, NStr.new ("0123456789abcde~".toList) = .ok n ∧ n.length = 16 :=
  ⟨_, new_ok _ (by decide) (by decide) (by decide), rfl⟩

/-- a 17-byte string is refused as too long -/
example : NStr.new ("0123456789abcdefg".toList) = .err .tooLong :=
  C13_errors_length _ (by decide)

/-- eight 2-byte characters (16 bytes, 8 characters): passes the length gate, rejected on the first
    character, no panic -/
example : utf8Len (List.replicate 8 'ž') = 16 ∧
    NStr.new (List.replicate 8 'ž') = .err (.notAllowed 'ž') :=
  ⟨by decide, C13_errors_first [] 'ž' (List.replicate 7 'ž') (by decide) (by decide) (by simp) (by decide)⟩

/-- fifteen ASCII characters followed by a 2-byte character: 17 bytes, refused as too long
    although only 16 characters -/
example : NStr.new ("0123456789abcde".toList ++ ['ž']) = .err .tooLong :=
  C13_errors_length _ (by decide)

/-- the empty string is a length error -/
example : NStr.new [] = .err .tooLong := C13_errors_length _ (by decide)

/-- characters the test list of the crate omits (`"`, `:`, `;`, `\`) are accepted unchanged -/
example : ∃ n, NStr.new ['"', ':', ';', '\\'] = .ok n ∧ n.asRef = [0x22, 0x3A, 0x3B, 0x5C] :=
  ⟨_, new_ok _ (by decide) (by decide) (by decide), by decide⟩

/-- "Alice" and "aLICE" agree up to case -/
example : SameUpToAsciiCase ['A', 'l', 'i', 'c', 'e'] ['a', 'L', 'I', 'C', 'E'] := by decide

end WowSrp
