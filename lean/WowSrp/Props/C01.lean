/-
C01 — honest client and server always authenticate and agree on the session key.
Property theorems only; helper lemmas live in `Lemmas/Srp.lean` (refinement to `Spec/Srp.lean`,
agreement of the secrets), `Lemmas/SrpAlgebra.lean`, `Lemmas/NStrLocal.lean`, `Lemmas/LE.lean`.
-/
import WowSrp.Lemmas.Srp
import WowSrp.Lemmas.NStrLocal
import WowSrp.Lemmas.RealWF
import WowSrp.Props.C03
namespace WowSrp

/-- two spellings of a credential that differ at most in ASCII letter case: same length, and equal
    character by character after ASCII upper-casing (`Char.toUpper` moves exactly 'a'..'z') -/
def SameUpToLetterCase (cs cs' : List Char) : Prop :=
  cs.length = cs'.length ∧
  ∀ (i : Nat) (h : i < cs.length) (h' : i < cs'.length), cs[i].toUpper = cs'[i].toUpper

theorem SameUpToLetterCase.map_upperCode {cs cs' : List Char} (h : SameUpToLetterCase cs cs') :
    cs.map upperCode = cs'.map upperCode := by
  apply List.ext_getElem
  · simp [h.1]
  · intro i h1 h2
    simp only [List.length_map] at h1 h2
    simp only [List.getElem_map]
    exact (toUpper_eq_iff _ _).mp (h.2 i h1 h2)

/-- **credentials are case-insensitive**: a spelling that differs only in ASCII case constructs the
    very same `NormalizedString` -/
theorem C01_case_invariant (cs cs' : List Char) (h : SameUpToLetterCase cs cs') :
    NStr.new cs = NStr.new cs' := NStr.new_congr cs cs' h.map_upperCode

/-- **storage round trip of the record**: `from_database_values (username, verifier, salt)` is the
    identity on the record, and the username text re-imports to the same `NormalizedString` -/
theorem C01_storage_round_trip (cs : List Char) (U : NStr) (hU : NStr.new cs = .ok U)
    (ver : SrpVerifier) :
    SrpVerifier.fromDatabaseValues ver.username ver.passwordVerifier ver.salt = ver ∧
    NStr.new (bytesToChars U.asRef) = .ok U :=
  ⟨rfl, NStr.new_bytesToChars_asRef cs U hU⟩

/-- **the two secrets are one number** — every x, a, b, u; the client's base `B − 3·v` is negative
    whenever `B < 3·v` and is reduced with the non-negative remainder (inside `Spec.Sclient`) -/
theorem C01_secrets_agree (x a b u : Nat) :
    Spec.Sclient (Spec.B (Spec.v 7 x Spec.N) b) x a u 7 Spec.N
      = Spec.Sserver (Spec.A 7 a Spec.N) (Spec.v 7 x Spec.N) u b :=
  Spec.S_agree x a b u

/-- **public keys are accepted**: A = 7^a mod N lies in [1, N−1] for every a (N is prime and does not
    divide 7 — no hypothesis needed) and its 32 bytes pass `PublicKey::from_le_bytes`; B passes whenever
    it is non-zero -/
theorem C01_public_keys_accepted (a : Nat) (v b : Nat) :
    PublicKey.fromLE (leN 32 (Spec.A 7 a Spec.N)) = .ok (leN 32 (Spec.A 7 a Spec.N)) ∧
    (Spec.B v b ≠ 0 → PublicKey.fromLE (leN 32 (Spec.B v b)) = .ok (leN 32 (Spec.B v b))) :=
  ⟨PublicKey.fromLE_leN _ (Spec.A_builtin_ne_zero a) (Spec.A_builtin_lt a),
   fun h => PublicKey.fromLE_leN _ h (Spec.B_lt v b)⟩

/-- **same 32 bytes on both sides**: a number below 2^256 lands in the server's `From<Integer>` array
    (`padCopy`) and in the client's `to_padded_32_byte_array_le` array as the same 32 bytes `leN 32 n`,
    whichever back end either side runs and however many high-order zero bytes (0..32) the number
    has — zero itself included (`[0]` from num-bigint, `[]` from rug) -/
theorem C01_same_padding (be be' : Backend) (n : Nat) (h : n < 256 ^ 32) (site : String) :
    padCopy 32 (be.toBytesLe n) site = .ok (leN 32 n) ∧ toPadded32 be' n = .ok (leN 32 n) ∧
    (leN 32 n).length = 32 ∧ ofLE (leN 32 n) = n :=
  ⟨padCopy_toBytesLe be 32 n site h (by omega), toPadded32_lt be' n h, leN_length 32 n, ofLE_leN 32 n h⟩

/-- **the documented `into_proof` panic, exactly**: with the drawn private key `b` the call panics iff
    B = (3·v + 7^b) mod N is 0 (both back ends; any stored verifier) -/
theorem C01_intoProof_panics_iff (be : Backend) (ver : SrpVerifier) (b : Bytes) :
    (∃ site, ver.intoProof be b = .panic site) ↔
      (3 * ofLE ver.passwordVerifier + 7 ^ ofLE b % Spec.N) % Spec.N = 0 := by
  rw [SrpVerifier.intoProof_spec]
  show _ ↔ Spec.B (ofLE ver.passwordVerifier) (ofLE b) = 0
  by_cases h : Spec.B (ofLE ver.passwordVerifier) (ofLE b) = 0
  · simp [h]
  · simp [h]

/-- the excluded class is not empty (so the exclusion is real): a verifier value with `3·v ≡ −7 (mod N)`
    and the private key b = 1 make `into_proof` panic -/
example : ∃ (v : Bytes), v.length = 32 ∧ ∀ (be : Backend) (u : NStr) (salt : Bytes),
    ∃ site, (SrpVerifier.fromDatabaseValues u v salt).intoProof be [1] = .panic site := by
  refine ⟨leN 32 ((Spec.N - 7) * ((Spec.N + 1) / 3) % Spec.N), leN_length _ _, ?_⟩
  intro be u salt
  rw [C01_intoProof_panics_iff]
  simp only [SrpVerifier.fromDatabaseValues]
  rw [ofLE_leN 32 _ (Nat.lt_trans (Nat.mod_lt _ specN_pos) specN_lt)]
  decide +kernel

/-- **C01, with every value named.** For every permitted username and password (`NStr.new` succeeds),
    every spelling of them on the client that differs only in ASCII case, every salt, every pair of
    private keys a, b and every reconnect challenge (byte strings of any length — the API fixes
    32/32/32/16), with or without export of the account record to storage and re-import, on both
    back ends: unless B = (3·v + 7^b) mod N is 0 (the documented `into_proof` panic,
    `C01_intoProof_panics_iff`), the whole exchange of `runLogin` succeeds — the client accepts B, the
    server accepts A and the client's M1, the client accepts the server's M2 — and server and client
    hold the same session key, namely the Spec's K. All values exchanged are the Spec's. -/
theorem C01_login_exact (C : Crypto) (hC : C.WF) (hx : C.XorHashOk) (be : Backend)
    (us ps uc pc : List Char) (viaStorage : Bool) (salt b a challenge : Bytes) (U P : NStr)
    (hU : NStr.new us = .ok U) (hP : NStr.new ps = .ok P)
    (hu : SameUpToLetterCase us uc) (hp : SameUpToLetterCase ps pc)
    (hB : (3 * (7 ^ Spec.x C U.asRef P.asRef salt % Spec.N) + 7 ^ ofLE b % Spec.N) % Spec.N ≠ 0) :
    let x := Spec.x C U.asRef P.asRef salt
    let v := Spec.v 7 x Spec.N
    let Bv := Spec.B v (ofLE b)
    let Av := Spec.A 7 (ofLE a) Spec.N
    let K := Spec.K C (Spec.Sserver Av v (Spec.u C Av Bv) (ofLE b))
    let M1 := Spec.M1 C Gen.largeSafePrimeLE 7 U.asRef salt (leN 32 Av) (leN 32 Bv) K
    runLogin C be us ps uc pc viaStorage salt b a challenge
      = .ok K K (leN 32 Av) (leN 32 Bv) M1 (Spec.M2 C (leN 32 Av) M1 K) (leN 32 v) := by
  intro x v Bv Av K M1
  have hU' : NStr.new uc = .ok U := by rw [← C01_case_invariant us uc hu, hU]
  have hP' : NStr.new pc = .ok P := by rw [← C01_case_invariant ps pc hp, hP]
  have hrt : NStr.new (bytesToChars U.asRef) = .ok U := NStr.new_bytesToChars_asRef us U hU
  have hBv : Bv ≠ 0 := hB
  have hv : ofLE (leN 32 v) = v := ofLE_leN 32 v (Nat.lt_trans (Spec.v_builtin_lt x) nBig_lt')
  have hBo : ofLE (leN 32 Bv) = Bv := ofLE_leN 32 Bv (Nat.lt_trans (Spec.B_lt _ _) nBig_lt')
  have hAo : ofLE (leN 32 Av) = Av := ofLE_leN 32 Av (Nat.lt_trans (Spec.A_builtin_lt _) nBig_lt')
  have hBok : PublicKey.fromLE (leN 32 Bv) = .ok (leN 32 Bv) :=
    PublicKey.fromLE_leN _ hBv (Spec.B_lt _ _)
  have hAok : PublicKey.fromLE (leN 32 Av) = .ok (leN 32 Av) :=
    PublicKey.fromLE_leN _ (Spec.A_builtin_ne_zero _) (Spec.A_builtin_lt _)
  -- server step 1
  have hproof : (⟨U, leN 32 v, salt⟩ : SrpVerifier).intoProof be b
      = .ok ⟨U, leN 32 Bv, salt, b, leN 32 v⟩ := by
    rw [SrpVerifier.intoProof_spec]
    simp only [hv]
    exact if_neg hBv
  -- client
  have hcc := SrpClientChallenge.new_builtin C hC be U P (leN 32 Bv) salt a (leN_length _ _)
  rw [hBo] at hcc
  have hS : Spec.Sclient Bv x (ofLE a) (Spec.u C Av Bv) 7 Spec.N
      = Spec.Sserver Av v (Spec.u C Av Bv) (ofLE b) := Spec.S_agree x (ofLE a) (ofLE b) _
  rw [hS] at hcc
  -- server step 2
  have hsrv := SrpProof.intoServer_spec C hC be ⟨U, leN 32 Bv, salt, b, leN 32 v⟩ (leN 32 Av) M1
    challenge (leN_length _ _) (leN_length _ _)
  simp only [hAo, hBo, hv] at hsrv
  rw [if_pos (calculateClientProof_spec C hx _ _ _ _ _).symm] at hsrv
  -- client accepts M2
  have hcl : SrpClientChallenge.verifyServerProof C ⟨U, M1, leN 32 Av, K⟩ (Spec.M2 C (leN 32 Av) M1 K)
      = .ok ⟨U, K⟩ := by
    rw [SrpClientChallenge.verifyServerProof_spec]; exact if_pos rfl
  -- the whole exchange (`hrt`: the storage round trip gives back the same record)
  simp only [x, v, Bv, Av, K, M1] at hproof hBok hcc hAok hsrv hcl ⊢
  simp only [runLogin, hU, hP, hU', hP', SrpVerifier.fromUsernameAndPassword_spec, hrt,
    SrpVerifier.fromDatabaseValues, ite_self, hproof, hBok, hcc, hAok, hsrv, hcl]

/-- **C01.** Honest client and server always authenticate and agree on the session key: under the
    hypotheses of `C01_login_exact` the exchange ends in `LoginResult.ok K K A B M1 M2 v` — the server
    accepted M1, the client accepted M2, and the two session keys are the same 40 bytes.
    `7 ^ a % N ≠ 0` is not a hypothesis: it always holds (N prime, `C01_public_keys_accepted`).
    `S ≠ 0` is not needed either: the bounded zero scan handles every 32-byte S (`C03_interleave`). -/
theorem C01_login_agrees (C : Crypto) (hC : C.WF) (hx : C.XorHashOk) (be : Backend)
    (us ps uc pc : List Char) (viaStorage : Bool) (salt b a challenge : Bytes) (U P : NStr)
    (hU : NStr.new us = .ok U) (hP : NStr.new ps = .ok P)
    (hu : SameUpToLetterCase us uc) (hp : SameUpToLetterCase ps pc)
    (hB : (3 * (7 ^ Spec.x C U.asRef P.asRef salt % Spec.N) + 7 ^ ofLE b % Spec.N) % Spec.N ≠ 0) :
    ∃ K A B M1 M2 vbytes,
      runLogin C be us ps uc pc viaStorage salt b a challenge = .ok K K A B M1 M2 vbytes ∧
      K.length = 40 :=
  ⟨_, _, _, _, _, _,
   C01_login_exact C hC hx be us ps uc pc viaStorage salt b a challenge U P hU hP hu hp hB,
   Spec.interleave_length C hC _⟩

/-- the executable hashes satisfy both assumptions on `C` -/
theorem C01_real_assumptions : Crypto.real.WF ∧ Crypto.real.XorHashOk :=
  ⟨Crypto.real_WF, C03_xor_hash_real⟩

/-- **C01 for the real hash functions** (SHA-1 per FIPS 180-4 as executed by the driver): no assumption
    on the hash is left -/
theorem C01_real (be : Backend)
    (us ps uc pc : List Char) (viaStorage : Bool) (salt b a challenge : Bytes) (U P : NStr)
    (hU : NStr.new us = .ok U) (hP : NStr.new ps = .ok P)
    (hu : SameUpToLetterCase us uc) (hp : SameUpToLetterCase ps pc)
    (hB : (3 * (7 ^ Spec.x Crypto.real U.asRef P.asRef salt % Spec.N) + 7 ^ ofLE b % Spec.N) % Spec.N ≠ 0) :
    ∃ K A B M1 M2 vbytes,
      runLogin Crypto.real be us ps uc pc viaStorage salt b a challenge = .ok K K A B M1 M2 vbytes ∧
      K.length = 40 :=
  C01_login_agrees Crypto.real Crypto.real_WF C03_xor_hash_real be us ps uc pc viaStorage salt b a
    challenge U P hU hP hu hp hB

/-! ### non-vacuity

Concrete credentials ("alice" / "password123", typed as "Alice" / "PassWord123" on the client) and
concrete 32-byte salt and private keys meet every hypothesis of `C01_real`; all of them are checked
by kernel evaluation (`NStr.new`, the case relation, two SHA-1 evaluations and two 256-bit modular
exponentiations for `B ≠ 0`). Kernel evaluation of the *whole* `runLogin` on these inputs also
succeeds (`decide +kernel` on `match runLogin … with | .ok K K' .. => K == K' && K.length == 40 | _ => false`)
but takes about two minutes, so it is not part of the build; the conclusion below comes from the theorem. -/

private def exSalt : Bytes := (List.range 32).map (fun i => UInt8.ofNat (i * 7 + 3))
private def exA : Bytes := (List.range 32).map (fun i => UInt8.ofNat (i * 13 + 101))
private def exB : Bytes := (List.range 32).map (fun i => UInt8.ofNat (i * 29 + 57))
private def exChallenge : Bytes := (List.range 16).map (fun i => UInt8.ofNat (i + 1))
/-- "ALICE" -/
private def exU : NStr := ⟨[0x41, 0x4c, 0x49, 0x43, 0x45] ++ List.replicate 11 0, 5⟩
/-- "PASSWORD123" -/
private def exP : NStr :=
  ⟨[0x50, 0x41, 0x53, 0x53, 0x57, 0x4f, 0x52, 0x44, 0x31, 0x32, 0x33] ++ List.replicate 5 0, 11⟩

example : NStr.new "alice".toList = .ok exU ∧ NStr.new "password123".toList = .ok exP ∧
    SameUpToLetterCase "alice".toList "Alice".toList ∧
    SameUpToLetterCase "password123".toList "PassWord123".toList ∧
    exSalt.length = 32 ∧ exA.length = 32 ∧ exB.length = 32 ∧ exChallenge.length = 16 ∧
    (3 * (7 ^ Spec.x Crypto.real exU.asRef exP.asRef exSalt % Spec.N) + 7 ^ ofLE exB % Spec.N) % Spec.N ≠ 0 := by
  refine ⟨by decide +kernel, by decide +kernel, by unfold SameUpToLetterCase; decide +kernel,
    by unfold SameUpToLetterCase; decide +kernel, by decide, by decide, by decide, by decide, ?_⟩
  rw [← powMod_spec, ← powMod_spec]
  decide +kernel

example (be : Backend) (viaStorage : Bool) : ∃ K A B M1 M2 vbytes,
    runLogin Crypto.real be "alice".toList "password123".toList "Alice".toList "PassWord123".toList
      viaStorage exSalt exB exA exChallenge = .ok K K A B M1 M2 vbytes ∧ K.length = 40 :=
  C01_real be _ _ _ _ viaStorage exSalt exB exA exChallenge exU exP (by decide +kernel)
    (by decide +kernel) (by unfold SameUpToLetterCase; decide +kernel)
    (by unfold SameUpToLetterCase; decide +kernel)
    (by rw [← powMod_spec, ← powMod_spec]; decide +kernel)

end WowSrp
