/-
C07 — Vanilla header cipher follows its recurrence and decrypts what it encrypts.
Property theorems only; helper lemmas live in Lemmas/Header.lean.
-/
import WowSrp.Lemmas.Header
namespace WowSrp

/-- tie to the source: both Vanilla halves advance their index modulo the session-key length (40);
    re-checked against the regenerated constants on every run -/
theorem C07_constants :
    Gen.vanillaEncMod = 40 ∧ Gen.vanillaDecMod = 40 ∧ Gen.sessionKeyLength = 40 := by decide

/-- a fresh Vanilla half over a 40-byte session key satisfies the bounds invariant
    (`key[index]` in range, `index + 1` fits a `u8`) -/
theorem C07_fresh_inv (C : Crypto) (K : Bytes) (hK : K.length = 40) :
    (Half.newEnc C .vanilla K).Inv 40 ∧ (Half.newDec C .vanilla K).Inv 40 := by
  simp [Half.newEnc, Half.newDec, Half.Inv, hK]

/-- **bounds**: from every state satisfying the invariant (position 0..39, any previous byte), for
    every input byte, the step neither indexes out of bounds nor overflows, and re-establishes the
    invariant — so no stream of any length can panic -/
theorem C07_step_bounds (h : Half) (x : UInt8) (hi : h.Inv 40) :
    ∃ h' y, encStep Gen.vanillaEncMod h x = .ok (h', y) ∧ h'.Inv 40 ∧
    ∃ h'' z, decStep Gen.vanillaDecMod h x = .ok (h'', z) ∧ h''.Inv 40 := by
  have he : Gen.vanillaEncMod = 40 := by decide
  have hd : Gen.vanillaDecMod = 40 := by decide
  rw [he, hd]
  exact ⟨_, _, encStep_ok 40 h x hi, Half.Inv_step 40 h _ hi, _, _, decStep_ok 40 h x hi, Half.Inv_step 40 h _ hi⟩

/-- **recurrence**: with a 40-byte session key the encrypter turns x_0, x_1, … into
    c_n = (x_n xor key[n mod 40]) + c_(n-1), c_(-1) = 0 — the Spec — for streams of every length;
    it ends at position `length mod 40` remembering the last ciphertext byte -/
theorem C07_recurrence (C : Crypto) (K xs : Bytes) (hK : K.length = 40) :
    ∃ h', (Half.newEnc C .vanilla K).encrypt .vanilla xs = .ok (h', Spec.vanillaStream K xs) ∧
      h'.key = K ∧ h'.index = xs.length % 40 ∧ h'.prev = (Spec.vanillaStream K xs).getLastD 0 := by
  have he : Exp.vanilla.encMod = 40 := by decide
  obtain ⟨h', h1, _, h3, h4, h5⟩ :=
    encrypt_spec 40 (Half.newEnc C .vanilla K) xs 0 (C07_fresh_inv C K hK).1 (by simp [Half.newEnc, hK]) (by simp [Half.newEnc])
  refine ⟨h', ?_, by simpa [Half.newEnc] using h3, by simpa using h4, by simpa [Half.newEnc, Spec.vanillaStream] using h5⟩
  simpa [Half.encrypt, he, Half.newEnc, Spec.vanillaStream] using h1

/-- **chunking**: however the bytes are split over calls — empty calls and calls longer than the
    key included — the result is that of one call on the concatenation (both directions, any state) -/
theorem C07_chunking (h : Half) (chunks : List Bytes) :
    runChunks (Half.encrypt .vanilla) h chunks = Half.encrypt .vanilla h chunks.flatten ∧
    runChunks (Half.decrypt .vanilla) h chunks = Half.decrypt .vanilla h chunks.flatten :=
  ⟨runChunks_flatten _ h chunks, runChunks_flatten _ h chunks⟩

/-- zero-length calls change nothing -/
theorem C07_empty_call (h : Half) :
    Half.encrypt .vanilla h [] = .ok (h, []) ∧ Half.decrypt .vanilla h [] = .ok (h, []) := ⟨rfl, rfl⟩

/-- **exact inverse, one step, every state**: for each of the 40·256 cipher states and each of the
    256 input bytes, a decrypter in the same state maps the encrypter's output byte back to the input
    byte, and both end in the same state (algebra on bytes, not enumeration) -/
theorem C07_inverse_step (e d : Half) (x : UInt8) (hi : e.Inv 40)
    (hk : d.key = e.key) (hx : d.index = e.index) (hp : d.prev = e.prev) :
    ∃ e' d' c, encStep Gen.vanillaEncMod e x = .ok (e', c) ∧ decStep Gen.vanillaDecMod d c = .ok (d', x) ∧
      e'.Inv 40 ∧ d'.key = e'.key ∧ d'.index = e'.index ∧ d'.prev = e'.prev := by
  have he : Gen.vanillaEncMod = 40 := by decide
  have hd : Gen.vanillaDecMod = 40 := by decide
  rw [he, hd]
  have hdi : d.Inv 40 := by
    obtain ⟨a, b, c, e4⟩ := hi
    exact ⟨a, b, by rw [hk]; exact c, by rw [hx]; exact e4⟩
  refine ⟨_, { d with index := (d.index + 1) % 40, prev := (x ^^^ e.key[e.index]'(by unfold Half.Inv at hi; omega)) + e.prev },
    _, encStep_ok 40 e x hi, ?_, Half.Inv_step 40 e _ hi, ?_, ?_, ?_⟩
  · rw [decStep_ok 40 d _ hdi]
    have hkk : d.key[d.index]'(by unfold Half.Inv at hdi; omega) = e.key[e.index]'(by unfold Half.Inv at hi; omega) := by
      simp [hk, hx]
    simp only [hkk, hp, UInt8.add_sub_cancel, UInt8.xor_assoc, UInt8.xor_self, UInt8.xor_zero]
  · simp [hk]
  · simp [hx]
  · simp

/-- **round trip, indefinitely**: for every 40-byte key, every stream, every partition of the
    plaintext into calls on the sender and every (independent) partition of the ciphertext into calls
    on the receiver, the receiver recovers the sender's bytes exactly and the two halves end in equal
    states (same key, position, previous byte) — so the next header round-trips as well -/
theorem C07_roundtrip (C : Crypto) (K : Bytes) (hK : K.length = 40) (sendChunks recvChunks : List Bytes)
    (cipher : Bytes) (e' : Half)
    (hsend : runChunks (Half.encrypt .vanilla) (Half.newEnc C .vanilla K) sendChunks = .ok (e', cipher))
    (hpart : recvChunks.flatten = cipher) :
    ∃ d', runChunks (Half.decrypt .vanilla) (Half.newDec C .vanilla K) recvChunks = .ok (d', sendChunks.flatten) ∧
      d'.key = e'.key ∧ d'.index = e'.index ∧ d'.prev = e'.prev := by
  have he : Exp.vanilla.encMod = 40 := by decide
  have hd : Exp.vanilla.decMod = 40 := by decide
  rw [(C07_chunking _ _).1] at hsend
  rw [(C07_chunking _ _).2, hpart]
  obtain ⟨h1, r1, _, k1, i1, p1⟩ :=
    encrypt_spec 40 (Half.newEnc C .vanilla K) sendChunks.flatten 0 (C07_fresh_inv C K hK).1 (by simp [Half.newEnc, hK]) (by simp [Half.newEnc])
  simp only [Half.encrypt, he] at hsend
  rw [r1] at hsend
  injection hsend with hsend
  injection hsend with hs1 hs2
  subst hs1
  obtain ⟨h2, r2, _, k2, i2, p2⟩ :=
    decrypt_spec 40 (Half.newDec C .vanilla K) cipher 0 (C07_fresh_inv C K hK).2 (by simp [Half.newDec, hK]) (by simp [Half.newDec])
  refine ⟨h2, ?_, ?_, ?_, ?_⟩
  · simp only [Half.decrypt, hd, r2]
    congr 2
    rw [← hs2]
    simp only [Half.newDec, Half.newEnc]
    exact Spec.recDec_recEnc K 0 0 _
  · rw [k1, k2]; rfl
  · rw [i1, i2, ← hs2, Spec.recEnc_length]
  · rw [p1, p2, ← hs2]; rfl

/-- **round trip from any pair of equal states** (the induction step "equal before ⇒ recovered and equal
    after", usable at any point of a connection, with no reference to how the halves were made): for
    every encrypter half `e0` and decrypter half `d0` holding the same key, position and previous byte,
    with the invariant (`key.length = 40`, `index < 40`), every stream and every partition
    of it into calls on the sender: the sender does not panic and emits the recurrence from its current
    position; for every (independent) partition of that ciphertext into calls on the receiver, the
    receiver recovers the sender's bytes exactly, and the two halves end equal again with the
    invariant kept — so the theorem applies again to whatever is sent next -/
theorem C07_roundtrip_from_equal_states (e0 d0 : Half) (hlen : e0.key.length = 40) (hidx : e0.index < 40)
    (hk : d0.key = e0.key) (hx : d0.index = e0.index) (hp : d0.prev = e0.prev)
    (sendChunks : List Bytes) :
    ∃ e', runChunks (Half.encrypt .vanilla) e0 sendChunks =
        .ok (e', Spec.recEnc e0.key e0.index e0.prev sendChunks.flatten) ∧
      e'.key = e0.key ∧ e'.key.length = 40 ∧ e'.index < 40 ∧
      ∀ recvChunks : List Bytes,
        recvChunks.flatten = Spec.recEnc e0.key e0.index e0.prev sendChunks.flatten →
        ∃ d', runChunks (Half.decrypt .vanilla) d0 recvChunks = .ok (d', sendChunks.flatten) ∧
          d'.key = e'.key ∧ d'.index = e'.index ∧ d'.prev = e'.prev ∧ d' = e' := by
  have he : Exp.vanilla.encMod = 40 := by decide
  have hd : Exp.vanilla.decMod = 40 := by decide
  have hi : e0.Inv 40 := ⟨by decide, by decide, by rw [hlen]; exact Nat.le_refl _, hidx⟩
  obtain ⟨e', d', r1, r2, inv1, k1, k2, i2, p2⟩ :=
    roundtrip_from_equal 40 e0 d0 hi hlen.symm hk hx hp sendChunks.flatten
  refine ⟨e', ?_, k1, by rw [k1]; exact hlen, inv1.2.2.2, ?_⟩
  · rw [(C07_chunking _ _).1]
    simp only [Half.encrypt, he, r1]
  · intro recvChunks hpart
    refine ⟨d', ?_, k2, i2, p2, ?_⟩
    · rw [(C07_chunking _ _).2, hpart]
      simp only [Half.decrypt, hd, r2]
    · obtain ⟨a, b, c⟩ := d'
      obtain ⟨a', b', c'⟩ := e'
      simp only at k2 i2 p2
      rw [k2, i2, p2]

/-- the same in the form of `C07_roundtrip` (the sender's result as a hypothesis) -/
theorem C07_roundtrip_from_equal_states' (e0 d0 : Half) (hlen : e0.key.length = 40) (hidx : e0.index < 40)
    (hk : d0.key = e0.key) (hx : d0.index = e0.index) (hp : d0.prev = e0.prev)
    (sendChunks recvChunks : List Bytes) (cipher : Bytes) (e' : Half)
    (hsend : runChunks (Half.encrypt .vanilla) e0 sendChunks = .ok (e', cipher))
    (hpart : recvChunks.flatten = cipher) :
    ∃ d', runChunks (Half.decrypt .vanilla) d0 recvChunks = .ok (d', sendChunks.flatten) ∧
      d'.key = e'.key ∧ d'.index = e'.index ∧ d'.prev = e'.prev ∧
      e'.key.length = 40 ∧ e'.index < 40 := by
  obtain ⟨e1, h1, _, hl, hi, hrecv⟩ :=
    C07_roundtrip_from_equal_states e0 d0 hlen hidx hk hx hp sendChunks
  rw [h1] at hsend
  injection hsend with hsend
  injection hsend with hs1 hs2
  subst hs1
  obtain ⟨d', g1, g2, g3, g4, _⟩ := hrecv recvChunks (hpart.trans hs2.symm)
  exact ⟨d', g1, g2, g3, g4, hl, hi⟩

/-- non-vacuity of `C07_roundtrip_from_equal_states`: a mid-connection state (position 37, previous byte
    0x5a) three bytes before the key wraps around; five bytes sent in three calls (one empty) -/
example :
    let K := (List.range 40).map UInt8.ofNat
    ∃ e', runChunks (Half.encrypt .vanilla) ⟨K, 37, 0x5a⟩ [[1, 2], [], [3, 4, 5]] =
        .ok (e', Spec.recEnc K 37 0x5a [1, 2, 3, 4, 5]) ∧ e'.key.length = 40 ∧ e'.index < 40 :=
  have ⟨e', h, _, hl, hi, _⟩ := C07_roundtrip_from_equal_states ⟨(List.range 40).map UInt8.ofNat, 37, 0x5a⟩
    ⟨(List.range 40).map UInt8.ofNat, 37, 0x5a⟩ (by decide) (by decide) rfl rfl rfl [[1, 2], [], [3, 4, 5]]
  ⟨e', h, hl, hi⟩
/-- … and by evaluation: the position has wrapped to 2, the receiver (calls of 4 and 1 bytes) is in the same state -/
example :
    (let K := (List.range 40).map UInt8.ofNat
     match runChunks (Half.encrypt .vanilla) ⟨K, 37, 0x5a⟩ [[1, 2], [], [3, 4, 5]] with
     | .panic _ => false
     | .ok (e', c) =>
       match runChunks (Half.decrypt .vanilla) ⟨K, 37, 0x5a⟩ [c.take 4, c.drop 4] with
       | .panic _ => false
       | .ok (d', p) => d' == e' && p == [1, 2, 3, 4, 5] && e'.index == 2 && c != p) = true := by
  decide

/-! non-vacuity: the hypotheses are met by concrete, non-trivial data -/
example : ((List.range 40).map UInt8.ofNat).length = 40 := by decide
example :
    let K := (List.range 40).map UInt8.ofNat
    runChunks (Half.encrypt .vanilla) (Half.newEnc Crypto.real .vanilla K) [[1, 2], [], [3, 4, 5]]
      = .ok (⟨K, 5, 0x0d⟩, [0x01, 0x04, 0x05, 0x0c, 0x0d]) := by decide

end WowSrp

#print axioms WowSrp.C07_roundtrip_from_equal_states
#print axioms WowSrp.C07_roundtrip_from_equal_states'
