/-
C03 — every handshake value is byte-exact WoW SRP6, for any announced group.
Property theorems only; the Spec is `Spec/Srp.lean`, helper lemmas live in `Lemmas/Srp.lean`,
`Lemmas/LE.lean`, `Lemmas/PowMod.lean`, `Lemmas/Pratt.lean`.

Every theorem holds for both big-integer back ends (`be`) and an arbitrary hash (`C : Crypto`;
`C.WF` = output lengths 20/20/16 where lengths matter). Numbers are natural numbers; the bytes on the
wire are `leN 32 _` (32 bytes little endian).
-/
import Mathlib.Data.Nat.Prime.Basic
import WowSrp.Lemmas.Srp
import WowSrp.Props.C04
namespace WowSrp

/-- **constants**: N is one number in both byte orders, it is the prime 0x894B…9BB7 of the Spec,
    g = 7, k = 3, and the field widths are 32/32/32/32/20/20/40/16 bytes -/
theorem C03_constants :
    ofLE Gen.largeSafePrimeLE = ofBE Gen.largeSafePrimeBE ∧
    nBig = 0x894B645E89E1535BBDAD5B8B290650530801B18EBFBF5E8FAB3C82872A3E9BB7 ∧
    nBig = Spec.N ∧ Nat.Prime nBig ∧ gBig = 7 ∧ kBig = 3 ∧
    Gen.largeSafePrimeLE.length = 32 ∧ Gen.largeSafePrimeBE.length = 32 ∧
    Gen.largeSafePrimeLength = 32 ∧ Gen.generatorLength = 1 ∧
    Gen.saltLength = 32 ∧ Gen.privateKeyLength = 32 ∧ Gen.publicKeyLength = 32 ∧
    Gen.passwordVerifierLength = 32 ∧ Gen.sLength = 32 ∧
    Gen.sha1HashLength = 20 ∧ Gen.proofLength = 20 ∧ Gen.sessionKeyLength = 40 ∧
    Gen.reconnectDataLength = 16 ∧ Gen.precalculatedXorHash.length = 20 :=
  ⟨largeSafePrime_LE_eq_BE, nBig_val, specN_eq.symm, nBig_prime, gBig_val, kBig_val,
   by decide, by decide, by decide, by decide, by decide, by decide, by decide, by decide, by decide,
   by decide, by decide, by decide, by decide, by decide⟩

/-- **verifier**: `calculate_password_verifier` returns v = 7^x mod N, x = H(salt | H(U ':' P)) read
    little endian, as 32 little-endian bytes — every U, P, salt (of any length); never panics -/
theorem C03_verifier (C : Crypto) (be : Backend) (U P salt : Bytes) :
    calculatePasswordVerifier C be U P salt = .ok (leN 32 (7 ^ Spec.x C U P salt % Spec.N)) :=
  calculatePasswordVerifier_spec C be U P salt

/-- **server public key**: `calculate_server_public_key` computes B = (3·v + 7^b mod N) mod N, writes
    it as 32 little-endian bytes and hands them to the public-key check — every verifier and private
    key; never panics -/
theorem C03_server_public_key (be : Backend) (v b : Bytes) :
    calculateServerPublicKey be v b =
      .ok (PublicKey.fromLE (leN 32 ((3 * ofLE v + 7 ^ ofLE b % Spec.N) % Spec.N))) :=
  calculateServerPublicKey_spec be v b

/-- … and that check accepts every B ≠ 0 (B < N always), so the key that leaves the server is the
    32-byte little-endian B -/
theorem C03_server_public_key_accepted (be : Backend) (v b : Bytes)
    (hB : Spec.B (ofLE v) (ofLE b) ≠ 0) :
    calculateServerPublicKey be v b = .ok (.ok (leN 32 (Spec.B (ofLE v) (ofLE b)))) := by
  rw [calculateServerPublicKey_spec, PublicKey.fromLE_leN _ hB (Spec.B_lt _ _)]

/-- **client public key, any announced group**: for EVERY generator `g` and EVERY announced 32-byte
    modulus `nLE` of positive value N' (primality of N' is not needed for byte-exactness, only N' > 0):
    `calculate_client_public_key` returns A = g^a mod N' as 32 little-endian bytes when that residue is
    non-zero, and the error `IsZero` when it is zero; never panics -/
theorem C03_client_public_key (be : Backend) (a : Bytes) (g : Nat) (nLE : Bytes)
    (hN : 0 < ofLE nLE) (hl : nLE.length = 32) :
    (g ^ ofLE a % ofLE nLE ≠ 0 →
      calculateClientPublicKey be a g nLE = .ok (.ok (leN 32 (g ^ ofLE a % ofLE nLE)))) ∧
    (g ^ ofLE a % ofLE nLE = 0 →
      calculateClientPublicKey be a g nLE = .ok (.error .isZero)) := by
  have h := calculateClientPublicKey_spec be a g nLE hN hl
  unfold Spec.A at h
  exact ⟨fun h0 => by rw [h, if_neg h0], fun h0 => by rw [h, if_pos h0]⟩

/-- **server secret**: `calculate_S` returns S = (A·(v^u mod N))^b mod N as 32 little-endian bytes —
    every A, v, u, b; never panics -/
theorem C03_server_S (be : Backend) (A v u b : Bytes) :
    calculateS be A v u b = .ok (leN 32 (Spec.Sserver (ofLE A) (ofLE v) (ofLE u) (ofLE b))) :=
  calculateS_spec be A v u b

/-- **client secret, any announced group**: for EVERY generator and EVERY announced positive 32-byte
    modulus N' (prime or not) `calculate_client_S` returns
    S = (B − 3·(g^x mod N'))^(a + u·x) mod N' — the non-negative remainder of an integer power whose
    base is negative whenever B < 3·(g^x mod N') — as 32 little-endian bytes; never panics -/
theorem C03_client_S (be : Backend) (B x a u : Bytes) (g : Nat) (nLE : Bytes)
    (hN : 0 < ofLE nLE) (hl : nLE.length = 32) :
    calculateClientS be B x a u g nLE =
      .ok (leN 32 (Spec.Sclient (ofLE B) (ofLE x) (ofLE a) (ofLE u) g (ofLE nLE))) :=
  calculateClientS_spec be B x a u g nLE hN hl

/-- the Spec's client secret is a remainder: `0 ≤ S < N'`, and it is what the integer formula says -/
theorem C03_client_S_range (B x a u g N' : Nat) (hN : 0 < N') :
    Spec.Sclient B x a u g N' < N' ∧
    ((Spec.Sclient B x a u g N' : Nat) : Int) =
      ((B : Int) - 3 * ((g ^ x % N' : Nat) : Int)) ^ (a + u * x) % (N' : Int) := by
  have h := modpowVal_toNat ((B : Int) - 3 * ((g ^ x % N' : Nat) : Int)) (a + u * x) N' hN
  have h2 := modpowVal_spec ((B : Int) - 3 * ((g ^ x % N' : Nat) : Int)) (a + u * x) N' hN
  unfold Spec.Sclient
  rw [← h]
  exact ⟨modpowVal_lt _ _ _ hN, h2⟩

/-- **interleave**: for EVERY 32-byte S — whatever its number 0..32 of low-order zero bytes (induction
    on the scan, `scanZeros_spec`, not a case split) — `calculate_interleaved` returns
    SHA_Interleave of S with the low-order zero bytes removed and one more byte if an odd number of
    them was removed; the result has 40 bytes; no panic.
    (The property C03 excludes S = 0, which C14 treats; the theorem covers it too: the strip is then
    empty and both hashes are of the empty string.) -/
theorem C03_interleave (C : Crypto) (hC : C.WF) (S : Bytes) (hS : S.length = 32) :
    calculateInterleaved C S = .ok (Spec.interleave C S) ∧ (Spec.interleave C S).length = 40 :=
  ⟨calculateInterleaved_spec C hC S (by omega) (by omega), Spec.interleave_length C hC S⟩

/-- the strip rule in words: `n` low-order zero bytes followed by a non-zero byte lose `n` bytes when
    `n` is even and `n + 1` bytes when `n` is odd -/
theorem C03_strip_rule (n : Nat) (b : UInt8) (rest : Bytes) (hb : b ≠ 0) :
    Spec.strip (List.replicate n 0 ++ b :: rest) = (b :: rest).drop (n % 2) := by
  have hz : Spec.zeros (List.replicate n 0 ++ b :: rest) = n := by
    induction n with
    | zero => simpa using Spec.zeros_cons_ne b rest hb
    | succ k ih => rw [List.replicate_succ, List.cons_append, Spec.zeros_cons_zero, ih]
  unfold Spec.strip
  rw [hz, ← List.drop_drop, List.drop_left' (by simp)]

/-- the session key is the interleave of the 32-byte little-endian secret (`calculate_session_key`) -/
theorem C03_session_key (C : Crypto) (hC : C.WF) (be : Backend) (A B v b : Bytes)
    (hA : A.length = 32) (hB : B.length = 32) :
    calculateSessionKey C be A B v b =
      .ok (Spec.K C (Spec.Sserver (ofLE A) (ofLE v) (Spec.u C (ofLE A) (ofLE B)) (ofLE b))) :=
  calculateSessionKey_spec C hC be A B v b hA hB

/-- **M1, client side** (any announced group): the xor `H(N') xor H(g)` is computed -/
theorem C03_M1_client (C : Crypto) (U K A B salt nLE : Bytes) (g : Nat) :
    calculateClientProofCustom C U K A B salt nLE g = Spec.M1 C nLE g U salt A B K :=
  calculateClientProofCustom_spec C U K A B salt nLE g

/-- **M1, server side**: the precomputed constant is used … -/
theorem C03_M1_server (C : Crypto) (U K A B salt : Bytes) :
    calculateClientProof C U K A B salt =
      C.sha1 (Gen.precalculatedXorHash ++ C.sha1 U ++ salt ++ A ++ B ++ K) := rfl

/-- … which is the Spec's M1 for the built-in group, and so coincides with what the client computes,
    provided the constant is `H(N) xor H(7)` (`C.XorHashOk`, true for SHA-1: `C03_xor_hash_real`) -/
theorem C03_M1_server_spec (C : Crypto) (hx : C.XorHashOk) (U K A B salt : Bytes) :
    calculateClientProof C U K A B salt = Spec.M1 C Gen.largeSafePrimeLE 7 U salt A B K ∧
    calculateClientProof C U K A B salt
      = calculateClientProofCustom C U K A B salt Gen.largeSafePrimeLE gBig :=
  ⟨calculateClientProof_spec C hx U K A B salt,
   by rw [calculateClientProof_spec C hx, calculateClientProofCustom_spec, gBig_val]⟩

/-- `PRECALCULATED_XOR_HASH` really is SHA1(N little endian) xor SHA1([7]) — evaluated by the kernel on
    the executable FIPS 180-4 SHA-1 of `Model/Crypto.lean` -/
theorem C03_xor_hash_real : Crypto.real.XorHashOk := by
  unfold Crypto.XorHashOk
  decide +kernel

/-- **M2** -/
theorem C03_M2 (C : Crypto) (A M1 K : Bytes) :
    calculateServerProof C A M1 K = Spec.M2 C A M1 K := rfl

/-- non-vacuity of the announced-group theorems: a group that is not the built-in one (g = 5,
    N' = 2^255 − 19, 32 bytes) meets the hypotheses -/
example : 0 < ofLE (leN 32 (2 ^ 255 - 19)) ∧ (leN 32 (2 ^ 255 - 19)).length = 32 ∧
    leN 32 (2 ^ 255 - 19) ≠ Gen.largeSafePrimeLE := by decide +kernel

/-! ### the values that leave the public API (`C03_api_*`) -/

/-- **API, registration**: `SrpVerifier::from_username_and_password` (salt drawn = `salt`) stores the
    username, the salt, and the verifier 7^x mod N as 32 little-endian bytes; never panics -/
theorem C03_api_verifier (C : Crypto) (be : Backend) (u p : NStr) (salt : Bytes) :
    SrpVerifier.fromUsernameAndPassword C be u p salt =
      .ok ⟨u, leN 32 (7 ^ Spec.x C u.asRef p.asRef salt % Spec.N), salt⟩ :=
  SrpVerifier.fromUsernameAndPassword_spec C be u p salt

/-- **API, server step 1**: `into_proof` (private key drawn = `b`) exposes
    B = (3·v + 7^b mod N) mod N as 32 little-endian bytes, together with the stored salt, whenever
    B ≠ 0 (otherwise it panics, `C01_intoProof_panics_iff`) -/
theorem C03_api_server_public_key (be : Backend) (ver : SrpVerifier) (b : Bytes)
    (hB : (3 * ofLE ver.passwordVerifier + 7 ^ ofLE b % Spec.N) % Spec.N ≠ 0) :
    ver.intoProof be b =
      .ok ⟨ver.username, leN 32 ((3 * ofLE ver.passwordVerifier + 7 ^ ofLE b % Spec.N) % Spec.N),
           ver.salt, b, ver.passwordVerifier⟩ := by
  rw [SrpVerifier.intoProof_spec]; exact if_neg hB

/-- **API, client, any announced group**: `SrpClientChallenge::new` (private key drawn = `a`) for
    EVERY generator g and EVERY announced positive 32-byte modulus N' (prime or not) with
    g^a mod N' ≠ 0 exposes
    A = g^a mod N' (32 bytes LE),
    K = SHA_Interleave(LE32(S)), S = (B − 3·g^x)^(a+u·x) mod N', u = H(A|B), x = H(salt|H(U:P)),
    M1 = H(H(N') xor H(g) | H(U) | salt | A | B | K) -/
theorem C03_api_client (C : Crypto) (hC : C.WF) (be : Backend) (u p : NStr) (g : Nat)
    (nLE B salt a : Bytes) (hN : 0 < ofLE nLE) (hl : nLE.length = 32) (hB : B.length = 32)
    (hA : g ^ ofLE a % ofLE nLE ≠ 0) :
    let A := g ^ ofLE a % ofLE nLE
    let x := Spec.x C u.asRef p.asRef salt
    let K := Spec.K C (Spec.Sclient (ofLE B) x (ofLE a) (Spec.u C A (ofLE B)) g (ofLE nLE))
    SrpClientChallenge.new C be u p g nLE B salt a =
      .ok ⟨u, Spec.M1 C nLE g u.asRef salt (leN 32 A) B K, leN 32 A, K⟩ :=
  SrpClientChallenge.new_spec C hC be u p g nLE B salt a hN hl hB hA

/-- **API, server step 2**: `into_server` on the client's 32-byte A and proof M1 computes
    K = SHA_Interleave(LE32((A·v^u)^b mod N)), u = H(A|B); it accepts exactly when M1 is the Spec's
    M1 for the built-in group, and then returns that K (as `session_key`) and M2 = H(A | M1 | K);
    otherwise it returns the error carrying both proofs and no session value -/
theorem C03_api_server (C : Crypto) (hC : C.WF) (hx : C.XorHashOk) (be : Backend) (p : SrpProof)
    (A M1 challenge : Bytes) (hA : A.length = 32) (hB : p.serverPublicKey.length = 32) :
    let K := Spec.K C (Spec.Sserver (ofLE A) (ofLE p.passwordVerifier)
                (Spec.u C (ofLE A) (ofLE p.serverPublicKey)) (ofLE p.serverPrivateKey))
    let M1s := Spec.M1 C Gen.largeSafePrimeLE 7 p.username.asRef p.salt A p.serverPublicKey K
    p.intoServer C be A M1 challenge =
      .ok (if M1 = M1s then .ok (⟨p.username, K, challenge⟩, Spec.M2 C A M1 K)
           else .error ⟨M1, M1s⟩) := by
  intro K M1s
  have h := SrpProof.intoServer_spec C hC be p A M1 challenge hA hB
  rw [calculateClientProof_spec C hx] at h
  exact h

/-- **API, client accepts**: `verify_server_proof` accepts exactly M2 = H(A | M1 | K) and then hands
    out the K computed by `SrpClientChallenge::new` as `session_key` -/
theorem C03_api_client_key (C : Crypto) (c : SrpClientChallenge) (M2 : Bytes) :
    c.verifyServerProof C M2 =
      if M2 = Spec.M2 C c.clientPublicKey c.clientProof c.sessionKey
      then .ok ⟨c.username, c.sessionKey⟩
      else .error ⟨Spec.M2 C c.clientPublicKey c.clientProof c.sessionKey, M2⟩ :=
  SrpClientChallenge.verifyServerProof_spec C c M2

/-- **C03 at the API**: all five statements together -/
theorem C03_api (C : Crypto) (hC : C.WF) (hx : C.XorHashOk) (be : Backend) :
    (∀ (u p : NStr) (salt : Bytes),
      SrpVerifier.fromUsernameAndPassword C be u p salt =
        .ok ⟨u, leN 32 (7 ^ Spec.x C u.asRef p.asRef salt % Spec.N), salt⟩) ∧
    (∀ (ver : SrpVerifier) (b : Bytes), Spec.B (ofLE ver.passwordVerifier) (ofLE b) ≠ 0 →
      ver.intoProof be b = .ok ⟨ver.username, leN 32 (Spec.B (ofLE ver.passwordVerifier) (ofLE b)),
        ver.salt, b, ver.passwordVerifier⟩) ∧
    (∀ (u p : NStr) (g : Nat) (nLE B salt a : Bytes), 0 < ofLE nLE → nLE.length = 32 →
      B.length = 32 → Spec.A g (ofLE a) (ofLE nLE) ≠ 0 →
      ∃ cc, SrpClientChallenge.new C be u p g nLE B salt a = .ok cc ∧
        cc.clientPublicKey = leN 32 (Spec.A g (ofLE a) (ofLE nLE)) ∧
        cc.sessionKey = Spec.K C (Spec.Sclient (ofLE B) (Spec.x C u.asRef p.asRef salt) (ofLE a)
            (Spec.u C (Spec.A g (ofLE a) (ofLE nLE)) (ofLE B)) g (ofLE nLE)) ∧
        cc.clientProof = Spec.M1 C nLE g u.asRef salt cc.clientPublicKey B cc.sessionKey) ∧
    (∀ (p : SrpProof) (A challenge : Bytes), A.length = 32 → p.serverPublicKey.length = 32 →
      ∃ K, K = Spec.K C (Spec.Sserver (ofLE A) (ofLE p.passwordVerifier)
                (Spec.u C (ofLE A) (ofLE p.serverPublicKey)) (ofLE p.serverPrivateKey)) ∧
        p.intoServer C be A
            (Spec.M1 C Gen.largeSafePrimeLE 7 p.username.asRef p.salt A p.serverPublicKey K) challenge =
          .ok (.ok (⟨p.username, K, challenge⟩,
            Spec.M2 C A (Spec.M1 C Gen.largeSafePrimeLE 7 p.username.asRef p.salt A p.serverPublicKey K) K))) ∧
    (∀ (c : SrpClientChallenge),
      c.verifyServerProof C (Spec.M2 C c.clientPublicKey c.clientProof c.sessionKey) =
        .ok ⟨c.username, c.sessionKey⟩) := by
  refine ⟨C03_api_verifier C be, ?_, ?_, ?_, ?_⟩
  · intro ver b hB
    rw [SrpVerifier.intoProof_spec]; exact if_neg hB
  · intro u p g nLE B salt a hN hl hB hA
    exact ⟨_, SrpClientChallenge.new_spec C hC be u p g nLE B salt a hN hl hB hA, rfl, rfl, rfl⟩
  · intro p A challenge hA hB
    refine ⟨_, rfl, ?_⟩
    have h := SrpProof.intoServer_spec C hC be p A
      (Spec.M1 C Gen.largeSafePrimeLE 7 p.username.asRef p.salt A p.serverPublicKey
        (Spec.K C (Spec.Sserver (ofLE A) (ofLE p.passwordVerifier)
          (Spec.u C (ofLE A) (ofLE p.serverPublicKey)) (ofLE p.serverPrivateKey)))) challenge hA hB
    rw [calculateClientProof_spec C hx, if_pos rfl] at h
    exact h
  · intro c
    rw [C03_api_client_key]; exact if_pos rfl

/-! ### announced PRIME groups: the side condition `g^a mod N' ≠ 0` discharged

`C03_api_client` takes `hA : g ^ a % N' ≠ 0`. The property quantifies over PRIME announced moduli; for
those the side condition is a statement about `g` alone. -/

/-- for a prime modulus that does not divide the generator, no power of the generator is `≡ 0`:
    `g^a mod N' ≠ 0` for EVERY private key `a` (a prime dividing a power divides the base) -/
theorem C03_hA_of_prime {N' g : Nat} (a : Nat) (hp : Nat.Prime N') (hg : ¬ N' ∣ g) :
    g ^ a % N' ≠ 0 :=
  fun h => hg (hp.dvd_of_dvd_pow (Nat.dvd_of_mod_eq_zero h))

/-- … exactly: for a prime modulus, `g^a mod N' = 0` iff the prime divides the generator and the
    private key is not zero (`g^0 = 1`) -/
theorem C03_hA_iff_of_prime {N' g : Nat} (a : Nat) (hp : Nat.Prime N') :
    g ^ a % N' = 0 ↔ (N' ∣ g ∧ a ≠ 0) := by
  constructor
  · intro h
    refine ⟨hp.dvd_of_dvd_pow (Nat.dvd_of_mod_eq_zero h), fun ha => ?_⟩
    subst ha
    rw [pow_zero, Nat.mod_eq_of_lt hp.one_lt] at h
    exact one_ne_zero h
  · rintro ⟨hd, ha⟩
    exact Nat.mod_eq_zero_of_dvd (dvd_trans hd (dvd_pow_self g ha))

/-- the property's generators: a generator `1 ≤ g < N'` (in particular every `g` in `2..255` against any
    prime modulus above 255 — every prime of more than one byte) is not divisible by `N'` -/
theorem C03_not_dvd_of_lt {N' g : Nat} (hg0 : 0 < g) (hlt : g < N') : ¬ N' ∣ g :=
  Nat.not_dvd_of_pos_of_lt hg0 hlt

/-- **API, client, any announced PRIME group** (`C03_api_client` with `hA` discharged): for EVERY
    announced 32-byte PRIME modulus N' and EVERY generator g that N' does not divide, every account,
    server key `B`, salt and drawn private key `a`, `SrpClientChallenge::new` does not panic and exposes
    A = g^a mod N' (32 bytes LE), K = SHA_Interleave(LE32(S)), S = (B − 3·g^x)^(a+u·x) mod N',
    u = H(A|B), x = H(salt|H(U:P)), M1 = H(H(N') xor H(g) | H(U) | salt | A | B | K) -/
theorem C03_api_client_prime (C : Crypto) (hC : C.WF) (be : Backend) (u p : NStr) (g : Nat)
    (nLE B salt a : Bytes) (hl : nLE.length = 32) (hB : B.length = 32)
    (hprime : Nat.Prime (ofLE nLE) ∧ ¬ ofLE nLE ∣ g) :
    let A := g ^ ofLE a % ofLE nLE
    let x := Spec.x C u.asRef p.asRef salt
    let K := Spec.K C (Spec.Sclient (ofLE B) x (ofLE a) (Spec.u C A (ofLE B)) g (ofLE nLE))
    SrpClientChallenge.new C be u p g nLE B salt a =
      .ok ⟨u, Spec.M1 C nLE g u.asRef salt (leN 32 A) B K, leN 32 A, K⟩ :=
  C03_api_client C hC be u p g nLE B salt a hprime.1.pos hl hB (C03_hA_of_prime _ hprime.1 hprime.2)

/-- the same with the property's generator range: `1 ≤ g < N'` (e.g. `g ∈ 2..255`, `N'` a prime of more
    than one byte) -/
theorem C03_api_client_prime_small_g (C : Crypto) (hC : C.WF) (be : Backend) (u p : NStr) (g : Nat)
    (nLE B salt a : Bytes) (hl : nLE.length = 32) (hB : B.length = 32)
    (hprime : Nat.Prime (ofLE nLE)) (hg0 : 0 < g) (hg : g < ofLE nLE) :
    let A := g ^ ofLE a % ofLE nLE
    let x := Spec.x C u.asRef p.asRef salt
    let K := Spec.K C (Spec.Sclient (ofLE B) x (ofLE a) (Spec.u C A (ofLE B)) g (ofLE nLE))
    SrpClientChallenge.new C be u p g nLE B salt a =
      .ok ⟨u, Spec.M1 C nLE g u.asRef salt (leN 32 A) B K, leN 32 A, K⟩ :=
  C03_api_client_prime C hC be u p g nLE B salt a hl hB ⟨hprime, C03_not_dvd_of_lt hg0 hg⟩

/-- **the complementary case** (re-export of `C04_client_self`, `Props/C04.lean`): an announced prime
    that DIVIDES the generator makes `SrpClientChallenge::new` hit the documented panic
    "Invalid public key generated for client" for every non-zero private-key draw (`A = g^a mod N' = 0`),
    and only then: for a prime modulus the constructor panics iff `N' ∣ g ∧ a ≠ 0`. So the hypothesis
    `¬ N' ∣ g` of `C03_api_client_prime` is exactly what separates byte-exact output from the panic. -/
theorem C03_api_client_prime_dvd_panics (C : Crypto) (hC : C.WF) (be : Backend) (u p : NStr) (g : Nat)
    (nLE B salt a : Bytes) (hl : nLE.length = 32) (hprime : Nat.Prime (ofLE nLE)) :
    ((∃ site, SrpClientChallenge.new C be u p g nLE B salt a = .panic site) ↔
      (ofLE nLE ∣ g ∧ ofLE a ≠ 0)) ∧
    (ofLE nLE ∣ g → ofLE a ≠ 0 →
      SrpClientChallenge.new C be u p g nLE B salt a =
        .panic "client.rs:190 Invalid public key generated for client") := by
  obtain ⟨h1, h2, _⟩ := C04_client_self C hC be u p g nLE B salt a hl hprime.pos
  exact ⟨h1.trans (C03_hA_iff_of_prime _ hprime), fun hd ha =>
    h2 ((C03_hA_iff_of_prime _ hprime).2 ⟨hd, ha⟩)⟩

/-- non-vacuity: the built-in prime with `g = 7`, and the announced prime `2^255 − 19` with `g = 5`,
    meet the hypotheses of `C03_api_client_prime_small_g`; the prime 7 (as a 32-byte modulus) divides the
    generator 7, the complementary case -/
example : Nat.Prime (ofLE Gen.largeSafePrimeLE) ∧ Gen.largeSafePrimeLE.length = 32 ∧
    0 < 7 ∧ 7 < ofLE Gen.largeSafePrimeLE :=
  ⟨nBig_prime, by decide, by decide, by decide +kernel⟩
example : Nat.Prime (ofLE (7 :: List.replicate 31 0)) ∧ ofLE (7 :: List.replicate 31 0) ∣ 7 ∧
    ofLE [1] ≠ 0 := by
  refine ⟨?_, ?_, by decide⟩
  · have : ofLE (7 :: List.replicate 31 0) = 7 := by decide
    rw [this]; norm_num
  · decide

#print axioms C03_hA_of_prime
#print axioms C03_hA_iff_of_prime
#print axioms C03_not_dvd_of_lt
#print axioms C03_api_client_prime
#print axioms C03_api_client_prime_small_g
#print axioms C03_api_client_prime_dvd_panics

end WowSrp
