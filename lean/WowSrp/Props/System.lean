/-
System — the per-property theorems composed into statements about a whole connection:

  an honest client and server that complete the login (C01), then the world login (C06), hold header
  crypto objects built from the same session key and can exchange headers in both directions for as
  long as they like (C07 / C08 / C09 / C10 / C12), for each of the three expansions; and the client can
  reconnect any number of times (C05).

The glue the composition adds over the single properties:
* the session key the login produces is always 40 bytes long (`C01_login_agrees`) — exactly the
  hypothesis the Vanilla cipher needs (`C07_roundtrip`); for TBC only `C.WF` is needed, for Wrath nothing;
* the `SrpServer` / `SrpClient` values inside `runLogin` carry the same username text and session key
  (`System_login_objects`, by structural inversion of `runLogin`) — exactly the hypotheses of
  `C05_legit_run` and of `C06_pairing`.

All theorems are for an arbitrary `C : Crypto` (`C.WF`, `C.XorHashOk` as in C01); no property of any hash
function is assumed. All eight property modules import into one environment without a name clash.
-/
import WowSrp.Lemmas.System
import WowSrp.Props.C01
import WowSrp.Props.C05
import WowSrp.Props.C06
import WowSrp.Props.C07
import WowSrp.Props.C08
import WowSrp.Props.C09
import WowSrp.Props.C10
import WowSrp.Props.C12
namespace WowSrp

/-! ## 1. login, then world login -/

/-- **the objects the login leaves behind.** Under the hypotheses of `C01_login_agrees` (credentials
    accepted by `NormalizedString::new`, typed by the client in any letter case, `B ≠ 0 mod N` — the
    documented `into_proof` panic) `runLogin` succeeds with one 40-byte key `K` on both sides, and the
    values *inside* that run are: an `SrpProof` and an `SrpClientChallenge` such that `into_server`
    accepted the client's M1 and handed out `SrpServer { username: U, session_key: K,
    reconnect_challenge_data: challenge }`, and `verify_server_proof` accepted M2 and handed out
    `SrpClient { username: U, session_key: K }` — the same normalised username `U` and the same `K`. -/
theorem System_login_objects (C : Crypto) (hC : C.WF) (hx : C.XorHashOk) (be : Backend)
    (us ps uc pc : List Char) (viaStorage : Bool) (salt b a challenge : Bytes) (U P : NStr)
    (hU : NStr.new us = .ok U) (hP : NStr.new ps = .ok P)
    (hu : SameUpToLetterCase us uc) (hp : SameUpToLetterCase ps pc)
    (hB : (3 * (7 ^ Spec.x C U.asRef P.asRef salt % Spec.N) + 7 ^ ofLE b % Spec.N) % Spec.N ≠ 0) :
    ∃ (K A B M1 M2 vbytes : Bytes) (proof : SrpProof) (cc : SrpClientChallenge)
      (srv : SrpServer) (cl : SrpClient),
      runLogin C be us ps uc pc viaStorage salt b a challenge = .ok K K A B M1 M2 vbytes ∧
      K.length = 40 ∧
      proof.intoServer C be A M1 challenge = .ok (.ok (srv, M2)) ∧
      cc.verifyServerProof C M2 = .ok cl ∧
      srv = ⟨U, K, challenge⟩ ∧ cl = ⟨U, K⟩ := by
  obtain ⟨K, A, B, M1, M2, vbytes, hrun, hlen⟩ :=
    C01_login_agrees C hC hx be us ps uc pc viaStorage salt b a challenge U P hU hP hu hp hB
  obtain ⟨US, PS, UC, PC, ver0, ver, proof, cc, srv, cl, hUS, hPS, hUC, hPC, hver0, hver, hproof, _,
    hcc, _, hsrv, hcl, hKs, hKc, hM1, _⟩ :=
    runLogin_ok_inv C be us ps uc pc viaStorage salt b a challenge K K A B M1 M2 vbytes hrun
  -- the normalised strings
  have e1 : U = US := by rw [hU] at hUS; injection hUS with h
  have e3 : U = UC := by
    rw [← C01_case_invariant us uc hu, hU] at hUC; injection hUC with h
  subst e1 e3
  -- the stored record keeps the username, also through storage
  have hv0 : ver0.username = U := by
    rw [SrpVerifier.fromUsernameAndPassword_spec] at hver0
    injection hver0 with h; rw [← h]
  have hvu : ver.username = U := by
    cases viaStorage with
    | false => simp only [Bool.false_eq_true, if_false] at hver; rw [hver, hv0]
    | true =>
      simp only [if_true] at hver
      obtain ⟨U', hU', hv⟩ := hver
      rw [hv0, NStr.new_bytesToChars_asRef us U hU] at hU'
      injection hU' with h
      rw [hv, ← h]; rfl
  have hpu := (SrpVerifier.intoProof_fields be ver b proof hproof).1
  obtain ⟨hsu, hsc⟩ := SrpProof.intoServer_fields C be proof A cc.clientProof challenge M2 srv hsrv
  have hcu := SrpClientChallenge.new_username C be U PC gBig Gen.largeSafePrimeLE B proof.salt a cc hcc
  obtain ⟨hlu, hlk⟩ := SrpClientChallenge.verifyServerProof_fields C cc M2 cl hcl
  refine ⟨K, A, B, M1, M2, vbytes, proof, cc, srv, cl, hrun, hlen, by rw [hM1]; exact hsrv, hcl, ?_, ?_⟩
  · cases srv
    simp only at hsu hsc hKs
    rw [hsu, hpu, hvu, hsc, ← hKs]
  · cases cl
    simp only at hlu hKc
    rw [hlu, hcu, ← hKc]

/-- **login, then world login** (all three expansions). Under the hypotheses of `C01_login_agrees`
    the login ends with one 40-byte session key `K` on both sides. Then for all `u32` seeds `cs`
    (client) and `ss` (server), with that same `K` and the normalised username `U`:
    * Vanilla and TBC: the proof `into_client_header_crypto` computes is accepted by
      `into_server_header_crypto`, and both sides obtain `HeaderCrypto::new(K)`;
    * Wrath: neither call panics, the client's proof is accepted, and the two sides obtain
      `ClientCrypto::new(K)` and `ServerCrypto::new(K)`. -/
theorem System_login_then_world (C : Crypto) (hC : C.WF) (hx : C.XorHashOk) (be : Backend)
    (us ps uc pc : List Char) (viaStorage : Bool) (salt b a challenge : Bytes) (U P : NStr)
    (hU : NStr.new us = .ok U) (hP : NStr.new ps = .ok P)
    (hu : SameUpToLetterCase us uc) (hp : SameUpToLetterCase ps pc)
    (hB : (3 * (7 ^ Spec.x C U.asRef P.asRef salt % Spec.N) + 7 ^ ofLE b % Spec.N) % Spec.N ≠ 0) :
    ∃ K A B M1 M2 vbytes,
      runLogin C be us ps uc pc viaStorage salt b a challenge = .ok K K A B M1 M2 vbytes ∧
      K.length = 40 ∧
      ∀ cs ss : Nat, cs < 2 ^ 32 → ss < 2 ^ 32 →
        (∀ e : Exp,
          ProofSeed.intoServerHeaderCrypto C e ss U K
            (ProofSeed.intoClientHeaderCrypto C e cs U K ss).1 cs = .ok (HeaderCrypto.new C e K) ∧
          (ProofSeed.intoClientHeaderCrypto C e cs U K ss).2 = HeaderCrypto.new C e K) ∧
        (∃ proof cc sc, ProofSeed.wrathIntoClient C cs U K ss = .ok (proof, cc) ∧
          ProofSeed.wrathIntoServer C ss U K proof cs = .ok (.ok sc) ∧
          WClientCrypto.new C K = .ok cc ∧ WServerCrypto.new C K = .ok sc) := by
  obtain ⟨K, A, B, M1, M2, vbytes, hrun, hlen⟩ :=
    C01_login_agrees C hC hx be us ps uc pc viaStorage salt b a challenge U P hU hP hu hp hB
  exact ⟨K, A, B, M1, M2, vbytes, hrun, hlen, fun cs ss _ _ =>
    ⟨fun e => ⟨C06_pairing C e cs ss U K, rfl⟩, C06_pairing_wrath C cs ss U K⟩⟩

/-! ## 2. headers in both directions, forever -/

/-- **one direction of a Vanilla / TBC connection works forever.** `snd` is the combined object of
    the sending side, `rcv` that of the receiving side. For every stream of bytes, every partition of
    it into `HeaderCrypto::encrypt` calls on the sender and every (independent) partition of the
    ciphertext into `HeaderCrypto::decrypt` calls on the receiver:
    * the sender does not panic and emits as many bytes as it was given; its *decrypting* half is
      untouched (so the opposite direction is not disturbed);
    * the receiver does not panic and recovers exactly the sender's bytes; its *encrypting* half is
      untouched; and its decrypting half ends in the very state of the sender's encrypting half — so
      whatever is sent next is recovered as well. -/
def HeadersFlow (e : Exp) (snd rcv : HeaderCrypto) : Prop :=
  ∀ sendChunks recvChunks : List Bytes,
    ∃ snd' cipher, runChunks (HeaderCrypto.encryptData e) snd sendChunks = .ok (snd', cipher) ∧
      cipher.length = sendChunks.flatten.length ∧ snd'.decrypt = snd.decrypt ∧
      (recvChunks.flatten = cipher →
        ∃ rcv', runChunks (HeaderCrypto.decryptData e) rcv recvChunks = .ok (rcv', sendChunks.flatten) ∧
          rcv'.encrypt = rcv.encrypt ∧ rcv'.decrypt = snd'.encrypt)

/-- **a Vanilla / TBC connection is full duplex.** The client runs any history `opsC` and the server
    any history `opsS` over {encrypt a chunk, decrypt a chunk, split, clone, unsplit} (C12), interleaved
    in any way. Neither side panics — whatever bytes it is handed to decrypt. If the server decrypts
    what the client emitted (in any chunking, at any points of its own history) it reads exactly the
    bytes the client encrypted, and its decrypting half ends in the state of the client's encrypting
    half; likewise server → client. Neither direction depends on the other. -/
def HeadersDuplex (e : Exp) (cl sv : HeaderCrypto) : Prop :=
  ∀ opsC opsS : List Op,
    ∃ oC oS eoC doC eoS doS,
      runOps e (.comb cl) opsC = .ok (oC, eoC, doC) ∧ runOps e (.comb sv) opsS = .ok (oS, eoS, doS) ∧
      (decChunks opsS = eoC → doS = encChunks opsC ∧ oS.decHalf = oC.encHalf) ∧
      (decChunks opsC = eoS → doC = encChunks opsS ∧ oC.decHalf = oS.encHalf)

/-- helper: what both expansions need from their cipher — the fresh encrypter and decrypter are total,
    and the fresh pair round-trips (C07 / C08) -/
structure FreshPairOk (C : Crypto) (e : Exp) (K : Bytes) : Prop where
  encTotal : ∀ xs, ∃ h' out, (Half.newEnc C e K).encrypt e xs = .ok (h', out)
  decTotal : ∀ xs, ∃ h' out, (Half.newDec C e K).decrypt e xs = .ok (h', out)
  roundtrip : ∀ (sendChunks recvChunks : List Bytes) (cipher : Bytes) (e' : Half),
    runChunks (Half.encrypt e) (Half.newEnc C e K) sendChunks = .ok (e', cipher) →
    recvChunks.flatten = cipher →
    ∃ d', runChunks (Half.decrypt e) (Half.newDec C e K) recvChunks = .ok (d', sendChunks.flatten) ∧
      d'.key = e'.key ∧ d'.index = e'.index ∧ d'.prev = e'.prev

theorem FreshPairOk.vanilla (C : Crypto) (K : Bytes) (hK : K.length = 40) : FreshPairOk C .vanilla K where
  encTotal xs := by
    obtain ⟨h', h1, _⟩ := C07_recurrence C K xs hK
    exact ⟨h', _, h1⟩
  decTotal xs := by
    have hd : Exp.vanilla.decMod = 40 := by decide
    obtain ⟨h', h1, _⟩ := decrypt_spec 40 (Half.newDec C .vanilla K) xs 0 (C07_fresh_inv C K hK).2
      (by simp [Half.newDec, hK]) (by simp [Half.newDec])
    exact ⟨h', _, by simp only [Half.decrypt, hd]; exact h1⟩
  roundtrip := C07_roundtrip C K hK

theorem FreshPairOk.tbc (C : Crypto) (hC : C.WF) (K : Bytes) : FreshPairOk C .tbc K where
  encTotal xs := by
    obtain ⟨h', h1, _⟩ := C08_recurrence C hC K xs
    exact ⟨h', _, h1⟩
  decTotal xs := by
    have hd : Exp.tbc.decMod = 20 := by decide
    obtain ⟨h', h1, _⟩ := decrypt_spec 20 (Half.newDec C .tbc K) xs 0 (C08_fresh_inv C hC K).2
      (by simp [Half.newDec, hC.hmac_len]) (by simp [Half.newDec])
    exact ⟨h', _, by simp only [Half.decrypt, hd]; exact h1⟩
  roundtrip := C08_roundtrip C hC K

/-- helper: one direction between two fresh combined objects for the same session key -/
theorem HeadersFlow.of_fresh (C : Crypto) (e : Exp) (K : Bytes) (hok : FreshPairOk C e K)
    (snd rcv : HeaderCrypto) (hs : snd = HeaderCrypto.new C e K) (hr : rcv = HeaderCrypto.new C e K) :
    HeadersFlow e snd rcv := by
  subst hs hr
  intro sendChunks recvChunks
  obtain ⟨e', cipher, hsend⟩ := hok.encTotal sendChunks.flatten
  have hlen : cipher.length = sendChunks.flatten.length := runSteps_length _ _ _ _ _ hsend
  have hchunk : runChunks (Half.encrypt e) (Half.newEnc C e K) sendChunks = .ok (e', cipher) := by
    rw [← hsend]; exact runChunks_flatten _ _ _
  refine ⟨{ HeaderCrypto.new C e K with encrypt := e' }, cipher, ?_, hlen, rfl, ?_⟩
  · rw [HeaderCrypto.runChunks_encryptData]
    show (match runChunks (Half.encrypt e) (Half.newEnc C e K) sendChunks with
      | .ok (h', o) => Out.ok ({ HeaderCrypto.new C e K with encrypt := h' }, o)
      | .panic p => .panic p) = _
    rw [hchunk]
  · intro hpart
    obtain ⟨d', hrecv, hk, hi, hp⟩ := hok.roundtrip sendChunks recvChunks cipher e' hchunk hpart
    refine ⟨{ HeaderCrypto.new C e K with decrypt := d' }, ?_, rfl, Half.ext' _ _ hk hi hp⟩
    rw [HeaderCrypto.runChunks_decryptData]
    show (match runChunks (Half.decrypt e) (Half.newDec C e K) recvChunks with
      | .ok (h', o) => Out.ok ({ HeaderCrypto.new C e K with decrypt := h' }, o)
      | .panic p => .panic p) = _
    rw [hrecv]

/-- helper: full duplex between two fresh combined objects for the same session key -/
theorem HeadersDuplex.of_fresh (C : Crypto) (e : Exp) (K : Bytes) (hok : FreshPairOk C e K)
    (cl sv : HeaderCrypto) (hc : cl = HeaderCrypto.new C e K) (hs : sv = HeaderCrypto.new C e K) :
    HeadersDuplex e cl sv := by
  subst hc hs
  intro opsC opsS
  obtain ⟨enC, eoC, hEC⟩ := hok.encTotal (encChunks opsC)
  obtain ⟨deC, doC, hDC⟩ := hok.decTotal (decChunks opsC)
  obtain ⟨enS, eoS, hES⟩ := hok.encTotal (encChunks opsS)
  obtain ⟨deS, doS, hDS⟩ := hok.decTotal (decChunks opsS)
  obtain ⟨oC, hrunC, hoC1, hoC2⟩ :=
    (C12_interleaving_fresh C e K opsC eoC doC enC deC).mpr ⟨hEC, hDC⟩
  obtain ⟨oS, hrunS, hoS1, hoS2⟩ :=
    (C12_interleaving_fresh C e K opsS eoS doS enS deS).mpr ⟨hES, hDS⟩
  -- a whole direction as a one-call partition on either side
  have one : ∀ (xs cs : Bytes) (en de : Half) (out : Bytes),
      (Half.newEnc C e K).encrypt e xs = .ok (en, cs) →
      (Half.newDec C e K).decrypt e cs = .ok (de, out) → out = xs ∧ de = en := by
    intro xs cs en de out h1 h2
    obtain ⟨d', hrecv, hk, hi, hp⟩ := hok.roundtrip [xs] [cs] cs en
      (by rw [runChunks_single, h1]) (by simp)
    rw [runChunks_single, h2] at hrecv
    simp only [List.flatten_cons, List.flatten_nil, List.append_nil, Out.ok.injEq, Prod.mk.injEq] at hrecv
    obtain ⟨r1, r2⟩ := hrecv
    subst r1
    exact ⟨r2, Half.ext' _ _ hk hi hp⟩
  refine ⟨oC, oS, eoC, doC, eoS, doS, hrunC, hrunS, ?_, ?_⟩
  · intro hwire
    rw [hwire] at hDS
    obtain ⟨r1, r2⟩ := one _ _ _ _ _ hEC hDS
    exact ⟨r1, by rw [hoS2, hoC1, r2]⟩
  · intro hwire
    rw [hwire] at hDC
    obtain ⟨r1, r2⟩ := one _ _ _ _ _ hES hDC
    exact ⟨r1, by rw [hoC2, hoS1, r2]⟩

/-- **Vanilla headers round-trip in both directions, forever.** `cl` and `sv` are the objects the
    world login hands to client and server (`HeaderCrypto::new(K)` on both sides, by
    `System_login_then_world`), `K` 40 bytes long — which is what the login guarantees. Then client →
    server and server → client both work for every stream and every pair of partitions into calls
    (`HeadersFlow`), neither direction touches the other's half, and the same holds for every
    interleaving of encrypt / decrypt / split / clone / unsplit on the two sides (`HeadersDuplex`). -/
theorem System_headers_roundtrip_vanilla (C : Crypto) (K : Bytes) (hK : K.length = 40)
    (cl sv : HeaderCrypto)
    (hcl : cl = HeaderCrypto.new C .vanilla K) (hsv : sv = HeaderCrypto.new C .vanilla K) :
    HeadersFlow .vanilla cl sv ∧ HeadersFlow .vanilla sv cl ∧ HeadersDuplex .vanilla cl sv :=
  have hok := FreshPairOk.vanilla C K hK
  ⟨.of_fresh C _ K hok cl sv hcl hsv, .of_fresh C _ K hok sv cl hsv hcl, .of_fresh C _ K hok cl sv hcl hsv⟩

/-- **TBC headers round-trip in both directions, forever** — for every session key (of any length);
    only the 20-byte output length of HMAC-SHA1 is used (`C.WF`). -/
theorem System_headers_roundtrip_tbc (C : Crypto) (hC : C.WF) (K : Bytes)
    (cl sv : HeaderCrypto)
    (hcl : cl = HeaderCrypto.new C .tbc K) (hsv : sv = HeaderCrypto.new C .tbc K) :
    HeadersFlow .tbc cl sv ∧ HeadersFlow .tbc sv cl ∧ HeadersDuplex .tbc cl sv :=
  have hok := FreshPairOk.tbc C hC K
  ⟨.of_fresh C _ K hok cl sv hcl hsv, .of_fresh C _ K hok sv cl hsv hcl, .of_fresh C _ K hok cl sv hcl hsv⟩

/-- **Wrath, client → server, forever**: for every stream, every partition into
    `ClientEncrypterHalf::encrypt` calls and every (independent) partition of the ciphertext into
    `ServerDecrypterHalf::decrypt` calls, neither side panics, the server recovers exactly the client's
    bytes, and the two RC4 states are equal again afterwards -/
def WrathFlowC2S (cc : WClientCrypto) (sc : WServerCrypto) : Prop :=
  ∀ sendChunks recvChunks : List Bytes,
    ∃ e' cipher, runChunks Rc4.apply cc.encrypt sendChunks = .ok (e', cipher) ∧
      cipher.length = sendChunks.flatten.length ∧
      (recvChunks.flatten = cipher →
        runChunks Rc4.apply sc.decrypt recvChunks = .ok (e', sendChunks.flatten))

/-- **Wrath, server → client, forever**: the same through `ServerEncrypterHalf::encrypt` /
    `ClientDecrypterHalf::decrypt` (which carry a header buffer next to the RC4 state and leave it alone) -/
def WrathFlowS2C (sc : WServerCrypto) (cc : WClientCrypto) : Prop :=
  ∀ sendChunks recvChunks : List Bytes,
    ∃ s' cipher, runChunks WServerEnc.encrypt sc.encrypt sendChunks = .ok (s', cipher) ∧
      cipher.length = sendChunks.flatten.length ∧
      (recvChunks.flatten = cipher →
        ∃ c', runChunks WClientDec.decrypt cc.decrypt recvChunks = .ok (c', sendChunks.flatten) ∧
          c'.rc4 = s'.rc4 ∧ c'.header = cc.decrypt.header ∧ s'.serverHeader = sc.encrypt.serverHeader)

/-- **a Wrath connection is full duplex**: any history of {encrypt chunk, decrypt chunk, …} on the
    client's pair and any history on the server's pair; neither panics; each side reads exactly what
    the other wrote, whatever the interleaving and chunking, and the RC4 states of each direction
    agree afterwards -/
def WrathDuplex (cc : WClientCrypto) (sc : WServerCrypto) : Prop :=
  ∀ opsC opsS : List Op,
    ∃ cc' sc' eoC doC eoS doS,
      opsRun wClientStep cc opsC = .ok (cc', eoC, doC) ∧ opsRun wServerStep sc opsS = .ok (sc', eoS, doS) ∧
      (decChunks opsS = eoC → doS = encChunks opsC ∧ sc'.decrypt = cc'.encrypt) ∧
      (decChunks opsC = eoS → doC = encChunks opsS ∧ cc'.decrypt.rc4 = sc'.encrypt.rc4)

/-- **Wrath headers round-trip in both directions, forever.** `cc` and `sc` are the objects the Wrath
    world login hands out (`ClientCrypto::new(K)`, `ServerCrypto::new(K)`, by
    `System_login_then_world`); every `Crypto`, every session key, no further hypothesis. -/
theorem System_headers_roundtrip_wrath (C : Crypto) (K : Bytes) (cc : WClientCrypto) (sc : WServerCrypto)
    (hcc : WClientCrypto.new C K = .ok cc) (hsc : WServerCrypto.new C K = .ok sc) :
    WrathFlowC2S cc sc ∧ WrathFlowS2C sc cc ∧ WrathDuplex cc sc := by
  obtain ⟨hcd, hce⟩ := WClientCrypto.new_fields C K cc hcc
  obtain ⟨hsd, hse⟩ := WServerCrypto.new_fields C K sc hsc
  refine ⟨?_, ?_, ?_⟩
  · intro sendChunks recvChunks
    obtain ⟨en, d, he, hd, _, e', cipher, h1, h2, h3⟩ := C09_roundtrip_c2s C K sendChunks recvChunks
    rw [hce] at he; rw [hsd] at hd
    injection he with he; injection hd with hd
    subst he hd
    exact ⟨e', cipher, h1, h2, h3⟩
  · intro sendChunks recvChunks
    obtain ⟨s, c, hs, hc, _, s', cipher, h1, h2, h3⟩ := C09_roundtrip_s2c C K sendChunks recvChunks
    rw [hse] at hs; rw [hcd] at hc
    injection hs with hs; injection hc with hc
    subst hs hc
    exact ⟨s', cipher, h1, h2, h3⟩
  · intro opsC opsS
    obtain ⟨r1, hr1e, hr1d, inv1⟩ := wrath_pair_c2s C K
    obtain ⟨r2, inv2, hr2e, hr2d⟩ := wrath_pair_s2c C K
    rw [hce] at hr1e; rw [hsd] at hr1d; rw [hse] at hr2e; rw [hcd] at hr2d
    injection hr1e with hr1e; injection hr1d with hr1d
    injection hr2e with hr2e; injection hr2d with hr2d
    have g1 : cc.decrypt.rc4 = r2 := by rw [hr2d]
    have g2 : sc.encrypt.rc4 = r2 := by rw [hr2e]
    obtain ⟨reC, eoC, hEC, _, _⟩ := C09_no_panic r1 inv1 (encChunks opsC)
    obtain ⟨rdC, doC, hDC, _, _⟩ := C09_no_panic r2 inv2 (decChunks opsC)
    obtain ⟨reS, eoS, hES, _, _⟩ := C09_no_panic r2 inv2 (encChunks opsS)
    obtain ⟨rdS, doS, hDS, _, _⟩ := C09_no_panic r1 inv1 (decChunks opsS)
    obtain ⟨cc', hrunC, hc1, hc2⟩ := (C12_interleaving_wrath_client cc opsC eoC doC reC rdC).mpr
      ⟨by rw [hr1e]; exact hEC, by rw [g1]; exact hDC⟩
    obtain ⟨sc', hrunS, hs1, hs2⟩ := (C12_interleaving_wrath_server sc opsS eoS doS reS rdS).mpr
      ⟨by rw [g2]; exact hES, by rw [hr1d]; exact hDS⟩
    refine ⟨cc', sc', eoC, doC, eoS, doS, hrunC, hrunS, ?_, ?_⟩
    · intro hwire
      rw [hwire, C09_involution r1 reC _ _ hEC] at hDS
      simp only [Out.ok.injEq, Prod.mk.injEq] at hDS
      exact ⟨hDS.2.symm, by rw [hs2, hc1, hDS.1]⟩
    · intro hwire
      rw [hwire, C09_involution r2 reS _ _ hES] at hDC
      simp only [Out.ok.injEq, Prod.mk.injEq] at hDC
      exact ⟨hDC.2.symm, by rw [hc2, hs1, hDC.1]⟩

/-- the two directions share nothing (quoted from C12 for the objects above): a call on one half of a
    pair returns a pair whose other half is the old one — Vanilla/TBC facade and both Wrath pairs -/
theorem System_directions_independent (e : Exp) (hc hc' : HeaderCrypto) :
    ((∀ d out, hc.encryptData e d = .ok (hc', out) → hc'.decrypt = hc.decrypt) ∧
     (∀ d out, hc.decryptData e d = .ok (hc', out) → hc'.encrypt = hc.encrypt)) ∧
    ((∀ (c c' : WClientCrypto) d eo dout, wClientStep c (.enc d) = .ok (c', eo, dout) → c'.decrypt = c.decrypt) ∧
     (∀ (c c' : WClientCrypto) d eo dout, wClientStep c (.dec d) = .ok (c', eo, dout) → c'.encrypt = c.encrypt) ∧
     (∀ (c c' : WServerCrypto) d eo dout, wServerStep c (.enc d) = .ok (c', eo, dout) → c'.decrypt = c.decrypt) ∧
     (∀ (c c' : WServerCrypto) d eo dout, wServerStep c (.dec d) = .ok (c', eo, dout) → c'.encrypt = c.encrypt)) :=
  ⟨⟨(C12_no_shared_state e hc hc').1, (C12_no_shared_state e hc hc').2.2.2.1⟩, C12_no_shared_state_wrath⟩

/-! ## 3. Wrath server headers -/

/-- **every list of Wrath server headers arrives.** Over the Wrath objects of the world login
    (`ClientCrypto::new(K)`, `ServerCrypto::new(K)`): for every finite list of headers (size ≤ 0x7FFFFF —
    the 23 bits the wire format carries —, opcode < 65536; 4-byte and 5-byte headers mixed in any
    order) the server's `encrypt_server_header` emits them all without panic, and the client decodes
    the concatenated output to exactly that list through `read_and_decrypt_server_header` as well as
    through `attempt_decrypt_server_header` + `decrypt_large_server_header`; nothing is left unread,
    both paths end in the same client state, and client RC4 = server RC4 afterwards. -/
theorem System_wrath_server_headers (C : Crypto) (K : Bytes) (cc : WClientCrypto) (sc : WServerCrypto)
    (hcc : WClientCrypto.new C K = .ok cc) (hsc : WServerCrypto.new C K = .ok sc)
    (hdrs : List (Nat × Nat)) (hb : ∀ h ∈ hdrs, h.1 ≤ 0x7FFFFF ∧ h.2 < 65536) :
    ∃ s' wire c', serverEmitAll sc.encrypt hdrs = .ok (s', wire) ∧ c'.rc4 = s'.rc4 ∧
      clientReadAll hdrs.length cc.decrypt (dataScript wire []) = .ok (c', hdrs, []) ∧
      clientTwoStepAll hdrs.length cc.decrypt wire = .ok (c', hdrs, []) := by
  obtain ⟨hcd, _⟩ := WClientCrypto.new_fields C K cc hcc
  obtain ⟨_, hse⟩ := WServerCrypto.new_fields C K sc hsc
  obtain ⟨s, c, s', wire, c', hs, hc, h1, h2, h3, h4⟩ := C10_sequence_fresh C K hdrs hb
  rw [hse] at hs; rw [hcd] at hc
  injection hs with hs; injection hc with hc
  subst hs hc
  exact ⟨s', wire, c', h1, h2, h3, h4⟩

/-! ## 4. reconnect -/

/-- **after the login the client can reconnect any number of times.** Under the hypotheses of
    `C01_login_agrees`, let `srv` and `cl` be the `SrpServer` and `SrpClient` the login produced
    (`System_login_objects`). After *any* earlier history `earlier` of reconnect attempts against `srv`
    (by anyone, accepted or refused), every run of honest reconnects — the client answers the
    challenge on offer with client challenge bytes of its own choice, the server draws a new challenge
    after each attempt — is accepted every time. -/
theorem System_reconnect (C : Crypto) (hC : C.WF) (hx : C.XorHashOk) (be : Backend)
    (us ps uc pc : List Char) (viaStorage : Bool) (salt b a challenge : Bytes) (U P : NStr)
    (hU : NStr.new us = .ok U) (hP : NStr.new ps = .ok P)
    (hu : SameUpToLetterCase us uc) (hp : SameUpToLetterCase ps pc)
    (hB : (3 * (7 ^ Spec.x C U.asRef P.asRef salt % Spec.N) + 7 ^ ofLE b % Spec.N) % Spec.N ≠ 0) :
    ∃ (K A B M1 M2 vbytes : Bytes) (proof : SrpProof) (cc : SrpClientChallenge)
      (srv : SrpServer) (cl : SrpClient),
      runLogin C be us ps uc pc viaStorage salt b a challenge = .ok K K A B M1 M2 vbytes ∧
      proof.intoServer C be A M1 challenge = .ok (.ok (srv, M2)) ∧
      cc.verifyServerProof C M2 = .ok cl ∧
      cl.username.asRef = srv.username.asRef ∧ cl.sessionKey = srv.sessionKey ∧
      srv.reconnectChallengeData = challenge ∧
      ∀ (earlier : List Attempt) (rounds : List (Bytes × Bytes)),
        runHistory C (stateAfter C srv earlier)
          (List.zipWith (fun (r : Bytes × Bytes) (ch : Bytes) =>
              ((cl.calculateReconnectValues C ch r.1).1, (cl.calculateReconnectValues C ch r.1).2, r.2))
            rounds ((stateAfter C srv earlier).reconnectChallengeData :: rounds.map (·.2)))
          = List.replicate rounds.length true := by
  obtain ⟨K, A, B, M1, M2, vbytes, proof, cc, srv, cl, hrun, _, hsrv, hcl, es, ec⟩ :=
    System_login_objects C hC hx be us ps uc pc viaStorage salt b a challenge U P hU hP hu hp hB
  refine ⟨K, A, B, M1, M2, vbytes, proof, cc, srv, cl, hrun, hsrv, hcl, by rw [es, ec], by rw [es, ec],
    by rw [es], ?_⟩
  intro earlier rounds
  have hst := C05_state_after C srv earlier
  exact C05_legit_run C srv cl (by rw [es, ec]) (by rw [es, ec]) rounds (stateAfter C srv earlier)
    (by rw [hst]) (by rw [hst])

/-! ## the whole connection -/

/-- **the whole connection, all three expansions.** Under the hypotheses of `C01_login_agrees`:
    the login succeeds with one 40-byte session key `K`; then for all `u32` seeds
    * for Vanilla and for TBC the world login succeeds (the client's proof is accepted) and hands the
      two sides objects between which headers flow client → server and server → client forever, in
      any chunking and any interleaving of the two directions;
    * for Wrath the world login succeeds without panic and hands the two sides pairs between which
      bytes flow in both directions forever, and every list of server headers (size ≤ 0x7FFFFF,
      opcode < 65536) the server emits is decoded to exactly that list by the client, through either
      client path. -/
theorem System_connection (C : Crypto) (hC : C.WF) (hx : C.XorHashOk) (be : Backend)
    (us ps uc pc : List Char) (viaStorage : Bool) (salt b a challenge : Bytes) (U P : NStr)
    (hU : NStr.new us = .ok U) (hP : NStr.new ps = .ok P)
    (hu : SameUpToLetterCase us uc) (hp : SameUpToLetterCase ps pc)
    (hB : (3 * (7 ^ Spec.x C U.asRef P.asRef salt % Spec.N) + 7 ^ ofLE b % Spec.N) % Spec.N ≠ 0) :
    ∃ K A B M1 M2 vbytes,
      runLogin C be us ps uc pc viaStorage salt b a challenge = .ok K K A B M1 M2 vbytes ∧
      ∀ cs ss : Nat, cs < 2 ^ 32 → ss < 2 ^ 32 →
        (∀ e : Exp, ∃ (proof : Bytes) (cl sv : HeaderCrypto),
          ProofSeed.intoClientHeaderCrypto C e cs U K ss = (proof, cl) ∧
          ProofSeed.intoServerHeaderCrypto C e ss U K proof cs = .ok sv ∧
          HeadersFlow e cl sv ∧ HeadersFlow e sv cl ∧ HeadersDuplex e cl sv) ∧
        (∃ (proof : Bytes) (cc : WClientCrypto) (sc : WServerCrypto),
          ProofSeed.wrathIntoClient C cs U K ss = .ok (proof, cc) ∧
          ProofSeed.wrathIntoServer C ss U K proof cs = .ok (.ok sc) ∧
          WrathFlowC2S cc sc ∧ WrathFlowS2C sc cc ∧ WrathDuplex cc sc ∧
          ∀ hdrs : List (Nat × Nat), (∀ h ∈ hdrs, h.1 ≤ 0x7FFFFF ∧ h.2 < 65536) →
            ∃ s' wire c', serverEmitAll sc.encrypt hdrs = .ok (s', wire) ∧ c'.rc4 = s'.rc4 ∧
              clientReadAll hdrs.length cc.decrypt (dataScript wire []) = .ok (c', hdrs, []) ∧
              clientTwoStepAll hdrs.length cc.decrypt wire = .ok (c', hdrs, [])) := by
  obtain ⟨K, A, B, M1, M2, vbytes, hrun, hlen, hworld⟩ :=
    System_login_then_world C hC hx be us ps uc pc viaStorage salt b a challenge U P hU hP hu hp hB
  refine ⟨K, A, B, M1, M2, vbytes, hrun, fun cs ss hcs hss => ?_⟩
  obtain ⟨hvt, proof, cc, sc, hwc, hws, hcc, hsc⟩ := hworld cs ss hcs hss
  refine ⟨fun e => ?_, proof, cc, sc, hwc, hws, ?_⟩
  · obtain ⟨hsrv, hclient⟩ := hvt e
    refine ⟨_, _, _, rfl, hsrv, ?_⟩
    cases e with
    | vanilla => exact System_headers_roundtrip_vanilla C K hlen _ _ hclient rfl
    | tbc => exact System_headers_roundtrip_tbc C hC K _ _ hclient rfl
  · obtain ⟨f1, f2, f3⟩ := System_headers_roundtrip_wrath C K cc sc hcc hsc
    exact ⟨f1, f2, f3, fun hdrs hb => System_wrath_server_headers C K cc sc hcc hsc hdrs hb⟩

/-- **the whole connection for the real hash functions** (SHA-1 / HMAC-SHA1 as executed by the
    driver): no assumption on the hash is left -/
theorem System_connection_real (be : Backend)
    (us ps uc pc : List Char) (viaStorage : Bool) (salt b a challenge : Bytes) (U P : NStr)
    (hU : NStr.new us = .ok U) (hP : NStr.new ps = .ok P)
    (hu : SameUpToLetterCase us uc) (hp : SameUpToLetterCase ps pc)
    (hB : (3 * (7 ^ Spec.x Crypto.real U.asRef P.asRef salt % Spec.N) + 7 ^ ofLE b % Spec.N) % Spec.N ≠ 0) :
    ∃ K A B M1 M2 vbytes,
      runLogin Crypto.real be us ps uc pc viaStorage salt b a challenge = .ok K K A B M1 M2 vbytes ∧
      ∀ cs ss : Nat, cs < 2 ^ 32 → ss < 2 ^ 32 →
        (∀ e : Exp, ∃ (proof : Bytes) (cl sv : HeaderCrypto),
          ProofSeed.intoClientHeaderCrypto Crypto.real e cs U K ss = (proof, cl) ∧
          ProofSeed.intoServerHeaderCrypto Crypto.real e ss U K proof cs = .ok sv ∧
          HeadersFlow e cl sv ∧ HeadersFlow e sv cl ∧ HeadersDuplex e cl sv) ∧
        (∃ (proof : Bytes) (cc : WClientCrypto) (sc : WServerCrypto),
          ProofSeed.wrathIntoClient Crypto.real cs U K ss = .ok (proof, cc) ∧
          ProofSeed.wrathIntoServer Crypto.real ss U K proof cs = .ok (.ok sc) ∧
          WrathFlowC2S cc sc ∧ WrathFlowS2C sc cc ∧ WrathDuplex cc sc ∧
          ∀ hdrs : List (Nat × Nat), (∀ h ∈ hdrs, h.1 ≤ 0x7FFFFF ∧ h.2 < 65536) →
            ∃ s' wire c', serverEmitAll sc.encrypt hdrs = .ok (s', wire) ∧ c'.rc4 = s'.rc4 ∧
              clientReadAll hdrs.length cc.decrypt (dataScript wire []) = .ok (c', hdrs, []) ∧
              clientTwoStepAll hdrs.length cc.decrypt wire = .ok (c', hdrs, [])) :=
  System_connection Crypto.real Crypto.real_WF C03_xor_hash_real be us ps uc pc viaStorage salt b a
    challenge U P hU hP hu hp hB

/-! ### non-vacuity

The hypotheses of `System_connection_real` are those of `C01_real`; the concrete credentials of C01's
example ("alice" / "password123", typed "Alice" / "PassWord123" on the client, fixed 32-byte salt and
private keys) meet them — every hypothesis is checked by kernel evaluation — so the conclusion holds
for a concrete, non-trivial login. The hypotheses of the header theorems are met for every key by the
constructors themselves (`HeaderCrypto.new` is a value; `ClientCrypto::new` / `ServerCrypto::new`
return for every key); a 40-byte key is what the login delivers. -/

private def exSalt : Bytes := (List.range 32).map (fun i => UInt8.ofNat (i * 7 + 3))
private def exA : Bytes := (List.range 32).map (fun i => UInt8.ofNat (i * 13 + 101))
private def exB : Bytes := (List.range 32).map (fun i => UInt8.ofNat (i * 29 + 57))
private def exChallenge : Bytes := (List.range 16).map (fun i => UInt8.ofNat (i + 1))
/-- "ALICE" -/
private def exU : NStr := ⟨[0x41, 0x4c, 0x49, 0x43, 0x45] ++ List.replicate 11 0, 5⟩
/-- "PASSWORD123" -/
private def exP : NStr :=
  ⟨[0x50, 0x41, 0x53, 0x53, 0x57, 0x4f, 0x52, 0x44, 0x31, 0x32, 0x33] ++ List.replicate 5 0, 11⟩

/-- a concrete login for which the whole-connection theorem fires: in particular the Vanilla client
    and server objects exist and headers flow both ways between them -/
example (be : Backend) (viaStorage : Bool) : ∃ K A B M1 M2 vbytes,
    runLogin Crypto.real be "alice".toList "password123".toList "Alice".toList "PassWord123".toList
      viaStorage exSalt exB exA exChallenge = .ok K K A B M1 M2 vbytes ∧
    ∃ (proof : Bytes) (cl sv : HeaderCrypto),
      ProofSeed.intoClientHeaderCrypto Crypto.real .vanilla 0xDEADBEEF exU K 1 = (proof, cl) ∧
      ProofSeed.intoServerHeaderCrypto Crypto.real .vanilla 1 exU K proof 0xDEADBEEF = .ok sv ∧
      HeadersFlow .vanilla cl sv ∧ HeadersFlow .vanilla sv cl ∧ HeadersDuplex .vanilla cl sv := by
  obtain ⟨K, A, B, M1, M2, vbytes, hrun, h⟩ :=
    System_connection_real be "alice".toList "password123".toList "Alice".toList "PassWord123".toList
      viaStorage exSalt exB exA exChallenge exU exP (by decide +kernel)
      (by decide +kernel) (by unfold SameUpToLetterCase; decide +kernel)
      (by unfold SameUpToLetterCase; decide +kernel)
      (by rw [← powMod_spec, ← powMod_spec]; decide +kernel)
  exact ⟨K, A, B, M1, M2, vbytes, hrun, (h 0xDEADBEEF 1 (by decide) (by decide)).1 .vanilla⟩

/-- the Wrath objects exist for every hash and key, and a mixed list of short and long headers meets
    the bounds -/
example (C : Crypto) (K : Bytes) :
    (∃ cc sc, WClientCrypto.new C K = .ok cc ∧ WServerCrypto.new C K = .ok sc) ∧
    (∀ h ∈ [(0x7FFF, 0x1EE), (0x8000, 0x1EE), (0, 0), (0x7FFFFF, 0xFFFF)], h.1 ≤ 0x7FFFFF ∧ h.2 < 65536) := by
  obtain ⟨cc, hcc⟩ := WClientCrypto.new_total C K
  obtain ⟨sc, hsc⟩ := WServerCrypto.new_total C K
  exact ⟨⟨cc, sc, hcc, hsc⟩, by decide⟩

end WowSrp
