/-
C16 — PIN hashes follow the keypad-remap scheme; verification is exact.
Property theorems only; helper lemmas live in Lemmas/Pin.lean and Lemmas/Select.lean,
the Spec in Spec/Pin.lean.
-/
import WowSrp.Lemmas.Pin
namespace WowSrp

/-- tie to the source: the constants the theorems below are about;
    re-checked against the regenerated constants on every run -/
theorem C16_constants :
    Gen.minPinLength = 4 ∧ Gen.maxPinLength = 10 ∧ Gen.pinAsciiOffset = 0x30 ∧
    Gen.pinInitialGrid = [0, 1, 2, 3, 4, 5, 6, 7, 8, 9] := by decide

/-- the Spec's digit string really is *the* decimal numeral of the number: every entry is a digit,
    read as a decimal numeral (most significant first) it gives the number back, there is no leading
    zero, and it has at most `k` digits exactly when the number is below `10^k` (0 has no digits) -/
theorem C16_spec_digits (n : Nat) :
    (∀ d ∈ Spec.digits n, d < 10) ∧ Spec.ofDigits (Spec.digits n) = n ∧
    (∀ d, (Spec.digits n).head? = some d → d ≠ 0) ∧
    (∀ k, (Spec.digits n).length ≤ k ↔ n < 10 ^ k) ∧ Spec.digits 0 = [] :=
  ⟨Spec.digits_lt n, Spec.digits_value n, Spec.digits_head_ne_zero n,
    fun k => Spec.digits_length_le_iff n k, by simp [Spec.digits, Spec.digitsRev_zero]⟩

/-- **digits**: for every `u32` PIN, `pin_to_bytes` returns its decimal digits, most significant
    first (PIN 0 gives the empty string); at most 10 digits, so the 10-byte array is never overrun -/
theorem C16_digits (pin : Nat) (hpin : pin < 2 ^ 32) :
    pinToBytes pin = .ok ((Spec.digits pin).map UInt8.ofNat) ∧ (Spec.digits pin).length ≤ 10 := by
  refine ⟨pinToBytes_eq pin hpin, (Spec.digits_length_le_iff pin 10).mpr ?_⟩
  have : (2:Nat) ^ 32 ≤ 10 ^ 10 := by decide
  omega

theorem C16_digits_zero : pinToBytes 0 = .ok [] := by decide

/-- **layout, refinement**: for every seed the array-shuffling loop of `remap_pin_grid` computes the
    Lehmer-code selection of the Spec — in particular it never indexes out of bounds -/
theorem C16_layout_spec (seed : Nat) :
    remapPinGrid seed = .ok ((Spec.lehmer seed).map UInt8.ofNat) := remapPinGrid_spec seed

/-- **layout, permutation**: for EVERY seed the keypad layout is a permutation of 0..9
    (by the invariant "emitted ++ live prefix is a permutation", not by enumeration) -/
theorem C16_layout_perm (seed : Nat) :
    ∃ g, remapPinGrid seed = .ok g ∧ g.Perm [0, 1, 2, 3, 4, 5, 6, 7, 8, 9] := by
  refine ⟨_, remapPinGrid_spec seed, ?_⟩
  have : ([0, 1, 2, 3, 4, 5, 6, 7, 8, 9] : Bytes) = (List.range 10).map UInt8.ofNat := by decide
  rw [this]
  exact (Spec.lehmer_perm seed).map _

/-- the Spec layout itself is a permutation of 0..9 and depends on the seed only modulo 10! -/
theorem C16_spec_layout (seed : Nat) :
    (Spec.lehmer seed).Perm [0, 1, 2, 3, 4, 5, 6, 7, 8, 9] ∧
    Spec.lehmer seed = Spec.lehmer (seed % 3628800) :=
  ⟨Spec.lehmer_perm seed, Spec.lehmer_mod seed⟩

/-- **layout, seed modulo 10!**: the layout is determined by the seed modulo 10! = 3 628 800 -/
theorem C16_layout_mod (seed : Nat) : remapPinGrid seed = remapPinGrid (seed % 3628800) := by
  rw [remapPinGrid_spec, remapPinGrid_spec, ← Spec.lehmer_mod]

/-- **hash**: for every `u32` PIN, every seed and all salts, `calculate_hash` returns the Spec value
    `SHA-1(client salt | SHA-1(server salt | ASCII('0' + position of each digit in the layout)))`,
    `none` below 1000 — and never panics: in particular the `unwrap` of the position lookup never
    fires (every digit occurs in a permutation of 0..9) -/
theorem C16_hash (C : Crypto) (pin seed : Nat) (ss cs : Bytes) (hpin : pin < 2 ^ 32) :
    pinCalculateHash C pin seed ss cs = .ok (Spec.pinHash C pin seed ss cs) := by
  have hmin : Gen.minPinLength = 4 := by decide
  have hmax : Gen.maxPinLength = 10 := by decide
  have hoff : Gen.pinAsciiOffset = 48 := by decide
  have hlen10 : (Spec.digits pin).length ≤ 10 := (C16_digits pin hpin).2
  have hlen3 : (Spec.digits pin).length ≤ 3 ↔ pin < 1000 := Spec.digits_length_le_iff pin 3
  unfold pinCalculateHash Spec.pinHash
  simp only [pinToBytes_eq pin hpin, Out.bind_ok, List.length_map, hmin, hmax]
  by_cases hp : pin < 1000
  · have : (Spec.digits pin).length < 4 := by have := hlen3.mpr hp; omega
    simp [this, hp]
  · have h1 : ¬ (Spec.digits pin).length < 4 := fun h => hp (hlen3.mp (by omega))
    have h2 : ¬ (Spec.digits pin).length > 10 := by omega
    simp only [h1, h2, decide_false, Bool.or_self, Bool.false_eq_true, if_false, if_neg hp,
      remapPinGrid_spec, Out.bind_ok]
    have hlook : ∀ d ∈ Spec.digits pin,
        findIdx ((Spec.lehmer seed).map UInt8.ofNat) (UInt8.ofNat d)
          = .ok (UInt8.ofNat ((Spec.lehmer seed).idxOf d)) := by
      intro d hd
      have hd10 := Spec.digits_lt pin d hd
      exact findIdx_map_ofNat _ d
        (fun a ha => by have := (Spec.mem_lehmer seed a).mp ha; omega) (by omega)
        ((Spec.mem_lehmer seed d).mpr hd10)
    rw [mapOut_map_ok _ _ _ _ hlook]
    simp only [Out.bind_ok, Out.pure_eq, List.map_map, hoff]
    congr 6
    apply List.map_congr_left
    intro d _
    simp only [Function.comp]
    rw [← UInt8.ofNat_add, Nat.add_comm]

/-- **no hash below 1000**: `calculate_hash` returns `None` exactly for PINs of fewer than 4 digits,
    and never panics -/
theorem C16_none_iff (C : Crypto) (pin seed : Nat) (ss cs : Bytes) (hpin : pin < 2 ^ 32) :
    (pinCalculateHash C pin seed ss cs = .ok none ↔ pin < 1000) ∧
    ∃ r, pinCalculateHash C pin seed ss cs = .ok r := by
  rw [C16_hash C pin seed ss cs hpin]
  refine ⟨?_, _, rfl⟩
  unfold Spec.pinHash
  by_cases hp : pin < 1000 <;> simp [hp]

/-- **verification is exact**: `verify_client_pin_hash` never panics and returns `true` exactly
    when a hash exists and equals the presented one -/
theorem C16_verify_iff (C : Crypto) (pin seed : Nat) (ss cs h : Bytes) (hpin : pin < 2 ^ 32) :
    ∃ b, pinVerify C pin seed ss cs h = .ok b ∧
      (b = true ↔ pinCalculateHash C pin seed ss cs = .ok (some h)) := by
  unfold pinVerify
  rw [C16_hash C pin seed ss cs hpin]
  cases hs : Spec.pinHash C pin seed ss cs with
  | none => exact ⟨false, rfl, by simp⟩
  | some h' => exact ⟨h' == h, rfl, by simp⟩

/-! non-vacuity: concrete PINs and seeds -/
example : remapPinGrid 0 = .ok [0, 1, 2, 3, 4, 5, 6, 7, 8, 9] := by decide
example : remapPinGrid 3628799 = .ok [9, 8, 7, 6, 5, 4, 3, 2, 1, 0] := by decide
example : remapPinGrid 1 = .ok [1, 0, 2, 3, 4, 5, 6, 7, 8, 9] := by decide
example : remapPinGrid (3628800 + 1) = remapPinGrid 1 := by decide
example : Spec.lehmer 1234567 = [7, 3, 6, 9, 5, 0, 1, 8, 2, 4] ∧
    remapPinGrid 1234567 = .ok [7, 3, 6, 9, 5, 0, 1, 8, 2, 4] := by decide
example : Spec.digits 1234 = [1, 2, 3, 4] ∧ Spec.digits 0 = [] ∧ Spec.digits 4294967295 = [4, 2, 9, 4, 9, 6, 7, 2, 9, 5] := by
  decide +kernel
example : pinToBytes 1234 = .ok [1, 2, 3, 4] ∧ pinToBytes 4294967295 = .ok [4, 2, 9, 4, 9, 6, 7, 2, 9, 5] := by
  decide
example : (1234 : Nat) < 2 ^ 32 ∧ ¬ (1234 : Nat) < 1000 := by decide
/-- the remapped ASCII string for PIN 1234 under the reversed keypad (seed 10!-1): digit d sits at
    position 9-d -/
example : (Spec.digits 1234).map (fun d => UInt8.ofNat (0x30 + (Spec.lehmer 3628799).idxOf d))
    = [0x38, 0x37, 0x36, 0x35] := by decide +kernel
example (C : Crypto) (ss cs : Bytes) :
    pinCalculateHash C 999 5 ss cs = .ok none ∧ pinVerify C 999 5 ss cs [] = .ok false := by
  have h := C16_hash C 999 5 ss cs (by decide)
  refine ⟨h, ?_⟩
  unfold pinVerify; rw [h]; rfl
example (C : Crypto) (ss cs : Bytes) :
    pinCalculateHash C 1000 0 ss cs
      = .ok (some (C.sha1 (cs ++ C.sha1 (ss ++ [0x31, 0x30, 0x30, 0x30])))) := by
  rw [C16_hash C 1000 0 ss cs (by decide)]
  have : (Spec.digits 1000).map (fun d => UInt8.ofNat (0x30 + (Spec.lehmer 0).idxOf d))
      = [0x31, 0x30, 0x30, 0x30] := by decide +kernel
  simp only [Spec.pinHash, this]
  rfl

end WowSrp
