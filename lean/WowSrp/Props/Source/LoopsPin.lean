/-
C16, the loops of src/pin.rs as translated from the working tree (`Gen/CodeImp.lean`, regenerated on every run) against the model
(`Model/Pin.lean`): for every input the translated `pin_to_bytes` and `remap_pin_grid` give what `pinToBytes` / `remapPinGrid` give, up to
the text of a panic message.

Structure: a loop lemma for each loop, stated for ANY loop body that does one round of the model's recursion on states of the right
shape (`pin_while`, `pinShift_loop`, `remap_loop`); the final theorems unfold the generated terms, walk down their statements with the
`Sim` rules of `Lemmas/MiniImp.lean`, and discharge the "one round" hypotheses by evaluating the generated loop bodies.
-/
import WowSrp.Gen.CodeImp
import WowSrp.Model.Pin
import WowSrp.Lemmas.MiniImp
namespace WowSrp
open MiniImp

/-! ### `pin_to_bytes` -/

theorem pinDigitsRev_succ (fuel p : Nat) :
    pinDigitsRev (fuel + 1) p = if p = 0 then [] else UInt8.ofNat (p % 10) :: pinDigitsRev fuel (p / 10) := rfl

theorem pinDigitsRev_fuel (fuel : Nat) : ∀ p, p < 10 ^ fuel → pinDigitsRev (fuel + 1) p = pinDigitsRev fuel p := by
  induction fuel with
  | zero => intro p h; have : p = 0 := by omega
            subst this; rfl
  | succ n ih =>
    intro p h
    rw [pinDigitsRev_succ (n + 1) p, pinDigitsRev_succ n p, ih (p / 10) (by rw [Nat.pow_succ] at h; omega)]

/-- the `while pin != 0` loop from a state `pin, i = |pre|`, array `pre ++ rest`, for any condition and body that behave on such states
    as the translated ones do -/
theorem pin_while (c : Env → Out Bool) (f : Env → Out Env)
    (hc : ∀ p i a, c ⟨[p, i], [a]⟩ = .ok (decide (p ≠ 0)))
    (hf : ∀ p i a, a.length < 2 ^ 64 → f ⟨[p, i], [a]⟩
      = if i < a.length then .ok ⟨[p / 10, i + 1], [a.set i (UInt8.ofNat (p % 10))]⟩ else .panic "index out of bounds")
    (fuel : Nat) : ∀ (p : Nat) (pre rest : Bytes), p < 10 ^ fuel → pre.length + rest.length < 2 ^ 64 →
    Sim (fun e (d : Bytes) => e = ⟨[0, pre.length + d.length], [pre ++ d ++ rest.drop d.length]⟩ ∧ d.length ≤ rest.length)
      (loopWhile c f (fuel + 1) ⟨[p, pre.length], [pre ++ rest]⟩)
      (if (pinDigitsRev fuel p).length ≤ rest.length then .ok (pinDigitsRev fuel p) else .panic "") := by
  induction fuel with
  | zero =>
    intro p pre rest h hlen
    have : p = 0 := by omega
    subst this
    rw [loopWhile_false _ _ _ _ (by rw [hc]; rfl)]
    simp [pinDigitsRev]
  | succ n ih =>
    intro p pre rest h hlen
    rw [pinDigitsRev_succ]
    by_cases h0 : p = 0
    · subst h0
      rw [loopWhile_false _ _ _ _ (by rw [hc]; rfl)]
      simp
    · have hcp : c ⟨[p, pre.length], [pre ++ rest]⟩ = .ok true := by rw [hc]; simp [h0]
      simp only [h0, if_false]
      cases rest with
      | nil =>
        have hfp : f ⟨[p, pre.length], [pre ++ []]⟩ = .panic "index out of bounds" := by
          rw [hf _ _ _ (by simpa using hlen)]; simp
        rw [loopWhile_true_panic _ _ _ _ _ hcp hfp]
        simp
      | cons r rest =>
        have hfp : f ⟨[p, pre.length], [pre ++ r :: rest]⟩
            = .ok ⟨[p / 10, pre.length + 1], [pre ++ UInt8.ofNat (p % 10) :: rest]⟩ := by
          rw [hf _ _ _ (by simpa using hlen)]; simp
        rw [loopWhile_true_ok _ _ _ _ _ hcp hfp]
        have := ih (p / 10) (pre ++ [UInt8.ofNat (p % 10)]) rest (by rw [Nat.pow_succ] at h; omega)
          (by simp only [List.length_append, List.length_cons, List.length_nil] at hlen ⊢; omega)
        simp only [List.length_append, List.length_cons, List.length_nil, List.append_assoc, List.cons_append, List.nil_append] at this
        simp only [List.length_cons, Nat.add_le_add_iff_right]
        by_cases hl : (pinDigitsRev n (p / 10)).length ≤ rest.length
        · simp only [hl, if_true] at this ⊢
          obtain ⟨e, he, h1, h2⟩ := this.ok_inv
          rw [he, sim_ok_ok, h1]
          refine ⟨?_, by simpa using h2⟩
          simp only [List.length_cons, List.drop_succ_cons, List.append_assoc, List.cons_append, Nat.add_assoc, Nat.add_comm 1,
            Nat.zero_add]
        · simp only [hl, if_false] at this ⊢
          obtain ⟨q, hq⟩ := this.panic_inv
          rw [hq]; exact Sim.panic

theorem C16_translated_pin_to_bytes (pin : Nat) (hp : pin < 2 ^ 32) (arr : Bytes) (ha : arr.length = 10) :
    MiniImp.forget (Gen.CodeImp.pinToBytes.run [pin] [arr]) = MiniImp.forget (pinToBytes pin) := by
  refine run_forget_of_sim (R := fun e r => Gen.CodeImp.pinToBytes.result.get e = .ok r) ?_ (fun _ _ h => h)
  unfold Gen.CodeImp.pinToBytes
  dsimp only
  refine Sim.seq_ok (e := ⟨[pin, 0], [arr]⟩) (by simp [Stmt.exec, Expr.eval, Env.setVar]) ?_
  apply Sim.seq
  case h1 =>
    rw [exec_whileNe]
    refine pin_while _ _ ?_ ?_ 63 pin [] arr (by omega) (by simp [ha])
    · intro p i a; simp [Expr.eval, Env.getVar]
    · intro p i a hlen
      have h1 : p % 10 % 256 = p % 10 := by omega
      have h2 : ¬ 256 ≤ p % 10 := by omega
      by_cases hi : i < a.length
      · have h3 : i + 1 < 18446744073709551616 := by omega
        simp [Stmt.exec, Expr.eval, Env.getVar, Env.getArr, Env.setVar, Env.setArr, h1, h2, hi, h3]
      · simp [Stmt.exec, Expr.eval, Env.getVar, Env.getArr, Env.setArr, h1, h2, hi]
  · intro e d hd ⟨he, hl⟩
    subst he
    have hd2 : pinDigitsRev 64 pin = d := by
      rw [pinDigitsRev_fuel 63 pin (by omega)]
      split at hd
      · exact Out.ok.inj hd
      · exact absurd hd (by simp)
    simp [pinToBytes, hd2, Gen.maxPinLength, ha ▸ hl, Stmt.exec, Expr.eval, Env.getVar, Env.getArr, Env.setArr, Result.get]
  · intro q hq
    rw [pinToBytes, pinDigitsRev_fuel 63 pin (by omega)]
    split at hq
    · exact absurd hq (by simp)
    · rename_i hn
      simp only [ha] at hn
      simp [Gen.maxPinLength, hn]

/-! ### `remap_pin_grid` -/

/-- one round of the inner copy loop, as the model does it -/
def pinShiftStep (grid : Bytes) (r j : Nat) : Out Bytes :=
  match grid[r + j + 1]? with
  | none => .panic "pin.rs:128 index out of bounds"
  | some v => if r + j < grid.length then .ok (grid.set (r + j) v) else .panic "pin.rs:128 index out of bounds"

theorem pinShift_succ (grid : Bytes) (r c j : Nat) :
    pinShift grid r (c + 1) j = (pinShiftStep grid r j >>= fun g => pinShift g r c (j + 1)) := by
  rw [pinShift, pinShiftStep]
  cases grid[r + j + 1]? with
  | none => rfl
  | some v => by_cases h : r + j < grid.length <;> simp [h]

/-- the inner copy loop: any loop body that does one model round (keeping `Inv`) does `pinShift` in `c` rounds -/
theorem pinShift_loop (f : Nat → Env → Out Env) (r : Nat) (Inv : Env → Bytes → Prop)
    (hf : ∀ j e g, Inv e g → r + j + 1 < 2 ^ 64 → Sim Inv (f j e) (pinShiftStep g r j)) :
    ∀ c j e g, Inv e g → r + j + c < 2 ^ 64 → Sim Inv (loopUp f c j e) (pinShift g r c j) := by
  intro c
  induction c with
  | zero => intro j e g hi _; simpa [pinShift] using hi
  | succ c ih =>
    intro j e g hi hb
    have hs := hf j e g hi (by omega)
    rw [pinShift_succ]
    cases hm : pinShiftStep g r j with
    | panic q =>
      rw [hm] at hs
      obtain ⟨p, hp⟩ := hs.panic_inv
      rw [loopUp_succ_panic _ _ _ _ _ hp]; exact Sim.panic
    | ok g1 =>
      rw [hm] at hs
      obtain ⟨e1, he1, hi1⟩ := hs.ok_inv
      rw [loopUp_succ_ok _ _ _ _ _ he1, Out.bind_ok]
      exact ih (j + 1) e1 g1 hi1 (by omega)

/-- one round of the outer loop of `remap_pin_grid`, as the model does it: the new grid and the byte written -/
def remapStep (grid : Bytes) (seed x : Nat) : Out (Bytes × UInt8) :=
  match grid[seed % x]? with
  | none => .panic "pin.rs:123 index out of bounds"
  | some v => pinShift grid (seed % x) (x - seed % x - 1) 0 >>= fun g => .ok (g, v)

theorem remapLoop_succ (i : Nat) (grid : Bytes) (seed : Nat) (out : Bytes) :
    remapLoop (i + 1) grid seed out
      = (remapStep grid seed (i + 1) >>= fun gv => remapLoop i gv.1 (seed / (i + 1)) (out ++ [gv.2])) := by
  rw [remapLoop, remapStep]
  cases grid[seed % (i + 1)]? with
  | none => rfl
  | some v =>
    simp only []
    cases pinShift grid (seed % (i + 1)) (i + 1 - seed % (i + 1) - 1) 0 <;> rfl

/-- what the outer loop keeps: the seed in slot 0, the grid and the remapped grid in array slots 0 and 1 -/
def RemapInv (e : Env) (grid : Bytes) (seed : Nat) (res : Bytes) : Prop :=
  e.vars[0]? = some seed ∧ e.arrs = [grid, res]

theorem remap_loop (f : Nat → Nat → Env → Out Env)
    (hf : ∀ x e grid seed (out : Bytes) p pad, RemapInv e grid seed (out ++ p :: pad) → 0 < x → x < 2 ^ 32 →
      Sim (fun e1 (gv : Bytes × UInt8) => RemapInv e1 gv.1 (seed / x) (out ++ gv.2 :: pad)) (f out.length x e) (remapStep grid seed x)) :
    ∀ n e grid seed (out pad : Bytes), RemapInv e grid seed (out ++ pad) → pad.length = n → n < 2 ^ 32 →
      Sim (fun e1 r => e1.arrs[1]? = some r) (loopDown f n out.length n e) (remapLoop n grid seed out) := by
  intro n
  induction n with
  | zero =>
    intro e grid seed out pad hi hl _
    have : pad = [] := List.eq_nil_of_length_eq_zero hl
    subst this
    simp [remapLoop, hi.2]
  | succ n ih =>
    intro e grid seed out pad hi hl hn
    cases pad with
    | nil => simp at hl
    | cons p pad =>
      have hs := hf (n + 1) e grid seed out p pad hi (by omega) hn
      rw [remapLoop_succ]
      cases hm : remapStep grid seed (n + 1) with
      | panic q =>
        rw [hm] at hs
        obtain ⟨p, hp⟩ := hs.panic_inv
        rw [loopDown_succ_panic _ _ _ _ _ _ hp]; exact Sim.panic
      | ok gv =>
        rw [hm] at hs
        obtain ⟨e1, he1, hi1⟩ := hs.ok_inv
        rw [loopDown_succ_ok _ _ _ _ _ _ he1, Out.bind_ok]
        have := ih e1 gv.1 (seed / (n + 1)) (out ++ [gv.2]) pad (by simpa using hi1) (by simpa using hl) (by omega)
        simpa using this

set_option linter.unusedVariables false in
/-- (holds for every `seed`; the hypothesis is the Rust type of the parameter) -/
theorem C16_translated_remap_pin_grid (seed : Nat) (hs : seed < 2 ^ 32) :
    MiniImp.forget (Gen.CodeImp.remapPinGrid.run [seed] []) = MiniImp.forget (remapPinGrid seed) := by
  refine run_forget_of_sim (R := fun e r => e.arrs[1]? = some r) ?_ (fun e a h => getArr_of e 1 a h)
  unfold Gen.CodeImp.remapPinGrid
  dsimp only
  refine Sim.seq_ok (e := ⟨[seed], [Gen.pinInitialGrid]⟩) (by simp [Stmt.exec, Env.setArr, Gen.pinInitialGrid]) ?_
  refine Sim.seq_ok (e := ⟨[seed], [Gen.pinInitialGrid, Gen.pinInitialGrid]⟩) (by simp [Stmt.exec, Env.setArr, Env.getArr]) ?_
  rw [exec_forDownEnum (l := 1) (h := 10) rfl rfl]
  refine remap_loop _ ?_ 10 _ Gen.pinInitialGrid seed [] Gen.pinInitialGrid ⟨rfl, rfl⟩ rfl (by omega)
  intro x e grid seed out p pad ⟨h0, ha⟩ hx0 hx
  have hx0' : x ≠ 0 := Nat.ne_of_gt hx0
  have hr : seed % x < x := Nat.mod_lt _ hx0
  refine Sim.seq_ok (exec_set (v := seed % x) (by simp [Expr.eval, Env.getVar, vars_setVar, h0, hx0'])) ?_
  refine Sim.seq_ok (exec_set (v := seed / x) (by simp [Expr.eval, Env.getVar, vars_setVar, h0, hx0'])) ?_
  cases hb : grid[seed % x]? with
  | none =>
    rw [remapStep, hb]
    refine Sim.seq_panic (p := "index out of bounds") ?_
    simp [Stmt.exec, Expr.eval, Env.getVar, Env.getArr, vars_setVar, ha, hb]
  | some b =>
    rw [remapStep, hb]
    dsimp only
    refine Sim.seq_ok (exec_store (a := out ++ p :: pad) (k := out.length) (v := b.toNat)
      (by simp [Env.getArr, ha]) (by simp [Expr.eval, Env.getVar, vars_setVar])
      (by simp [Expr.eval, Env.getVar, Env.getArr, vars_setVar, ha, hb]) (UInt8.toNat_lt b) (by simp)) ?_
    refine Sim.seq_ok (exec_set (v := x - seed % x - 1) (by
      have h1 : seed % x ≤ x := by omega
      have h2 : 1 ≤ x - seed % x := by omega
      simp [Expr.eval, Env.getVar, vars_setVar, h1, h2])) ?_
    rw [exec_forUp (l := 0) (h := x - seed % x - 1) rfl (by simp [Expr.eval, Env.getVar, vars_setVar])]
    refine Sim.map (fun g => (g, b)) (pinShift_loop _ (seed % x)
      (fun e1 g => e1.vars[0]? = some (seed / x) ∧ e1.vars[3]? = some (seed % x) ∧ e1.arrs = [g, out ++ b :: pad])
      ?_ (x - seed % x - 1 - 0) 0 _ grid ?_ (by omega)) ?_
    · intro j e1 g ⟨hv0, hv3, hg⟩ hj
      have hj1 : seed % x + j + 1 < 18446744073709551616 := by omega
      have hj2 : seed % x + j < 18446744073709551616 := by omega
      rw [pinShiftStep]
      cases hgv : g[seed % x + j + 1]? with
      | none =>
        have : (Stmt.store 0 (Expr.add 64 (Expr.var 3) (Expr.var 5))
            (Expr.idx 0 (Expr.add 64 (Expr.add 64 (Expr.var 3) (Expr.var 5)) (Expr.lit 1)))).exec (e1.setVar 5 j)
              = .panic "index out of bounds" := by
          simp [Stmt.exec, Expr.eval, Env.getVar, Env.getArr, vars_setVar, hv3, hg, hgv, hj1, hj2]
        rw [this]; exact Sim.panic
      | some v =>
        have hv256 : v.toNat < 256 := UInt8.toNat_lt v
        by_cases hlt : seed % x + j < g.length
        · rw [exec_store (a := g) (k := seed % x + j) (v := v.toNat) (by simp [Env.getArr, hg])
            (by simp [Expr.eval, Env.getVar, vars_setVar, hv3, hj2])
            (by simp [Expr.eval, Env.getVar, Env.getArr, vars_setVar, hv3, hg, hgv, hj1, hj2]) (UInt8.toNat_lt v) hlt]
          simp [hlt, vars_setVar, arrs_setArr, hv0, hv3, hg]
        · have : (Stmt.store 0 (Expr.add 64 (Expr.var 3) (Expr.var 5))
              (Expr.idx 0 (Expr.add 64 (Expr.add 64 (Expr.var 3) (Expr.var 5)) (Expr.lit 1)))).exec (e1.setVar 5 j)
                = .panic "index out of bounds" := by
            simp [Stmt.exec, Expr.eval, Env.getVar, Env.getArr, vars_setVar, hv3, hg, hgv, hj1, hj2, hlt, hv256]
          rw [this]; simp [hlt]
    · simp [vars_setVar, arrs_setArr, ha]
    · intro e1 g ⟨hv0, _, hg⟩
      exact ⟨hv0, hg⟩

/-! ### both sides run -/

example : forget (Gen.CodeImp.pinToBytes.run [4294967295] [[9, 8, 7, 6, 5, 4, 3, 2, 1, 255]]) = some [4, 2, 9, 4, 9, 6, 7, 2, 9, 5]
    ∧ forget (pinToBytes 4294967295) = some [4, 2, 9, 4, 9, 6, 7, 2, 9, 5] := by decide
example : forget (Gen.CodeImp.remapPinGrid.run [123456789] []) = some [9, 0, 7, 3, 5, 4, 1, 2, 6, 8]
    ∧ forget (remapPinGrid 123456789) = some [9, 0, 7, 3, 5, 4, 1, 2, 6, 8] := by decide
/-- both sides panic: eleven digits do not fit the ten-byte array (not a `u32`, so outside the theorem, but the loop lemma covers it) -/
example : forget (Gen.CodeImp.pinToBytes.run [12345678901] [List.replicate 10 0]) = none
    ∧ forget (pinToBytes 12345678901) = none := by decide


/-- the parameter and return types of the two functions are the ones the hypotheses above spell out (`pin < 2^32`, a 10-byte array):
    nothing of a signature reaches the translated term, so it is a fact of its own -/
theorem C16_translated_signatures :
    Gen.CodeImp.signaturesPin = ["pin_to_bytes: (u32, &mut[u8;10]) -> &mut[u8]", "remap_pin_grid: (u32) -> [u8;10]"] := by decide +kernel

#print axioms C16_translated_signatures

end WowSrp

#print axioms WowSrp.C16_translated_pin_to_bytes
#print axioms WowSrp.C16_translated_remap_pin_grid
