/-
Translator leg for the Wrath header wire format (C10, C11): both branches of `ServerEncrypterHalf::encrypt_server_header`
(threshold, `set_large_header(size[1])`, which bytes of the big-endian size go where), `ClientEncrypterHalf::encrypt_client_header`,
`ServerHeader::from_small_array` and `from_large_array` (with `clear_large_header`) are translated from the working tree on every
run; for ALL sizes and opcodes / ALL byte lists they denote the model's `wrathServerHeaderBytes`, `clientHeaderBytes`, `parseSmall`,
`parseLarge` — the functions the C10 round-trip theorems are about.
-/
import WowSrp.Gen.Code
import WowSrp.Model.Wrath
namespace WowSrp
open MiniLayout MiniRust

theorem C10_translated_layout_wrath (size opcode : Nat) :
    Gen.Code.wrathServerHeaderLayout.bytes size opcode = wrathServerHeaderBytes size opcode ∧
    layoutBytes Gen.Code.wrathClientHeaderLayout size opcode = clientHeaderBytes size opcode := by
  constructor
  · unfold Branching.bytes wrathServerHeaderBytes
    have ht : Gen.Code.wrathServerHeaderLayout.threshold = Gen.wrathLargeThreshold := by decide
    rw [ht]
    split <;>
      simp [Gen.Code.wrathServerHeaderLayout, layoutBytes, LByte.eval, Field.val, be32, leN, Nat.div_div_eq_div_mul]
  · simp [Gen.Code.wrathClientHeaderLayout, layoutBytes, LByte.eval, Field.val, clientHeaderBytes, be16, leN, Nat.div_div_eq_div_mul]

theorem C10_translated_parse_wrath (b : Bytes) :
    Gen.Code.wrathSmallHeaderParse.eval b = Out.toOption (parseSmall b) ∧
    Gen.Code.wrathLargeHeaderParse.eval b = Out.toOption (parseLarge b) := by
  constructor
  · rcases b with _ | ⟨b0, _ | ⟨b1, _ | ⟨b2, _ | ⟨b3, _ | ⟨b4, t⟩⟩⟩⟩⟩ <;>
      simp [Gen.Code.wrathSmallHeaderParse, ParseSpec.eval, PByte.eval, Order.value, parseSmall, Out.toOption]
    all_goals omega
  · rcases b with _ | ⟨b0, _ | ⟨b1, _ | ⟨b2, _ | ⟨b3, _ | ⟨b4, _ | ⟨b5, t⟩⟩⟩⟩⟩⟩ <;>
      simp [Gen.Code.wrathLargeHeaderParse, ParseSpec.eval, PByte.eval, Order.value, parseLarge, clearLargeHeader, Out.toOption]
    all_goals omega

theorem C11_translated_layout_wrath (size opcode : Nat) :
    Gen.Code.wrathServerHeaderLayout.bytes size opcode = wrathServerHeaderBytes size opcode ∧
    layoutBytes Gen.Code.wrathClientHeaderLayout size opcode = clientHeaderBytes size opcode := C10_translated_layout_wrath size opcode

end WowSrp
