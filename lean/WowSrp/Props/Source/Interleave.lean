/-
`calculate_interleaved` (src/srp_internal.rs), translated from the working tree by tools/gen_ilv.py (Gen/CodeIlv.lean, meaning in
Model/MiniIlv.lean: generic `skip`/`step_by`, bounds-checked sequential array writes, bounds-checked slices, `zip`), denotes the model's
`calculateInterleaved` for EVERY `C` and EVERY `S` — odd lengths and lengths over 32 (where the Rust panics and so does the model)
included — up to the text of a panic message.
-/
import WowSrp.Gen.CodeIlv
import WowSrp.Model.MiniImp
namespace WowSrp
open MiniIlv MiniImp

/-! ### the parts -/

theorem stepBy2_evens : ∀ s : Bytes, stepByAux 2 0 s = evens s
  | [] => rfl
  | [_] => rfl
  | a :: b :: r => by simp only [stepByAux, evens, stepBy2_evens r]

theorem stepBy2_odds : ∀ s : Bytes, stepByAux 2 0 (s.drop 1) = odds s
  | [] => rfl
  | [_] => rfl
  | a :: b :: r => by
    have ih := stepBy2_odds r
    cases r with
    | nil => rfl
    | cons c r => simp only [List.drop_succ_cons, List.drop_zero, stepByAux, odds] at ih ⊢; rw [ih]

theorem ilv_evens_length : ∀ s : Bytes, (evens s).length = (s.length + 1) / 2
  | [] => rfl
  | [_] => by simp [evens]
  | a :: b :: r => by simp only [evens, List.length_cons, ilv_evens_length r]; omega

theorem ilv_odds_length : ∀ s : Bytes, (odds s).length = s.length / 2
  | [] => rfl
  | [_] => by simp [odds]
  | a :: b :: r => by simp only [odds, List.length_cons, ilv_odds_length r]; omega

/-- the fill loop writes its elements one after the other behind what is already there, or panics when they do not fit -/
theorem fillFrom_spec (st : Src) (hst : ∀ x, st.eval x = x) : ∀ (xs pre suf : Bytes),
    fillFrom st xs pre.length (pre ++ suf) =
      if xs.length ≤ suf.length then .ok (pre ++ xs ++ suf.drop xs.length) else .panic "index out of bounds"
  | [], pre, suf => by simp [fillFrom]
  | x :: xs, pre, [] => by simp [fillFrom, setOut, bind, Out.bind]
  | x :: xs, pre, y :: suf => by
    have ih := fillFrom_spec st hst xs (pre ++ [x]) suf
    have hset : (pre ++ y :: suf).set pre.length x = pre ++ x :: suf := by simp
    simp only [List.length_append, List.length_cons, List.length_nil, List.append_assoc, List.cons_append, List.nil_append,
      Nat.zero_add] at ih
    simp only [fillFrom, setOut, hst, List.length_append, List.length_cons, bind, Out.bind]
    rw [if_pos (by omega), hset]
    simp only [ih, Nat.add_le_add_iff_right, List.drop_succ_cons, List.append_assoc, List.cons_append]

/-- a fill loop with the model's numbers is the model's `fillArr` (the text of the panic aside) -/
theorem fillLoop_run (l : FillLoop) (h1 : l.len = 16) (h2 : l.fill = 0) (h4 : l.step = 2) (h5 : ∀ x, l.store.eval x = x) (s : Bytes) :
    l.run s = if (stepByAux 2 0 (s.drop l.skip)).length ≤ 16
      then .ok (stepByAux 2 0 (s.drop l.skip) ++ List.replicate (16 - (stepByAux 2 0 (s.drop l.skip)).length) 0)
      else .panic "index out of bounds" := by
  have h := fillFrom_spec l.store h5 (stepByAux 2 0 (s.drop l.skip)) [] (List.replicate 16 0)
  have hz : UInt8.ofNat 0 = 0 := rfl
  simp only [List.length_nil, List.nil_append, List.length_replicate, List.drop_replicate] at h
  simp only [FillLoop.run, h1, h2, h4, hz, h]
  rfl

/-- the result loop with index terms meaning `2*i`, `2*i+1` and stores `r.0`, `r.1` writes the model's `zipFlat`, or panics when it
    does not fit -/
theorem zipLoop_spec (p : IlvProg) (hi1 : ∀ i, p.idx1.eval i = 2 * i) (hs1 : p.sel1 = 0) (hi2 : ∀ i, p.idx2.eval i = 2 * i + 1)
    (hs2 : p.sel2 = 1) : ∀ (G H : Bytes) (i : Nat) (pre suf : Bytes), pre.length = 2 * i →
    zipLoop p (G.zip H) i (pre ++ suf) =
      if (zipFlat G H).length ≤ suf.length then .ok (pre ++ zipFlat G H ++ suf.drop (zipFlat G H).length)
      else .panic "index out of bounds"
  | [], H, i, pre, suf, _ => by simp [zipLoop, zipFlat]
  | g :: G, [], i, pre, suf, _ => by simp [zipLoop, zipFlat]
  | g :: G, h :: H, i, pre, [], hp => by
    simp [zipLoop, zipFlat, pick, setOut, hi1, hs1, hp, bind, Out.bind]
  | g :: G, h :: H, i, pre, [y], hp => by
    have hset : (pre ++ [y]).set pre.length g = pre ++ [g] := by simp
    simp only [List.zip_cons_cons, zipLoop, zipFlat, pick, setOut, hi1, hs1, hi2, hs2, ← hp, bind, Out.bind, List.length_append,
      List.length_cons, List.length_nil, hset]
    simp
  | g :: G, h :: H, i, pre, y :: z :: suf, hp => by
    have ih := zipLoop_spec p hi1 hs1 hi2 hs2 G H (i + 1) (pre ++ [g, h]) suf (by simp [hp]; omega)
    have hset1 : (pre ++ y :: z :: suf).set pre.length g = pre ++ g :: z :: suf := by simp
    have hset2 : (pre ++ g :: z :: suf).set (pre.length + 1) h = pre ++ g :: h :: suf := by simp
    simp only [List.append_assoc, List.cons_append, List.nil_append] at ih
    simp only [List.zip_cons_cons, zipLoop, zipFlat, pick, setOut, hi1, hs1, hi2, hs2, ← hp, bind, Out.bind, List.length_append,
      List.length_cons, hset1]
    rw [if_pos (by omega)]
    simp only [List.length_append, List.length_cons, hset2]
    rw [if_pos (by omega)]
    simp only [ih, Nat.add_le_add_iff_right, List.drop_succ_cons, List.append_assoc, List.cons_append]

/-! ### the whole function -/

/-- ANY translated program whose parts mean what the model's parts mean denotes `calculateInterleaved` (the obligations are about the
    meaning of the index terms, not their text: `2 * i + 1` or `i * 2 + 0` are proved the same way) -/
theorem ilv_run_eq_of (p : IlvProg) (h0 : p.unsupported = none) (hsha : p.sha1Once = true) (hle : p.fromLeBytes = true)
    (he1 : p.e.len = 16) (he2 : p.e.fill = 0) (he3 : p.e.skip = 0) (he4 : p.e.step = 2) (he5 : ∀ x, p.e.store.eval x = x)
    (hg1 : p.gReads = 0) (hg2 : p.gDiv = 2)
    (hf1 : p.f.len = 16) (hf2 : p.f.fill = 0) (hf3 : p.f.skip = 1) (hf4 : p.f.step = 2) (hf5 : ∀ x, p.f.store.eval x = x)
    (hh1 : p.hReads = 1) (hh2 : p.hDiv = 2)
    (hr1 : p.resLen = 40) (hr2 : p.resFill = 0) (hz1 : p.zipFst = 0) (hz2 : p.zipSnd = 1)
    (hi1 : ∀ i, p.idx1.eval i = 2 * i) (hs1 : p.sel1 = 0) (hi2 : ∀ i, p.idx2.eval i = 2 * i + 1) (hs2 : p.sel2 = 1)
    (C : Crypto) (S : Bytes) :
    forget (p.run C S) = forget (calculateInterleaved C S) := by
  have hz : UInt8.ofNat 0 = 0 := rfl
  have h20 : ¬ ((2 : Nat) = 0) := by decide
  simp only [IlvProg.run, calculateInterleaved, h0, hsha, hle, Bool.and_self, Bool.not_true, Bool.false_eq_true, if_false, bind, Out.bind]
  cases asEqualSlice S with
  | panic q => rfl
  | ok s =>
    have hE := fillLoop_run p.e he1 he2 he4 he5 s
    have hF := fillLoop_run p.f hf1 hf2 hf4 hf5 s
    rw [he3, List.drop_zero, stepBy2_evens] at hE
    rw [hf3, stepBy2_odds] at hF
    have hle := ilv_evens_length s
    have hlo := ilv_odds_length s
    simp only [hE, hF, fillArr]
    by_cases hfit : (evens s).length ≤ 16
    · have hfit2 : (odds s).length ≤ 16 := by omega
      have hd : s.length / 2 ≤ 16 := by omega
      have hz40 := zipLoop_spec p hi1 hs1 hi2 hs2
        (C.sha1 ((evens s ++ List.replicate (16 - (evens s).length) 0).take (s.length / 2)))
        (C.sha1 ((odds s ++ List.replicate (16 - (odds s).length) 0).take (s.length / 2))) 0 [] (List.replicate 40 0) rfl
      simp only [List.nil_append, List.length_replicate, List.drop_replicate] at hz40
      have hlE : (evens s ++ List.replicate (16 - (evens s).length) 0).length = 16 := by simp; omega
      have hlF : (odds s ++ List.replicate (16 - (odds s).length) 0).length = 16 := by simp; omega
      simp only [if_pos hfit, if_pos hfit2, hashOf, hg1, hg2, hh1, hh2, List.getElem?_cons_zero, List.getElem?_cons_succ, hlE, hlF, hd,
        if_true, if_neg h20, pick, hz1, hz2, hr1, hr2, hz, hz40]
      split <;> rfl
    · simp only [if_neg hfit]
      rfl

/-- C03 / C01 / C14: `calculate_interleaved`, as translated from the source on this run, IS the model's `calculateInterleaved`
    (every `C`, every `S`; outcomes compared up to the text of a panic message) -/
theorem C03_translated_interleaved (C : Crypto) (S : Bytes) :
    forget (Gen.CodeIlv.interleaved.run C S) = forget (calculateInterleaved C S) := by
  apply ilv_run_eq_of <;>
    first
    | rfl
    | (intro x; rfl)
    | (intro i; simp only [Gen.CodeIlv.interleaved, IExpr.eval]; omega)

/-- the same obligation under the names of the other properties that rest on the interleaving -/
theorem C01_translated_interleaved (C : Crypto) (S : Bytes) :
    forget (Gen.CodeIlv.interleaved.run C S) = forget (calculateInterleaved C S) := C03_translated_interleaved C S
theorem C14_translated_interleaved (C : Crypto) (S : Bytes) :
    forget (Gen.CodeIlv.interleaved.run C S) = forget (calculateInterleaved C S) := C03_translated_interleaved C S

/-- a toy hash that shows its input: the message padded with 7s / cut to 20 bytes -/
private def Cshow : Crypto := ⟨fun m => (m ++ List.replicate 20 7).take 20, fun _ m => m, fun _ => []⟩

/-- non-vacuity: both sides run on a concrete 32-byte S (even-indexed bytes 1.., odd-indexed bytes 101..) and give the same 40 bytes -/
example : Gen.CodeIlv.interleaved.run Cshow
      [1, 101, 2, 102, 3, 103, 4, 104, 5, 105, 6, 106, 7, 107, 8, 108, 9, 109, 10, 110, 11, 111, 12, 112, 13, 113, 14, 114, 15, 115, 16, 116]
    = .ok [1, 101, 2, 102, 3, 103, 4, 104, 5, 105, 6, 106, 7, 107, 8, 108, 9, 109, 10, 110, 11, 111, 12, 112, 13, 113, 14, 114, 15, 115, 16, 116,
           7, 7, 7, 7, 7, 7, 7, 7]
    ∧ calculateInterleaved Cshow
      [1, 101, 2, 102, 3, 103, 4, 104, 5, 105, 6, 106, 7, 107, 8, 108, 9, 109, 10, 110, 11, 111, 12, 112, 13, 113, 14, 114, 15, 115, 16, 116]
    = .ok [1, 101, 2, 102, 3, 103, 4, 104, 5, 105, 6, 106, 7, 107, 8, 108, 9, 109, 10, 110, 11, 111, 12, 112, 13, 113, 14, 114, 15, 115, 16, 116,
           7, 7, 7, 7, 7, 7, 7, 7] := by decide

/-- an odd length (the strip rule leaves 3 bytes after two zeros): E gets 2 bytes, F gets 1, both hashes read 1 byte -/
example : Gen.CodeIlv.interleaved.run Cshow [0, 0, 5, 6, 9] = calculateInterleaved Cshow [0, 0, 5, 6, 9]
    ∧ (calculateInterleaved Cshow [0, 0, 5, 6, 9]).isOk = true := by decide

/-- 34 bytes: the 17th write to `E` is out of bounds in the Rust, in the translated program and in the model -/
example : forget (Gen.CodeIlv.interleaved.run Cshow (List.replicate 34 1)) = none
    ∧ forget (calculateInterleaved Cshow (List.replicate 34 1)) = none := by decide

#print axioms C03_translated_interleaved
#print axioms C01_translated_interleaved
#print axioms C14_translated_interleaved

end WowSrp
