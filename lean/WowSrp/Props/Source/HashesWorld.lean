/-
`calculate_world_server_proof` (src/vanilla_header/internal.rs — the one function all three expansions call), translated from the working
tree by tools/gen_hash.py (Gen/CodeHash.lean), denotes the model's `calculateWorldServerProof` for EVERY user name, session key and pair of
`u32` seeds and EVERY `Crypto`; parameters in the order of the Rust signature (username, session_key, server_seed, client_seed) — so the
order in which the two seeds are hashed (client seed first) is re-derived from the source, not compared with a text.
-/
import WowSrp.Gen.CodeHash
import WowSrp.Model.World
namespace WowSrp
open MiniHash

theorem C06_translated_world_proof (C : Crypto) (U K : Bytes) (serverSeed clientSeed : Nat) (hs : serverSeed < 2 ^ 32) (hc : clientSeed < 2 ^ 32) :
    Gen.CodeHash.worldProof.run C (fun _ => none) [.bytes U, .bytes K, .num serverSeed, .num clientSeed]
      = some (calculateWorldServerProof C U K serverSeed clientSeed) := by
  have hs' : serverSeed < 4294967296 := hs
  have hc' : clientSeed < 4294967296 := hc
  simp [Gen.CodeHash.worldProof, HashProg.run, execAll, HStmt.exec, feedAll, HArg.fed, HArg.val, calculateWorldServerProof, bind, Option.bind, hs', hc']

/-- sensitivity: the seeds are not interchangeable (toy hash = identity) -/
example : Gen.CodeHash.worldProof.run ⟨id, fun _ _ => [], fun _ => []⟩ (fun _ => none) [.bytes [9], .bytes [8], .num 1, .num 2]
    = some [9, 0, 0, 0, 0, 2, 0, 0, 0, 1, 0, 0, 0, 8] := by decide +kernel

#print axioms C06_translated_world_proof
end WowSrp
