/-
The world-login functions `ProofSeed::into_client_header_crypto` / `into_server_header_crypto` of all three expansions
(src/vanilla_header/mod.rs, src/tbc_header/mod.rs, src/wrath_header/mod.rs), translated from the working tree by tools/gen_api.py
(Gen/CodeApi.lean), denote the model's functions (Model/World.lean) for EVERY user name, session key, proof and pair of seeds: which seed
goes where (the object's own seed is the CLIENT seed on the client and the SERVER seed on the server), the comparison, what the refusal
carries, and that the cipher object is built from the session key.  `calculate_world_server_proof` means the model's function (itself
re-derived from the source: `C06_translated_world_proof`); `HeaderCrypto::new(K)` / `ClientCrypto::new(K)` / `ServerCrypto::new(K)` are
symbolic values here (`cryptoMark`), the Wrath constructors with the model's panic behaviour.
-/
import WowSrp.Props.Source.ApiBase
import WowSrp.Model.World
namespace WowSrp
open MiniApi

def cryptoMark (kind : String) (K : Bytes) : AVal := .struct kind [("session_key", .bytes K)]

def worldPrims (C : Crypto) : Prims := fun n =>
  if n = "calculate_world_server_proof" then some (fun vs => match vs with
    | [.nstr u, .bytes K, .num s, .num c] => .ok (.bytes (calculateWorldServerProof C u.asRef K s c)) | _ => illTyped)
  else if n = "HeaderCrypto::new" then some (fun vs => match vs with
    | [.bytes K] => .ok (cryptoMark "HeaderCrypto::new" K) | _ => illTyped)
  else if n = "ClientCrypto::new" then some (fun vs => match vs with
    | [.bytes K] => (WClientCrypto.new C K).bind (fun _ => .ok (cryptoMark "ClientCrypto::new" K)) | _ => illTyped)
  else if n = "ServerCrypto::new" then some (fun vs => match vs with
    | [.bytes K] => (WServerCrypto.new C K).bind (fun _ => .ok (cryptoMark "ServerCrypto::new" K)) | _ => illTyped)
  else none

def selfSeed (seed : Nat) : Fields := [("seed", .num seed)]

theorem C06_translated_into_client (C : Crypto) (e : Exp) (u : NStr) (K : Bytes) (seed serverSeed : Nat) :
    (if e = .vanilla then Gen.CodeApi.vanillaIntoClient else Gen.CodeApi.tbcIntoClient).run (worldPrims C) (selfSeed seed)
        [.nstr u, .bytes K, .num serverSeed] []
      = some (.ok (.tup (.bytes (ProofSeed.intoClientHeaderCrypto C e seed u K serverSeed).1) (cryptoMark "HeaderCrypto::new" K), selfSeed seed, []))
    ∧ (ProofSeed.intoClientHeaderCrypto C e seed u K serverSeed).2 = HeaderCrypto.new C e K := by
  cases e <;>
  simp [Gen.CodeApi.vanillaIntoClient, Gen.CodeApi.tbcIntoClient, ApiFn.run, runBody, Rhs.eval, drawKinds, Ret.eval, atomsVal, Atom.val, lookup, bindVar,
    worldPrims, selfSeed, ProofSeed.intoClientHeaderCrypto, Out.bind, bind]

theorem C06_translated_into_server (C : Crypto) (e : Exp) (u : NStr) (K proof : Bytes) (seed clientSeed : Nat) :
    (if e = .vanilla then Gen.CodeApi.vanillaIntoServer else Gen.CodeApi.tbcIntoServer).run (worldPrims C) (selfSeed seed)
        [.nstr u, .bytes K, .bytes proof, .num clientSeed] []
      = some (.ok (match ProofSeed.intoServerHeaderCrypto C e seed u K proof clientSeed with
          | .error er => (.err (valMatchErr er), selfSeed seed, [])
          | .ok _ => (.ok (cryptoMark "HeaderCrypto::new" K), selfSeed seed, []))) := by
  by_cases hM : calculateWorldServerProof C u.asRef K seed clientSeed = proof
  · cases e <;>
    simp [Gen.CodeApi.vanillaIntoServer, Gen.CodeApi.tbcIntoServer, ApiFn.run, runBody, Rhs.eval, drawKinds, Ret.eval, atomsVal, fieldsVal, Atom.val, lookup,
      bindVar, worldPrims, selfSeed, valMatchErr, eqVal, ProofSeed.intoServerHeaderCrypto, hM, Out.bind, bind]
  · have hb : (calculateWorldServerProof C u.asRef K seed clientSeed == proof) = false := by simp [hM]
    cases e <;>
    simp [hb, Gen.CodeApi.vanillaIntoServer, Gen.CodeApi.tbcIntoServer, ApiFn.run, runBody, Rhs.eval, drawKinds, Ret.eval, atomsVal, fieldsVal, Atom.val, lookup,
      bindVar, worldPrims, selfSeed, valMatchErr, eqVal, ProofSeed.intoServerHeaderCrypto, hM, Out.bind, bind]

theorem C06_translated_wrath_into_client (C : Crypto) (u : NStr) (K : Bytes) (seed serverSeed : Nat) :
    Gen.CodeApi.wrathIntoClient.run (worldPrims C) (selfSeed seed) [.nstr u, .bytes K, .num serverSeed] []
      = some ((ProofSeed.wrathIntoClient C seed u K serverSeed).bind (fun r =>
          .ok (.tup (.bytes r.1) (cryptoMark "ClientCrypto::new" K), selfSeed seed, []))) := by
  simp only [ProofSeed.wrathIntoClient]
  cases hN : WClientCrypto.new C K with
  | panic m =>
    simp [Gen.CodeApi.wrathIntoClient, ApiFn.run, runBody, Rhs.eval, drawKinds, Ret.eval, atomsVal, Atom.val, lookup, bindVar, worldPrims, selfSeed, hN,
      Out.bind, bind]
  | ok c =>
    simp [Gen.CodeApi.wrathIntoClient, ApiFn.run, runBody, Rhs.eval, drawKinds, Ret.eval, atomsVal, Atom.val, lookup, bindVar, worldPrims, selfSeed, hN,
      Out.bind, bind]

theorem C06_translated_wrath_into_server (C : Crypto) (u : NStr) (K proof : Bytes) (seed clientSeed : Nat) :
    Gen.CodeApi.wrathIntoServer.run (worldPrims C) (selfSeed seed) [.nstr u, .bytes K, .bytes proof, .num clientSeed] []
      = some ((ProofSeed.wrathIntoServer C seed u K proof clientSeed).bind (fun r => match r with
          | .error er => .ok (.err (valMatchErr er), selfSeed seed, [])
          | .ok _ => .ok (.ok (cryptoMark "ServerCrypto::new" K), selfSeed seed, []))) := by
  simp only [ProofSeed.wrathIntoServer]
  by_cases hM : calculateWorldServerProof C u.asRef K seed clientSeed = proof
  · cases hN : WServerCrypto.new C K with
    | panic m =>
      simp [Gen.CodeApi.wrathIntoServer, ApiFn.run, runBody, Rhs.eval, drawKinds, Ret.eval, atomsVal, fieldsVal, Atom.val, lookup, bindVar, worldPrims, selfSeed,
        valMatchErr, eqVal, hM, hN, Out.bind, bind]
    | ok c =>
      simp [Gen.CodeApi.wrathIntoServer, ApiFn.run, runBody, Rhs.eval, drawKinds, Ret.eval, atomsVal, fieldsVal, Atom.val, lookup, bindVar, worldPrims, selfSeed,
        valMatchErr, eqVal, hM, hN, Out.bind, bind]
  · have hb : (calculateWorldServerProof C u.asRef K seed clientSeed == proof) = false := by simp [hM]
    simp [hb, Gen.CodeApi.wrathIntoServer, ApiFn.run, runBody, Rhs.eval, drawKinds, Ret.eval, atomsVal, fieldsVal, Atom.val, lookup, bindVar, worldPrims, selfSeed,
      valMatchErr, eqVal, hM, Out.bind, bind]

/-- the parameter lists and return types the terms above were read under (the terms carry parameter NAMES; the types decide what a
    conversion such as `Generator::from(generator)`, `.into()` or `?` means) -/
theorem C06_translated_world_signatures :
    Gen.CodeApi.vanillaIntoClientSig = "self,username:&NormalizedString,session_key:[u8;SESSION_KEY_LENGTH as _],server_seed:u32,->([u8;PROOF_LENGTH as _],HeaderCrypto)" ∧
    Gen.CodeApi.vanillaIntoServerSig = "self,username:&NormalizedString,session_key:[u8;SESSION_KEY_LENGTH as _],client_proof:[u8;PROOF_LENGTH as _],client_seed:u32,->Result<HeaderCrypto,MatchProofsError>" ∧
    Gen.CodeApi.tbcIntoClientSig = "self,username:&NormalizedString,session_key:[u8;SESSION_KEY_LENGTH as _],server_seed:u32,->([u8;PROOF_LENGTH as _],HeaderCrypto)" ∧
    Gen.CodeApi.tbcIntoServerSig = "self,username:&NormalizedString,session_key:[u8;SESSION_KEY_LENGTH as _],client_proof:[u8;PROOF_LENGTH as _],client_seed:u32,->Result<HeaderCrypto,MatchProofsError>" ∧
    Gen.CodeApi.wrathIntoClientSig = "self,username:&NormalizedString,session_key:[u8;SESSION_KEY_LENGTH as _],server_seed:u32,->([u8;PROOF_LENGTH as _],ClientCrypto)" ∧
    Gen.CodeApi.wrathIntoServerSig = "self,username:&NormalizedString,session_key:[u8;SESSION_KEY_LENGTH as _],client_proof:[u8;PROOF_LENGTH as _],client_seed:u32,->Result<ServerCrypto,MatchProofsError>" := by decide +kernel

#print axioms C06_translated_into_client
#print axioms C06_translated_into_server
#print axioms C06_translated_wrath_into_client
#print axioms C06_translated_wrath_into_server
#print axioms C06_translated_world_signatures
end WowSrp
