/-
The world-login functions `ProofSeed::into_client_header_crypto` / `into_server_header_crypto` of all three expansions
(src/vanilla_header/mod.rs, src/tbc_header/mod.rs, src/wrath_header/mod.rs), translated from the working tree by tools/gen_api.py
(Gen/CodeApi.lean), denote the model's functions (Model/World.lean) for EVERY user name, session key, proof and pair of seeds: which seed
goes where (the object's own seed is the CLIENT seed on the client and the SERVER seed on the server), the comparison, what the refusal
carries, and that the cipher object is built from the session key.  `calculate_world_server_proof` means the model's function (itself
re-derived from the source: `C06_translated_world_proof`).  The cipher constructors are UNINTERPRETED here: `HeaderCrypto::new(K)` /
`ClientCrypto::new(K)` / `ServerCrypto::new(K)` are symbolic values (`cryptoMark`) that name the module whose type it is — the translator
resolves the type to the one DEFINED in the file the function stands in (exactly one item, not imported), so a TBC module that imported
Vanilla's `HeaderCrypto` would not translate — and, for Wrath, carry the model's panic behaviour.  That those constructors are the model's
`HeaderCrypto.new C e K` etc. is the business of the constructor / facade source facts and the key-constructor theorems
(`C08_translated_enc_new`, `C09_translated_inner_new`), not of this file.
-/
import WowSrp.Props.Source.ApiBase
import WowSrp.Model.World
namespace WowSrp
open MiniApi

def cryptoMark (kind : String) (K : Bytes) : AVal := .struct kind [("session_key", .bytes K)]

def worldPrims (C : Crypto) : Prims := fun n =>
  if n = "calculate_world_server_proof" then some (fun vs => match vs with
    | [.nstr u, .bytes K, .num s, .num c] => .ok (.bytes (calculateWorldServerProof C u.asRef K s c)) | _ => illTyped)
  else if n = "vanilla_header::HeaderCrypto::new" then some (fun vs => match vs with
    | [.bytes K] => .ok (cryptoMark "vanilla_header::HeaderCrypto::new" K) | _ => illTyped)
  else if n = "tbc_header::HeaderCrypto::new" then some (fun vs => match vs with
    | [.bytes K] => .ok (cryptoMark "tbc_header::HeaderCrypto::new" K) | _ => illTyped)
  else if n = "wrath_header::ClientCrypto::new" then some (fun vs => match vs with
    | [.bytes K] => (WClientCrypto.new C K).bind (fun _ => .ok (cryptoMark "wrath_header::ClientCrypto::new" K)) | _ => illTyped)
  else if n = "wrath_header::ServerCrypto::new" then some (fun vs => match vs with
    | [.bytes K] => (WServerCrypto.new C K).bind (fun _ => .ok (cryptoMark "wrath_header::ServerCrypto::new" K)) | _ => illTyped)
  else none

def selfSeed (seed : Nat) : Fields := [("seed", .num seed)]

/-- the constructor the expansion's own module defines (the translator resolves `HeaderCrypto::new` to the `HeaderCrypto` of the file it
    stands in, which must define it and must not import one) -/
def ctorOf : Exp → String
  | .vanilla => "vanilla_header::HeaderCrypto::new"
  | .tbc => "tbc_header::HeaderCrypto::new"

theorem C06_translated_into_client (C : Crypto) (e : Exp) (u : NStr) (K : Bytes) (seed serverSeed : Nat) :
    (if e = .vanilla then Gen.CodeApi.vanillaIntoClient else Gen.CodeApi.tbcIntoClient).run (worldPrims C) (selfSeed seed)
        [.nstr u, .bytes K, .num serverSeed] []
      = some (.ok (.tup (.bytes (ProofSeed.intoClientHeaderCrypto C e seed u K serverSeed).1) (cryptoMark (ctorOf e) K), selfSeed seed, []))
    ∧ (ProofSeed.intoClientHeaderCrypto C e seed u K serverSeed).2 = HeaderCrypto.new C e K := by
  cases e <;>
  simp [Gen.CodeApi.vanillaIntoClient, Gen.CodeApi.tbcIntoClient, ApiFn.run, runBody, Rhs.eval, drawKinds, Ret.eval, atomsVal, Atom.val, lookup, bindVar,
    worldPrims, selfSeed, ctorOf, ProofSeed.intoClientHeaderCrypto, Out.bind, bind]

theorem C06_translated_into_server (C : Crypto) (e : Exp) (u : NStr) (K proof : Bytes) (seed clientSeed : Nat) :
    (if e = .vanilla then Gen.CodeApi.vanillaIntoServer else Gen.CodeApi.tbcIntoServer).run (worldPrims C) (selfSeed seed)
        [.nstr u, .bytes K, .bytes proof, .num clientSeed] []
      = some (.ok (match ProofSeed.intoServerHeaderCrypto C e seed u K proof clientSeed with
          | .error er => (.err (valMatchErr er), selfSeed seed, [])
          | .ok _ => (.ok (cryptoMark (ctorOf e) K), selfSeed seed, []))) := by
  by_cases hM : calculateWorldServerProof C u.asRef K seed clientSeed = proof
  · cases e <;>
    simp [Gen.CodeApi.vanillaIntoServer, Gen.CodeApi.tbcIntoServer, ApiFn.run, runBody, Rhs.eval, drawKinds, Ret.eval, atomsVal, fieldsVal, Atom.val, lookup,
      bindVar, worldPrims, selfSeed, ctorOf, valMatchErr, eqVal, ProofSeed.intoServerHeaderCrypto, hM, Out.bind, bind]
  · have hb : (calculateWorldServerProof C u.asRef K seed clientSeed == proof) = false := by simp [hM]
    cases e <;>
    simp [hb, Gen.CodeApi.vanillaIntoServer, Gen.CodeApi.tbcIntoServer, ApiFn.run, runBody, Rhs.eval, drawKinds, Ret.eval, atomsVal, fieldsVal, Atom.val, lookup,
      bindVar, worldPrims, selfSeed, ctorOf, valMatchErr, eqVal, ProofSeed.intoServerHeaderCrypto, hM, Out.bind, bind]

theorem C06_translated_wrath_into_client (C : Crypto) (u : NStr) (K : Bytes) (seed serverSeed : Nat) :
    Gen.CodeApi.wrathIntoClient.run (worldPrims C) (selfSeed seed) [.nstr u, .bytes K, .num serverSeed] []
      = some ((ProofSeed.wrathIntoClient C seed u K serverSeed).bind (fun r =>
          .ok (.tup (.bytes r.1) (cryptoMark "wrath_header::ClientCrypto::new" K), selfSeed seed, []))) := by
  simp only [ProofSeed.wrathIntoClient]
  cases hN : WClientCrypto.new C K with
  | panic m =>
    simp [Gen.CodeApi.wrathIntoClient, ApiFn.run, runBody, Rhs.eval, drawKinds, Ret.eval, atomsVal, Atom.val, lookup, bindVar, worldPrims, selfSeed, hN,
      Out.bind, bind]
  | ok c =>
    simp [Gen.CodeApi.wrathIntoClient, ApiFn.run, runBody, Rhs.eval, drawKinds, Ret.eval, atomsVal, Atom.val, lookup, bindVar, worldPrims, selfSeed, hN,
      Out.bind, bind]

theorem C06_translated_wrath_into_server (C : Crypto) (u : NStr) (K proof : Bytes) (seed clientSeed : Nat) :
    Gen.CodeApi.wrathIntoServer.run (worldPrims C) (selfSeed seed) [.nstr u, .bytes K, .bytes proof, .num clientSeed] []
      = some ((ProofSeed.wrathIntoServer C seed u K proof clientSeed).bind (fun r => match r with
          | .error er => .ok (.err (valMatchErr er), selfSeed seed, [])
          | .ok _ => .ok (.ok (cryptoMark "wrath_header::ServerCrypto::new" K), selfSeed seed, []))) := by
  simp only [ProofSeed.wrathIntoServer]
  by_cases hM : calculateWorldServerProof C u.asRef K seed clientSeed = proof
  · cases hN : WServerCrypto.new C K with
    | panic m =>
      simp [Gen.CodeApi.wrathIntoServer, ApiFn.run, runBody, Rhs.eval, drawKinds, Ret.eval, atomsVal, fieldsVal, Atom.val, lookup, bindVar, worldPrims, selfSeed,
        valMatchErr, eqVal, hM, hN, Out.bind, bind]
    | ok c =>
      simp [Gen.CodeApi.wrathIntoServer, ApiFn.run, runBody, Rhs.eval, drawKinds, Ret.eval, atomsVal, fieldsVal, Atom.val, lookup, bindVar, worldPrims, selfSeed,
        valMatchErr, eqVal, hM, hN, Out.bind, bind]
  · have hb : (calculateWorldServerProof C u.asRef K seed clientSeed == proof) = false := by simp [hM]
    simp [hb, Gen.CodeApi.wrathIntoServer, ApiFn.run, runBody, Rhs.eval, drawKinds, Ret.eval, atomsVal, fieldsVal, Atom.val, lookup, bindVar, worldPrims, selfSeed,
      valMatchErr, eqVal, hM, Out.bind, bind]

/-- the parameter lists and return types the terms above were read under (the terms carry parameter NAMES; the types decide what a
    conversion such as `Generator::from(generator)`, `.into()` or `?` means) -/
theorem C06_translated_world_signatures :
    Gen.CodeApi.vanillaIntoClientSig = "self,username:&NormalizedString,session_key:[u8;SESSION_KEY_LENGTH as _],server_seed:u32,->([u8;PROOF_LENGTH as _],HeaderCrypto)" ∧
    Gen.CodeApi.vanillaIntoServerSig = "self,username:&NormalizedString,session_key:[u8;SESSION_KEY_LENGTH as _],client_proof:[u8;PROOF_LENGTH as _],client_seed:u32,->Result<HeaderCrypto,MatchProofsError>" ∧
    Gen.CodeApi.tbcIntoClientSig = "self,username:&NormalizedString,session_key:[u8;SESSION_KEY_LENGTH as _],server_seed:u32,->([u8;PROOF_LENGTH as _],HeaderCrypto)" ∧
    Gen.CodeApi.tbcIntoServerSig = "self,username:&NormalizedString,session_key:[u8;SESSION_KEY_LENGTH as _],client_proof:[u8;PROOF_LENGTH as _],client_seed:u32,->Result<HeaderCrypto,MatchProofsError>" ∧
    Gen.CodeApi.wrathIntoClientSig = "self,username:&NormalizedString,session_key:[u8;SESSION_KEY_LENGTH as _],server_seed:u32,->([u8;PROOF_LENGTH as _],ClientCrypto)" ∧
    Gen.CodeApi.wrathIntoServerSig = "self,username:&NormalizedString,session_key:[u8;SESSION_KEY_LENGTH as _],client_proof:[u8;PROOF_LENGTH as _],client_seed:u32,->Result<ServerCrypto,MatchProofsError>" := by decide +kernel

#print axioms C06_translated_into_client
#print axioms C06_translated_into_server
#print axioms C06_translated_wrath_into_client
#print axioms C06_translated_wrath_into_server
#print axioms C06_translated_world_signatures
end WowSrp
