/-
Translator leg for C13 ("all constructors and conversions agree"): the model has one function, `NStr.new`; `from_str`, `from_string`, both `TryFrom`
impls are modelled as that same function and `Display` as `as_ref`. The bodies are listed from the source on every run.
-/
import WowSrp.Gen.Constants
import WowSrp.Gen.Facts
namespace WowSrp

/-- every other constructor is `Self::new(..)` on its argument, `Display` writes `as_ref()` -/
theorem C13_source_constructors_delegate : Gen.nstrConstructorBodies = [["from_str: {Self::new(s)}", "from_string: {Self::new(s.into())}", "TryFrom<&str>::try_from: {Self::new(s)}", "TryFrom<String>::try_from: {Self::new(s)}", "Display::fmt: {f.write_str(self.as_ref())}"]] := by decide +kernel

end WowSrp
