/-
Translator leg for C09 (and C18, which uses the same RC4): `Rc4::pseudo_random_generation` is translated from the working tree on
every run (tools/gen_code.py → Gen/Code.lean, meaning in Model/MiniRc4.lean).  For EVERY cipher state the translated body computes
exactly the model's `Rc4.prga` — new table, new counters, keystream byte, and the same panics.  The C09 theorems (RC4 = textbook RC4,
keystream independent of data, chunking, round trips) are about `Rc4.prga`; through this equality they are about the code as written.
-/
import WowSrp.Gen.Code
import WowSrp.Model.Wrath
namespace WowSrp
open MiniRc4

theorem C09_translated_prga (r : Rc4) :
    prgaOf Gen.Code.rc4PrgaBody Gen.Code.rc4PrgaResult r = r.prga := by
  unfold prgaOf Rc4.prga Gen.Code.rc4PrgaBody Gen.Code.rc4PrgaResult
  simp [execAll, RStmt.exec, RExpr.eval, bind, Out.bind]
  cases getOut r.state ((r.i.toNat + 1) % 256) with
  | panic p => simp
  | ok si =>
    simp
    cases swapOut r.state ((r.i.toNat + 1) % 256) ((r.j.toNat + si.toNat) % 256) with
    | panic p => simp
    | ok st =>
      simp
      cases getOut st ((r.i.toNat + 1) % 256) with
      | panic p => simp
      | ok a =>
        simp
        cases getOut st ((r.j.toNat + si.toNat) % 256) with
        | panic p => simp
        | ok b => simp [List.lookup]

theorem C18_translated_prga (r : Rc4) :
    prgaOf Gen.Code.rc4PrgaBody Gen.Code.rc4PrgaResult r = r.prga := C09_translated_prga r

end WowSrp
