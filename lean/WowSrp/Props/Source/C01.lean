/-
Translator leg for C01: facts extracted from the Rust source by tools/gen_constants.py on every run
(field order fed to each hash object, structural facts). A reordered / dropped / added field or a changed
structure in the Rust breaks exactly these obligations, independently of the correspondence run.
-/
import WowSrp.Gen.Constants
import WowSrp.Gen.Facts
namespace WowSrp

/-- C01/C03: the SRP modules keep no state between calls (no statics, thread-locals, interior mutability),
    and the modulus every modpow uses is converted from the prime the object holds — the Model's
    functions are pure, so a login's outcome cannot depend on what ran before on the same thread -/
theorem C01_source_no_hidden_state :
    Gen.srpModulesHaveNoSharedState = true ∧ Gen.primeToBigintIsPure = true ∧
    Gen.defaultPrimeIsLE = true ∧ Gen.defaultGeneratorIsG = true := by decide

end WowSrp
