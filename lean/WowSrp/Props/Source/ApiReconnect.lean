/-
`SrpServer::verify_reconnection_attempt` (server.rs) and `SrpClient::calculate_reconnect_values` (client.rs), translated from the working tree by
tools/gen_api.py, denote the model's functions for every state, argument and draw: the verdict is the comparison with the proof over the
challenge currently stored, and the stored challenge is replaced by the next draw WHATEVER the verdict.
(see Props/Source/ApiBase.lean for the environment `srpPrims` / `srvPrims` and the value embeddings.)
-/
import WowSrp.Props.Source.ApiBase
namespace WowSrp
open MiniApi

/-- `SrpServer::verify_reconnection_attempt(&mut self, client_data, client_proof)`: the verdict, and the challenge replaced by the next draw
    whatever the verdict -/
theorem C05_translated_verify_reconnection_attempt (C : Crypto) (be : Backend) (s : SrpServer) (cd proof draw : Bytes) (rest : List Bytes) :
    Gen.CodeApi.verifyReconnectionAttempt.run (srpPrims C be) (selfServer s) [.bytes cd, .bytes proof] (draw :: rest)
      = some (.ok (.bool (s.verifyReconnectionAttempt C cd proof draw).1, selfServer (s.verifyReconnectionAttempt C cd proof draw).2, rest)) := by
  simp [Gen.CodeApi.verifyReconnectionAttempt, ApiFn.run, runBody, Rhs.eval, drawKinds, Ret.eval, atomsVal, fieldsVal, Atom.val, lookup, bindVar, setField,
    srpPrims, selfServer, eqVal, SrpServer.verifyReconnectionAttempt, Out.bind, bind]

def selfClient (c : SrpClient) : Fields := [("username", .nstr c.username), ("session_key", .bytes c.sessionKey)]

/-- `SrpClient::calculate_reconnect_values(&self, server_challenge_data)`: the client challenge is the next draw -/
theorem C05_translated_calculate_reconnect_values (C : Crypto) (be : Backend) (c : SrpClient) (sd draw : Bytes) (rest : List Bytes) :
    Gen.CodeApi.calculateReconnectValues.run (srpPrims C be) (selfClient c) [.bytes sd] (draw :: rest)
      = some (.ok (.struct "SrpClientReconnection"
          [("challenge_data", .bytes (c.calculateReconnectValues C sd draw).1), ("proof", .bytes (c.calculateReconnectValues C sd draw).2)],
          selfClient c, rest)) := by
  simp [Gen.CodeApi.calculateReconnectValues, ApiFn.run, runBody, Rhs.eval, drawKinds, Ret.eval, atomsVal, fieldsVal, Atom.val, lookup, bindVar, srpPrims,
    selfClient, SrpClient.calculateReconnectValues, Out.bind, bind]

/-- the parameter lists and return types the terms above were read under (the terms carry parameter NAMES; the types decide what a
    conversion such as `Generator::from(generator)`, `.into()` or `?` means) -/
theorem C05_translated_reconnect_signatures :
    Gen.CodeApi.verifyReconnectionAttemptSig = "&mut self,client_data:[u8;RECONNECT_CHALLENGE_DATA_LENGTH as usize],client_proof:[u8;PROOF_LENGTH as usize],->bool" ∧
    Gen.CodeApi.calculateReconnectValuesSig = "&self,server_challenge_data:[u8;RECONNECT_CHALLENGE_DATA_LENGTH as usize],->SrpClientReconnection" := by decide +kernel

#print axioms C05_translated_verify_reconnection_attempt
#print axioms C05_translated_calculate_reconnect_values
#print axioms C05_translated_reconnect_signatures
end WowSrp
