/-
Translator leg: thin wrappers that the model defines as plain delegation.
`HeaderCrypto::{encrypt, write_encrypted_*, encrypt_*_header, decrypt, read_and_decrypt_*, decrypt_*_header, split}` (Vanilla, TBC) and the
`ClientCrypto` / `ServerCrypto` facades (Wrath) are modelled as "call the half the object owns, put it back" (Model/Header.lean, Model/Wrath.lean,
`HObj.step`). tools/gen_constants.py lists the body of each of these methods (whitespace removed) on every run; the obligations say that the bodies
are the delegations the model assumes (Vanilla's `decrypt_client_header` is the one method that rebuilds the header by hand, and is modelled so).
-/
import WowSrp.Gen.Constants
import WowSrp.Gen.Facts
namespace WowSrp

def expected_facadeBodiesVanilla : List (List String) := [["encrypt: {self.encrypt.encrypt(data);}", "write_encrypted_server_header: {self.encrypt.write_encrypted_server_header(write,size,opcode)}", "write_encrypted_client_header: {self.encrypt.write_encrypted_client_header(write,size,opcode)}", "encrypt_server_header: {self.encrypt.encrypt_server_header(size,opcode)}", "encrypt_client_header: {self.encrypt.encrypt_client_header(size,opcode)}", "decrypt: {self.decrypt.decrypt(data);}", "read_and_decrypt_server_header: {self.decrypt.read_and_decrypt_server_header(reader)}", "read_and_decrypt_client_header: {self.decrypt.read_and_decrypt_client_header(reader)}", "decrypt_server_header: {self.decrypt.decrypt_server_header(data)}", "decrypt_client_header: {self.decrypt(&mutdata);letsize:u16=u16::from_be_bytes([data[0],data[1]]);letopcode:u32=u32::from_le_bytes([data[2],data[3],data[4],data[5]]);ClientHeader{size,opcode}}", "split: {(self.encrypt,self.decrypt)}"]]
def expected_facadeBodiesTbc : List (List String) := [["encrypt: {self.encrypt.encrypt(data);}", "write_encrypted_server_header: {self.encrypt.write_encrypted_server_header(write,size,opcode)}", "write_encrypted_client_header: {self.encrypt.write_encrypted_client_header(write,size,opcode)}", "encrypt_server_header: {self.encrypt.encrypt_server_header(size,opcode)}", "encrypt_client_header: {self.encrypt.encrypt_client_header(size,opcode)}", "decrypt: {self.decrypt.decrypt(data);}", "read_and_decrypt_server_header: {self.decrypt.read_and_decrypt_server_header(reader)}", "read_and_decrypt_client_header: {self.decrypt.read_and_decrypt_client_header(reader)}", "decrypt_server_header: {self.decrypt.decrypt_server_header(data)}", "decrypt_client_header: {self.decrypt.decrypt_client_header(data)}", "split: {(self.encrypt,self.decrypt)}"]]
def expected_facadeBodiesWrathClient : List (List String) := [["encrypt: {self.encrypt.encrypt(data);}", "write_encrypted_client_header: {self.encrypt.write_encrypted_client_header(write,size,opcode)}", "encrypt_client_header: {self.encrypt.encrypt_client_header(size,opcode)}", "decrypt: {self.decrypt.decrypt(data);}", "attempt_decrypt_server_header: {self.decrypt.attempt_decrypt_server_header(buf)}", "decrypt_large_server_header: {self.decrypt.decrypt_large_server_header(byte)}", "read_and_decrypt_server_header: {self.decrypt.read_and_decrypt_server_header(reader)}", "split: {(self.encrypt,self.decrypt)}"]]
def expected_facadeBodiesWrathServer : List (List String) := [["encrypt: {self.encrypt.encrypt(data);}", "write_encrypted_server_header: {self.encrypt.write_encrypted_server_header(write,size,opcode)}", "encrypt_server_header: {self.encrypt.encrypt_server_header(size,opcode)}", "decrypt: {self.decrypt.decrypt(data);}", "read_and_decrypt_client_header: {self.decrypt.read_and_decrypt_client_header(reader)}", "decrypt_client_header: {self.decrypt(&mutdata);ClientHeader::from_array(data)}", "split: {(self.encrypt,self.decrypt)}"]]

theorem source_facade_vanilla : Gen.facadeBodiesVanilla = expected_facadeBodiesVanilla := by decide +kernel
theorem source_facade_tbc : Gen.facadeBodiesTbc = expected_facadeBodiesTbc := by decide +kernel
theorem source_facade_wrath_client : Gen.facadeBodiesWrathClient = expected_facadeBodiesWrathClient := by decide +kernel
theorem source_facade_wrath_server : Gen.facadeBodiesWrathServer = expected_facadeBodiesWrathServer := by decide +kernel

/-- C11 / C12 / C14: every facade method of the three expansions is the delegation to its half that the model (and `HObj.step`) assumes -/
theorem C11_source_facade_delegates :
    Gen.facadeBodiesVanilla = expected_facadeBodiesVanilla ∧ Gen.facadeBodiesTbc = expected_facadeBodiesTbc ∧
    Gen.facadeBodiesWrathClient = expected_facadeBodiesWrathClient ∧ Gen.facadeBodiesWrathServer = expected_facadeBodiesWrathServer :=
  ⟨source_facade_vanilla, source_facade_tbc, source_facade_wrath_client, source_facade_wrath_server⟩
theorem C12_source_facade_delegates :
    Gen.facadeBodiesVanilla = expected_facadeBodiesVanilla ∧ Gen.facadeBodiesTbc = expected_facadeBodiesTbc ∧
    Gen.facadeBodiesWrathClient = expected_facadeBodiesWrathClient ∧ Gen.facadeBodiesWrathServer = expected_facadeBodiesWrathServer := C11_source_facade_delegates
theorem C14_source_facade_delegates :
    Gen.facadeBodiesVanilla = expected_facadeBodiesVanilla ∧ Gen.facadeBodiesTbc = expected_facadeBodiesTbc ∧
    Gen.facadeBodiesWrathClient = expected_facadeBodiesWrathClient ∧ Gen.facadeBodiesWrathServer = expected_facadeBodiesWrathServer := C11_source_facade_delegates

end WowSrp
