/-
Translator leg for C01 / C03 / C14: `SKey::as_equal_slice` — the rule "drop the low-order zero bytes of S, one more if their number is
odd" that decides the session key of one login in 256 and was the crate's 0.1.1 bug — is translated from the working tree on every
run (tools/gen_code.py → Gen/Code.lean, meaning in Model/MiniScan.lean).  For EVERY byte string the translated program computes the
model's `asEqualSlice` (same slice, and it panics exactly when the model says the Rust panics).  `C03_interleave`, `C14_interleaved`,
`C01_secrets_agree` are about `asEqualSlice`; through this equality they are about the code as written now.
-/
import WowSrp.Gen.Code
import WowSrp.Model.Srp
namespace WowSrp
open MiniScan

/-- the scan loop: `while lead < s.len() && s[lead] == 0 { lead += 1 }` is the model's `scanZeros` whenever enough fuel is left -/
theorem whileInc_scan (s : Bytes) : ∀ (fuel lead : Nat), s.length - lead < fuel →
    runWhile s (Cond.and (Cond.lt NExpr.lead NExpr.len) (Cond.byteEq NExpr.lead 0)) 1 fuel lead = .ok (scanZeros s fuel lead)
  | 0, lead, h => by omega
  | fuel + 1, lead, h => by
    unfold runWhile scanZeros
    by_cases hl : lead < s.length
    · have hs : s[lead]? = some s[lead] := List.getElem?_eq_getElem hl
      by_cases hb : s[lead] = 0
      · have ih := whileInc_scan s fuel (lead + 1) (by omega)
        simp [Cond.eval, NExpr.eval, hl, hs, hb, bind, Out.bind, ih]
      · have hb' : ¬ (s[lead]).toNat = 0 := by
          intro h0; apply hb; exact UInt8.toNat_inj.mp (by simpa using h0)
        have hb2 : ((s[lead]).toNat == 0) = false := by simpa using hb'
        simp [Cond.eval, NExpr.eval, hl, hs, hb, hb2, bind, Out.bind]
    · have hs : s[lead]? = none := List.getElem?_eq_none (by omega)
      simp [Cond.eval, NExpr.eval, hl, hs, bind, Out.bind]

/-- C03 / C01 / C14: the strip rule, as translated from the source, IS the model's `asEqualSlice` (every byte string) -/
theorem C03_translated_strip_rule (s : Bytes) :
    MiniRust.Out.toOption (Gen.Code.asEqualSlice.run s) = MiniRust.Out.toOption (asEqualSlice s) := by
  have hscan := whileInc_scan s (s.length + 1) 0 (by omega)
  unfold Prog.run asEqualSlice Gen.Code.asEqualSlice
  simp only [execAll, SStmt.exec, hscan, bind, Out.bind, Cond.eval, NExpr.eval]
  by_cases hodd : scanZeros s (s.length + 1) 0 % 2 = 0
  · by_cases hle : scanZeros s (s.length + 1) 0 ≤ s.length <;>
      simp [hodd, hle, MiniRust.Out.toOption]
  · have hodd1 : scanZeros s (s.length + 1) 0 % 2 = 1 := by omega
    by_cases hle : scanZeros s (s.length + 1) 0 + 1 ≤ s.length <;>
      simp [hodd, hodd1, hle, MiniRust.Out.toOption]

/-- the same obligation under the names of the other properties that rest on the strip rule -/
theorem C01_translated_strip_rule (s : Bytes) :
    MiniRust.Out.toOption (Gen.Code.asEqualSlice.run s) = MiniRust.Out.toOption (asEqualSlice s) := C03_translated_strip_rule s
theorem C14_translated_strip_rule (s : Bytes) :
    MiniRust.Out.toOption (Gen.Code.asEqualSlice.run s) = MiniRust.Out.toOption (asEqualSlice s) := C03_translated_strip_rule s

/-- sanity: the translated program on the all-zero S (the C14 case) and on an odd zero run -/
example : Gen.Code.asEqualSlice.run (List.replicate 32 0) = .ok [] := by decide
example : Gen.Code.asEqualSlice.run [0, 0, 0, 5, 0, 7] = .ok [0, 7] := by decide

end WowSrp
