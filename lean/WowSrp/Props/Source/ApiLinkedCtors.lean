/-
The constructors of `SrpVerifier` with `Self::from_database_values`, `Self::with_specific_salt`, `Self::with_specific_private_key` meaning their
TRANSLATED terms (see Props/Source/ApiLinkBase.lean): `from_username_and_password` and `into_proof` are still the model's functions, so the
argument order at these call sites and the parameter order of the callees, both re-read from the source, fit together.  (`calculate_password_verifier`
and `calculate_server_public_key` keep the meaning given by the table; they are tied by the formula theorems.)
-/
import WowSrp.Props.Source.ApiLinkBase
import WowSrp.Props.Source.ApiSetup
import WowSrp.Props.Source.ApiDraws
namespace WowSrp
open MiniApi

/-- a translated associated function without `self` as a callee: arguments positionally, no draws, only the value kept -/
def apiCallee (f : ApiFn) (P : Prims) : List AVal → Out AVal := fun vs =>
  match f.run P [] vs [] with
  | some r => r.bind (fun x => .ok x.1)
  | none => .panic "the translated callee has no meaning on these arguments"

/-- a translated method as a callee of `Self::method(self, args..)`: the first argument is the struct value whose fields are `self` -/
def apiMethodCallee (f : ApiFn) (P : Prims) : List AVal → Out AVal := fun vs =>
  match vs with
  | .struct _ fields :: rest =>
    (match f.run P fields rest [] with
     | some r => r.bind (fun x => .ok x.1)
     | none => .panic "the translated callee has no meaning on these arguments")
  | _ => .panic "the translated callee has no meaning on these arguments"

def ctorPrims0 (C : Crypto) (be : Backend) : Prims := fun n =>
  if n = "Self::from_database_values" then some (apiCallee Gen.CodeApi.fromDatabaseValues (srpPrims C be)) else srpPrims C be n

def ctorPrims (C : Crypto) (be : Backend) : Prims := fun n =>
  if n = "Self::with_specific_salt" then some (apiCallee Gen.CodeApi.withSpecificSalt (ctorPrims0 C be))
  else if n = "Self::with_specific_private_key" then some (apiMethodCallee Gen.CodeApi.withSpecificPrivateKey (srpPrims C be))
  else ctorPrims0 C be n

theorem fromDb_callee (C : Crypto) (be : Backend) (u : NStr) (v s : Bytes) :
    apiCallee Gen.CodeApi.fromDatabaseValues (srpPrims C be) [.nstr u, .bytes v, .bytes s] = .ok (valVerifier (SrpVerifier.fromDatabaseValues u v s)) := by
  simp [apiCallee, Gen.CodeApi.fromDatabaseValues, ApiFn.run, runBody, Rhs.eval, drawKinds, Ret.eval, fieldsVal, Atom.val, lookup, valVerifier,
    SrpVerifier.fromDatabaseValues, Out.bind, bind]

theorem withSalt_callee (C : Crypto) (be : Backend) (u p : NStr) (salt : Bytes) :
    apiCallee Gen.CodeApi.withSpecificSalt (ctorPrims0 C be) [.nstr u, .nstr p, .bytes salt]
      = (SrpVerifier.fromUsernameAndPassword C be u p salt).bind (fun s => .ok (valVerifier s)) := by
  simp only [SrpVerifier.fromUsernameAndPassword]
  cases hv : calculatePasswordVerifier C be u.asRef p.asRef salt with
  | panic m =>
    simp [apiCallee, Gen.CodeApi.withSpecificSalt, ApiFn.run, runBody, Rhs.eval, drawKinds, atomsVal, Atom.val, lookup, ctorPrims0, srpPrims, outBytes, hv,
      Out.bind, bind]
  | ok v =>
    simp only [apiCallee]
    simp [Gen.CodeApi.withSpecificSalt, ApiFn.run, runBody, Rhs.eval, drawKinds, Ret.eval, atomsVal, Atom.val, lookup, bindVar, ctorPrims0, srpPrims,
      fromDb_callee, outBytes, hv, Out.bind, bind]

theorem withKey_callee (C : Crypto) (be : Backend) (s : SrpVerifier) (b : Bytes) :
    apiMethodCallee Gen.CodeApi.withSpecificPrivateKey (srpPrims C be) [.struct "SrpVerifier" (selfVerifier s), .bytes b]
      = (s.withSpecificPrivateKey be b).bind (fun r => match r with
          | .error e => .ok (.err (pkErrVal e))
          | .ok p => .ok (.ok (valProof p))) := by
  have h := C03_translated_with_specific_private_key C be s b
  simp only [apiMethodCallee, h]
  cases s.withSpecificPrivateKey be b with
  | panic m => rfl
  | ok r => cases r <;> rfl

theorem C15_linked_from_username_and_password (C : Crypto) (be : Backend) (u p : NStr) (salt : Bytes) (rest : List Bytes) :
    Gen.CodeApi.fromUsernameAndPassword.run (ctorPrims C be) [] [.nstr u, .nstr p] (salt :: rest)
      = some ((SrpVerifier.fromUsernameAndPassword C be u p salt).bind (fun s => .ok (valVerifier s, [], rest))) := by
  have hw := withSalt_callee C be u p salt
  cases hv : SrpVerifier.fromUsernameAndPassword C be u p salt with
  | panic m =>
    simp [hv] at hw
    simp [Gen.CodeApi.fromUsernameAndPassword, ApiFn.run, runBody, Rhs.eval, drawKinds, Ret.eval, atomsVal, Atom.val, lookup, bindVar, ctorPrims, hw, Out.bind, bind]
  | ok v =>
    simp [hv] at hw
    simp [Gen.CodeApi.fromUsernameAndPassword, ApiFn.run, runBody, Rhs.eval, drawKinds, Ret.eval, atomsVal, Atom.val, lookup, bindVar, ctorPrims, hw, Out.bind, bind]

theorem C15_linked_into_proof (C : Crypto) (be : Backend) (s : SrpVerifier) (b : Bytes) (rest : List Bytes) :
    (Gen.CodeApi.intoProof.run (ctorPrims C be) (selfVerifier s) [] (b :: rest)).map outcomeOf
      = some (outcomeOf ((s.intoProof be b).bind (fun p => .ok (valProof p, selfVerifier s, rest)))) := by
  have hk := withKey_callee C be s b
  simp only [SrpVerifier.intoProof]
  cases hw : SrpVerifier.withSpecificPrivateKey be s b with
  | panic m =>
    simp [hw] at hk
    simp [Gen.CodeApi.intoProof, ApiFn.run, runBody, Rhs.eval, drawKinds, Ret.eval, atomsVal, Atom.val, lookup, bindVar, ctorPrims, hk, Out.bind, bind, outcomeOf]
  | ok r =>
    cases r with
    | error e =>
      simp [hw] at hk
      simp [Gen.CodeApi.intoProof, ApiFn.run, runBody, Rhs.eval, drawKinds, Ret.eval, atomsVal, Atom.val, lookup, bindVar, ctorPrims, hk, Out.bind, bind, outcomeOf]
    | ok pr =>
      simp [hw] at hk
      simp [Gen.CodeApi.intoProof, ApiFn.run, runBody, Rhs.eval, drawKinds, Ret.eval, atomsVal, Atom.val, lookup, bindVar, ctorPrims, hk, Out.bind, bind, outcomeOf]

#print axioms C15_linked_from_username_and_password
#print axioms C15_linked_into_proof
end WowSrp
