/-
Translator leg for C03 (and C01, C19): the five big-integer formulas of the exchange are translated from the working tree on every
run (tools/gen_code.py → Gen/Code.lean, meaning in Model/MiniBig.lean).  Each model function IS its translated formula followed by
the conversion the source applies to the result — for every input, both back ends, including the panic cases (zero modulus).
`C03_verifier`, `C03_server_public_key`, `C03_server_S`, `C03_client_public_key`, `C03_client_S` (Model = Spec) are about these
model functions; through the equalities below they are about the formulas as written in the source now.
-/
import WowSrp.Gen.Code
import WowSrp.Model.Srp
namespace WowSrp
open MiniBig

/-- the built-in constants the formulas name (`KValue::bigint()`, `Generator::default()`, `LargeSafePrime::default()`) -/
def srpConsts : Consts := ⟨kBig, gBig, nBig⟩
def envOf (l : List (String × Nat)) : String → Nat := fun s => (l.lookup s).getD 0

theorem C03_translated_verifier (C : Crypto) (be : Backend) (U P salt : Bytes) :
    calculatePasswordVerifier C be U P salt =
      (Gen.Code.passwordVerifierFormula.eval srpConsts be (envOf [("x", ofLE (calculateX C U P salt))]) >>= fun v => toPadded32 be v.toNat) ∧
    Gen.Code.passwordVerifierFormulaWrap = "to_padded_32_byte_array_le" := by
  refine ⟨?_, by decide⟩
  unfold calculatePasswordVerifier Gen.Code.passwordVerifierFormula
  simp only [BigExpr.eval, srpConsts, envOf, List.lookup, bind, Out.bind]
  cases h : be.modpow (↑gBig) (ofLE (calculateX C U P salt)) nBig <;> simp_all [Out.bind]

theorem C03_translated_server_public_key (be : Backend) (v b : Bytes) :
    calculateServerPublicKey be v b =
      (Gen.Code.serverPublicKeyFormula.eval srpConsts be (envOf [("password_verifier", ofLE v), ("server_private_key", ofLE b)])
        >>= fun B => PublicKey.tryFromBigint be B.toNat) ∧
    Gen.Code.serverPublicKeyFormulaWrap = "PublicKey::try_from_bigint" := by
  refine ⟨?_, by decide⟩
  unfold calculateServerPublicKey Gen.Code.serverPublicKeyFormula remOut
  simp only [BigExpr.eval, srpConsts, envOf, List.lookup, bind, Out.bind]
  cases h : be.modpow (↑gBig) (ofLE b) nBig with
  | panic p => simp_all
  | ok t =>
    by_cases hn : nBig = 0
    · simp_all
    · have hn' : ¬ ((nBig : Int) = 0) := by exact_mod_cast hn
      have hv : ((↑kBig * ↑(ofLE v) + ↑t : Int) % ↑nBig).toNat = (kBig * ofLE v + t) % nBig := by
        have : ((↑kBig * ↑(ofLE v) + ↑t : Int)) = ((kBig * ofLE v + t : Nat) : Int) := by rw [Int.natCast_add, Int.natCast_mul]
        rw [this]; generalize kBig * ofLE v + t = w; omega
      simp_all

theorem C03_translated_server_S (be : Backend) (A v u b : Bytes) :
    calculateS be A v u b =
      (Gen.Code.serverSFormula.eval srpConsts be
          (envOf [("client_public_key", ofLE A), ("password_verifier", ofLE v), ("u", ofLE u), ("server_private_key", ofLE b)])
        >>= fun s => padCopy 32 (be.toBytesLe s.toNat) "key.rs:88 slice end out of range") ∧
    Gen.Code.serverSFormulaWrap = "into" := by
  refine ⟨?_, by decide⟩
  unfold calculateS Gen.Code.serverSFormula
  simp only [BigExpr.eval, srpConsts, envOf, List.lookup, bind, Out.bind]
  cases h : be.modpow (↑(ofLE v)) (ofLE u) nBig with
  | panic p => simp_all
  | ok t =>
    simp only [Int.toNat_natCast, Option.getD]
    cases h2 : be.modpow ((ofLE A : Int) * (t : Int)) (ofLE b) nBig <;> simp_all

theorem C03_translated_client_public_key (be : Backend) (a : Bytes) (g : Nat) (nLE : Bytes) :
    calculateClientPublicKey be a g nLE =
      (Gen.Code.clientPublicKeyFormula.eval srpConsts be
          (envOf [("generator", g), ("client_private_key", ofLE a), ("large_safe_prime", ofLE nLE)])
        >>= fun A => PublicKey.clientTryFromBigint be A.toNat (ofLE nLE)) ∧
    Gen.Code.clientPublicKeyFormulaWrap = "PublicKey::client_try_from_bigint" := by
  refine ⟨?_, by decide⟩
  unfold calculateClientPublicKey Gen.Code.clientPublicKeyFormula
  simp only [BigExpr.eval, srpConsts, envOf, List.lookup, bind, Out.bind]
  simp only [Int.toNat_natCast, Option.getD]
  cases h : be.modpow (↑g) (ofLE a) (ofLE nLE) <;> simp_all

theorem C03_translated_client_S (be : Backend) (B x a u : Bytes) (g : Nat) (nLE : Bytes) :
    calculateClientS be B x a u g nLE =
      (Gen.Code.clientSFormula.eval srpConsts be
          (envOf [("server_public_key", ofLE B), ("x", ofLE x), ("client_private_key", ofLE a), ("u", ofLE u),
                  ("generator", g), ("large_safe_prime", ofLE nLE)])
        >>= fun s => toPadded32 be s.toNat) ∧
    Gen.Code.clientSFormulaWrap = "SKey::from_le_bytes(to_padded_32_byte_array_le)" := by
  refine ⟨?_, by decide⟩
  unfold calculateClientS Gen.Code.clientSFormula
  simp only [BigExpr.eval, srpConsts, envOf, List.lookup, bind, Out.bind]
  simp only [Int.toNat_natCast, Option.getD]
  cases h : be.modpow (↑g) (ofLE x) (ofLE nLE) with
  | panic p => simp_all
  | ok t =>
    have he : ((↑(ofLE a) + ↑(ofLE u) * ↑(ofLE x) : Int)).toNat = ofLE a + ofLE u * ofLE x := by
      have : ((↑(ofLE a) + ↑(ofLE u) * ↑(ofLE x) : Int)) = ((ofLE a + ofLE u * ofLE x : Nat) : Int) := by rw [Int.natCast_add, Int.natCast_mul]
      rw [this, Int.toNat_natCast]
    simp only [he]
    cases h2 : be.modpow ((ofLE B : Int) - (kBig : Int) * (t : Int)) (ofLE a + ofLE u * ofLE x) (ofLE nLE) <;> simp_all

/-- the same obligations under the names of the other properties that rest on the formulas -/
theorem C01_translated_formulas (be : Backend) (A v u b B x a : Bytes) (g : Nat) (nLE : Bytes) :
    calculateS be A v u b =
      (Gen.Code.serverSFormula.eval srpConsts be
          (envOf [("client_public_key", ofLE A), ("password_verifier", ofLE v), ("u", ofLE u), ("server_private_key", ofLE b)])
        >>= fun s => padCopy 32 (be.toBytesLe s.toNat) "key.rs:88 slice end out of range") ∧
    calculateClientS be B x a u g nLE =
      (Gen.Code.clientSFormula.eval srpConsts be
          (envOf [("server_public_key", ofLE B), ("x", ofLE x), ("client_private_key", ofLE a), ("u", ofLE u),
                  ("generator", g), ("large_safe_prime", ofLE nLE)])
        >>= fun s => toPadded32 be s.toNat) :=
  ⟨(C03_translated_server_S be A v u b).1, (C03_translated_client_S be B x a u g nLE).1⟩

end WowSrp
