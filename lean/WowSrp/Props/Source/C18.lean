/-
Translator leg for C18: facts extracted from the Rust source by tools/gen_constants.py on every run
(field order fed to each hash object, structural facts). A reordered / dropped / added field or a changed
structure in the Rust breaks exactly these obligations, independently of the correspondence run.
-/
import WowSrp.Gen.Constants
import WowSrp.Gen.Facts
namespace WowSrp

/-- C18: MD5(seed | session key) keys both RC4 and the HMAC; each entered value is MACed after encryption -/
theorem C18_source_layout :
    Gen.layoutMatrixCardNew = [["seed.to_le_bytes()", "session_key"], ["key:&md5"], ["ctors:Context::new,Hmac::<Sha1>::new_from_slice", "methods:compute,consume,consume", "control:", "rebound:md5", "tail:Self{challenge_count,height,width,coordinates,hmac,rc4,}"]] ∧
    Gen.layoutMatrixCardEnter = [["value"], ["ctors:", "methods:update", "control:", "rebound:", "tail:"]] := by decide +kernel

/-- C18: matrix_card.rs and rc4.rs keep no state outside the verifier / card objects -/
theorem C18_source_no_hidden_state : Gen.matrixCardModuleHasNoSharedState = true := by decide +kernel

end WowSrp
