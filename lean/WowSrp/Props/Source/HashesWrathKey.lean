/-
`InnerCrypto::new(session_key, key)` of the Wrath header cipher (src/wrath_header/inner_crypto/mod.rs), translated from the working tree by
tools/gen_hash.py (Gen/CodeHash.lean): the RC4 key is HMAC-SHA1 KEYED WITH THE DIRECTION CONSTANT over the session key (not the other way
round), and the first `wrathInnerDrop` keystream bytes are discarded — which is the model's `InnerCrypto.new` for EVERY session key, direction
constant and `Crypto`.  (Which constant each of the four halves passes is the subject of `C09_directions`; RC4 itself of
`C09_translated_ksa` / `C09_translated_prga`.)
-/
import WowSrp.Gen.CodeHash
import WowSrp.Model.Wrath
namespace WowSrp
open MiniHash

theorem C09_translated_inner_new (C : Crypto) (K key : Bytes) :
    Gen.CodeHash.wrathInnerKey.run C (fun _ => none) [.bytes K, .bytes key] = some (C.hmac key K)
    ∧ Gen.CodeHash.wrathInnerDrop = Gen.wrathDrop
    ∧ InnerCrypto.new C K key = (do
        let r ← Rc4.new (C.hmac key K)
        let (r', _) ← r.apply (List.replicate Gen.CodeHash.wrathInnerDrop 0)
        pure r') := by
  refine ⟨?_, by decide, rfl⟩
  simp [Gen.CodeHash.wrathInnerKey, HashProg.run, execAll, HStmt.exec, feedAll, HArg.fed, HArg.val, bind, Option.bind]

/-- sensitivity: key and message are not interchangeable (toy HMAC = key ++ message) -/
example : Gen.CodeHash.wrathInnerKey.run ⟨id, fun k m => k ++ m, fun _ => []⟩ (fun _ => none) [.bytes [1, 2], .bytes [9]] = some [9, 1, 2] := by
  decide +kernel

#print axioms C09_translated_inner_new
end WowSrp
