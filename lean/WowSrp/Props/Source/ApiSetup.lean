/-
Translated from the working tree by tools/gen_api.py (Gen/CodeApi.lean) and proved equal to the model for every argument:
`calculate_session_key` (srp_internal.rs), `SrpVerifier::from_database_values`, `with_specific_salt`, `with_specific_private_key` (server.rs).
(see Props/Source/ApiBase.lean for the environment `srpPrims` / `srvPrims` and the value embeddings.)
-/
import WowSrp.Props.Source.ApiBase
namespace WowSrp
open MiniApi

/-- `calculate_session_key(client_public_key, server_public_key, password_verifier, server_private_key)` -/
theorem C03_translated_calculate_session_key (C : Crypto) (be : Backend) (A B v b : Bytes) :
    Gen.CodeApi.calculateSessionKey.run (srpPrims C be) [] [.bytes A, .bytes B, .bytes v, .bytes b] []
      = some ((calculateSessionKey C be A B v b).bind (fun K => .ok (.bytes K, [], []))) := by
  simp only [calculateSessionKey]
  cases hS : calculateS be A v (calculateU C A B) b with
  | panic m =>
    simp [Gen.CodeApi.calculateSessionKey, ApiFn.run, runBody, Rhs.eval, drawKinds, Ret.eval, atomsVal, Atom.val, lookup, bindVar, srpPrims, outBytes, hS,
      Out.bind, bind]
  | ok S =>
    cases hK : calculateInterleaved C S with
    | panic m =>
      simp [Gen.CodeApi.calculateSessionKey, ApiFn.run, runBody, Rhs.eval, drawKinds, Ret.eval, atomsVal, Atom.val, lookup, bindVar, srpPrims, outBytes, hS, hK,
        Out.bind, bind]
    | ok K =>
      simp [Gen.CodeApi.calculateSessionKey, ApiFn.run, runBody, Rhs.eval, drawKinds, Ret.eval, atomsVal, Atom.val, lookup, bindVar, srpPrims, outBytes, hS, hK,
        Out.bind, bind]

/-- `SrpVerifier::with_specific_private_key(self, server_private_key)` -/
theorem C03_translated_with_specific_private_key (C : Crypto) (be : Backend) (s : SrpVerifier) (b : Bytes) :
    Gen.CodeApi.withSpecificPrivateKey.run (srpPrims C be) (selfVerifier s) [.bytes b] []
      = some ((s.withSpecificPrivateKey be b).bind (fun r => match r with
          | .error e => .ok (.err (pkErrVal e), selfVerifier s, [])
          | .ok p => .ok (.ok (valProof p), selfVerifier s, []))) := by
  simp only [SrpVerifier.withSpecificPrivateKey]
  cases hB : calculateServerPublicKey be s.passwordVerifier b with
  | panic m =>
    simp [Gen.CodeApi.withSpecificPrivateKey, ApiFn.run, runBody, Rhs.eval, drawKinds, Ret.eval, atomsVal, fieldsVal, Atom.val, lookup, bindVar, srpPrims, outKey,
      selfVerifier, hB, Out.bind, bind]
  | ok r =>
    cases r with
    | error e =>
      simp [Gen.CodeApi.withSpecificPrivateKey, ApiFn.run, runBody, Rhs.eval, drawKinds, Ret.eval, atomsVal, fieldsVal, Atom.val, lookup, bindVar, srpPrims, outKey,
        selfVerifier, hB, Out.bind, bind]
    | ok B =>
      simp [Gen.CodeApi.withSpecificPrivateKey, ApiFn.run, runBody, Rhs.eval, drawKinds, Ret.eval, atomsVal, fieldsVal, Atom.val, lookup, bindVar, srpPrims, outKey,
        selfVerifier, valProof, hB, Out.bind, bind]


/-- `SrpVerifier::from_database_values(username, password_verifier, salt)` -/
theorem C01_translated_from_database_values (C : Crypto) (be : Backend) (u : NStr) (v salt : Bytes) :
    Gen.CodeApi.fromDatabaseValues.run (srvPrims C be) [] [.nstr u, .bytes v, .bytes salt] []
      = some (.ok (valVerifier (SrpVerifier.fromDatabaseValues u v salt), [], [])) := by
  simp [Gen.CodeApi.fromDatabaseValues, ApiFn.run, runBody, Rhs.eval, drawKinds, Ret.eval, fieldsVal, Atom.val, lookup, valVerifier,
    SrpVerifier.fromDatabaseValues, Out.bind, bind]


/-- `SrpVerifier::with_specific_salt(username, password, salt)` -/
theorem C03_translated_with_specific_salt (C : Crypto) (be : Backend) (u p : NStr) (salt : Bytes) :
    Gen.CodeApi.withSpecificSalt.run (srvPrims C be) [] [.nstr u, .nstr p, .bytes salt] []
      = some ((SrpVerifier.fromUsernameAndPassword C be u p salt).bind (fun s => .ok (valVerifier s, [], []))) := by
  simp only [SrpVerifier.fromUsernameAndPassword]
  cases hv : calculatePasswordVerifier C be u.asRef p.asRef salt with
  | panic m =>
    simp [Gen.CodeApi.withSpecificSalt, ApiFn.run, runBody, Rhs.eval, drawKinds, atomsVal, Atom.val, lookup, srvPrims, srpPrims, outBytes, hv, Out.bind, bind]
  | ok v =>
    simp [Gen.CodeApi.withSpecificSalt, ApiFn.run, runBody, Rhs.eval, drawKinds, Ret.eval, atomsVal, Atom.val, lookup, bindVar, srvPrims, srpPrims, outBytes, hv,
      Out.bind, bind]

/-- the parameter lists and return types the terms above were read under (the terms carry parameter NAMES; the types decide what a
    conversion such as `Generator::from(generator)`, `.into()` or `?` means) -/
theorem C03_translated_setup_signatures :
    Gen.CodeApi.calculateSessionKeySig = "client_public_key:&PublicKey,server_public_key:&PublicKey,password_verifier:&Verifier,server_private_key:&PrivateKey,->SessionKey" ∧
    Gen.CodeApi.withSpecificPrivateKeySig = "self,server_private_key:PrivateKey,->Result<SrpProof,InvalidPublicKeyError>" ∧
    Gen.CodeApi.fromDatabaseValuesSig = "username:NormalizedString,password_verifier:[u8;PASSWORD_VERIFIER_LENGTH as usize],salt:[u8;SALT_LENGTH as usize],->Self" ∧
    Gen.CodeApi.withSpecificSaltSig = "username:NormalizedString,password:NormalizedString,salt:&Salt,->Self" := by decide +kernel

#print axioms C03_translated_calculate_session_key
#print axioms C03_translated_with_specific_private_key
#print axioms C01_translated_from_database_values
#print axioms C03_translated_with_specific_salt
#print axioms C03_translated_setup_signatures
end WowSrp
