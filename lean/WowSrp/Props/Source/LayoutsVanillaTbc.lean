/-
Translator leg for the header WIRE FORMAT of Vanilla / TBC (C11; C07/C08 use the same functions): the `[..]` literals of
`encrypt_server_header` / `encrypt_client_header` and the bodies of `ServerHeader::from_array` / `ClientHeader::from_array` are
translated from the working tree on every run (tools/gen_code.py → Gen/Code.lean, meaning in Model/MiniLayout.lean).  For ALL sizes
and opcodes / ALL byte lists the translated terms denote the model's `serverHeaderBytes` / `clientHeaderBytes` /
`parseServerHeader` / `parseClientHeader` — the functions every layout theorem of C11 is about.
-/
import WowSrp.Gen.Code
import WowSrp.Model.Header
namespace WowSrp
open MiniLayout MiniRust

theorem C11_translated_layout_vanilla (size opcode : Nat) :
    layoutBytes Gen.Code.vanillaServerHeaderLayout size opcode = serverHeaderBytes size opcode ∧
    layoutBytes Gen.Code.vanillaClientHeaderLayout size opcode = clientHeaderBytes size opcode := by
  constructor <;>
    simp [Gen.Code.vanillaServerHeaderLayout, Gen.Code.vanillaClientHeaderLayout, layoutBytes, LByte.eval, Field.val,
          serverHeaderBytes, clientHeaderBytes, be16, leN, Nat.div_div_eq_div_mul]

theorem C11_translated_layout_tbc (size opcode : Nat) :
    layoutBytes Gen.Code.tbcServerHeaderLayout size opcode = serverHeaderBytes size opcode ∧
    layoutBytes Gen.Code.tbcClientHeaderLayout size opcode = clientHeaderBytes size opcode := by
  constructor <;>
    simp [Gen.Code.tbcServerHeaderLayout, Gen.Code.tbcClientHeaderLayout, layoutBytes, LByte.eval, Field.val,
          serverHeaderBytes, clientHeaderBytes, be16, leN, Nat.div_div_eq_div_mul]

/-- `ServerHeader::from_array`, `ClientHeader::from_array` (shared by the three expansions) -/
theorem C11_translated_parse (b : Bytes) :
    Gen.Code.vanillaServerHeaderParse.eval b = Out.toOption (parseServerHeader b) ∧
    Gen.Code.vanillaClientHeaderParse.eval b = Out.toOption (parseClientHeader b) := by
  constructor
  · rcases b with _ | ⟨b0, _ | ⟨b1, _ | ⟨b2, _ | ⟨b3, _ | ⟨b4, t⟩⟩⟩⟩⟩ <;>
      simp [Gen.Code.vanillaServerHeaderParse, ParseSpec.eval, PByte.eval, Order.value, parseServerHeader, Out.toOption]
    all_goals omega
  · rcases b with _ | ⟨b0, _ | ⟨b1, _ | ⟨b2, _ | ⟨b3, _ | ⟨b4, _ | ⟨b5, _ | ⟨b6, t⟩⟩⟩⟩⟩⟩⟩ <;>
      simp [Gen.Code.vanillaClientHeaderParse, ParseSpec.eval, PByte.eval, Order.value, parseClientHeader, Out.toOption]
    all_goals omega

end WowSrp
