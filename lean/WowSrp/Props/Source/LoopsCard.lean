/-
`MatrixCard::get_number_at_coordinates` and `MatrixCard::get_matrix_card_size` (src/matrix_card.rs), translated from the working tree
by tools/gen_imp.py (Gen/CodeImp.lean), denote the model's `MatrixCard.getNumberAt` and the size `d * h * w` that `MatrixCard.fromData`
compares with — for every cell, geometry and card contents.  The C18 cell theorems (`C18_cell`: cell (x, y) is printed cell y*w + x) are
about `getNumberAt`; through these equalities they are about the index arithmetic as written now.
-/
import WowSrp.Gen.CodeImp
import WowSrp.Model.MatrixCard
namespace WowSrp
open MiniImp

private theorem mul_lt_of_lt_256 {a b : Nat} (ha : a < 256) (hb : b < 256) : a * b ≤ 255 * 255 :=
  Nat.mul_le_mul (by omega) (by omega)

/-- scalar slots: x, y, then the integer fields of the struct in declaration order (digit_count, width, height); array slot 0: data -/
theorem C18_translated_get_number_at (x y d w h : Nat) (data : Bytes)
    (hx : x < 256) (hy : y < 256) (hd : d < 256) (hw : w < 256) (hh : h < 256) :
    forget (Gen.CodeImp.getNumberAtCoordinates.run [x, y, d, w, h] [data]) =
      forget (MatrixCard.getNumberAt ⟨d, w, h, data⟩ x y) := by
  have h1 : y * w ≤ 255 * 255 := mul_lt_of_lt_256 hy hw
  have h2 : (y * w + x) * d ≤ (255 * 255 + 255) * 255 := Nat.mul_le_mul (by omega) (by omega)
  have a1 : y * w < 2 ^ 64 := by omega
  have a2 : y * w + x < 2 ^ 64 := by omega
  have a3 : (y * w + x) * d < 2 ^ 64 := by omega
  have a4 : (y * w + x) * d + d < 2 ^ 64 := by omega
  unfold Gen.CodeImp.getNumberAtCoordinates
  simp only [Fn.run, Stmt.exec, Expr.eval, Env.getVar, Env.setVar, Env.getArr, Result.get, MatrixCard.getNumberAt,
    List.getElem?_cons_zero, List.getElem?_cons_succ, List.length_cons, List.length_nil, bind, Out.bind, a1, a2, a3, if_true]
  by_cases hle : (y * w + x) * d + d ≤ data.length
  · simp [forget, hle, a4]
  · simp [forget, hle, a4]

theorem C18_translated_card_size (d h w : Nat) (hd : d < 256) (hh : h < 256) (hw : w < 256) :
    forget (Gen.CodeImp.getMatrixCardSize.run [d, h, w] []) = some (d * h * w) := by
  have h1 : d * h ≤ 255 * 255 := mul_lt_of_lt_256 hd hh
  have h2 : d * h * w ≤ 255 * 255 * 255 := Nat.mul_le_mul h1 (by omega)
  have a1 : d * h < 2 ^ 64 := by omega
  have a2 : d * h * w < 2 ^ 64 := by omega
  unfold Gen.CodeImp.getMatrixCardSize
  simp [FnNat.run, Stmt.exec, Expr.eval, Env.getVar, Env.setVar, bind, Out.bind, a1, a2, forget]

/-- both sides run on a concrete card: 2 digits per cell, 3 wide, 2 high, cell (1, 1) -/
example : forget (Gen.CodeImp.getNumberAtCoordinates.run [1, 1, 2, 3, 2] [[0,1, 0,2, 0,3, 0,4, 0,5, 0,6]]) = some [0, 5] ∧
    forget (MatrixCard.getNumberAt ⟨2, 3, 2, [0,1, 0,2, 0,3, 0,4, 0,5, 0,6]⟩ 1 1) = some [0, 5] := by decide
/-- a cell past the end of the data: both sides panic -/
example : forget (Gen.CodeImp.getNumberAtCoordinates.run [2, 2, 2, 3, 2] [[0,1, 0,2, 0,3, 0,4, 0,5, 0,6]]) = none ∧
    forget (MatrixCard.getNumberAt ⟨2, 3, 2, [0,1, 0,2, 0,3, 0,4, 0,5, 0,6]⟩ 2 2) = none := by decide
example : forget (Gen.CodeImp.getMatrixCardSize.run [2, 8, 10] []) = some 160 := by decide

#print axioms C18_translated_get_number_at
#print axioms C18_translated_card_size


/-- the parameter, return and field types are the ones the hypotheses of the C18 translation theorems spell out (u8 geometry, u64 seed);
    the field SLOTS are fixed by name in the translator (`digit_count`, `width`, `height`, `data`), whatever the declaration order -/
theorem C18_translated_signatures :
    Gen.CodeImp.signaturesCard = ["generate_coordinates: (u8, u8, u8, u64) -> Vec<u8>", "get_number_at_coordinates: (&self, u8, u8) -> &[u8]",
      "get_matrix_card_size: (u8, u8, u8) -> usize", "MatrixCard: digit_count:u8, width:u8, height:u8, data:arr"] := by decide +kernel

#print axioms C18_translated_signatures

end WowSrp
