/-
`SrpClientChallenge::new` and `verify_server_proof` (client.rs), translated from the working tree by tools/gen_api.py, denote the model's functions
for every argument and draw.
(see Props/Source/ApiBase.lean for the environment `srpPrims` / `srvPrims` and the value embeddings.)
-/
import WowSrp.Props.Source.ApiBase
namespace WowSrp
open MiniApi

/-- the outcome of a run without the text of a panic message (the model names panic sites by file and line) -/
def outcome {α : Type} : Out α → Option α
  | .ok a => some a
  | .panic _ => none

def selfChallenge (c : SrpClientChallenge) : Fields :=
  [("username", .nstr c.username), ("client_proof", .bytes c.clientProof), ("client_public_key", .bytes c.clientPublicKey),
   ("session_key", .bytes c.sessionKey)]
def valChallenge (c : SrpClientChallenge) : AVal := .struct "SrpClientChallenge"
  [("client_proof", .bytes c.clientProof), ("client_public_key", .bytes c.clientPublicKey), ("session_key", .bytes c.sessionKey),
   ("username", .nstr c.username)]
def valClient (c : SrpClient) : AVal := .struct "SrpClient" [("session_key", .bytes c.sessionKey), ("username", .nstr c.username)]


/-- `SrpClientChallenge::verify_server_proof(self, server_proof)` -/
theorem C02_translated_verify_server_proof (C : Crypto) (be : Backend) (c : SrpClientChallenge) (M2 : Bytes) :
    Gen.CodeApi.verifyServerProof.run (srpPrims C be) (selfChallenge c) [.bytes M2] []
      = some (.ok (match c.verifyServerProof C M2 with
          | .error e => (.err (valMatchErr e), selfChallenge c, [])
          | .ok cl => (.ok (valClient cl), selfChallenge c, []))) := by
  by_cases hM : M2 = calculateServerProof C c.clientPublicKey c.clientProof c.sessionKey
  · simp [Gen.CodeApi.verifyServerProof, ApiFn.run, runBody, Rhs.eval, drawKinds, Ret.eval, atomsVal, fieldsVal, Atom.val, lookup, bindVar, srpPrims,
      selfChallenge, valClient, valMatchErr, eqVal, SrpClientChallenge.verifyServerProof, hM, Out.bind, bind, outcome]
  · have hb : (M2 == calculateServerProof C c.clientPublicKey c.clientProof c.sessionKey) = false := by simp [hM]
    simp [hb, Gen.CodeApi.verifyServerProof, ApiFn.run, runBody, Rhs.eval, drawKinds, Ret.eval, atomsVal, fieldsVal, Atom.val, lookup, bindVar, srpPrims,
      selfChallenge, valClient, valMatchErr, eqVal, SrpClientChallenge.verifyServerProof, hM, Out.bind, bind, outcome]


/-- `SrpClientChallenge::new(username, password, generator, large_safe_prime, server_public_key, salt)`: the private key is the one draw;
    same value, or both panic (the `expect` on an invalid public key, a panic inside the big-integer code) -/
theorem C03_translated_client_new (C : Crypto) (be : Backend) (u p : NStr) (g : Nat) (nLE B salt a : Bytes) (rest : List Bytes) :
    (Gen.CodeApi.clientNew.run (srpPrims C be) [] [.nstr u, .nstr p, .num g, .bytes nLE, .bytes B, .bytes salt] (a :: rest)).map outcome
      = some (outcome ((SrpClientChallenge.new C be u p g nLE B salt a).bind (fun c => .ok (valChallenge c, [], rest)))) := by
  simp only [SrpClientChallenge.new]
  cases hA : calculateClientPublicKey be a g nLE with
  | panic m =>
    simp [Gen.CodeApi.clientNew, ApiFn.run, runBody, Rhs.eval, drawKinds, atomsVal, Atom.val, lookup, bindVar, srpPrims, outKey, hA, Out.bind, bind, outcome]
  | ok r =>
    cases r with
    | error e =>
      simp [Gen.CodeApi.clientNew, ApiFn.run, runBody, Rhs.eval, drawKinds, atomsVal, Atom.val, lookup, bindVar, srpPrims, outKey, hA, Out.bind, bind, outcome]
    | ok A =>
      cases hS : calculateClientS be B (calculateX C u.asRef p.asRef salt) a (calculateU C A B) g nLE with
      | panic m =>
        simp [Gen.CodeApi.clientNew, ApiFn.run, runBody, Rhs.eval, drawKinds, atomsVal, Atom.val, lookup, bindVar, srpPrims, outKey, outBytes, hA, hS,
          Out.bind, bind, outcome]
      | ok S =>
        cases hK : calculateInterleaved C S with
        | panic m =>
          simp [Gen.CodeApi.clientNew, ApiFn.run, runBody, Rhs.eval, drawKinds, atomsVal, Atom.val, lookup, bindVar, srpPrims, outKey, outBytes, hA, hS, hK,
            Out.bind, bind, outcome]
        | ok K =>
          simp [Gen.CodeApi.clientNew, ApiFn.run, runBody, Rhs.eval, drawKinds, Ret.eval, atomsVal, fieldsVal, Atom.val, lookup, bindVar, srpPrims, outKey,
            outBytes, valChallenge, hA, hS, hK, Out.bind, bind, outcome]

/-- the parameter lists and return types the terms above were read under (the terms carry parameter NAMES; the types decide what a
    conversion such as `Generator::from(generator)`, `.into()` or `?` means) -/
theorem C03_translated_client_signatures :
    Gen.CodeApi.verifyServerProofSig = "self,server_proof:[u8;PROOF_LENGTH as usize],->Result<SrpClient,MatchProofsError>" ∧
    Gen.CodeApi.clientNewSig = "username:NormalizedString,password:NormalizedString,generator:u8,large_safe_prime:[u8;LARGE_SAFE_PRIME_LENGTH as usize],server_public_key:PublicKey,salt:[u8;SALT_LENGTH as usize],->SrpClientChallenge" := by decide +kernel

#print axioms C02_translated_verify_server_proof
#print axioms C03_translated_client_new
#print axioms C03_translated_client_signatures
end WowSrp
