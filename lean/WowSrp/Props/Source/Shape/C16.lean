import WowSrp.Props.Source.Shape.Pin
namespace WowSrp

/-- C16: the functions of the files this property reads (Pin) have the shapes the model was written against -/
theorem C16_source_shapes :
    Gen.shapePin = expected_shapePin :=
  shapePin_ok

end WowSrp
