/-
Translator leg: the SHAPE of the functions of srp_internal.rs.  For every function tools/gen_constants.py lists, on every run, the ordered calls, the
control-flow keywords (with `?`) and the comparison / boolean operators — not the text (locals may be renamed, expressions reformatted),
but enough that "compare, THEN draw the new challenge, unconditionally", "refuse iff the proofs differ", "read_exact before decrypt" cannot
silently become something else.  The model functions were written against exactly these shapes.  (Generated once by tools/mk_shape_modules.py.)
-/
import WowSrp.Gen.Facts
namespace WowSrp

def expected_shapeSrpInternal : List (List String) := [["calculate_x: calls=Sha1::new,chain_update,as_ref,chain_update,chain_update,as_ref,finalize,Sha1::new,chain_update,as_le_bytes,chain_update,finalize,Sha1Hash::from_le_bytes,into; control=; ops=", "calculate_password_verifier: calls=calculate_x,as_bigint,Generator::default,to_bigint,LargeSafePrime::default,to_bigint,modpow,to_padded_32_byte_array_le; control=; ops=", "calculate_server_public_key: calls=Generator::default,to_bigint,LargeSafePrime::default,to_bigint,KValue::bigint,as_bigint,modpow,as_bigint,PublicKey::try_from_bigint; control=; ops=", "calculate_u: calls=Sha1::new,chain_update,as_le_bytes,chain_update,as_le_bytes,finalize,Sha1Hash::from_le_bytes,into; control=; ops=", "calculate_S: calls=LargeSafePrime::default,to_bigint,as_bigint,as_bigint,modpow,as_bigint,modpow,as_bigint,into; control=; ops=", "calculate_interleaved: calls=as_equal_slice,iter,step_by,enumerate,Sha1::new,chain_update,len,finalize,iter,skip,step_by,enumerate,Sha1::new,chain_update,len,finalize,iter,zip,iter,enumerate,SessionKey::from_le_bytes; control=for,for,for; ops=", "calculate_session_key: calls=calculate_u,allow,calculate_S,calculate_interleaved; control=; ops=", "calculate_server_proof: calls=Sha1::new,chain_update,as_le_bytes,chain_update,as_le_bytes,chain_update,as_le_bytes,finalize,Proof::from_le_bytes,into; control=; ops=", "calculate_xor_hash: calls=Sha1::new,chain_update,as_le_bytes,finalize,Sha1::new,chain_update,as_u8,finalize,iter,enumerate,Sha1Hash::from_le_bytes; control=for; ops=", "calculate_client_proof: calls=Sha1::new,chain_update,as_ref,finalize,Sha1::new,chain_update,chain_update,chain_update,as_le_bytes,chain_update,as_le_bytes,chain_update,as_le_bytes,chain_update,as_le_bytes,finalize,into,Proof::from_le_bytes; control=; ops=", "calculate_reconnect_proof: calls=Sha1::new,chain_update,as_ref,chain_update,as_le_bytes,chain_update,as_le_bytes,chain_update,as_le_bytes,finalize,Proof::from_le_bytes,into; control=; ops="]]

theorem shapeSrpInternal_ok : Gen.shapeSrpInternal = expected_shapeSrpInternal := by decide +kernel

end WowSrp
