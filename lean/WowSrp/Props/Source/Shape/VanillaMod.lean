/-
Translator leg: the SHAPE of the functions of vanilla_header/mod.rs.  For every function tools/gen_constants.py lists, on every run, the ordered calls, the
control-flow keywords (with `?`) and the comparison / boolean operators — not the text (locals may be renamed, expressions reformatted),
but enough that "compare, THEN draw the new challenge, unconditionally", "refuse iff the proofs differ", "read_exact before decrypt" cannot
silently become something else.  The model functions were written against exactly these shapes.  (Generated once by tools/mk_shape_modules.py.)
-/
import WowSrp.Gen.Facts
namespace WowSrp

def expected_shapeVanillaMod : List (List String) := [["from_array: calls=u16::from_be_bytes,u16::from_le_bytes; control=; ops=", "from_array: calls=u16::from_be_bytes,u32::from_le_bytes; control=; ops=", "decrypter: calls=; control=; ops=", "encrypter: calls=; control=; ops=", "encrypt: calls=encrypt; control=; ops=", "write_encrypted_server_header: calls=write_encrypted_server_header; control=; ops=", "write_encrypted_client_header: calls=write_encrypted_client_header; control=; ops=", "encrypt_server_header: calls=encrypt_server_header; control=; ops=", "encrypt_client_header: calls=encrypt_client_header; control=; ops=", "decrypt: calls=decrypt; control=; ops=", "read_and_decrypt_server_header: calls=read_and_decrypt_server_header; control=; ops=", "read_and_decrypt_client_header: calls=read_and_decrypt_client_header; control=; ops=", "decrypt_server_header: calls=decrypt_server_header; control=; ops=", "decrypt_client_header: calls=decrypt,u16::from_be_bytes,u32::from_le_bytes; control=; ops=", "split: calls=; control=; ops=", "new: calls=DecrypterHalf::new,EncrypterHalf::new; control=; ops=", "new: calls=Self::default; control=; ops=", "from_specific_seed: calls=; control=; ops=", "seed: calls=; control=; ops=", "into_client_header_crypto: calls=calculate_world_server_proof,SessionKey::from_le_bytes,HeaderCrypto::new,as_le_bytes; control=; ops=", "into_server_header_crypto: calls=calculate_world_server_proof,SessionKey::from_le_bytes,Proof::from_le_bytes,as_le_bytes,HeaderCrypto::new; control=if,return; ops=!=", "default: calls=thread_rng,next_u32; control=; ops="]]

theorem shapeVanillaMod_ok : Gen.shapeVanillaMod = expected_shapeVanillaMod := by decide +kernel

end WowSrp
