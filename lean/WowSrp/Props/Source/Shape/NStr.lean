/-
Translator leg: the SHAPE of the functions of normalized_string.rs.  For every function tools/gen_constants.py lists, on every run, the ordered calls, the
control-flow keywords (with `?`) and the comparison / boolean operators — not the text (locals may be renamed, expressions reformatted),
but enough that "compare, THEN draw the new challenge, unconditionally", "refuse iff the proofs differ", "read_exact before decrypt" cannot
silently become something else.  The model functions were written against exactly these shapes.  (Generated once by tools/mk_shape_modules.py.)
-/
import WowSrp.Gen.Facts
namespace WowSrp

def expected_shapeNStr : List (List String) := [["new: calls=inner,len,is_empty,chars,enumerate,is_ascii,is_ascii_control,NormalizedStringError::CharacterNotAllowed,to_ascii_uppercase,len,inner,as_ref; control=if,return,for,if,return; ops=<,>,>,||,||", "inner: calls=len,is_empty,chars,enumerate,is_ascii,is_ascii_control,NormalizedStringError::CharacterNotAllowed,to_ascii_uppercase,len; control=if,return,for,if,return; ops=>,||,||", "from_str: calls=Self::new; control=; ops=", "from_string: calls=Self::new,into; control=; ops=", "try_from: calls=Self::new; control=; ops=", "try_from: calls=Self::new; control=; ops=", "fmt: calls=write_str,as_ref; control=; ops=", "as_ref: calls=core::str::from_utf8,unwrap; control=; ops="]]

theorem shapeNStr_ok : Gen.shapeNStr = expected_shapeNStr := by decide +kernel

end WowSrp
