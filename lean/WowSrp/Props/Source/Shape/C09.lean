import WowSrp.Props.Source.Shape.Rc4
namespace WowSrp

/-- C09: the functions of the files this property reads (Rc4) have the shapes the model was written against -/
theorem C09_source_shapes :
    Gen.shapeRc4 = expected_shapeRc4 :=
  shapeRc4_ok

end WowSrp
