import WowSrp.Props.Source.Shape.MatrixCard
import WowSrp.Props.Source.Shape.Rc4
namespace WowSrp

/-- C18: the functions of the files this property reads (MatrixCard, Rc4) have the shapes the model was written against -/
theorem C18_source_shapes :
    Gen.shapeMatrixCard = expected_shapeMatrixCard ∧ Gen.shapeRc4 = expected_shapeRc4 :=
  ⟨shapeMatrixCard_ok, shapeRc4_ok⟩

end WowSrp
