/-
Translator leg: the SHAPE of the functions of matrix_card.rs.  For every function tools/gen_constants.py lists, on every run, the ordered calls, the
control-flow keywords (with `?`) and the comparison / boolean operators — not the text (locals may be renamed, expressions reformatted),
but enough that "compare, THEN draw the new challenge, unconditionally", "refuse iff the proofs differ", "read_exact before decrypt" cannot
silently become something else.  The model functions were written against exactly these shapes.  (Generated once by tools/mk_shape_modules.py.)
-/
import WowSrp.Gen.Facts
namespace WowSrp

def expected_shapeMatrixCard : List (List String) := [["get_matrix_card_seed: calls=rand::random; control=; ops=", "verify_matrix_card_hash: calls=MatrixCardVerifier::new,height,width,let,get_matrix_coordinates,unwrap,get_number_at_coordinates,enter_value,into_proof; control=for,for; ops===", "new: calls=vec!,Self::get_matrix_card_size,fill_matrix_card_values; control=; ops=", "get_number_at_coordinates: calls=; control=; ops=", "get_matrix_card_size: calls=into,into,into; control=; ops=", "data: calls=; control=; ops=", "from_data: calls=Self::get_matrix_card_size,len; control=if,return; ops=!=", "to_printer: calls=chunks,into; control=; ops=", "width: calls=; control=; ops=", "height: calls=; control=; ops=", "digit_count: calls=; control=; ops=", "next: calls=next,String::with_capacity,to_string; control=if,for,else; ops=", "fill_matrix_card_values: calls=thread_rng,Uniform::from,sample; control=for; ops=", "new: calls=generate_coordinates,Context::new,consume,to_le_bytes,consume,compute,Rc4::new,new_from_slice,unwrap; control=; ops=", "get_matrix_coordinates: calls=; control=if,return,if,return,return; ops=>=,>=", "enter_value: calls=apply_keystream,as_mut_slice,update; control=; ops=", "into_proof: calls=finalize_fixed,into; control=; ops=", "generate_coordinates: calls=vec!,into,vec!,into; control=for,for,for; ops=", "real_3_3_5_client: calls=MatrixCardVerifier::new,enter_value,enter_value,assert_eq!,get_matrix_coordinates,into_proof,assert_eq!; control=; ops=", "real_3_3_5_client_multiple_challenges: calls=MatrixCardVerifier::new,enter_value,enter_value,enter_value,enter_value,enter_value,enter_value,assert_eq!,get_matrix_coordinates,assert_eq!,get_matrix_coordinates,assert_eq!,get_matrix_coordinates,into_proof,assert_eq!; control=; ops="]]

theorem shapeMatrixCard_ok : Gen.shapeMatrixCard = expected_shapeMatrixCard := by decide +kernel

end WowSrp
