import WowSrp.Props.Source.Shape.VanillaMod
import WowSrp.Props.Source.Shape.TbcMod
import WowSrp.Props.Source.Shape.WrathMod
namespace WowSrp

/-- C12: the functions of the files this property reads (VanillaMod, TbcMod, WrathMod) have the shapes the model was written against -/
theorem C12_source_shapes :
    Gen.shapeVanillaMod = expected_shapeVanillaMod ∧ Gen.shapeTbcMod = expected_shapeTbcMod ∧ Gen.shapeWrathMod = expected_shapeWrathMod :=
  ⟨shapeVanillaMod_ok, shapeTbcMod_ok, shapeWrathMod_ok⟩

end WowSrp
