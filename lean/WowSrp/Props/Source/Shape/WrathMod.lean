/-
Translator leg: the SHAPE of the functions of wrath_header/mod.rs.  For every function tools/gen_constants.py lists, on every run, the ordered calls, the
control-flow keywords (with `?`) and the comparison / boolean operators — not the text (locals may be renamed, expressions reformatted),
but enough that "compare, THEN draw the new challenge, unconditionally", "refuse iff the proofs differ", "read_exact before decrypt" cannot
silently become something else.  The model functions were written against exactly these shapes.  (Generated once by tools/mk_shape_modules.py.)
-/
import WowSrp.Gen.Facts
namespace WowSrp

def expected_shapeWrathMod : List (List String) := [["from_small_array: calls=u16::from_be_bytes,u16::from_le_bytes; control=; ops=", "from_large_array: calls=clear_large_header,u32::from_be_bytes,u16::from_le_bytes; control=; ops=", "decrypter: calls=; control=; ops=", "encrypter: calls=; control=; ops=", "encrypt: calls=encrypt; control=; ops=", "write_encrypted_client_header: calls=write_encrypted_client_header; control=; ops=", "encrypt_client_header: calls=encrypt_client_header; control=; ops=", "decrypt: calls=decrypt; control=; ops=", "attempt_decrypt_server_header: calls=attempt_decrypt_server_header; control=; ops=", "decrypt_large_server_header: calls=decrypt_large_server_header; control=; ops=", "read_and_decrypt_server_header: calls=read_and_decrypt_server_header; control=; ops=", "new: calls=ClientDecrypterHalf::new,ClientEncrypterHalf::new; control=; ops=", "split: calls=; control=; ops=", "decrypter: calls=; control=; ops=", "encrypter: calls=; control=; ops=", "encrypt: calls=encrypt; control=; ops=", "write_encrypted_server_header: calls=write_encrypted_server_header; control=; ops=", "encrypt_server_header: calls=encrypt_server_header; control=; ops=", "decrypt: calls=decrypt; control=; ops=", "read_and_decrypt_client_header: calls=read_and_decrypt_client_header; control=; ops=", "decrypt_client_header: calls=decrypt,ClientHeader::from_array; control=; ops=", "new: calls=ServerDecrypterHalf::new,ServerEncrypterHalf::new; control=; ops=", "split: calls=; control=; ops=", "new: calls=Self::default; control=; ops=", "from_specific_seed: calls=; control=; ops=", "seed: calls=; control=; ops=", "into_client_header_crypto: calls=calculate_world_server_proof,SessionKey::from_le_bytes,ClientCrypto::new,as_le_bytes; control=; ops=", "into_server_header_crypto: calls=calculate_world_server_proof,SessionKey::from_le_bytes,Proof::from_le_bytes,as_le_bytes,ServerCrypto::new; control=if,return; ops=!=", "default: calls=thread_rng,next_u32; control=; ops="]]

theorem shapeWrathMod_ok : Gen.shapeWrathMod = expected_shapeWrathMod := by decide +kernel

end WowSrp
