/-
Translator leg: the SHAPE of the functions of pin.rs.  For every function tools/gen_constants.py lists, on every run, the ordered calls, the
control-flow keywords (with `?`) and the comparison / boolean operators — not the text (locals may be renamed, expressions reformatted),
but enough that "compare, THEN draw the new challenge, unconditionally", "refuse iff the proofs differ", "read_exact before decrypt" cannot
silently become something else.  The model functions were written against exactly these shapes.  (Generated once by tools/mk_shape_modules.py.)
-/
import WowSrp.Gen.Facts
namespace WowSrp

def expected_shapePin : List (List String) := [["get_pin_grid_seed: calls=random; control=; ops=", "get_pin_salt: calls=thread_rng,fill_bytes; control=; ops=", "verify_client_pin_hash: calls=calculate_hash; control=if,else; ops===", "calculate_hash: calls=pin_to_bytes,len,len,remap_pin_grid,let,iter,enumerate,find,unwrap,Sha1::new,chain_update,chain_update,finalize_fixed,into,Sha1::new,chain_update,chain_update,finalize_fixed,into; control=if,return,for,for; ops=<,||,>,==", "pin_to_bytes: calls=reverse; control=while; ops=!=", "remap_pin_grid: calls=in,rev,enumerate; control=for,for; ops="]]

theorem shapePin_ok : Gen.shapePin = expected_shapePin := by decide +kernel

end WowSrp
