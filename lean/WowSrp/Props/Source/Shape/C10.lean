import WowSrp.Props.Source.Shape.WrathMod
namespace WowSrp

/-- C10: the functions of the files this property reads (WrathMod) have the shapes the model was written against -/
theorem C10_source_shapes :
    Gen.shapeWrathMod = expected_shapeWrathMod :=
  shapeWrathMod_ok

end WowSrp
