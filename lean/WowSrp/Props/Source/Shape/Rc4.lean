/-
Translator leg: the SHAPE of the functions of rc4.rs.  For every function tools/gen_constants.py lists, on every run, the ordered calls, the
control-flow keywords (with `?`) and the comparison / boolean operators — not the text (locals may be renamed, expressions reformatted),
but enough that "compare, THEN draw the new challenge, unconditionally", "refuse iff the proofs differ", "read_exact before decrypt" cannot
silently become something else.  The model functions were written against exactly these shapes.  (Generated once by tools/mk_shape_modules.py.)
-/
import WowSrp.Gen.Facts
namespace WowSrp

def expected_shapeRc4 : List (List String) := [["new: calls=key_scheduling_algorithm; control=; ops=", "apply_keystream: calls=pseudo_random_generation; control=for; ops=", "key_scheduling_algorithm: calls=iter_mut,enumerate,for_each,iter,cycle,zip,for_each,wrapping_add,wrapping_add,swap,into; control=; ops=", "pseudo_random_generation: calls=wrapping_add,wrapping_add,s_i,swap,into,into,s_i,wrapping_add,s_j,into; control=; ops=", "s_i: calls=; control=; ops=", "s_j: calls=; control=; ops="]]

theorem shapeRc4_ok : Gen.shapeRc4 = expected_shapeRc4 := by decide +kernel

end WowSrp
