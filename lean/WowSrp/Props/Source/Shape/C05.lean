import WowSrp.Props.Source.Shape.Server
import WowSrp.Props.Source.Shape.Client
import WowSrp.Props.Source.Shape.SrpInternal
namespace WowSrp

/-- C05: the functions of the files this property reads (Server, Client, SrpInternal) have the shapes the model was written against -/
theorem C05_source_shapes :
    Gen.shapeServer = expected_shapeServer ∧ Gen.shapeClient = expected_shapeClient ∧ Gen.shapeSrpInternal = expected_shapeSrpInternal :=
  ⟨shapeServer_ok, shapeClient_ok, shapeSrpInternal_ok⟩

end WowSrp
