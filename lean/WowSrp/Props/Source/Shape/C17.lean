import WowSrp.Props.Source.Shape.Integrity
namespace WowSrp

/-- C17: the functions of the files this property reads (Integrity) have the shapes the model was written against -/
theorem C17_source_shapes :
    Gen.shapeIntegrity = expected_shapeIntegrity :=
  shapeIntegrity_ok

end WowSrp
