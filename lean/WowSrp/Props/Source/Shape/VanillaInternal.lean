/-
Translator leg: the SHAPE of the functions of vanilla_header/internal.rs.  For every function tools/gen_constants.py lists, on every run, the ordered calls, the
control-flow keywords (with `?`) and the comparison / boolean operators — not the text (locals may be renamed, expressions reformatted),
but enough that "compare, THEN draw the new challenge, unconditionally", "refuse iff the proofs differ", "read_exact before decrypt" cannot
silently become something else.  The model functions were written against exactly these shapes.  (Generated once by tools/mk_shape_modules.py.)
-/
import WowSrp.Gen.Facts
namespace WowSrp

def expected_shapeVanillaInternal : List (List String) := [["calculate_world_server_proof: calls=Sha1::new,chain_update,as_ref,chain_update,to_le_bytes,chain_update,to_le_bytes,chain_update,to_le_bytes,chain_update,as_le_bytes,finalize,into,Proof::from_le_bytes; control=; ops="]]

theorem shapeVanillaInternal_ok : Gen.shapeVanillaInternal = expected_shapeVanillaInternal := by decide +kernel

end WowSrp
