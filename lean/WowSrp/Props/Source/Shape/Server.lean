/-
Translator leg: the SHAPE of the functions of server.rs.  For every function tools/gen_constants.py lists, on every run, the ordered calls, the
control-flow keywords (with `?`) and the comparison / boolean operators — not the text (locals may be renamed, expressions reformatted),
but enough that "compare, THEN draw the new challenge, unconditionally", "refuse iff the proofs differ", "read_exact before decrypt" cannot
silently become something else.  The model functions were written against exactly these shapes.  (Generated once by tools/mk_shape_modules.py.)
-/
import WowSrp.Gen.Facts
namespace WowSrp

def expected_shapeServer : List (List String) := [["username: calls=as_ref; control=; ops=", "password_verifier: calls=as_le_bytes; control=; ops=", "salt: calls=as_le_bytes; control=; ops=", "from_username_and_password: calls=Salt::randomized,Self::with_specific_salt; control=; ops=", "from_database_values: calls=Verifier::from_le_bytes,Salt::from_le_bytes; control=; ops=", "into_proof: calls=PrivateKey::randomized,Self::with_specific_private_key,expect; control=; ops=", "with_specific_salt: calls=srp_internal::calculate_password_verifier,Self::from_database_values,as_le_bytes; control=; ops=", "with_specific_private_key: calls=srp_internal::calculate_server_public_key; control=?; ops=", "server_public_key: calls=as_le_bytes; control=; ops=", "salt: calls=as_le_bytes; control=; ops=", "into_server: calls=srp_internal::calculate_session_key,srp_internal::calculate_client_proof,Proof::from_le_bytes,as_le_bytes,as_le_bytes,srp_internal::calculate_server_proof,ReconnectData::randomized,as_le_bytes; control=if,return; ops=!=", "session_key: calls=as_le_bytes; control=; ops=", "reconnect_challenge_data: calls=as_le_bytes; control=; ops=", "verify_reconnection_attempt: calls=calculate_reconnect_proof,ReconnectData::from_le_bytes,Proof::from_le_bytes,randomize_data; control=; ops==="]]

theorem shapeServer_ok : Gen.shapeServer = expected_shapeServer := by decide +kernel

end WowSrp
