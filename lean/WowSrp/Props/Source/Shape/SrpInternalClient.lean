/-
Translator leg: the SHAPE of the functions of srp_internal_client.rs.  For every function tools/gen_constants.py lists, on every run, the ordered calls, the
control-flow keywords (with `?`) and the comparison / boolean operators — not the text (locals may be renamed, expressions reformatted),
but enough that "compare, THEN draw the new challenge, unconditionally", "refuse iff the proofs differ", "read_exact before decrypt" cannot
silently become something else.  The model functions were written against exactly these shapes.  (Generated once by tools/mk_shape_modules.py.)
-/
import WowSrp.Gen.Facts
namespace WowSrp

def expected_shapeSrpInternalClient : List (List String) := [["calculate_client_public_key: calls=to_bigint,modpow,as_bigint,to_bigint,PublicKey::client_try_from_bigint; control=; ops=", "calculate_client_S: calls=KValue::bigint,as_bigint,to_bigint,modpow,as_bigint,to_bigint,modpow,as_bigint,as_bigint,as_bigint,to_bigint,SKey::from_le_bytes,to_padded_32_byte_array_le; control=; ops=", "calculate_client_proof_with_custom_value: calls=calculate_xor_hash,Sha1::new,chain_update,as_ref,finalize,Sha1::new,chain_update,as_le_bytes,chain_update,chain_update,as_le_bytes,chain_update,as_le_bytes,chain_update,as_le_bytes,chain_update,as_le_bytes,finalize,into,Proof::from_le_bytes; control=; ops="]]

theorem shapeSrpInternalClient_ok : Gen.shapeSrpInternalClient = expected_shapeSrpInternalClient := by decide +kernel

end WowSrp
