/-
Translator leg: the SHAPE of the functions of client.rs.  For every function tools/gen_constants.py lists, on every run, the ordered calls, the
control-flow keywords (with `?`) and the comparison / boolean operators — not the text (locals may be renamed, expressions reformatted),
but enough that "compare, THEN draw the new challenge, unconditionally", "refuse iff the proofs differ", "read_exact before decrypt" cannot
silently become something else.  The model functions were written against exactly these shapes.  (Generated once by tools/mk_shape_modules.py.)
-/
import WowSrp.Gen.Facts
namespace WowSrp

def expected_shapeClient : List (List String) := [["session_key: calls=as_le_bytes; control=; ops=", "calculate_reconnect_values: calls=ReconnectData::randomized,calculate_reconnect_proof,ReconnectData::from_le_bytes,as_le_bytes,as_le_bytes; control=; ops=", "new: calls=PrivateKey::randomized,Generator::from,LargeSafePrime::from_le_bytes,srp_internal_client::calculate_client_public_key,expect,Salt::from_le_bytes,srp_internal::calculate_x,calculate_u,allow,calculate_client_S,calculate_interleaved,calculate_client_proof_with_custom_value; control=; ops=", "client_proof: calls=as_le_bytes; control=; ops=", "client_public_key: calls=as_le_bytes; control=; ops=", "verify_server_proof: calls=calculate_server_proof,Proof::from_le_bytes,as_le_bytes,as_le_bytes; control=if,return; ops=!="]]

theorem shapeClient_ok : Gen.shapeClient = expected_shapeClient := by decide +kernel

end WowSrp
