import WowSrp.Props.Source.Shape.NStr
namespace WowSrp

/-- C13: the functions of the files this property reads (NStr) have the shapes the model was written against -/
theorem C13_source_shapes :
    Gen.shapeNStr = expected_shapeNStr :=
  shapeNStr_ok

end WowSrp
