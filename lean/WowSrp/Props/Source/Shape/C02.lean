import WowSrp.Props.Source.Shape.Server
import WowSrp.Props.Source.Shape.Client
import WowSrp.Props.Source.Shape.SrpInternal
import WowSrp.Props.Source.Shape.SrpInternalClient
namespace WowSrp

/-- C02: the functions of the files this property reads (Server, Client, SrpInternal, SrpInternalClient) have the shapes the model was written against -/
theorem C02_source_shapes :
    Gen.shapeServer = expected_shapeServer ∧ Gen.shapeClient = expected_shapeClient ∧ Gen.shapeSrpInternal = expected_shapeSrpInternal ∧ Gen.shapeSrpInternalClient = expected_shapeSrpInternalClient :=
  ⟨shapeServer_ok, shapeClient_ok, shapeSrpInternal_ok, shapeSrpInternalClient_ok⟩

end WowSrp
