/-
Translator leg: the SHAPE of the functions of integrity.rs.  For every function tools/gen_constants.py lists, on every run, the ordered calls, the
control-flow keywords (with `?`) and the comparison / boolean operators — not the text (locals may be renamed, expressions reformatted),
but enough that "compare, THEN draw the new challenge, unconditionally", "refuse iff the proofs differ", "read_exact before decrypt" cannot
silently become something else.  The model functions were written against exactly these shapes.  (Generated once by tools/mk_shape_modules.py.)
-/
import WowSrp.Gen.Facts
namespace WowSrp

def expected_shapeIntegrity : List (List String) := [["get_salt_value: calls=thread_rng,fill_bytes; control=; ops=", "login_integrity_check_generic: calls=new_from_slice,unwrap,update,finalize_fixed,into,finalise; control=; ops=<,>", "login_integrity_check_windows: calls=checksum,finalise; control=; ops=", "login_integrity_check_mac: calls=new_from_slice,unwrap,update,update,update,update,update,finalize_fixed,into,finalise; control=; ops=<,>", "reconnect_integrity_check: calls=finalise; control=; ops=", "checksum: calls=new_from_slice,unwrap,update,update,update,update,update,finalize_fixed,into; control=; ops=<,>", "finalise: calls=Sha1::new,chain_update,chain_update,finalize_fixed,into; control=; ops="]]

theorem shapeIntegrity_ok : Gen.shapeIntegrity = expected_shapeIntegrity := by decide +kernel

end WowSrp
