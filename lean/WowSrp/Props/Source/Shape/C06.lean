import WowSrp.Props.Source.Shape.VanillaInternal
import WowSrp.Props.Source.Shape.VanillaMod
import WowSrp.Props.Source.Shape.TbcMod
import WowSrp.Props.Source.Shape.WrathMod
namespace WowSrp

/-- C06: the functions of the files this property reads (VanillaInternal, VanillaMod, TbcMod, WrathMod) have the shapes the model was written against -/
theorem C06_source_shapes :
    Gen.shapeVanillaInternal = expected_shapeVanillaInternal ∧ Gen.shapeVanillaMod = expected_shapeVanillaMod ∧ Gen.shapeTbcMod = expected_shapeTbcMod ∧ Gen.shapeWrathMod = expected_shapeWrathMod :=
  ⟨shapeVanillaInternal_ok, shapeVanillaMod_ok, shapeTbcMod_ok, shapeWrathMod_ok⟩

end WowSrp
