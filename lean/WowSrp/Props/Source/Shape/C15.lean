import WowSrp.Props.Source.Shape.Server
import WowSrp.Props.Source.Shape.Client
namespace WowSrp

/-- C15: the functions of the files this property reads (Server, Client) have the shapes the model was written against -/
theorem C15_source_shapes :
    Gen.shapeServer = expected_shapeServer ∧ Gen.shapeClient = expected_shapeClient :=
  ⟨shapeServer_ok, shapeClient_ok⟩

end WowSrp
