import WowSrp.Props.Source.Shape.Server
import WowSrp.Props.Source.Shape.Client
import WowSrp.Props.Source.Shape.SrpInternal
import WowSrp.Props.Source.Shape.SrpInternalClient
import WowSrp.Props.Source.Shape.NStr
namespace WowSrp

/-- C01: the functions of the files this property reads (Server, Client, SrpInternal, SrpInternalClient, NStr) have the shapes the model was written against -/
theorem C01_source_shapes :
    Gen.shapeServer = expected_shapeServer ∧ Gen.shapeClient = expected_shapeClient ∧ Gen.shapeSrpInternal = expected_shapeSrpInternal ∧ Gen.shapeSrpInternalClient = expected_shapeSrpInternalClient ∧ Gen.shapeNStr = expected_shapeNStr :=
  ⟨shapeServer_ok, shapeClient_ok, shapeSrpInternal_ok, shapeSrpInternalClient_ok, shapeNStr_ok⟩

end WowSrp
