/-
Translator leg for C06: the model has ONE world-proof function for Vanilla/TBC (parameterised by expansion) and one for Wrath, each passing
(name, key, server seed, client seed) to the shared hash in this order on the client side and on the server side. The six call sites are listed
from the three modules on every run: a swap of the two seeds (or another argument) in one module alone changes one list.
-/
import WowSrp.Gen.Constants
import WowSrp.Gen.Facts
namespace WowSrp

def expected_worldProofCalls : List (List String) := [["into_client_header_crypto: client_proof=(username,&SessionKey::from_le_bytes(session_key),server_seed,self.seed,)", "into_server_header_crypto: server_proof=(username,&SessionKey::from_le_bytes(session_key),self.seed,client_seed,)"]]

/-- client: (username, key, server_seed, own seed); server: (username, key, own seed, client_seed) — identically in all three modules -/
theorem C06_source_seed_argument_order :
    Gen.worldProofCallsVanilla = expected_worldProofCalls ∧ Gen.worldProofCallsTbc = expected_worldProofCalls ∧
    Gen.worldProofCallsWrath = expected_worldProofCalls := by decide +kernel

end WowSrp
