/-
Translator leg for C09: facts extracted from the Rust source by tools/gen_constants.py on every run
(field order fed to each hash object, structural facts). A reordered / dropped / added field or a changed
structure in the Rust breaks exactly these obligations, independently of the correspondence run.
-/
import WowSrp.Gen.Constants
import WowSrp.Gen.Facts
namespace WowSrp

/-- C09: RC4 key = HMAC(direction constant, session key) -/
theorem C09_source_layout : Gen.layoutWrathInnerNew = [["key:key.as_slice()", "session_key"], ["ctors:Hmac::<Sha1>::new_from_slice", "methods:finalize,into_bytes,update", "control:", "rebound:hmac", "tail:Self{inner}"]] := by decide +kernel

end WowSrp
