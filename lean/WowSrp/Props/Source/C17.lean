/-
Translator leg for C17: facts extracted from the Rust source by tools/gen_constants.py on every run
(field order fed to each hash object, structural facts). A reordered / dropped / added field or a changed
structure in the Rust breaks exactly these obligations, independently of the correspondence run.
-/
import WowSrp.Gen.Constants
namespace WowSrp

/-- C17: HMAC(salt, files in argument order), then H(seed | checksum) -/
theorem C17_source_layout :
    Gen.layoutIntegrityGeneric = [["key:checksum_salt", "all_files"]] ∧
    Gen.layoutIntegrityMac = [["key:checksum_salt", "world_of_warcraft", "info_plist", "objects_xib", "wow_icns", "pkg_info"]] ∧
    Gen.layoutIntegrityChecksum = [["key:seed", "wow_exe", "fmod_dll", "ijl15_dll", "dbghelp_dll", "unicows_dll"]] ∧
    Gen.layoutIntegrityFinalise = [["seed", "checksum"]] := by decide

/-- C17: integrity.rs keeps no state between calls -/
theorem C17_source_no_hidden_state : Gen.integrityModuleHasNoSharedState = true := by decide

end WowSrp
