/-
Translator leg for C17: facts extracted from the Rust source by tools/gen_constants.py on every run
(field order fed to each hash object, structural facts). A reordered / dropped / added field or a changed
structure in the Rust breaks exactly these obligations, independently of the correspondence run.
-/
import WowSrp.Gen.Constants
import WowSrp.Gen.Facts
namespace WowSrp

/-- C17: HMAC(salt, files in argument order), then H(seed | checksum) -/
theorem C17_source_layout :
    Gen.layoutIntegrityGeneric = [["key:checksum_salt", "all_files"], ["ctors:Hmac::<Sha1>::new_from_slice", "methods:finalize_fixed,update", "control:", "rebound:", "tail:finalise(client_public_key,&checksum)"]] ∧
    Gen.layoutIntegrityMac = [["key:checksum_salt", "world_of_warcraft", "info_plist", "objects_xib", "wow_icns", "pkg_info"], ["ctors:Hmac::<Sha1>::new_from_slice", "methods:finalize_fixed,update,update,update,update,update", "control:", "rebound:", "tail:finalise(client_public_key,&checksum)"]] ∧
    Gen.layoutIntegrityChecksum = [["key:seed", "wow_exe", "fmod_dll", "ijl15_dll", "dbghelp_dll", "unicows_dll"], ["ctors:Hmac::<Sha1>::new_from_slice", "methods:finalize_fixed,update,update,update,update,update", "control:", "rebound:", "tail:hmac.finalize_fixed().into()"]] ∧
    Gen.layoutIntegrityFinalise = [["seed", "checksum"], ["ctors:Sha1::new", "methods:chain_update,chain_update,finalize_fixed", "control:", "rebound:", "tail:{Sha1::new().chain_update(seed).chain_update(checksum).finalize_fixed().into()"]] := by decide +kernel

/-- C17: integrity.rs keeps no state between calls -/
theorem C17_source_no_hidden_state : Gen.integrityModuleHasNoSharedState = true := by decide +kernel

end WowSrp
