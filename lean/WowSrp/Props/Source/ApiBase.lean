/-
(definitions shared by Props/Source/Api*.lean: what callee names mean, how the model's structures are written as MiniApi values)
The API orchestration of src/server.rs (and `calculate_session_key` of src/srp_internal.rs), translated from the working tree by
tools/gen_api.py (Gen/CodeApi.lean), denotes the model's functions (Model/Srp.lean) for EVERY state, argument and drawn value: which value goes
into which computation, what is compared with what, what each branch returns, and WHEN the generator is asked (the unused draws are part of the
result: `into_server` draws the reconnect challenge only after the proof matched; `verify_reconnection_attempt` replaces the challenge whatever
the verdict).  Callee names mean the model's functions (`srpPrims`); those are tied to the source by the formula, hash-layout, interleave and
strip-rule theorems.
-/
import WowSrp.Gen.CodeApi
namespace WowSrp
open MiniApi

def outBytes (o : Out Bytes) : Out AVal := o.bind (fun b => Out.ok (AVal.bytes b))
def pkErrVal : PKErr → AVal
  | .isZero => .struct "InvalidPublicKeyError::PublicKeyIsZero" []
  | .modIsZero => .struct "InvalidPublicKeyError::PublicKeyModLargeSafePrimeIsZero" []
def outKey (o : Out (Except PKErr Bytes)) : Out AVal :=
  o.bind (fun r => match r with | .ok b => Out.ok (AVal.ok (AVal.bytes b)) | .error e => Out.ok (AVal.err (pkErrVal e)))
def illTyped : Out AVal := .panic "ill-typed call"

/-- what the names called in server.rs / client.rs / calculate_session_key mean: the model's functions -/
def srpPrims (C : Crypto) (be : Backend) : Prims := fun n =>
  if n = "calculate_session_key" then some (fun vs => match vs with
    | [.bytes A, .bytes B, .bytes v, .bytes b] => outBytes (calculateSessionKey C be A B v b) | _ => illTyped)
  else if n = "calculate_client_proof" then some (fun vs => match vs with
    | [.nstr u, .bytes K, .bytes A, .bytes B, .bytes s] => .ok (.bytes (calculateClientProof C u.asRef K A B s)) | _ => illTyped)
  else if n = "calculate_server_proof" then some (fun vs => match vs with
    | [.bytes A, .bytes M1, .bytes K] => .ok (.bytes (calculateServerProof C A M1 K)) | _ => illTyped)
  else if n = "calculate_reconnect_proof" then some (fun vs => match vs with
    | [.nstr u, .bytes cd, .bytes sd, .bytes K] => .ok (.bytes (calculateReconnectProof C u.asRef cd sd K)) | _ => illTyped)
  else if n = "calculate_password_verifier" then some (fun vs => match vs with
    | [.nstr u, .nstr p, .bytes s] => outBytes (calculatePasswordVerifier C be u.asRef p.asRef s) | _ => illTyped)
  else if n = "calculate_server_public_key" then some (fun vs => match vs with
    | [.bytes v, .bytes b] => outKey (calculateServerPublicKey be v b) | _ => illTyped)
  else if n = "calculate_u" then some (fun vs => match vs with
    | [.bytes A, .bytes B] => .ok (.bytes (calculateU C A B)) | _ => illTyped)
  else if n = "calculate_S" then some (fun vs => match vs with
    | [.bytes A, .bytes v, .bytes u, .bytes b] => outBytes (calculateS be A v u b) | _ => illTyped)
  else if n = "calculate_interleaved" then some (fun vs => match vs with
    | [.bytes S] => outBytes (calculateInterleaved C S) | _ => illTyped)
  else if n = "calculate_x" then some (fun vs => match vs with
    | [.nstr u, .nstr p, .bytes s] => .ok (.bytes (calculateX C u.asRef p.asRef s)) | _ => illTyped)
  else if n = "calculate_client_public_key" then some (fun vs => match vs with
    | [.bytes a, .num g, .bytes nLE] => outKey (calculateClientPublicKey be a g nLE) | _ => illTyped)
  else if n = "calculate_client_S" then some (fun vs => match vs with
    | [.bytes B, .bytes x, .bytes a, .bytes u, .num g, .bytes nLE] => outBytes (calculateClientS be B x a u g nLE) | _ => illTyped)
  else if n = "calculate_client_proof_with_custom_value" then some (fun vs => match vs with
    | [.nstr u, .bytes K, .bytes A, .bytes B, .bytes s, .bytes nLE, .num g] => .ok (.bytes (calculateClientProofCustom C u.asRef K A B s nLE g))
    | _ => illTyped)
  else none

def selfVerifier (s : SrpVerifier) : Fields :=
  [("username", .nstr s.username), ("password_verifier", .bytes s.passwordVerifier), ("salt", .bytes s.salt)]
def selfProof (p : SrpProof) : Fields :=
  [("username", .nstr p.username), ("server_public_key", .bytes p.serverPublicKey), ("salt", .bytes p.salt),
   ("server_private_key", .bytes p.serverPrivateKey), ("password_verifier", .bytes p.passwordVerifier)]
def selfServer (s : SrpServer) : Fields :=
  [("username", .nstr s.username), ("session_key", .bytes s.sessionKey), ("reconnect_challenge_data", .bytes s.reconnectChallengeData)]
/-- struct VALUES list their fields sorted by name -/
def valProof (p : SrpProof) : AVal := .struct "SrpProof"
  [("password_verifier", .bytes p.passwordVerifier), ("salt", .bytes p.salt), ("server_private_key", .bytes p.serverPrivateKey),
   ("server_public_key", .bytes p.serverPublicKey), ("username", .nstr p.username)]
def valServer (s : SrpServer) : AVal := .struct "SrpServer"
  [("reconnect_challenge_data", .bytes s.reconnectChallengeData), ("session_key", .bytes s.sessionKey), ("username", .nstr s.username)]
def valMatchErr (e : MatchProofsError) : AVal := .struct "MatchProofsError"
  [("client_proof", .bytes e.clientProof), ("server_proof", .bytes e.serverProof)]


/-! ### the constructors of `SrpVerifier`: `Self::…` means the model's function of that name -/

def valVerifier (s : SrpVerifier) : AVal := .struct "SrpVerifier"
  [("password_verifier", .bytes s.passwordVerifier), ("salt", .bytes s.salt), ("username", .nstr s.username)]

/-- the outcome of a run without the text of a panic message (the model names panic sites by file and line) -/
def outcomeOf {α : Type} : Out α → Option α
  | .ok a => some a
  | .panic _ => none

def srvPrims (C : Crypto) (be : Backend) : Prims := fun n =>
  if n = "Self::from_database_values" then some (fun vs => match vs with
    | [.nstr u, .bytes v, .bytes s] => .ok (valVerifier (SrpVerifier.fromDatabaseValues u v s)) | _ => illTyped)
  else if n = "Self::with_specific_salt" then some (fun vs => match vs with
    | [.nstr u, .nstr p, .bytes s] => (SrpVerifier.fromUsernameAndPassword C be u p s).bind (fun r => .ok (valVerifier r)) | _ => illTyped)
  else if n = "Self::with_specific_private_key" then some (fun vs => match vs with
    | [.struct _ [("username", .nstr u), ("password_verifier", .bytes v), ("salt", .bytes s)], .bytes b] =>
      (SrpVerifier.withSpecificPrivateKey be ⟨u, v, s⟩ b).bind (fun r => match r with
        | .error e => .ok (.err (pkErrVal e)) | .ok p => .ok (.ok (valProof p)))
    | _ => illTyped)
  else srpPrims C be n


end WowSrp
