/-
`SrpVerifier::from_username_and_password` and `SrpVerifier::into_proof` (server.rs), translated from the working tree by tools/gen_api.py, denote the
model's functions with the drawn salt / private key made explicit: exactly one draw each, used as the salt / the private key.
(see Props/Source/ApiBase.lean for the environment `srpPrims` / `srvPrims` and the value embeddings.)
-/
import WowSrp.Props.Source.ApiBase
namespace WowSrp
open MiniApi

/-- `SrpVerifier::from_username_and_password(username, password)`: the salt is the one draw -/
theorem C15_translated_from_username_and_password (C : Crypto) (be : Backend) (u p : NStr) (salt : Bytes) (rest : List Bytes) :
    Gen.CodeApi.fromUsernameAndPassword.run (srvPrims C be) [] [.nstr u, .nstr p] (salt :: rest)
      = some ((SrpVerifier.fromUsernameAndPassword C be u p salt).bind (fun s => .ok (valVerifier s, [], rest))) := by
  cases hv : SrpVerifier.fromUsernameAndPassword C be u p salt with
  | panic m =>
    simp [Gen.CodeApi.fromUsernameAndPassword, ApiFn.run, runBody, Rhs.eval, drawKinds, Ret.eval, atomsVal, Atom.val, lookup, bindVar, srvPrims, hv, Out.bind, bind]
  | ok v =>
    simp [Gen.CodeApi.fromUsernameAndPassword, ApiFn.run, runBody, Rhs.eval, drawKinds, Ret.eval, atomsVal, Atom.val, lookup, bindVar, srvPrims, hv, Out.bind, bind]

/-- `SrpVerifier::into_proof(self)`: the private key is the one draw; same value, or both panic (the `expect` on an invalid public key) -/
theorem C15_translated_into_proof (C : Crypto) (be : Backend) (s : SrpVerifier) (b : Bytes) (rest : List Bytes) :
    (Gen.CodeApi.intoProof.run (srvPrims C be) (selfVerifier s) [] (b :: rest)).map outcomeOf
      = some (outcomeOf ((s.intoProof be b).bind (fun p => .ok (valProof p, selfVerifier s, rest)))) := by
  simp only [SrpVerifier.intoProof]
  cases hw : SrpVerifier.withSpecificPrivateKey be s b with
  | panic m =>
    simp [Gen.CodeApi.intoProof, ApiFn.run, runBody, Rhs.eval, drawKinds, Ret.eval, atomsVal, Atom.val, lookup, bindVar, srvPrims, selfVerifier, hw, Out.bind, bind,
      outcomeOf]
  | ok r =>
    cases r with
    | error e =>
      simp [Gen.CodeApi.intoProof, ApiFn.run, runBody, Rhs.eval, drawKinds, Ret.eval, atomsVal, Atom.val, lookup, bindVar, srvPrims, selfVerifier, hw, Out.bind, bind,
        outcomeOf]
    | ok pr =>
      simp [Gen.CodeApi.intoProof, ApiFn.run, runBody, Rhs.eval, drawKinds, Ret.eval, atomsVal, Atom.val, lookup, bindVar, srvPrims, selfVerifier, hw, Out.bind, bind,
        outcomeOf]

/-- the parameter lists and return types the terms above were read under (the terms carry parameter NAMES; the types decide what a
    conversion such as `Generator::from(generator)`, `.into()` or `?` means) -/
theorem C15_translated_draw_signatures :
    Gen.CodeApi.fromUsernameAndPasswordSig = "username:NormalizedString,password:NormalizedString,->Self" ∧
    Gen.CodeApi.intoProofSig = "self->SrpProof" := by decide +kernel

#print axioms C15_translated_from_username_and_password
#print axioms C15_translated_into_proof
#print axioms C15_translated_draw_signatures
end WowSrp
