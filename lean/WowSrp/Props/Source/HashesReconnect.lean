/-
`calculate_reconnect_proof` (src/srp_internal.rs), translated from the working tree by tools/gen_hash.py (Gen/CodeHash.lean), denotes the
model's `calculateReconnectProof` for EVERY argument and EVERY `Crypto`; parameters in the order of the Rust signature
(username, client_data, server_data, session_key).  All C05 theorems are about that model function.
-/
import WowSrp.Gen.CodeHash
import WowSrp.Model.Srp
namespace WowSrp
open MiniHash

theorem C05_translated_reconnect_proof (C : Crypto) (U cd sd K : Bytes) :
    Gen.CodeHash.reconnectProof.run C (fun _ => none) [.bytes U, .bytes cd, .bytes sd, .bytes K] = some (calculateReconnectProof C U cd sd K) := by
  simp [Gen.CodeHash.reconnectProof, HashProg.run, execAll, HStmt.exec, feedAll, HArg.fed, HArg.val, calculateReconnectProof, bind, Option.bind]

/-- non-vacuity / sensitivity: with a toy hash that returns its input, client and server data are not interchangeable -/
example : Gen.CodeHash.reconnectProof.run ⟨id, fun _ _ => [], fun _ => []⟩ (fun _ => none) [.bytes [1], .bytes [2], .bytes [3], .bytes [4]]
    = some [1, 2, 3, 4] := by decide +kernel

#print axioms C05_translated_reconnect_proof
end WowSrp
