/-
`SrpProof::into_server` with `calculate_session_key`, `calculate_u`, `calculate_client_proof`, `calculate_server_proof` meaning their TRANSLATED
terms (see Props/Source/ApiLinkBase.lean for what linking means): still the model's function.
-/
import WowSrp.Props.Source.ApiLinkBase
import WowSrp.Props.Source.HashesSrp
namespace WowSrp
open MiniApi

theorem noHashCallees_eq : noHashCallees = noCallees := rfl

/-- `calculate_session_key` as translated, its callee `calculate_u` as translated -/
def sessionKeyPrims (C : Crypto) (be : Backend) : Prims := fun n =>
  if n = "calculate_u" then some (hashCallee Gen.CodeHash.calculateU C) else srpPrims C be n

def sessionKeyCallee (C : Crypto) (be : Backend) : List AVal → Out AVal := fun vs =>
  match Gen.CodeApi.calculateSessionKey.run (sessionKeyPrims C be) [] vs [] with
  | some r => r.bind (fun x => .ok x.1)
  | none => .panic "the translated callee has no meaning on these arguments"

/-- every hash callee of the decision functions is the translated term -/
def linkedPrims (C : Crypto) (be : Backend) : Prims := fun n =>
  if n = "calculate_session_key" then some (sessionKeyCallee C be)
  else if n = "calculate_client_proof" then some (hashCallee Gen.CodeHash.clientProof C)
  else if n = "calculate_server_proof" then some (hashCallee Gen.CodeHash.serverProof C)
  else srpPrims C be n

theorem hashCallee_calculate_u (C : Crypto) (A B : Bytes) :
    hashCallee Gen.CodeHash.calculateU C [.bytes A, .bytes B] = .ok (.bytes (calculateU C A B)) := by
  simp [hashCallee, noHashCallees_eq, toHashVals, toHashVal, C03_translated_calculate_u, bind, Option.bind]

theorem hashCallee_client_proof (C : Crypto) (u : NStr) (K A B s : Bytes) :
    hashCallee Gen.CodeHash.clientProof C [.nstr u, .bytes K, .bytes A, .bytes B, .bytes s] = .ok (.bytes (calculateClientProof C u.asRef K A B s)) := by
  simp [hashCallee, noHashCallees_eq, toHashVals, toHashVal, C03_translated_client_proof, bind, Option.bind]

theorem hashCallee_server_proof (C : Crypto) (A M1 K : Bytes) :
    hashCallee Gen.CodeHash.serverProof C [.bytes A, .bytes M1, .bytes K] = .ok (.bytes (calculateServerProof C A M1 K)) := by
  simp [hashCallee, noHashCallees_eq, toHashVals, toHashVal, C03_translated_server_proof, bind, Option.bind]

/-- the translated `calculate_session_key`, with the translated `calculate_u` inside, is the model's function -/
theorem sessionKeyCallee_eq (C : Crypto) (be : Backend) (A B v b : Bytes) :
    sessionKeyCallee C be [.bytes A, .bytes B, .bytes v, .bytes b] = outBytes (calculateSessionKey C be A B v b) := by
  simp only [calculateSessionKey]
  cases hS : calculateS be A v (calculateU C A B) b with
  | panic m =>
    simp [sessionKeyCallee, Gen.CodeApi.calculateSessionKey, ApiFn.run, runBody, Rhs.eval, drawKinds, atomsVal, Atom.val, lookup, bindVar, sessionKeyPrims,
      srpPrims, hashCallee_calculate_u, outBytes, hS, Out.bind, bind]
  | ok S =>
    cases hK : calculateInterleaved C S with
    | panic m =>
      simp [sessionKeyCallee, Gen.CodeApi.calculateSessionKey, ApiFn.run, runBody, Rhs.eval, drawKinds, Ret.eval, atomsVal, Atom.val, lookup, bindVar,
        sessionKeyPrims, srpPrims, hashCallee_calculate_u, outBytes, hS, hK, Out.bind, bind]
    | ok K =>
      simp [sessionKeyCallee, Gen.CodeApi.calculateSessionKey, ApiFn.run, runBody, Rhs.eval, drawKinds, Ret.eval, atomsVal, Atom.val, lookup, bindVar,
        sessionKeyPrims, srpPrims, hashCallee_calculate_u, outBytes, hS, hK, Out.bind, bind]

/-- `SrpProof::into_server` with every hash callee and `calculate_session_key` meaning their TRANSLATED terms: still the model's function -/
theorem C02_linked_into_server (C : Crypto) (be : Backend) (p : SrpProof) (A M1 ch : Bytes) (rest : List Bytes) :
    Gen.CodeApi.intoServer.run (linkedPrims C be) (selfProof p) [.bytes A, .bytes M1] (ch :: rest)
      = some ((p.intoServer C be A M1 ch).bind (fun r => match r with
          | .error e => .ok (.err (valMatchErr e), selfProof p, ch :: rest)
          | .ok (s, M2) => .ok (.ok (.tup (valServer s) (.bytes M2)), selfProof p, rest))) := by
  simp only [SrpProof.intoServer]
  cases hK : calculateSessionKey C be A p.serverPublicKey p.passwordVerifier p.serverPrivateKey with
  | panic m =>
    simp [Gen.CodeApi.intoServer, ApiFn.run, runBody, Rhs.eval, drawKinds, atomsVal, Atom.val, lookup, linkedPrims, sessionKeyCallee_eq, outBytes, selfProof, hK,
      Out.bind, bind]
  | ok K =>
    by_cases hM : M1 = calculateClientProof C p.username.asRef K A p.serverPublicKey p.salt
    · simp [Gen.CodeApi.intoServer, ApiFn.run, runBody, Rhs.eval, drawKinds, Ret.eval, atomsVal, fieldsVal, Atom.val, lookup, bindVar, linkedPrims,
        sessionKeyCallee_eq, hashCallee_client_proof, hashCallee_server_proof, outBytes, selfProof, valServer, valMatchErr, eqVal, hK, hM, Out.bind, bind]
    · have hb : (M1 == calculateClientProof C p.username.asRef K A p.serverPublicKey p.salt) = false := by simp [hM]
      simp [hb, Gen.CodeApi.intoServer, ApiFn.run, runBody, Rhs.eval, drawKinds, Ret.eval, atomsVal, fieldsVal, Atom.val, lookup, bindVar, linkedPrims,
        sessionKeyCallee_eq, hashCallee_client_proof, hashCallee_server_proof, outBytes, selfProof, valServer, valMatchErr, eqVal, hK, hM, Out.bind, bind]

#print axioms C02_linked_into_server
end WowSrp
