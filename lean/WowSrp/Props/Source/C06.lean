/-
Translator leg for C06: facts extracted from the Rust source by tools/gen_constants.py on every run
(field order fed to each hash object, structural facts). A reordered / dropped / added field or a changed
structure in the Rust breaks exactly these obligations, independently of the correspondence run.
-/
import WowSrp.Gen.Constants
import WowSrp.Gen.Facts
namespace WowSrp

/-- C06: world proof = H(U | 0u32 | client seed | server seed | K) -/
theorem C06_source_layout : Gen.layoutWorldProof =
    [["username.as_ref()", "0_u32.to_le_bytes()", "client_seed.to_le_bytes()", "server_seed.to_le_bytes()", "session_key.as_le_bytes()"], ["ctors:Sha1::new", "methods:chain_update,chain_update,chain_update,chain_update,chain_update,finalize", "control:", "rebound:", "tail:Proof::from_le_bytes(server_proof)"]] := by decide +kernel

end WowSrp
