/-
Translator leg for C05: facts extracted from the Rust source by tools/gen_constants.py on every run
(field order fed to each hash object, structural facts). A reordered / dropped / added field or a changed
structure in the Rust breaks exactly these obligations, independently of the correspondence run.
-/
import WowSrp.Gen.Constants
import WowSrp.Gen.Facts
namespace WowSrp

/-- C05: reconnect proof = H(U | client data | server data | K) -/
theorem C05_source_layout : Gen.layoutReconnectProof =
    [["username.as_ref()", "client_data.as_le_bytes()", "server_data.as_le_bytes()", "session_key.as_le_bytes()"], ["ctors:Sha1::new", "methods:chain_update,chain_update,chain_update,chain_update,finalize", "control:", "rebound:", "tail:Proof::from_le_bytes(s.into())"]] := by decide +kernel

end WowSrp
