/-
Translator leg for C08: facts extracted from the Rust source by tools/gen_constants.py on every run
(field order fed to each hash object, structural facts). A reordered / dropped / added field or a changed
structure in the Rust breaks exactly these obligations, independently of the correspondence run.
-/
import WowSrp.Gen.Constants
import WowSrp.Gen.Facts
namespace WowSrp

/-- C08: both TBC halves key themselves with HMAC(seed, session key) -/
theorem C08_source_layout : Gen.layoutTbcEncKey = [["key:s.as_slice()", "session_key"], ["ctors:Hmac::new_from_slice", "methods:finalize,into_bytes,update", "control:", "rebound:key", "tail:Self{key,index:0,previous_value:0,}"]] ∧
    Gen.layoutTbcDecKey = [["key:s.as_slice()", "session_key"], ["ctors:Hmac::new_from_slice", "methods:finalize,into_bytes,update", "control:", "rebound:key", "tail:Self{key,index:0,previous_value:0,}"]] := by decide +kernel

end WowSrp
