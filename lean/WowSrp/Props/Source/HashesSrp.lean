/-
The hash-layout functions of src/srp_internal.rs and src/srp_internal_client.rs, translated from the working tree by tools/gen_hash.py
(Gen/CodeHash.lean), denote the model's functions (Model/Srp.lean) for EVERY argument and EVERY `Crypto` (the SHA-1 is a parameter: nothing
about it is used, except — for the xor loop of `calculate_xor_hash`, which writes into a 20-byte array — that its digests are 20 bytes long).
Parameters are applied in the order of the Rust signature.  What is hashed, in which order, with which accessor, is therefore no longer a text
compared with an expected text (the `*_source_layout` facts) but the model function itself, re-derived from the source on every run.
-/
import WowSrp.Gen.CodeHash
import WowSrp.Model.Srp
namespace WowSrp
open MiniHash

/-- no callees -/
def noCallees : Callees := fun _ => none

theorem C03_translated_calculate_x (C : Crypto) (U P salt : Bytes) :
    Gen.CodeHash.calculateX.run C noCallees [.bytes U, .bytes P, .bytes salt] = some (calculateX C U P salt) := by
  simp [Gen.CodeHash.calculateX, HashProg.run, execAll, HStmt.exec, feedAll, HArg.fed, HArg.val, calculateX, bind, Option.bind]

theorem C03_translated_calculate_u (C : Crypto) (A B : Bytes) :
    Gen.CodeHash.calculateU.run C noCallees [.bytes A, .bytes B] = some (calculateU C A B) := by
  simp [Gen.CodeHash.calculateU, HashProg.run, execAll, HStmt.exec, feedAll, HArg.fed, HArg.val, calculateU, bind, Option.bind]

theorem C03_translated_server_proof (C : Crypto) (A M1 K : Bytes) :
    Gen.CodeHash.serverProof.run C noCallees [.bytes A, .bytes M1, .bytes K] = some (calculateServerProof C A M1 K) := by
  simp [Gen.CodeHash.serverProof, HashProg.run, execAll, HStmt.exec, feedAll, HArg.fed, HArg.val, calculateServerProof, bind, Option.bind]

/-- `calculate_client_proof(username, session_key, client_public_key, server_public_key, salt)` -/
theorem C03_translated_client_proof (C : Crypto) (U K A B salt : Bytes) :
    Gen.CodeHash.clientProof.run C noCallees [.bytes U, .bytes K, .bytes A, .bytes B, .bytes salt] = some (calculateClientProof C U K A B salt) := by
  simp [Gen.CodeHash.clientProof, HashProg.run, execAll, HStmt.exec, feedAll, HArg.fed, HArg.val, calculateClientProof, bind, Option.bind,
    Gen.precalculatedXorHash]

/-- `calculate_xor_hash(large_safe_prime, generator)`; the generator is a `u8` -/
theorem C03_translated_xor_hash (C : Crypto) (hC : C.WF) (nLE : Bytes) (g : Nat) (hg : g < 256) :
    Gen.CodeHash.xorHash.run C noCallees [.bytes nLE, .num g] = some (calculateXorHash C nLE g) := by
  simp [Gen.CodeHash.xorHash, HashProg.run, execAll, HStmt.exec, feedAll, HArg.fed, HArg.val, calculateXorHash, bind, Option.bind, hg,
    xorLoop, hC.sha1_len, xorBytes]

/-- the xor loop needs the digests to fit: with 21-byte "digests" the Rust would panic on `xor_hash[20]`, and the term has no meaning -/
theorem C03_translated_xor_hash_needs_digest_length :
    Gen.CodeHash.xorHash.run ⟨fun _ => List.replicate 21 0, fun _ _ => [], fun _ => []⟩ noCallees [.bytes [], .num 7] = none := by
  decide +kernel

/-- what `calculate_xor_hash` means where it is called: the translated function itself -/
def xorHashFn (C : Crypto) : List Val → Option Bytes := fun vs => Gen.CodeHash.xorHash.run C noCallees vs
def srpCallees (C : Crypto) : Callees := fun n =>
  if n = "calculate_xor_hash" then some (xorHashFn C) else none

/-- `calculate_client_proof_with_custom_value(username, session_key, client_public_key, server_public_key, salt, large_safe_prime, generator)` -/
theorem C03_translated_client_proof_custom (C : Crypto) (hC : C.WF) (U K A B salt nLE : Bytes) (g : Nat) (hg : g < 256) :
    Gen.CodeHash.clientProofCustom.run C (srpCallees C) [.bytes U, .bytes K, .bytes A, .bytes B, .bytes salt, .bytes nLE, .num g]
      = some (calculateClientProofCustom C U K A B salt nLE g) := by
  have hx : xorHashFn C [.bytes nLE, .num g] = some (calculateXorHash C nLE g) := C03_translated_xor_hash C hC nLE g hg
  simp [Gen.CodeHash.clientProofCustom, HashProg.run, execAll, HStmt.exec, feedAll, valAll, HArg.fed, HArg.val, calculateClientProofCustom, bind,
    Option.bind, srpCallees, hx]

/-- non-vacuity: on a toy SHA-1 the translated `calculate_x` really runs (and a swapped argument order gives something else) -/
example : Gen.CodeHash.calculateX.run ⟨fun m => m.take 20 ++ List.replicate (20 - m.length) 0, fun _ _ => [], fun _ => []⟩ noCallees
    [.bytes [1], .bytes [2], .bytes [3]] = some [3, 1, 0x3a, 2, 0, 0, 0, 0, 0, 0, 0, 0, 0, 0, 0, 0, 0, 0, 0, 0] := by decide +kernel

theorem C02_translated_client_proof (C : Crypto) (U K A B salt : Bytes) :
    Gen.CodeHash.clientProof.run C noCallees [.bytes U, .bytes K, .bytes A, .bytes B, .bytes salt] = some (calculateClientProof C U K A B salt) :=
  C03_translated_client_proof C U K A B salt
theorem C02_translated_server_proof (C : Crypto) (A M1 K : Bytes) :
    Gen.CodeHash.serverProof.run C noCallees [.bytes A, .bytes M1, .bytes K] = some (calculateServerProof C A M1 K) :=
  C03_translated_server_proof C A M1 K
theorem C02_translated_calculate_x (C : Crypto) (U P salt : Bytes) :
    Gen.CodeHash.calculateX.run C noCallees [.bytes U, .bytes P, .bytes salt] = some (calculateX C U P salt) :=
  C03_translated_calculate_x C U P salt
theorem C01_translated_calculate_x (C : Crypto) (U P salt : Bytes) :
    Gen.CodeHash.calculateX.run C noCallees [.bytes U, .bytes P, .bytes salt] = some (calculateX C U P salt) :=
  C03_translated_calculate_x C U P salt

#print axioms C03_translated_calculate_x
#print axioms C03_translated_calculate_u
#print axioms C03_translated_server_proof
#print axioms C03_translated_client_proof
#print axioms C03_translated_xor_hash
#print axioms C03_translated_client_proof_custom
end WowSrp
