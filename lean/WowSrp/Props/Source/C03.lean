/-
Translator leg for C03: facts extracted from the Rust source by tools/gen_constants.py on every run
(field order fed to each hash object, structural facts). A reordered / dropped / added field or a changed
structure in the Rust breaks exactly these obligations, independently of the correspondence run.
-/
import WowSrp.Gen.Constants
import WowSrp.Gen.Facts
namespace WowSrp

/-- C03: x = H(salt | H(U ":" P)) -/
theorem C03_source_layout_x : Gen.layoutCalculateX =
    [["username.as_ref()", "\":\"", "password.as_ref()"], ["salt.as_le_bytes()", "p"], ["ctors:Sha1::new,Sha1::new", "methods:chain_update,chain_update,chain_update,chain_update,chain_update,finalize,finalize", "control:", "rebound:", "tail:Sha1Hash::from_le_bytes(x.into())"]] := by decide +kernel

/-- C03: u = H(A | B) -/
theorem C03_source_layout_u : Gen.layoutCalculateU =
    [["client_public_key.as_le_bytes()", "server_public_key.as_le_bytes()"], ["ctors:Sha1::new", "methods:chain_update,chain_update,finalize", "control:", "rebound:", "tail:Sha1Hash::from_le_bytes(s.into())"]] := by decide +kernel

/-- C03: M2 = H(A | M1 | K) -/
theorem C03_source_layout_M2 : Gen.layoutServerProof =
    [["client_public_key.as_le_bytes()", "client_proof.as_le_bytes()", "session_key.as_le_bytes()"], ["ctors:Sha1::new", "methods:chain_update,chain_update,chain_update,finalize", "control:", "rebound:", "tail:Proof::from_le_bytes(s.into())"]] := by decide +kernel

/-- C03: xor hash = H(N) xor H(g) -/
theorem C03_source_layout_xor : Gen.layoutXorHash =
    [["large_safe_prime.as_le_bytes()"], ["[generator.as_u8()]"], ["ctors:Sha1::new,Sha1::new", "methods:chain_update,chain_update,finalize,finalize", "control:for", "rebound:", "tail:}Sha1Hash::from_le_bytes(xor_hash)"]] := by decide +kernel

end WowSrp
