/-
LINKING the translated layers.  In Props/Source/Api*.lean a callee name means the model's function, through a hand-written table (`srpPrims`:
which argument of the call is which argument of the model function).  Here the callee names of the decision functions mean the TRANSLATED
callees themselves — `calculate_client_proof`, `calculate_server_proof`, `calculate_reconnect_proof`, `calculate_world_server_proof` are the
`HashProg` terms of Gen/CodeHash.lean, `calculate_session_key` is the `ApiFn` term of Gen/CodeApi.lean (whose own callee `calculate_u` is a
`HashProg` again) — with the arguments of the call handed POSITIONALLY to the parameters of the callee's signature, as Rust does.  The
results are the same model functions: so the order of the arguments at each call site and the order of the parameters in each callee's
signature, both re-read from the source on every run, fit together, and the hand-written table is not part of what has to be believed for
these calls.  (Still meant by the table: the big-integer functions `calculate_S`, tied by the formula theorems, and `calculate_interleaved`,
tied by `C03_translated_interleaved` up to the text of a panic message; the `into_client_header_crypto` of TBC and Wrath, which have the same call-site text as the Vanilla one that IS linked.)  A linked callee is run on an empty draw list and only its value is kept.
-/
import WowSrp.Props.Source.ApiBase
import WowSrp.Gen.CodeHash
namespace WowSrp
open MiniApi

/-- no callees -/
def noHashCallees : MiniHash.Callees := fun _ => none

/-- an API value as an argument of a hash-layout function: a credential is its text, a key its bytes, a number itself -/
def toHashVal : AVal → Option MiniHash.Val
  | .bytes b => some (.bytes b)
  | .nstr u => some (.bytes u.asRef)
  | .num n => some (.num n)
  | _ => none

def toHashVals : List AVal → Option (List MiniHash.Val)
  | [] => some []
  | a :: r => do
    let x ← toHashVal a
    let y ← toHashVals r
    pure (x :: y)

/-- a translated hash-layout function as a callee of an API function: arguments positionally -/
def hashCallee (p : MiniHash.HashProg) (C : Crypto) : List AVal → Out AVal := fun vs =>
  match (toHashVals vs).bind (fun hv => p.run C noHashCallees hv) with
  | some b => .ok (.bytes b)
  | none => .panic "the translated callee has no meaning on these arguments"

end WowSrp
