/-
The world-login `into_server_header_crypto` / `into_client_header_crypto` of all three expansions (both functions for Vanilla, the deciding
`into_server_header_crypto` for TBC and Wrath) with `calculate_world_server_proof` meaning its TRANSLATED term (see
Props/Source/ApiLinkBase.lean): the arguments at the call site — user name, session key, the object's own seed, the peer's seed — handed
positionally to the parameters of the callee's signature (username, session_key, server_seed, client_seed) give the model's function.
-/
import WowSrp.Props.Source.ApiLinkBase
import WowSrp.Props.Source.ApiWorld
import WowSrp.Props.Source.HashesWorld
namespace WowSrp
open MiniApi

def worldLinkedPrims (C : Crypto) : Prims := fun n =>
  if n = "calculate_world_server_proof" then some (hashCallee Gen.CodeHash.worldProof C) else worldPrims C n

theorem hashCallee_world_proof (C : Crypto) (u : NStr) (K : Bytes) (s c : Nat) (hs : s < 2 ^ 32) (hc : c < 2 ^ 32) :
    hashCallee Gen.CodeHash.worldProof C [.nstr u, .bytes K, .num s, .num c] = .ok (.bytes (calculateWorldServerProof C u.asRef K s c)) := by
  have h : Gen.CodeHash.worldProof.run C noHashCallees [.bytes u.asRef, .bytes K, .num s, .num c] = some (calculateWorldServerProof C u.asRef K s c) :=
    C06_translated_world_proof C u.asRef K s c hs hc
  simp [hashCallee, toHashVals, toHashVal, h, bind, Option.bind]

/-- seeds are `u32`s -/
theorem C06_linked_into_server (C : Crypto) (u : NStr) (K proof : Bytes) (seed clientSeed : Nat) (h1 : seed < 2 ^ 32) (h2 : clientSeed < 2 ^ 32) :
    Gen.CodeApi.vanillaIntoServer.run (worldLinkedPrims C) (selfSeed seed) [.nstr u, .bytes K, .bytes proof, .num clientSeed] []
      = some (.ok (match ProofSeed.intoServerHeaderCrypto C .vanilla seed u K proof clientSeed with
          | .error er => (.err (valMatchErr er), selfSeed seed, [])
          | .ok _ => (.ok (cryptoMark "vanilla_header::HeaderCrypto::new" K), selfSeed seed, []))) := by
  have hw := hashCallee_world_proof C u K seed clientSeed h1 h2
  by_cases hM : calculateWorldServerProof C u.asRef K seed clientSeed = proof
  · simp [Gen.CodeApi.vanillaIntoServer, ApiFn.run, runBody, Rhs.eval, drawKinds, Ret.eval, atomsVal, fieldsVal, Atom.val, lookup, bindVar, worldLinkedPrims,
      worldPrims, hw, selfSeed, valMatchErr, eqVal, ProofSeed.intoServerHeaderCrypto, hM, Out.bind, bind]
  · have hb : (calculateWorldServerProof C u.asRef K seed clientSeed == proof) = false := by simp [hM]
    simp [hb, Gen.CodeApi.vanillaIntoServer, ApiFn.run, runBody, Rhs.eval, drawKinds, Ret.eval, atomsVal, fieldsVal, Atom.val, lookup, bindVar,
      worldLinkedPrims, worldPrims, hw, selfSeed, valMatchErr, eqVal, ProofSeed.intoServerHeaderCrypto, hM, Out.bind, bind]

theorem C06_linked_into_client (C : Crypto) (u : NStr) (K : Bytes) (seed serverSeed : Nat) (h1 : seed < 2 ^ 32) (h2 : serverSeed < 2 ^ 32) :
    Gen.CodeApi.vanillaIntoClient.run (worldLinkedPrims C) (selfSeed seed) [.nstr u, .bytes K, .num serverSeed] []
      = some (.ok (.tup (.bytes (ProofSeed.intoClientHeaderCrypto C .vanilla seed u K serverSeed).1) (cryptoMark "vanilla_header::HeaderCrypto::new" K), selfSeed seed, [])) := by
  have hw := hashCallee_world_proof C u K serverSeed seed h2 h1
  simp [Gen.CodeApi.vanillaIntoClient, ApiFn.run, runBody, Rhs.eval, drawKinds, Ret.eval, atomsVal, Atom.val, lookup, bindVar, worldLinkedPrims, worldPrims,
    hw, selfSeed, ProofSeed.intoClientHeaderCrypto, Out.bind, bind]


/-- the TBC copy: same statement about the TBC module's own term and constructor -/
theorem C06_linked_tbc_into_server (C : Crypto) (u : NStr) (K proof : Bytes) (seed clientSeed : Nat) (h1 : seed < 2 ^ 32) (h2 : clientSeed < 2 ^ 32) :
    Gen.CodeApi.tbcIntoServer.run (worldLinkedPrims C) (selfSeed seed) [.nstr u, .bytes K, .bytes proof, .num clientSeed] []
      = some (.ok (match ProofSeed.intoServerHeaderCrypto C .tbc seed u K proof clientSeed with
          | .error er => (.err (valMatchErr er), selfSeed seed, [])
          | .ok _ => (.ok (cryptoMark "tbc_header::HeaderCrypto::new" K), selfSeed seed, []))) := by
  have hw := hashCallee_world_proof C u K seed clientSeed h1 h2
  by_cases hM : calculateWorldServerProof C u.asRef K seed clientSeed = proof
  · simp [Gen.CodeApi.tbcIntoServer, ApiFn.run, runBody, Rhs.eval, drawKinds, Ret.eval, atomsVal, fieldsVal, Atom.val, lookup, bindVar, worldLinkedPrims,
      worldPrims, hw, selfSeed, valMatchErr, eqVal, ProofSeed.intoServerHeaderCrypto, hM, Out.bind, bind]
  · have hb : (calculateWorldServerProof C u.asRef K seed clientSeed == proof) = false := by simp [hM]
    simp [hb, Gen.CodeApi.tbcIntoServer, ApiFn.run, runBody, Rhs.eval, drawKinds, Ret.eval, atomsVal, fieldsVal, Atom.val, lookup, bindVar,
      worldLinkedPrims, worldPrims, hw, selfSeed, valMatchErr, eqVal, ProofSeed.intoServerHeaderCrypto, hM, Out.bind, bind]

/-- the Wrath copy -/
theorem C06_linked_wrath_into_server (C : Crypto) (u : NStr) (K proof : Bytes) (seed clientSeed : Nat) (h1 : seed < 2 ^ 32) (h2 : clientSeed < 2 ^ 32) :
    Gen.CodeApi.wrathIntoServer.run (worldLinkedPrims C) (selfSeed seed) [.nstr u, .bytes K, .bytes proof, .num clientSeed] []
      = some ((ProofSeed.wrathIntoServer C seed u K proof clientSeed).bind (fun r => match r with
          | .error er => .ok (.err (valMatchErr er), selfSeed seed, [])
          | .ok _ => .ok (.ok (cryptoMark "wrath_header::ServerCrypto::new" K), selfSeed seed, []))) := by
  have hw := hashCallee_world_proof C u K seed clientSeed h1 h2
  simp only [ProofSeed.wrathIntoServer]
  by_cases hM : calculateWorldServerProof C u.asRef K seed clientSeed = proof
  · cases hN : WServerCrypto.new C K with
    | panic m =>
      simp [Gen.CodeApi.wrathIntoServer, ApiFn.run, runBody, Rhs.eval, drawKinds, Ret.eval, atomsVal, fieldsVal, Atom.val, lookup, bindVar, worldLinkedPrims,
        worldPrims, hw, selfSeed, valMatchErr, eqVal, hM, hN, Out.bind, bind]
    | ok c =>
      simp [Gen.CodeApi.wrathIntoServer, ApiFn.run, runBody, Rhs.eval, drawKinds, Ret.eval, atomsVal, fieldsVal, Atom.val, lookup, bindVar, worldLinkedPrims,
        worldPrims, hw, selfSeed, valMatchErr, eqVal, hM, hN, Out.bind, bind]
  · have hb : (calculateWorldServerProof C u.asRef K seed clientSeed == proof) = false := by simp [hM]
    simp [hb, Gen.CodeApi.wrathIntoServer, ApiFn.run, runBody, Rhs.eval, drawKinds, Ret.eval, atomsVal, fieldsVal, Atom.val, lookup, bindVar, worldLinkedPrims,
      worldPrims, hw, selfSeed, valMatchErr, eqVal, hM, Out.bind, bind]

#print axioms C06_linked_into_server
#print axioms C06_linked_tbc_into_server
#print axioms C06_linked_wrath_into_server
#print axioms C06_linked_into_client
end WowSrp
