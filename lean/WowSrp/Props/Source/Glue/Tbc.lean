/-
Translator leg: the GLUE between the translated cores and the public API.  tools/gen_constants.py lists, on every run, the signature and the
whole body (whitespace removed) of every function of src/tbc_header/{encrypt,decrypt}.rs EXCEPT those that tools/gen_code.py translates semantically
(cipher loops, header builders / parsers, strip rule, RC4 step, big-integer formulas).  These are the one-to-five-line functions that pass
`self.key, &mut self.index, &mut self.previous_value` in this order, call `read_exact` BEFORE decrypting, stash the four bytes, convert
bytes to a big integer little-endian, etc. — what the model assumes about them is exactly their text, so the obligation is their text.
A reviewer's list of edits that an earlier, looser extraction did not see is kept as tools/translator_selftest.py.
-/
import WowSrp.Gen.Constants
import WowSrp.Gen.Facts
namespace WowSrp

def expected_glueTbc : List (List String) := [["fnencrypt(&mutself,data:&mut[u8]) {encrypt(data,self.key,&mutself.index,&mutself.previous_value);}", "fnwrite_encrypted_server_header<W:Write>(&mutself,mutwrite:W,size:u16,opcode:u16,)->std::io::Result<()> {letbuf=self.encrypt_server_header(size,opcode);write.write_all(&buf)?;Ok(())}", "fnwrite_encrypted_client_header<W:Write>(&mutself,mutwrite:W,size:u16,opcode:u32,)->std::io::Result<()> {letbuf=self.encrypt_client_header(size,opcode);write.write_all(&buf)?;Ok(())}", "fnnew(session_key:[u8;SESSION_KEY_LENGTHasusize])->Self {constSEED_KEY_SIZE:usize=16;lets:[u8;SEED_KEY_SIZE]=[0x38,0xA7,0x83,0x15,0xF8,0x92,0x25,0x30,0x71,0x98,0x67,0xB1,0x8C,0x4,0xE2,0xAA,];letmutkey:Hmac<Sha1>=Hmac::new_from_slice(s.as_slice()).unwrap();key.update(&session_key);letkey=key.finalize().into_bytes().as_slice().try_into().unwrap();Self{key,index:0,previous_value:0,}}", "fndecrypt(&mutself,data:&mut[u8]) {decrypt(data,&self.key,&mutself.index,&mutself.previous_value);}", "fnread_and_decrypt_server_header<R:Read>(&mutself,mutreader:R,)->std::io::Result<ServerHeader> {letmutbuf=[0_u8;SERVER_HEADER_LENGTHasusize];reader.read_exact(&mutbuf)?;Ok(self.decrypt_server_header(buf))}", "fnread_and_decrypt_client_header<R:Read>(&mutself,mutreader:R,)->std::io::Result<ClientHeader> {letmutbuf=[0_u8;CLIENT_HEADER_LENGTHasusize];reader.read_exact(&mutbuf)?;Ok(self.decrypt_client_header(buf))}", "fndecrypt_server_header(&mutself,mutdata:[u8;SERVER_HEADER_LENGTHasusize],)->ServerHeader {self.decrypt(&mutdata);ServerHeader::from_array(data)}", "fndecrypt_client_header(&mutself,mutdata:[u8;CLIENT_HEADER_LENGTHasusize],)->ClientHeader {self.decrypt(&mutdata);ClientHeader::from_array(data)}", "fnnew(session_key:[u8;SESSION_KEY_LENGTHasusize])->Self {constSEED_KEY_SIZE:usize=16;lets:[u8;SEED_KEY_SIZE]=[0x38,0xA7,0x83,0x15,0xF8,0x92,0x25,0x30,0x71,0x98,0x67,0xB1,0x8C,0x4,0xE2,0xAA,];letmutkey:Hmac<Sha1>=Hmac::new_from_slice(s.as_slice()).unwrap();key.update(&session_key);letkey=key.finalize().into_bytes().as_slice().try_into().unwrap();Self{key,index:0,previous_value:0,}}"]]

theorem glueTbc_ok : Gen.glueTbc = expected_glueTbc := by decide +kernel

theorem C08_source_glue_tbc : Gen.glueTbc = expected_glueTbc := glueTbc_ok
theorem C11_source_glue_tbc : Gen.glueTbc = expected_glueTbc := glueTbc_ok
theorem C12_source_glue_tbc : Gen.glueTbc = expected_glueTbc := glueTbc_ok
theorem C14_source_glue_tbc : Gen.glueTbc = expected_glueTbc := glueTbc_ok

end WowSrp
