/-
Translator leg: the GLUE between the translated cores and the public API.  tools/gen_constants.py lists, on every run, the signature and the
whole body (whitespace removed) of every function of src/vanilla_header/{encrypt,decrypt}.rs EXCEPT those that tools/gen_code.py translates semantically
(cipher loops, header builders / parsers, strip rule, RC4 step, big-integer formulas).  These are the one-to-five-line functions that pass
`self.key, &mut self.index, &mut self.previous_value` in this order, call `read_exact` BEFORE decrypting, stash the four bytes, convert
bytes to a big integer little-endian, etc. — what the model assumes about them is exactly their text, so the obligation is their text.
A reviewer's list of edits that an earlier, looser extraction did not see is kept as tools/translator_selftest.py.
-/
import WowSrp.Gen.Constants
import WowSrp.Gen.Facts
namespace WowSrp

def expected_glueVanilla : List (List String) := [["fnencrypt(&mutself,data:&mut[u8]) {encrypt(data,self.session_key,&mutself.index,&mutself.previous_value,);}", "fnwrite_encrypted_server_header<W:Write>(&mutself,mutwrite:W,size:u16,opcode:u16,)->std::io::Result<()> {letbuf=self.encrypt_server_header(size,opcode);write.write_all(&buf)?;Ok(())}", "fnwrite_encrypted_client_header<W:Write>(&mutself,mutwrite:W,size:u16,opcode:u32,)->std::io::Result<()> {letbuf=self.encrypt_client_header(size,opcode);write.write_all(&buf)?;Ok(())}", "fnis_pair_of(&self,other:&DecrypterHalf)->bool {self.session_key==other.session_key}", "fnnew(session_key:[u8;SESSION_KEY_LENGTHasusize])->Self {Self{session_key,index:0,previous_value:0,}}", "fnunsplit(self,decrypter:DecrypterHalf)->Result<HeaderCrypto,UnsplitCryptoError> {if!self.is_pair_of(&decrypter){returnErr(UnsplitCryptoError{});}Ok(HeaderCrypto{decrypt:decrypter,encrypt:self,})}", "fndecrypt(&mutself,data:&mut[u8]) {decrypt(data,&self.session_key,&mutself.index,&mutself.previous_value,);}", "fnread_and_decrypt_server_header<R:Read>(&mutself,mutreader:R,)->std::io::Result<ServerHeader> {letmutbuf=[0_u8;SERVER_HEADER_LENGTHasusize];reader.read_exact(&mutbuf)?;Ok(self.decrypt_server_header(buf))}", "fnread_and_decrypt_client_header<R:Read>(&mutself,mutreader:R,)->std::io::Result<ClientHeader> {letmutbuf=[0_u8;CLIENT_HEADER_LENGTHasusize];reader.read_exact(&mutbuf)?;Ok(self.decrypt_client_header(buf))}", "fndecrypt_server_header(&mutself,mutdata:[u8;SERVER_HEADER_LENGTHasusize],)->ServerHeader {self.decrypt(&mutdata);ServerHeader::from_array(data)}", "fndecrypt_client_header(&mutself,mutdata:[u8;CLIENT_HEADER_LENGTHasusize],)->ClientHeader {self.decrypt(&mutdata);ClientHeader::from_array(data)}", "fnis_pair_of(&self,other:&EncrypterHalf)->bool {other.is_pair_of(self)}", "fnnew(session_key:[u8;SESSION_KEY_LENGTHasusize])->Self {Self{session_key,index:0,previous_value:0,}}"]]

theorem glueVanilla_ok : Gen.glueVanilla = expected_glueVanilla := by decide +kernel

theorem C07_source_glue_vanilla : Gen.glueVanilla = expected_glueVanilla := glueVanilla_ok
theorem C11_source_glue_vanilla : Gen.glueVanilla = expected_glueVanilla := glueVanilla_ok
theorem C12_source_glue_vanilla : Gen.glueVanilla = expected_glueVanilla := glueVanilla_ok
theorem C14_source_glue_vanilla : Gen.glueVanilla = expected_glueVanilla := glueVanilla_ok

end WowSrp
