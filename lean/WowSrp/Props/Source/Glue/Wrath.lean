/-
Translator leg: the GLUE between the translated cores and the public API.  tools/gen_constants.py lists, on every run, the signature and the
whole body (whitespace removed) of every function of src/wrath_header/{encrypt,decrypt,inner_crypto}.rs EXCEPT those that tools/gen_code.py translates semantically
(cipher loops, header builders / parsers, strip rule, RC4 step, big-integer formulas).  These are the one-to-five-line functions that pass
`self.key, &mut self.index, &mut self.previous_value` in this order, call `read_exact` BEFORE decrypting, stash the four bytes, convert
bytes to a big integer little-endian, etc. — what the model assumes about them is exactly their text, so the obligation is their text.
A reviewer's list of edits that an earlier, looser extraction did not see is kept as tools/translator_selftest.py.
-/
import WowSrp.Gen.Constants
import WowSrp.Gen.Facts
namespace WowSrp

def expected_glueWrath : List (List String) := [["fnencrypt(&mutself,data:&mut[u8]) {self.encrypt.apply(data);}", "fnwrite_encrypted_server_header<W:Write>(&mutself,mutwrite:W,size:u32,opcode:u16,)->std::io::Result<()> {letbuf=self.encrypt_server_header(size,opcode);write.write_all(buf)?;Ok(())}", "fnnew(session_key:[u8;SESSION_KEY_LENGTHasusize])->Self {Self{encrypt:InnerCrypto::new(session_key,&R),server_header:[0_u8;SERVER_HEADER_MAXIMUM_LENGTHasusize],}}", "fnencrypt(&mutself,data:&mut[u8]) {self.encrypt.apply(data);}", "fnwrite_encrypted_client_header<W:Write>(&mutself,mutwrite:W,size:u16,opcode:u32,)->std::io::Result<()> {letbuf=self.encrypt_client_header(size,opcode);write.write_all(&buf)?;Ok(())}", "fnnew(session_key:[u8;SESSION_KEY_LENGTHasusize])->Self {Self{encrypt:InnerCrypto::new(session_key,&S),}}", "fnset_large_header(v:u8)->u8 {v|0x80}", "fndecrypt(&mutself,data:&mut[u8]) {self.decrypt.apply(data);}", "fnread_and_decrypt_client_header<R:Read>(&mutself,mutreader:R,)->std::io::Result<ClientHeader> {letmutbuf=[0_u8;CLIENT_HEADER_LENGTHasusize];reader.read_exact(&mutbuf)?;Ok(self.decrypt_client_header(buf))}", "fndecrypt_client_header(&mutself,mutdata:[u8;CLIENT_HEADER_LENGTHasusize],)->ClientHeader {self.decrypt(&mutdata);ClientHeader::from_array(data)}", "fnnew(session_key:[u8;SESSION_KEY_LENGTHasusize])->Self {Self{decrypt:InnerCrypto::new(session_key,&S),}}", "fndecrypt(&mutself,data:&mut[u8]) {self.decrypt.apply(data);}", "fnattempt_decrypt_server_header(&mutself,mutbuf:[u8;SERVER_HEADER_MINIMUM_LENGTHasusize],)->WrathServerAttempt {self.decrypt.apply(&mutbuf);iflarge_header(buf[0]){self.header[0]=buf[0];self.header[1]=buf[1];self.header[2]=buf[2];self.header[3]=buf[3];WrathServerAttempt::AdditionalByteRequired}else{WrathServerAttempt::Header(ServerHeader::from_small_array(buf))}}", "fndecrypt_large_server_header(&mutself,byte:u8)->ServerHeader {letmutbuf=[byte];self.decrypt.apply(&mutbuf);letbuf=[self.header[0],self.header[1],self.header[2],self.header[3],buf[0],];ServerHeader::from_large_array(buf)}", "fnread_and_decrypt_server_header<R:Read>(&mutself,mutreader:R,)->std::io::Result<ServerHeader> {letmutbuf=[0_u8;4];reader.read_exact(&mutbuf)?;Ok(matchself.attempt_decrypt_server_header(buf){WrathServerAttempt::Header(h)=>h,WrathServerAttempt::AdditionalByteRequired=>{letmutbuf=[0_u8;1];reader.read_exact(&mutbuf)?;self.decrypt_large_server_header(buf[0])}})}", "fnnew(session_key:[u8;SESSION_KEY_LENGTHasusize])->Self {Self{decrypt:InnerCrypto::new(session_key,&R),header:[0_u8;SERVER_HEADER_MINIMUM_LENGTHasusize],}}", "fnclear_large_header(v:u8)->u8 {v&0x7F}", "fnlarge_header(v:u8)->bool {v&0x80!=0}", "fnapply(&mutself,data:&mut[u8]) {self.inner.apply_keystream(data);}", "fnnew(session_key:[u8;SESSION_KEY_LENGTHasusize],key:&[u8;KEY_LENGTHasusize],)->Self {letmuthmac:Hmac<Sha1>=Hmac::<Sha1>::new_from_slice(key.as_slice()).unwrap();hmac.update(&session_key);lethmac=hmac.finalize();letmutinner=Rc4::new(hmac.into_bytes().as_slice());letmutpad_data=[0_u8;1024];inner.apply_keystream(&mutpad_data);Self{inner}}"]]

theorem glueWrath_ok : Gen.glueWrath = expected_glueWrath := by decide +kernel

theorem C09_source_glue_wrath : Gen.glueWrath = expected_glueWrath := glueWrath_ok
theorem C10_source_glue_wrath : Gen.glueWrath = expected_glueWrath := glueWrath_ok
theorem C11_source_glue_wrath : Gen.glueWrath = expected_glueWrath := glueWrath_ok
theorem C12_source_glue_wrath : Gen.glueWrath = expected_glueWrath := glueWrath_ok
theorem C14_source_glue_wrath : Gen.glueWrath = expected_glueWrath := glueWrath_ok

end WowSrp
