/-
C18, `generate_coordinates` of src/matrix_card.rs as translated from the working tree (`Gen/CodeImp.lean`, regenerated on every run)
against the model (`Model/MatrixCard.lean`): for every input the translated function gives what `generateCoordinates` gives, up to the
text of a panic message (both panic when `width * height` does not fit a `u8`, and when `challenge_count > width * height`).

Structure as in `LoopsPin.lean`: a loop lemma for each of the three loops, stated for ANY loop body that does one round of the model's
recursion (`mcShift_loop`, `mcInit_loop`, `mc_loop`); the final theorem unfolds the generated term, walks down its statements with the
`Sim` rules of `Lemmas/MiniImp.lean`, and discharges the "one round" hypotheses by evaluating the generated loop bodies.
-/
import WowSrp.Gen.CodeImp
import WowSrp.Model.MatrixCard
import WowSrp.Lemmas.MiniImp
namespace WowSrp
open MiniImp

/-! ### the inner shift loop -/

/-- one round of the inner shift loop, as the model does it -/
def mcShiftStep (idx : Bytes) (j : Nat) : Out Bytes :=
  match idx[j + 1]? with
  | none => .panic "matrix_card.rs:363 index out of bounds"
  | some v => if j < idx.length then .ok (idx.set j v) else .panic "matrix_card.rs:363 index out of bounds"

theorem mcShift_succ (idx : Bytes) (c j : Nat) :
    mcShift idx (c + 1) j = (mcShiftStep idx j >>= fun g => mcShift g c (j + 1)) := by
  rw [mcShift, mcShiftStep]
  cases idx[j + 1]? with
  | none => rfl
  | some v => by_cases h : j < idx.length <;> simp [h]

/-- any loop body that does one model round (keeping `Inv`) does `mcShift` in `c` rounds -/
theorem mcShift_loop (f : Nat → Env → Out Env) (Inv : Env → Bytes → Prop)
    (hf : ∀ j e g, Inv e g → j + 1 < 2 ^ 64 → Sim Inv (f j e) (mcShiftStep g j)) :
    ∀ c j e g, Inv e g → j + c < 2 ^ 64 → Sim Inv (loopUp f c j e) (mcShift g c j) := by
  intro c
  induction c with
  | zero => intro j e g hi _; simpa [mcShift] using hi
  | succ c ih =>
    intro j e g hi hb
    have hs := hf j e g hi (by omega)
    rw [mcShift_succ]
    cases hm : mcShiftStep g j with
    | panic q =>
      rw [hm] at hs
      obtain ⟨p, hp⟩ := hs.panic_inv
      rw [loopUp_succ_panic _ _ _ _ _ hp]; exact Sim.panic
    | ok g1 =>
      rw [hm] at hs
      obtain ⟨e1, he1, hi1⟩ := hs.ok_inv
      rw [loopUp_succ_ok _ _ _ _ _ he1, Out.bind_ok]
      exact ih (j + 1) e1 g1 hi1 (by omega)

/-! ### the loop that fills `matrix_indices` -/

/-- any loop body that writes `cur` at position `cur` (keeping `Inv`) turns `pre ++ [0, .., 0]` into `pre ++ [|pre|, |pre|+1, ..]` -/
theorem mcInit_loop (f : Nat → Env → Out Env) (Inv : Env → Bytes → Prop)
    (hf : ∀ e (pre : Bytes) z rest, Inv e (pre ++ z :: rest) → pre.length < 256 →
      ∃ e1, f pre.length e = .ok e1 ∧ Inv e1 (pre ++ UInt8.ofNat pre.length :: rest)) :
    ∀ n e (pre : Bytes), Inv e (pre ++ List.replicate n 0) → pre.length + n ≤ 256 →
      ∃ e1, loopUp f n pre.length e = .ok e1 ∧ Inv e1 (pre ++ (List.range' pre.length n).map UInt8.ofNat) := by
  intro n
  induction n with
  | zero => intro e pre hi _; exact ⟨e, rfl, by simpa using hi⟩
  | succ n ih =>
    intro e pre hi hb
    obtain ⟨e1, he1, hi1⟩ := hf e pre 0 (List.replicate n 0) (by simpa [List.replicate_succ] using hi) (by omega)
    rw [loopUp_succ_ok _ _ _ _ _ he1]
    have := ih e1 (pre ++ [UInt8.ofNat pre.length]) (by simpa using hi1) (by simp; omega)
    simpa [List.range'_succ] using this

/-- the same, with the conclusion weakened to whatever is needed next -/
theorem mcInit_loop_then (f : Nat → Env → Out Env) (Inv : Env → Bytes → Prop) (Q : Env → Prop) (n : Nat) (e : Env) (pre : Bytes)
    (hf : ∀ e (pre : Bytes) z rest, Inv e (pre ++ z :: rest) → pre.length < 256 →
      ∃ e1, f pre.length e = .ok e1 ∧ Inv e1 (pre ++ UInt8.ofNat pre.length :: rest))
    (hi : Inv e (pre ++ List.replicate n 0)) (hb : pre.length + n ≤ 256)
    (hQ : ∀ e1, Inv e1 (pre ++ (List.range' pre.length n).map UInt8.ofNat) → Q e1) :
    ∃ e1, loopUp f n pre.length e = .ok e1 ∧ Q e1 := by
  obtain ⟨e1, he1, hi1⟩ := mcInit_loop f Inv hf n e pre hi hb
  exact ⟨e1, he1, hQ e1 hi1⟩

/-! ### the outer loop -/

/-- one round of the outer loop, as the model does it: the new index list and the byte written -/
def mcStep (ms i : Nat) (idx : Bytes) (seed : Nat) : Out (Bytes × UInt8) :=
  if ms < i then .panic "matrix_card.rs:357 subtraction overflow" else
  if ms - i = 0 then .panic "matrix_card.rs:358 remainder by zero" else
  match idx[seed % (ms - i)]? with
  | none => .panic "matrix_card.rs:360 index out of bounds"
  | some v => mcShift idx (ms - i - 1 - seed % (ms - i)) (seed % (ms - i)) >>= fun g => .ok (g, v)

theorem mcCoordLoop_succ (ms n i : Nat) (idx : Bytes) (seed : Nat) (out : Bytes) :
    mcCoordLoop ms (n + 1) i idx seed out
      = (mcStep ms i idx seed >>= fun gv => mcCoordLoop ms n (i + 1) gv.1 (seed / (ms - i)) (out ++ [gv.2])) := by
  rw [mcCoordLoop, mcStep]
  by_cases h1 : ms < i
  · simp only [h1, if_true]; rfl
  · simp only [h1, if_false]
    by_cases h2 : ms - i = 0
    · simp only [h2, if_true]; rfl
    · simp only [h2, if_false]
      cases idx[seed % (ms - i)]? with
      | none => rfl
      | some v =>
        simp only []
        cases mcShift idx (ms - i - 1 - seed % (ms - i)) (seed % (ms - i)) <;> rfl

/-- what the outer loop keeps: the seed in slot 3, `matrix_size` in slot 4, `coordinates` and `matrix_indices` in array slots 0 and 1 -/
def McInv (ms : Nat) (e : Env) (idx : Bytes) (seed : Nat) (res : Bytes) : Prop :=
  e.vars[3]? = some seed ∧ e.vars[4]? = some ms ∧ e.arrs = [res, idx]

theorem mc_loop (f : Nat → Env → Out Env) (ms : Nat)
    (hf : ∀ e idx seed (out : Bytes) p pad, McInv ms e idx seed (out ++ p :: pad) →
      Sim (fun e1 (gv : Bytes × UInt8) => McInv ms e1 gv.1 (seed / (ms - out.length)) (out ++ gv.2 :: pad))
        (f out.length e) (mcStep ms out.length idx seed)) :
    ∀ n e idx seed (out pad : Bytes), McInv ms e idx seed (out ++ pad) → pad.length = n →
      Sim (fun e1 r => e1.arrs[0]? = some r) (loopUp f n out.length e) (mcCoordLoop ms n out.length idx seed out) := by
  intro n
  induction n with
  | zero =>
    intro e idx seed out pad hi hl
    have : pad = [] := List.eq_nil_of_length_eq_zero hl
    subst this
    simp [mcCoordLoop, hi.2.2]
  | succ n ih =>
    intro e idx seed out pad hi hl
    cases pad with
    | nil => simp at hl
    | cons p pad =>
      have hs := hf e idx seed out p pad hi
      rw [mcCoordLoop_succ]
      cases hm : mcStep ms out.length idx seed with
      | panic q =>
        rw [hm] at hs
        obtain ⟨p, hp⟩ := hs.panic_inv
        rw [loopUp_succ_panic _ _ _ _ _ hp]; exact Sim.panic
      | ok gv =>
        rw [hm] at hs
        obtain ⟨e1, he1, hi1⟩ := hs.ok_inv
        rw [loopUp_succ_ok _ _ _ _ _ he1, Out.bind_ok]
        have := ih e1 gv.1 (seed / (ms - out.length)) (out ++ [gv.2]) pad (by simpa using hi1) (by simpa using hl)
        simpa using this

set_option linter.unusedVariables false in
/-- (holds for all natural numbers; the hypotheses are the Rust types of the parameters) -/
theorem C18_translated_generate_coordinates (w h c seed : Nat) (hw : w < 256) (hh : h < 256) (hc : c < 256) (hs : seed < 2 ^ 64) :
    MiniImp.forget (Gen.CodeImp.generateCoordinates.run [w, h, c, seed] []) = MiniImp.forget (generateCoordinates w h c seed) := by
  refine run_forget_of_sim (R := fun e r => e.arrs[0]? = some r) ?_ (fun e a h => getArr_of e 0 a h)
  unfold Gen.CodeImp.generateCoordinates
  dsimp only
  refine Sim.seq_ok (exec_arrNew (n := c) (by simp [Expr.eval, Env.getVar])) ?_
  rw [generateCoordinates]
  by_cases hm : w * h < 256
  · have hm2 : ¬ w * h > 255 := by omega
    simp only [hm2, if_false]
    clear hm2
    refine Sim.seq_ok (exec_set (v := w * h) (by simp [Expr.eval, Env.getVar, hm])) ?_
    refine Sim.seq_ok (exec_arrNew (n := w * h) (by simp [Expr.eval, Env.getVar, vars_setVar])) ?_
    generalize w * h = ms at hm ⊢
    refine Sim.seq_ex (Q := fun e => e.vars[2]? = some c ∧ e.vars[3]? = some seed ∧ e.vars[4]? = some ms
      ∧ e.arrs = [List.replicate c 0, (List.range ms).map UInt8.ofNat]) ?_ ?_
    · rw [exec_forUp (l := 1) (h := ms) rfl (by simp [Expr.eval, Env.getVar, vars_setVar])]
      cases ms with
      | zero => exact ⟨_, rfl, by simp [vars_setVar, Env.setArr]⟩
      | succ m =>
        rw [Nat.add_sub_cancel]
        refine mcInit_loop_then _ (fun e a => e.vars[2]? = some c ∧ e.vars[3]? = some seed ∧ e.vars[4]? = some (m + 1)
          ∧ e.arrs = [List.replicate c 0, a]) _ m _ [0] ?_ ?_ (by simp; omega) ?_
        · intro e pre z rest ⟨h2, h3, h4, ha⟩ hpre
          refine ⟨_, exec_store (a := pre ++ z :: rest) (k := pre.length) (v := pre.length) (by simp [Env.getArr, ha])
            (by simp [Expr.eval, Env.getVar, vars_setVar]) (by simp [Expr.eval, Env.getVar, vars_setVar]) hpre (by simp), ?_⟩
          simp [vars_setVar, arrs_setArr, h2, h3, h4, ha]
        · simp [vars_setVar, Env.setArr, List.replicate_succ]
        · intro e1 h
          simpa [List.range_eq_range', List.range'_succ] using h
    · intro e ⟨h2, h3, h4, ha⟩
      rw [exec_forUp (l := 0) (h := c) rfl (by simp [Expr.eval, Env.getVar, h2])]
      refine mc_loop _ ms ?_ (c - 0) e _ seed [] (List.replicate c 0) ⟨h3, h4, ha⟩ (by simp)
      clear h2 h3 h4 ha e hs seed
      intro e idx seed out p pad ⟨h3, h4, ha⟩
      rw [mcStep]
      by_cases h1 : ms < out.length
      · simp only [h1, if_true]
        refine Sim.seq_panic (p := "attempt to subtract with overflow") ?_
        have : ¬ out.length ≤ ms := by omega
        simp [Stmt.exec, Expr.eval, Env.getVar, vars_setVar, h4, this]
      · simp only [h1, if_false]
        refine Sim.seq_ok (exec_set (v := ms - out.length) (by
          have : out.length ≤ ms := by omega
          simp [Expr.eval, Env.getVar, vars_setVar, h4, this])) ?_
        by_cases hz : ms - out.length = 0
        · simp only [hz, if_true]
          refine Sim.seq_panic (p := "attempt to calculate the remainder with a divisor of zero") ?_
          simp [Stmt.exec, Expr.eval, Env.getVar, vars_setVar, h3]
        · simp only [hz, if_false]
          refine Sim.seq_ok (exec_set (v := seed % (ms - out.length)) (by
            simp [Expr.eval, Env.getVar, vars_setVar, h3, hz])) ?_
          have hidx : seed % (ms - out.length) < ms - out.length := Nat.mod_lt _ (by omega)
          cases hb : idx[seed % (ms - out.length)]? with
          | none =>
            refine Sim.seq_panic (p := "index out of bounds") ?_
            simp [Stmt.exec, Expr.eval, Env.getVar, Env.getArr, vars_setVar, ha, hb]
          | some b =>
            dsimp only
            refine Sim.seq_ok (exec_store (a := out ++ p :: pad) (k := out.length) (v := b.toNat)
              (by simp [Env.getArr, ha]) (by simp [Expr.eval, Env.getVar, vars_setVar])
              (by simp [Expr.eval, Env.getVar, Env.getArr, vars_setVar, ha, hb]) (UInt8.toNat_lt b) (by simp)) ?_
            refine Sim.seq_bind (Q := fun e1 g => e1.vars[3]? = some seed ∧ e1.vars[4]? = some ms
              ∧ e1.vars[7]? = some (ms - out.length) ∧ e1.arrs = [out ++ b :: pad, g]) ?_ ?_
            · have h1le : 1 ≤ ms - out.length := by omega
              rw [exec_forUp (l := seed % (ms - out.length)) (h := ms - out.length - 1)
                (by simp [Expr.eval, Env.getVar, vars_setVar]) (by simp [Expr.eval, Env.getVar, vars_setVar, h1le])]
              refine mcShift_loop _ _ ?_ _ _ _ idx ?_ (by omega)
              · intro j e1 g ⟨hv3, hv4, hv7, hg⟩ hj
                have hj1 : j + 1 < 18446744073709551616 := by omega
                rw [mcShiftStep]
                cases hgv : g[j + 1]? with
                | none =>
                  have : (Stmt.store 1 (Expr.var 9) (Expr.idx 1 (Expr.add 64 (Expr.var 9) (Expr.lit 1)))).exec (e1.setVar 9 j)
                      = .panic "index out of bounds" := by
                    simp [Stmt.exec, Expr.eval, Env.getVar, Env.getArr, vars_setVar, hg, hgv, hj1]
                  rw [this]; exact Sim.panic
                | some v =>
                  have hv256 : v.toNat < 256 := UInt8.toNat_lt v
                  by_cases hlt : j < g.length
                  · rw [exec_store (a := g) (k := j) (v := v.toNat) (by simp [Env.getArr, hg])
                      (by simp [Expr.eval, Env.getVar, vars_setVar])
                      (by simp [Expr.eval, Env.getVar, Env.getArr, vars_setVar, hg, hgv, hj1]) hv256 hlt]
                    simp [hlt, vars_setVar, arrs_setArr, hv3, hv4, hv7, hg]
                  · have : (Stmt.store 1 (Expr.var 9) (Expr.idx 1 (Expr.add 64 (Expr.var 9) (Expr.lit 1)))).exec (e1.setVar 9 j)
                        = .panic "index out of bounds" := by
                      simp [Stmt.exec, Expr.eval, Env.getVar, Env.getArr, vars_setVar, hg, hgv, hj1, hlt, hv256]
                    rw [this]; simp [hlt]
              · simp [vars_setVar, arrs_setArr, h3, h4, ha]
            · intro e1 g ⟨hv3, hv4, hv7, hg⟩
              rw [exec_set (v := seed / (ms - out.length)) (by simp [Expr.eval, Env.getVar, hv3, hv7, hz])]
              simp [McInv, vars_setVar, hv4, hg]
  · have hm2 : w * h > 255 := by omega
    simp only [hm2, if_true]
    refine Sim.seq_panic (p := "attempt to multiply with overflow") ?_
    simp [Stmt.exec, Expr.eval, Env.getVar, hm]

/-! ### both sides run -/

/-- a 4×3 card, 5 rounds -/
example : forget (Gen.CodeImp.generateCoordinates.run [4, 3, 5, 987654321987] []) = some [3, 0, 4, 9, 8]
    ∧ forget (generateCoordinates 4 3 5 987654321987) = some [3, 0, 4, 9, 8] := by decide
/-- both sides panic: more rounds than cells (remainder by zero in round 13) -/
example : forget (Gen.CodeImp.generateCoordinates.run [4, 3, 13, 987654321987] []) = none
    ∧ forget (generateCoordinates 4 3 13 987654321987) = none := by decide
/-- both sides panic: `16 * 16` does not fit a `u8` -/
example : forget (Gen.CodeImp.generateCoordinates.run [16, 16, 1, 7] []) = none
    ∧ forget (generateCoordinates 16 16 1 7) = none := by decide

end WowSrp

#print axioms WowSrp.C18_translated_generate_coordinates
