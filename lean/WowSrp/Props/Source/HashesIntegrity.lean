/-
The six functions of src/integrity.rs, translated from the working tree by tools/gen_hash.py (Gen/CodeHash.lean), denote the model's functions
(Model/Integrity.lean) for EVERY file content, salt and public key and EVERY `Crypto`; parameters in the order of the Rust signatures.  The three
public functions that call `finalise` / `checksum` are run in an environment where those names mean the TRANSLATED `finalise` / `checksum` of the
same file (the translator checks each is defined exactly once there).
-/
import WowSrp.Gen.CodeHash
import WowSrp.Model.Integrity
namespace WowSrp
open MiniHash

theorem C17_translated_finalise (C : Crypto) (seed checksum : Bytes) :
    Gen.CodeHash.integrityFinalise.run C (fun _ => none) [.bytes seed, .bytes checksum] = some (finalise C seed checksum) := by
  simp [Gen.CodeHash.integrityFinalise, HashProg.run, execAll, HStmt.exec, feedAll, HArg.fed, HArg.val, finalise, bind, Option.bind]

theorem C17_translated_checksum (C : Crypto) (seed f1 f2 f3 f4 f5 : Bytes) :
    Gen.CodeHash.integrityChecksum.run C (fun _ => none) [.bytes seed, .bytes f1, .bytes f2, .bytes f3, .bytes f4, .bytes f5]
      = some (integrityChecksum C seed f1 f2 f3 f4 f5) := by
  simp [Gen.CodeHash.integrityChecksum, HashProg.run, execAll, HStmt.exec, feedAll, HArg.fed, HArg.val, integrityChecksum, bind, Option.bind]

def finaliseFn (C : Crypto) : List Val → Option Bytes := fun vs => Gen.CodeHash.integrityFinalise.run C (fun _ => none) vs
def checksumFn (C : Crypto) : List Val → Option Bytes := fun vs => Gen.CodeHash.integrityChecksum.run C (fun _ => none) vs
/-- `finalise` and `checksum` where the public functions call them -/
def integrityCallees (C : Crypto) : Callees := fun n =>
  if n = "finalise" then some (finaliseFn C) else if n = "checksum" then some (checksumFn C) else none

theorem finaliseFn_eq (C : Crypto) (a b : Bytes) : finaliseFn C [.bytes a, .bytes b] = some (finalise C a b) := C17_translated_finalise C a b
theorem checksumFn_eq (C : Crypto) (s f1 f2 f3 f4 f5 : Bytes) :
    checksumFn C [.bytes s, .bytes f1, .bytes f2, .bytes f3, .bytes f4, .bytes f5] = some (integrityChecksum C s f1 f2 f3 f4 f5) :=
  C17_translated_checksum C s f1 f2 f3 f4 f5

/-- `login_integrity_check_generic(all_files, checksum_salt, client_public_key)` -/
theorem C17_translated_generic (C : Crypto) (allFiles salt pk : Bytes) :
    Gen.CodeHash.integrityGeneric.run C (integrityCallees C) [.bytes allFiles, .bytes salt, .bytes pk] = some (integrityGeneric C allFiles salt pk) := by
  simp [Gen.CodeHash.integrityGeneric, HashProg.run, execAll, HStmt.exec, feedAll, valAll, HArg.fed, HArg.val, integrityGeneric, bind, Option.bind,
    integrityCallees, finaliseFn_eq]

/-- `login_integrity_check_windows(wow_exe, fmod_dll, ijl15_dll, dbghelp_dll, unicows_dll, checksum_salt, client_public_key)` -/
theorem C17_translated_windows (C : Crypto) (f1 f2 f3 f4 f5 salt pk : Bytes) :
    Gen.CodeHash.integrityWindows.run C (integrityCallees C) [.bytes f1, .bytes f2, .bytes f3, .bytes f4, .bytes f5, .bytes salt, .bytes pk]
      = some (integrityWindows C f1 f2 f3 f4 f5 salt pk) := by
  simp [Gen.CodeHash.integrityWindows, HashProg.run, execAll, HStmt.exec, feedAll, valAll, HArg.fed, HArg.val, integrityWindows, bind, Option.bind,
    integrityCallees, finaliseFn_eq, checksumFn_eq]

/-- `login_integrity_check_mac(world_of_warcraft, info_plist, objects_xib, wow_icns, pkg_info, checksum_salt, client_public_key)` -/
theorem C17_translated_mac (C : Crypto) (f1 f2 f3 f4 f5 salt pk : Bytes) :
    Gen.CodeHash.integrityMac.run C (integrityCallees C) [.bytes f1, .bytes f2, .bytes f3, .bytes f4, .bytes f5, .bytes salt, .bytes pk]
      = some (integrityMac C f1 f2 f3 f4 f5 salt pk) := by
  simp [Gen.CodeHash.integrityMac, HashProg.run, execAll, HStmt.exec, feedAll, valAll, HArg.fed, HArg.val, integrityMac, bind, Option.bind,
    integrityCallees, finaliseFn_eq]

/-- `reconnect_integrity_check(proof_salt)` -/
theorem C17_translated_reconnect (C : Crypto) (salt : Bytes) :
    Gen.CodeHash.integrityReconnect.run C (integrityCallees C) [.bytes salt] = some (integrityReconnect C salt) := by
  simp [Gen.CodeHash.integrityReconnect, HashProg.run, execAll, HStmt.exec, feedAll, valAll, HArg.fed, HArg.val, integrityReconnect, bind, Option.bind,
    integrityCallees, finaliseFn_eq]

/-- sensitivity: file order matters to the translated term (toy HMAC = key ++ message, toy SHA-1 = identity) -/
example : Gen.CodeHash.integrityWindows.run ⟨id, fun k m => k ++ m, fun _ => []⟩ (integrityCallees ⟨id, fun k m => k ++ m, fun _ => []⟩)
    [.bytes [1], .bytes [2], .bytes [3], .bytes [4], .bytes [5], .bytes [6], .bytes [7]] = some [7, 6, 1, 2, 3, 4, 5] := by decide +kernel

#print axioms C17_translated_finalise
#print axioms C17_translated_checksum
#print axioms C17_translated_generic
#print axioms C17_translated_windows
#print axioms C17_translated_mac
#print axioms C17_translated_reconnect
end WowSrp
