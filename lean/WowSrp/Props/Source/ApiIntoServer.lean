/-
`SrpProof::into_server` (server.rs), translated from the working tree by tools/gen_api.py, denotes the model's `SrpProof.intoServer` for every state,
argument and draw: the comparison, both branches, and the reconnect challenge drawn only on the accepting path.
(see Props/Source/ApiBase.lean for the environment `srpPrims` / `srvPrims` and the value embeddings.)
-/
import WowSrp.Props.Source.ApiBase
namespace WowSrp
open MiniApi

/-- `SrpProof::into_server(self, client_public_key, client_proof)`: the reconnect challenge is drawn only on the accepting path -/
theorem C02_translated_into_server (C : Crypto) (be : Backend) (p : SrpProof) (A M1 ch : Bytes) (rest : List Bytes) :
    Gen.CodeApi.intoServer.run (srpPrims C be) (selfProof p) [.bytes A, .bytes M1] (ch :: rest)
      = some ((p.intoServer C be A M1 ch).bind (fun r => match r with
          | .error e => .ok (.err (valMatchErr e), selfProof p, ch :: rest)
          | .ok (s, M2) => .ok (.ok (.tup (valServer s) (.bytes M2)), selfProof p, rest))) := by
  simp only [SrpProof.intoServer]
  cases hK : calculateSessionKey C be A p.serverPublicKey p.passwordVerifier p.serverPrivateKey with
  | panic m =>
    simp [Gen.CodeApi.intoServer, ApiFn.run, runBody, Rhs.eval, drawKinds, Ret.eval, atomsVal, fieldsVal, Atom.val, lookup, bindVar, srpPrims, outBytes,
      selfProof, hK, Out.bind, bind]
  | ok K =>
    by_cases hM : M1 = calculateClientProof C p.username.asRef K A p.serverPublicKey p.salt
    · simp [Gen.CodeApi.intoServer, ApiFn.run, runBody, Rhs.eval, drawKinds, Ret.eval, atomsVal, fieldsVal, Atom.val, lookup, bindVar, srpPrims, outBytes,
        selfProof, valServer, valMatchErr, eqVal, hK, hM, Out.bind, bind]
    · have hb : (M1 == calculateClientProof C p.username.asRef K A p.serverPublicKey p.salt) = false := by simp [hM]
      simp [hb, Gen.CodeApi.intoServer, ApiFn.run, runBody, Rhs.eval, drawKinds, Ret.eval, atomsVal, fieldsVal, Atom.val, lookup, bindVar, srpPrims, outBytes,
        selfProof, valServer, valMatchErr, eqVal, hK, hM, Out.bind, bind]

/-- the parameter lists and return types the terms above were read under (the terms carry parameter NAMES; the types decide what a
    conversion such as `Generator::from(generator)`, `.into()` or `?` means) -/
theorem C02_translated_into_server_signature :
    Gen.CodeApi.intoServerSig = "self,client_public_key:PublicKey,client_proof:[u8;PROOF_LENGTH as usize],->Result<(SrpServer,[u8;PROOF_LENGTH as usize]),MatchProofsError>" := by decide +kernel

#print axioms C02_translated_into_server
#print axioms C02_translated_into_server_signature
end WowSrp
