/-
The client's `verify_server_proof` and `SrpClientChallenge::new` with their hash callees — `calculate_server_proof`, `calculate_x`, `calculate_u`,
`calculate_client_proof_with_custom_value` (whose own callee `calculate_xor_hash` is translated too) — meaning their TRANSLATED terms (see
Props/Source/ApiLinkBase.lean): still the model's functions.  (`calculate_client_public_key`, `calculate_client_S` keep the meaning given by the
table — they are tied by the formula theorems — and so does `calculate_interleaved`.)
-/
import WowSrp.Props.Source.ApiLinkBase
import WowSrp.Props.Source.ApiClient
import WowSrp.Props.Source.HashesSrp
namespace WowSrp
open MiniApi

/-- a translated hash-layout function that has callees of its own -/
def hashCalleeWith (p : MiniHash.HashProg) (C : Crypto) (cs : MiniHash.Callees) : List AVal → Out AVal := fun vs =>
  match (toHashVals vs).bind (fun hv => p.run C cs hv) with
  | some b => .ok (.bytes b)
  | none => .panic "the translated callee has no meaning on these arguments"

def clientLinkedPrims (C : Crypto) (be : Backend) : Prims := fun n =>
  if n = "calculate_server_proof" then some (hashCallee Gen.CodeHash.serverProof C)
  else if n = "calculate_x" then some (hashCallee Gen.CodeHash.calculateX C)
  else if n = "calculate_u" then some (hashCallee Gen.CodeHash.calculateU C)
  else if n = "calculate_client_proof_with_custom_value" then some (hashCalleeWith Gen.CodeHash.clientProofCustom C (srpCallees C))
  else srpPrims C be n

theorem noHashCallees_eq2 : noHashCallees = noCallees := rfl

theorem cl_server_proof (C : Crypto) (A M1 K : Bytes) :
    hashCallee Gen.CodeHash.serverProof C [.bytes A, .bytes M1, .bytes K] = .ok (.bytes (calculateServerProof C A M1 K)) := by
  simp [hashCallee, noHashCallees_eq2, toHashVals, toHashVal, C03_translated_server_proof, bind, Option.bind]
theorem cl_calculate_x (C : Crypto) (u p : NStr) (s : Bytes) :
    hashCallee Gen.CodeHash.calculateX C [.nstr u, .nstr p, .bytes s] = .ok (.bytes (calculateX C u.asRef p.asRef s)) := by
  simp [hashCallee, noHashCallees_eq2, toHashVals, toHashVal, C03_translated_calculate_x, bind, Option.bind]
theorem cl_calculate_u (C : Crypto) (A B : Bytes) :
    hashCallee Gen.CodeHash.calculateU C [.bytes A, .bytes B] = .ok (.bytes (calculateU C A B)) := by
  simp [hashCallee, noHashCallees_eq2, toHashVals, toHashVal, C03_translated_calculate_u, bind, Option.bind]
theorem cl_client_proof_custom (C : Crypto) (hC : C.WF) (u : NStr) (K A B s nLE : Bytes) (g : Nat) (hg : g < 256) :
    hashCalleeWith Gen.CodeHash.clientProofCustom C (srpCallees C) [.nstr u, .bytes K, .bytes A, .bytes B, .bytes s, .bytes nLE, .num g]
      = .ok (.bytes (calculateClientProofCustom C u.asRef K A B s nLE g)) := by
  simp [hashCalleeWith, toHashVals, toHashVal, C03_translated_client_proof_custom C hC u.asRef K A B s nLE g hg, bind, Option.bind]

theorem C02_linked_verify_server_proof (C : Crypto) (be : Backend) (c : SrpClientChallenge) (M2 : Bytes) :
    Gen.CodeApi.verifyServerProof.run (clientLinkedPrims C be) (selfChallenge c) [.bytes M2] []
      = some (.ok (match c.verifyServerProof C M2 with
          | .error e => (.err (valMatchErr e), selfChallenge c, [])
          | .ok cl => (.ok (valClient cl), selfChallenge c, []))) := by
  by_cases hM : M2 = calculateServerProof C c.clientPublicKey c.clientProof c.sessionKey
  · simp [Gen.CodeApi.verifyServerProof, ApiFn.run, runBody, Rhs.eval, drawKinds, Ret.eval, atomsVal, fieldsVal, Atom.val, lookup, bindVar, clientLinkedPrims,
      cl_server_proof, selfChallenge, valClient, valMatchErr, eqVal, SrpClientChallenge.verifyServerProof, hM, Out.bind, bind]
  · have hb : (M2 == calculateServerProof C c.clientPublicKey c.clientProof c.sessionKey) = false := by simp [hM]
    simp [hb, Gen.CodeApi.verifyServerProof, ApiFn.run, runBody, Rhs.eval, drawKinds, Ret.eval, atomsVal, fieldsVal, Atom.val, lookup, bindVar, clientLinkedPrims,
      cl_server_proof, selfChallenge, valClient, valMatchErr, eqVal, SrpClientChallenge.verifyServerProof, hM, Out.bind, bind]

/-- the announced generator is a `u8`; digests are 20 bytes (the xor loop of `calculate_xor_hash`) -/
theorem C03_linked_client_new (C : Crypto) (hC : C.WF) (be : Backend) (u p : NStr) (g : Nat) (hg : g < 256) (nLE B salt a : Bytes) (rest : List Bytes) :
    (Gen.CodeApi.clientNew.run (clientLinkedPrims C be) [] [.nstr u, .nstr p, .num g, .bytes nLE, .bytes B, .bytes salt] (a :: rest)).map outcome
      = some (outcome ((SrpClientChallenge.new C be u p g nLE B salt a).bind (fun c => .ok (valChallenge c, [], rest)))) := by
  simp only [SrpClientChallenge.new]
  cases hA : calculateClientPublicKey be a g nLE with
  | panic m =>
    simp [Gen.CodeApi.clientNew, ApiFn.run, runBody, Rhs.eval, drawKinds, atomsVal, Atom.val, lookup, bindVar, clientLinkedPrims, srpPrims, outKey, hA, Out.bind, bind, outcome]
  | ok r =>
    cases r with
    | error e =>
      simp [Gen.CodeApi.clientNew, ApiFn.run, runBody, Rhs.eval, drawKinds, atomsVal, Atom.val, lookup, bindVar, clientLinkedPrims, srpPrims, outKey, hA, Out.bind, bind, outcome]
    | ok A =>
      cases hS : calculateClientS be B (calculateX C u.asRef p.asRef salt) a (calculateU C A B) g nLE with
      | panic m =>
        simp [Gen.CodeApi.clientNew, ApiFn.run, runBody, Rhs.eval, drawKinds, atomsVal, Atom.val, lookup, bindVar, clientLinkedPrims, srpPrims, cl_calculate_x,
          cl_calculate_u, outKey, outBytes, hA, hS, Out.bind, bind, outcome]
      | ok S =>
        cases hK : calculateInterleaved C S with
        | panic m =>
          simp [Gen.CodeApi.clientNew, ApiFn.run, runBody, Rhs.eval, drawKinds, atomsVal, Atom.val, lookup, bindVar, clientLinkedPrims, srpPrims, cl_calculate_x,
            cl_calculate_u, outKey, outBytes, hA, hS, hK, Out.bind, bind, outcome]
        | ok K =>
          simp [Gen.CodeApi.clientNew, ApiFn.run, runBody, Rhs.eval, drawKinds, Ret.eval, atomsVal, fieldsVal, Atom.val, lookup, bindVar, clientLinkedPrims, srpPrims,
            cl_calculate_x, cl_calculate_u, cl_client_proof_custom C hC u K A B salt nLE g hg, outKey, outBytes, valChallenge, hA, hS, hK, Out.bind, bind, outcome]

#print axioms C02_linked_verify_server_proof
#print axioms C03_linked_client_new
end WowSrp
