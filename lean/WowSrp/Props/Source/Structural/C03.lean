import WowSrp.Props.Source.Structural.Srp
import WowSrp.Props.Source.Structural.NStr
import WowSrp.Props.Source.Structural.Other
namespace WowSrp

/-- C03: the derived / hand-written structural trait impls in the code this property is about are the ones the model assumes
    (Clone = field-wise copy, == / Ord / Hash structural over all fields, no Drop, Default as listed) -/
theorem C03_source_structural_impls :
    Gen.structuralSrp = expected_structuralSrp ∧ Gen.structuralNStr = expected_structuralNStr ∧ Gen.structuralOther = [] :=
  ⟨structuralSrp_ok, structuralNStr_ok, structuralOther_ok⟩

end WowSrp
