import WowSrp.Props.Source.Structural.Vanilla
import WowSrp.Props.Source.Structural.Tbc
import WowSrp.Props.Source.Structural.Wrath
import WowSrp.Props.Source.Structural.Other
namespace WowSrp

/-- C06: the derived / hand-written structural trait impls in the code this property is about are the ones the model assumes
    (Clone = field-wise copy, == / Ord / Hash structural over all fields, no Drop, Default as listed) -/
theorem C06_source_structural_impls :
    Gen.structuralVanilla = expected_structuralVanilla ∧ Gen.structuralTbc = expected_structuralTbc ∧ Gen.structuralWrath = expected_structuralWrath ∧ Gen.structuralOther = [] :=
  ⟨structuralVanilla_ok, structuralTbc_ok, structuralWrath_ok, structuralOther_ok⟩

end WowSrp
