/-
Translator leg: the semantics the model takes from `#[derive(..)]` (see Structural/README in DESIGN.md §3.1).
The model treats `clone()` as a field-wise copy, `==` / `cmp` / `hash` as structural over ALL fields of a struct, dropping as a
no-op, and `Default` as what the hand-written impls listed here do.  tools/gen_constants.py lists, on every run, every hand-written impl
of Clone/Copy/PartialEq/Eq/Hash/Ord/PartialOrd/Default/Drop and the derive list (restricted to those traits) of every struct / enum of
the non-test source, grouped by module; the obligation below says that this group is exactly what the model was written against.
-/
import WowSrp.Gen.Constants
import WowSrp.Gen.Facts
namespace WowSrp

def expected_structuralTbc : List String := ["Default for ProofSeed @src/tbc_header/mod.rs",
  "DecrypterHalf @src/tbc_header/decrypt.rs: Clone Ord PartialOrd Eq PartialEq Hash | key index u8 previous_value u8",
  "EncrypterHalf @src/tbc_header/encrypt.rs: Clone Ord PartialOrd Eq PartialEq Hash | key index u8 previous_value u8",
  "HeaderCrypto @src/tbc_header/mod.rs: Clone Ord PartialOrd Eq PartialEq Hash | decrypt DecrypterHalf encrypt EncrypterHalf",
  "ProofSeed @src/tbc_header/mod.rs: Clone Copy Ord PartialOrd Eq PartialEq Hash | seed u32"]

theorem structuralTbc_ok : Gen.structuralTbc = expected_structuralTbc := by decide +kernel

end WowSrp
