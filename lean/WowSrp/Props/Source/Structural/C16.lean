import WowSrp.Props.Source.Structural.Helpers
import WowSrp.Props.Source.Structural.Other
namespace WowSrp

/-- C16: the derived / hand-written structural trait impls in the code this property is about are the ones the model assumes
    (Clone = field-wise copy, == / Ord / Hash structural over all fields, no Drop, Default as listed) -/
theorem C16_source_structural_impls :
    Gen.structuralAux = expected_structuralAux ∧ Gen.structuralOther = [] :=
  ⟨structuralAux_ok, structuralOther_ok⟩

end WowSrp
