/-
Translator leg: the semantics the model takes from `#[derive(..)]` (see Structural/README in DESIGN.md §3.1).
The model treats `clone()` as a field-wise copy, `==` / `cmp` / `hash` as structural over ALL fields of a struct, dropping as a
no-op, and `Default` as what the hand-written impls listed here do.  tools/gen_constants.py lists, on every run, every hand-written impl
of Clone/Copy/PartialEq/Eq/Hash/Ord/PartialOrd/Default/Drop and the derive list (restricted to those traits) of every struct / enum of
the non-test source, grouped by module; the obligation below says that this group is exactly what the model was written against.
-/
import WowSrp.Gen.Constants
import WowSrp.Gen.Facts
namespace WowSrp

def expected_structuralAux : List String := ["MatrixCard @src/matrix_card.rs: Clone Ord PartialOrd Eq PartialEq Hash | digit_count u8 width u8 height u8 data",
  "MatrixCardPrinter @src/matrix_card.rs: Clone | chunks a",
  "MatrixCardVerifier @src/matrix_card.rs: Clone | challenge_count u8 height u8 width u8 coordinates hmac rc4 Rc4"]

theorem structuralAux_ok : Gen.structuralAux = expected_structuralAux := by decide +kernel

end WowSrp
