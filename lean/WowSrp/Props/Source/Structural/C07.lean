import WowSrp.Props.Source.Structural.Vanilla
import WowSrp.Props.Source.Structural.Other
namespace WowSrp

/-- C07: the derived / hand-written structural trait impls in the code this property is about are the ones the model assumes
    (Clone = field-wise copy, == / Ord / Hash structural over all fields, no Drop, Default as listed) -/
theorem C07_source_structural_impls :
    Gen.structuralVanilla = expected_structuralVanilla ∧ Gen.structuralOther = [] :=
  ⟨structuralVanilla_ok, structuralOther_ok⟩

end WowSrp
