/-
Translator leg: the semantics the model takes from `#[derive(..)]` (see Structural/README in DESIGN.md §3.1).
The model treats `clone()` as a field-wise copy, `==` / `cmp` / `hash` as structural over ALL fields of a struct, dropping as a
no-op, and `Default` as what the hand-written impls listed here do.  tools/gen_constants.py lists, on every run, every hand-written impl
of Clone/Copy/PartialEq/Eq/Hash/Ord/PartialOrd/Default/Drop and the derive list (restricted to those traits) of every struct / enum of
the non-test source, grouped by module; the obligation below says that this group is exactly what the model was written against.
-/
import WowSrp.Gen.Constants
import WowSrp.Gen.Facts
namespace WowSrp

def expected_structuralWrath : List String := ["Default for ProofSeed @src/wrath_header/mod.rs",
  "ClientCrypto @src/wrath_header/mod.rs: Clone Ord PartialOrd Eq PartialEq Hash | decrypt ClientDecrypterHalf encrypt ClientEncrypterHalf",
  "ClientDecrypterHalf @src/wrath_header/decrypt.rs: Clone Ord PartialOrd Eq PartialEq Hash | decrypt InnerCrypto header",
  "ClientEncrypterHalf @src/wrath_header/encrypt.rs: Clone Ord PartialOrd Eq PartialEq Hash | encrypt InnerCrypto",
  "InnerCrypto @src/wrath_header/inner_crypto/mod.rs: Clone Ord PartialOrd Eq PartialEq Hash | inner Rc4",
  "ProofSeed @src/wrath_header/mod.rs: Clone Copy Ord PartialOrd Eq PartialEq Hash | seed u32",
  "Rc4 @src/rc4.rs: Clone Ord PartialOrd Eq PartialEq Hash | state i u8 j u8",
  "ServerCrypto @src/wrath_header/mod.rs: Clone Ord PartialOrd Eq PartialEq Hash | decrypt ServerDecrypterHalf encrypt ServerEncrypterHalf",
  "ServerDecrypterHalf @src/wrath_header/decrypt.rs: Clone Ord PartialOrd Eq PartialEq Hash | decrypt InnerCrypto",
  "ServerEncrypterHalf @src/wrath_header/encrypt.rs: Clone Ord PartialOrd Eq PartialEq Hash | encrypt InnerCrypto server_header",
  "ServerHeader @src/wrath_header/mod.rs: Clone Copy Ord PartialOrd Eq PartialEq Hash | size u32 opcode u16",
  "WrathServerAttempt @src/wrath_header/decrypt.rs: "]

theorem structuralWrath_ok : Gen.structuralWrath = expected_structuralWrath := by decide +kernel

end WowSrp
