/-
Translator leg: the semantics the model takes from `#[derive(..)]` (see Structural/README in DESIGN.md §3.1).
The model treats `clone()` as a field-wise copy, `==` / `cmp` / `hash` as structural over ALL fields of a struct, dropping as a
no-op, and `Default` as what the hand-written impls listed here do.  tools/gen_constants.py lists, on every run, every hand-written impl
of Clone/Copy/PartialEq/Eq/Hash/Ord/PartialOrd/Default/Drop and the derive list (restricted to those traits) of every struct / enum of
the non-test source, grouped by module; the obligation below says that this group is exactly what the model was written against.
-/
import WowSrp.Gen.Constants
namespace WowSrp

def expected_structuralWrath : List String := ["Default for ProofSeed @src/wrath_header/mod.rs",
  "ClientCrypto @src/wrath_header/mod.rs: Clone Ord PartialOrd Eq PartialEq Hash",
  "ClientDecrypterHalf @src/wrath_header/decrypt.rs: Clone Ord PartialOrd Eq PartialEq Hash",
  "ClientEncrypterHalf @src/wrath_header/encrypt.rs: Clone Ord PartialOrd Eq PartialEq Hash",
  "InnerCrypto @src/wrath_header/inner_crypto/mod.rs: Clone Ord PartialOrd Eq PartialEq Hash",
  "ProofSeed @src/wrath_header/mod.rs: Clone Copy Ord PartialOrd Eq PartialEq Hash",
  "Rc4 @src/rc4.rs: Clone Ord PartialOrd Eq PartialEq Hash",
  "ServerCrypto @src/wrath_header/mod.rs: Clone Ord PartialOrd Eq PartialEq Hash",
  "ServerDecrypterHalf @src/wrath_header/decrypt.rs: Clone Ord PartialOrd Eq PartialEq Hash",
  "ServerEncrypterHalf @src/wrath_header/encrypt.rs: Clone Ord PartialOrd Eq PartialEq Hash",
  "ServerHeader @src/wrath_header/mod.rs: Clone Copy Ord PartialOrd Eq PartialEq Hash",
  "WrathServerAttempt @src/wrath_header/decrypt.rs: "]

theorem structuralWrath_ok : Gen.structuralWrath = expected_structuralWrath := by decide

end WowSrp
