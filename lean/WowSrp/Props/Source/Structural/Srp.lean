/-
Translator leg: the semantics the model takes from `#[derive(..)]` (see Structural/README in DESIGN.md §3.1).
The model treats `clone()` as a field-wise copy, `==` / `cmp` / `hash` as structural over ALL fields of a struct, dropping as a
no-op, and `Default` as what the hand-written impls listed here do.  tools/gen_constants.py lists, on every run, every hand-written impl
of Clone/Copy/PartialEq/Eq/Hash/Ord/PartialOrd/Default/Drop and the derive list (restricted to those traits) of every struct / enum of
the non-test source, grouped by module; the obligation below says that this group is exactly what the model was written against.
-/
import WowSrp.Gen.Constants
namespace WowSrp

def expected_structuralSrp : List String := ["Default for $name @src/key.rs",
  "Default for Generator @src/primes.rs",
  "Default for LargeSafePrime @src/primes.rs",
  "cfg all(feature=\"srp-default-math\",not(feature=\"srp-fast-math\")) @src/bigint.rs",
  "cfg all(feature=\"srp-default-math\",not(feature=\"srp-fast-math\")) @src/bigint.rs",
  "cfg all(feature=\"srp-default-math\",not(feature=\"srp-fast-math\")) @src/bigint.rs",
  "cfg all(feature=\"srp-default-math\",not(feature=\"srp-fast-math\")) @src/bigint.rs",
  "$name @src/key.rs: Clone Copy Ord PartialOrd PartialEq Eq Hash",
  "Generator @src/primes.rs: ",
  "Integer @src/bigint.rs: ",
  "InvalidPublicKeyError @src/error.rs: ",
  "KValue @src/primes.rs: ",
  "LargeSafePrime @src/primes.rs: ",
  "MatchProofsError @src/error.rs: ",
  "NormalizedStringError @src/error.rs: ",
  "SrpClient @src/client.rs: Clone Ord PartialOrd Eq PartialEq Hash",
  "SrpClientChallenge @src/client.rs: Clone Ord PartialOrd Eq PartialEq Hash",
  "SrpClientReconnection @src/client.rs: Copy Clone Ord PartialOrd Eq PartialEq Default Hash",
  "SrpError @src/error.rs: ",
  "SrpProof @src/server.rs: Clone Ord PartialOrd Eq PartialEq Hash",
  "SrpServer @src/server.rs: Clone Ord PartialOrd Eq PartialEq Hash",
  "SrpVerifier @src/server.rs: Clone Ord PartialOrd Eq PartialEq Hash",
  "UnsplitCryptoError @src/error.rs: "]

theorem structuralSrp_ok : Gen.structuralSrp = expected_structuralSrp := by decide

end WowSrp
