/-
Translator leg: the semantics the model takes from `#[derive(..)]` (see Structural/README in DESIGN.md §3.1).
The model treats `clone()` as a field-wise copy, `==` / `cmp` / `hash` as structural over ALL fields of a struct, dropping as a
no-op, and `Default` as what the hand-written impls listed here do.  tools/gen_constants.py lists, on every run, every hand-written impl
of Clone/Copy/PartialEq/Eq/Hash/Ord/PartialOrd/Default/Drop and the derive list (restricted to those traits) of every struct / enum of
the non-test source, grouped by module; the obligation below says that this group is exactly what the model was written against.
-/
import WowSrp.Gen.Constants
import WowSrp.Gen.Facts
namespace WowSrp

def expected_structuralSrp : List String := ["Default for $name @src/key.rs",
  "Default for Generator @src/primes.rs",
  "Default for LargeSafePrime @src/primes.rs",
  "cfg all(feature=\"srp-default-math\",not(feature=\"srp-fast-math\")) @src/bigint.rs",
  "cfg all(feature=\"srp-default-math\",not(feature=\"srp-fast-math\")) @src/bigint.rs",
  "cfg all(feature=\"srp-default-math\",not(feature=\"srp-fast-math\")) @src/bigint.rs",
  "cfg all(feature=\"srp-default-math\",not(feature=\"srp-fast-math\")) @src/bigint.rs",
  "cfg all(test,any(feature=\"srp-default-math\",feature=\"srp-fast-math\")) @src/lib.rs",
  "cfg any(feature=\"srp-default-math\",feature=\"srp-fast-math\") @src/key.rs",
  "cfg any(feature=\"srp-default-math\",feature=\"srp-fast-math\") @src/key.rs",
  "cfg any(feature=\"srp-default-math\",feature=\"srp-fast-math\") @src/key.rs",
  "cfg any(feature=\"srp-default-math\",feature=\"srp-fast-math\") @src/key.rs",
  "cfg any(feature=\"srp-default-math\",feature=\"srp-fast-math\") @src/key.rs",
  "cfg any(feature=\"srp-default-math\",feature=\"srp-fast-math\") @src/key.rs",
  "cfg any(feature=\"srp-default-math\",feature=\"srp-fast-math\") @src/key.rs",
  "cfg any(feature=\"srp-default-math\",feature=\"srp-fast-math\") @src/key.rs",
  "cfg any(feature=\"srp-default-math\",feature=\"srp-fast-math\") @src/key.rs",
  "cfg any(feature=\"srp-default-math\",feature=\"srp-fast-math\") @src/lib.rs",
  "cfg any(feature=\"srp-default-math\",feature=\"srp-fast-math\") @src/lib.rs",
  "cfg any(feature=\"srp-default-math\",feature=\"srp-fast-math\") @src/lib.rs",
  "cfg any(feature=\"srp-default-math\",feature=\"srp-fast-math\") @src/lib.rs",
  "cfg any(feature=\"srp-default-math\",feature=\"srp-fast-math\") @src/lib.rs",
  "cfg any(feature=\"srp-default-math\",feature=\"srp-fast-math\") @src/primes.rs",
  "cfg any(feature=\"srp-default-math\",feature=\"srp-fast-math\") @src/primes.rs",
  "cfg any(feature=\"srp-default-math\",feature=\"srp-fast-math\") @src/primes.rs",
  "cfg any(feature=\"srp-default-math\",feature=\"srp-fast-math\") @src/primes.rs",
  "cfg any(feature=\"srp-default-math\",feature=\"srp-fast-math\") @src/primes.rs",
  "cfg any(feature=\"srp-default-math\",feature=\"srp-fast-math\") @src/primes.rs",
  "cfg any(feature=\"srp-default-math\",feature=\"srp-fast-math\") @src/primes.rs",
  "cfg any(feature=\"srp-default-math\",feature=\"srp-fast-math\") @src/primes.rs",
  "cfg any(feature=\"srp-default-math\",feature=\"srp-fast-math\") @src/primes.rs",
  "cfg any(feature=\"srp-default-math\",feature=\"srp-fast-math\") @src/primes.rs",
  "cfg any(feature=\"srp-default-math\",feature=\"srp-fast-math\") @src/primes.rs",
  "cfg any(feature=\"srp-default-math\",feature=\"srp-fast-math\") @src/primes.rs",
  "cfg any(feature=\"srp-default-math\",feature=\"srp-fast-math\") @src/primes.rs",
  "cfg any(feature=\"srp-default-math\",feature=\"srp-fast-math\") @src/primes.rs",
  "cfg feature=\"integrity\" @src/lib.rs",
  "cfg feature=\"matrix-card\" @src/lib.rs",
  "cfg feature=\"srp-fast-math\" @src/bigint.rs",
  "cfg feature=\"srp-fast-math\" @src/bigint.rs",
  "cfg feature=\"srp-fast-math\" @src/bigint.rs",
  "cfg feature=\"srp-fast-math\" @src/bigint.rs",
  "cfg feature=\"srp-fast-math\" @src/bigint.rs",
  "cfg feature=\"tbc-header\" @src/lib.rs",
  "cfg feature=\"wrath-header\" @src/lib.rs",
  "$name @src/key.rs: Clone Copy Ord PartialOrd PartialEq Eq Hash | key",
  "Generator @src/primes.rs: ",
  "Integer @src/bigint.rs: ",
  "InvalidPublicKeyError @src/error.rs:  | PublicKeyIsZero PublicKeyModLargeSafePrimeIsZero",
  "KValue @src/primes.rs: ",
  "LargeSafePrime @src/primes.rs: ",
  "MatchProofsError @src/error.rs:  | client_proof server_proof",
  "NormalizedStringError @src/error.rs:  | CharacterNotAllowed StringTooLong",
  "SrpClient @src/client.rs: Clone Ord PartialOrd Eq PartialEq Hash | username NormalizedString session_key SessionKey",
  "SrpClientChallenge @src/client.rs: Clone Ord PartialOrd Eq PartialEq Hash | username NormalizedString client_proof Proof client_public_key PublicKey session_key SessionKey",
  "SrpClientReconnection @src/client.rs: Copy Clone Ord PartialOrd Eq PartialEq Default Hash | challenge_data proof",
  "SrpError @src/error.rs:  | ProofsDoNotMatch InvalidPublicKey NormalizedStringError",
  "SrpProof @src/server.rs: Clone Ord PartialOrd Eq PartialEq Hash | username NormalizedString server_public_key PublicKey salt Salt server_private_key PrivateKey password_verifier Verifier",
  "SrpServer @src/server.rs: Clone Ord PartialOrd Eq PartialEq Hash | username NormalizedString session_key SessionKey reconnect_challenge_data ReconnectData",
  "SrpVerifier @src/server.rs: Clone Ord PartialOrd Eq PartialEq Hash | username NormalizedString password_verifier Verifier salt Salt",
  "UnsplitCryptoError @src/error.rs:  | "]

theorem structuralSrp_ok : Gen.structuralSrp = expected_structuralSrp := by decide +kernel

end WowSrp
