import WowSrp.Props.Source.Structural.Tbc
import WowSrp.Props.Source.Structural.Other
namespace WowSrp

/-- C08: the derived / hand-written structural trait impls in the code this property is about are the ones the model assumes
    (Clone = field-wise copy, == / Ord / Hash structural over all fields, no Drop, Default as listed) -/
theorem C08_source_structural_impls :
    Gen.structuralTbc = expected_structuralTbc ∧ Gen.structuralOther = [] :=
  ⟨structuralTbc_ok, structuralOther_ok⟩

end WowSrp
