import WowSrp.Props.Source.Structural.Wrath
import WowSrp.Props.Source.Structural.Other
namespace WowSrp

/-- C09: the derived / hand-written structural trait impls in the code this property is about are the ones the model assumes
    (Clone = field-wise copy, == / Ord / Hash structural over all fields, no Drop, Default as listed) -/
theorem C09_source_structural_impls :
    Gen.structuralWrath = expected_structuralWrath ∧ Gen.structuralOther = [] :=
  ⟨structuralWrath_ok, structuralOther_ok⟩

end WowSrp
