import WowSrp.Props.Source.Structural.Srp
import WowSrp.Props.Source.Structural.Vanilla
import WowSrp.Props.Source.Structural.Tbc
import WowSrp.Props.Source.Structural.Wrath
import WowSrp.Props.Source.Structural.Helpers
import WowSrp.Props.Source.Structural.Other
namespace WowSrp

/-- C15: the derived / hand-written structural trait impls in the code this property is about are the ones the model assumes
    (Clone = field-wise copy, == / Ord / Hash structural over all fields, no Drop, Default as listed) -/
theorem C15_source_structural_impls :
    Gen.structuralSrp = expected_structuralSrp ∧ Gen.structuralVanilla = expected_structuralVanilla ∧ Gen.structuralTbc = expected_structuralTbc ∧ Gen.structuralWrath = expected_structuralWrath ∧ Gen.structuralAux = expected_structuralAux ∧ Gen.structuralOther = [] :=
  ⟨structuralSrp_ok, structuralVanilla_ok, structuralTbc_ok, structuralWrath_ok, structuralAux_ok, structuralOther_ok⟩

end WowSrp
