/-
Translator leg: the semantics the model takes from `#[derive(..)]` (see Structural/README in DESIGN.md §3.1).
The model treats `clone()` as a field-wise copy, `==` / `cmp` / `hash` as structural over ALL fields of a struct, dropping as a
no-op, and `Default` as what the hand-written impls listed here do.  tools/gen_constants.py lists, on every run, every hand-written impl
of Clone/Copy/PartialEq/Eq/Hash/Ord/PartialOrd/Default/Drop and the derive list (restricted to those traits) of every struct / enum of
the non-test source, grouped by module; the obligation below says that this group is exactly what the model was written against.
-/
import WowSrp.Gen.Constants
import WowSrp.Gen.Facts
namespace WowSrp

/-- no struct / enum / structural impl lives in a source file the model does not know about -/
theorem structuralOther_ok : Gen.structuralOther = [] := by decide +kernel

end WowSrp
