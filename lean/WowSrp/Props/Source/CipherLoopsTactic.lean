/-
Translator leg for C07 / C08 (the logic, not only constants): the loop bodies of the four recurrence-cipher functions are
translated from the Rust working tree into `Gen/Code.lean` on every run (tools/gen_code.py); `Model/MiniRust.lean` gives the terms
their meaning with Rust's u8 semantics.  Here: for EVERY cipher state (key of any length, any position, any chaining byte) and
EVERY input byte, the translated body computes exactly the model's step function — same new state, same output byte, and it
panics exactly when the model's step does (out-of-bounds key position, u8 overflow of the position).  All C07 / C08 theorems are
about `encStep` / `decStep`; through these equalities they are theorems about the code as it is written now.
-/
import WowSrp.Gen.Code
import WowSrp.Model.Header
namespace WowSrp
open MiniRust

/-- evaluation of a translated body unfolds completely on a concrete term; what is left is u8 / Nat arithmetic, closed up to
    commutativity of `+` and `^` (so an operand swap in the Rust is still proved equal, a different recurrence is not) -/
macro "cipher_loop_equiv" body:ident stepfn:ident : tactic => `(tactic| (
  unfold stepOf $stepfn $body
  cases hk : (‹Half›).key[(‹Half›).index]? with
  | none => simp [execAll, Stmt.exec, BExpr.eval, IExpr.eval, hk, Out.toOption, Bind.bind, Out.bind, List.lookup]
  | some k =>
    by_cases ho : (‹Half›).index + 1 > 255
    · simp [execAll, Stmt.exec, BExpr.eval, IExpr.eval, hk, ho, Out.toOption, Bind.bind, Out.bind, List.lookup, Nat.add_comm]
    · simp [execAll, Stmt.exec, BExpr.eval, IExpr.eval, hk, ho, Out.toOption, Bind.bind, Out.bind, List.lookup, Nat.add_comm,
            UInt8.add_comm, UInt8.xor_comm]))

end WowSrp
