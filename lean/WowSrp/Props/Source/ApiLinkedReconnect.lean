/-
`SrpServer::verify_reconnection_attempt` with `calculate_reconnect_proof` meaning its TRANSLATED term (see Props/Source/ApiLinkBase.lean): still the
model's function.
-/
import WowSrp.Props.Source.ApiLinkBase
import WowSrp.Props.Source.HashesReconnect
import WowSrp.Props.Source.ApiReconnect
namespace WowSrp
open MiniApi

def reconnectLinkedPrims (C : Crypto) (be : Backend) : Prims := fun n =>
  if n = "calculate_reconnect_proof" then some (hashCallee Gen.CodeHash.reconnectProof C) else srpPrims C be n

theorem hashCallee_reconnect_proof (C : Crypto) (u : NStr) (cd sd K : Bytes) :
    hashCallee Gen.CodeHash.reconnectProof C [.nstr u, .bytes cd, .bytes sd, .bytes K] = .ok (.bytes (calculateReconnectProof C u.asRef cd sd K)) := by
  have h : Gen.CodeHash.reconnectProof.run C noHashCallees [.bytes u.asRef, .bytes cd, .bytes sd, .bytes K] = some (calculateReconnectProof C u.asRef cd sd K) :=
    C05_translated_reconnect_proof C u.asRef cd sd K
  simp [hashCallee, toHashVals, toHashVal, h, bind, Option.bind]

/-- `SrpServer::verify_reconnection_attempt` with `calculate_reconnect_proof` meaning its translated term -/
theorem C05_linked_verify_reconnection_attempt (C : Crypto) (be : Backend) (s : SrpServer) (cd proof draw : Bytes) (rest : List Bytes) :
    Gen.CodeApi.verifyReconnectionAttempt.run (reconnectLinkedPrims C be) (selfServer s) [.bytes cd, .bytes proof] (draw :: rest)
      = some (.ok (.bool (s.verifyReconnectionAttempt C cd proof draw).1, selfServer (s.verifyReconnectionAttempt C cd proof draw).2, rest)) := by
  simp [Gen.CodeApi.verifyReconnectionAttempt, ApiFn.run, runBody, Rhs.eval, drawKinds, Ret.eval, atomsVal, fieldsVal, Atom.val, lookup, bindVar, setField,
    reconnectLinkedPrims, hashCallee_reconnect_proof, selfServer, eqVal, SrpServer.verifyReconnectionAttempt, Out.bind, bind]


/-- `SrpClient::calculate_reconnect_values` with `calculate_reconnect_proof` meaning its translated term -/
theorem C05_linked_calculate_reconnect_values (C : Crypto) (be : Backend) (c : SrpClient) (sd draw : Bytes) (rest : List Bytes) :
    Gen.CodeApi.calculateReconnectValues.run (reconnectLinkedPrims C be) (selfClient c) [.bytes sd] (draw :: rest)
      = some (.ok (.struct "SrpClientReconnection"
          [("challenge_data", .bytes (c.calculateReconnectValues C sd draw).1), ("proof", .bytes (c.calculateReconnectValues C sd draw).2)],
          selfClient c, rest)) := by
  simp [Gen.CodeApi.calculateReconnectValues, ApiFn.run, runBody, Rhs.eval, drawKinds, Ret.eval, atomsVal, fieldsVal, Atom.val, lookup, bindVar,
    reconnectLinkedPrims, hashCallee_reconnect_proof, selfClient, SrpClient.calculateReconnectValues, Out.bind, bind]

#print axioms C05_linked_verify_reconnection_attempt
#print axioms C05_linked_calculate_reconnect_values
end WowSrp
