/- C08: the translated TBC loop bodies (see CipherLoopsTactic.lean for the explanation) -/
import WowSrp.Props.Source.CipherLoopsTactic
namespace WowSrp
open MiniRust

/-- C08: the TBC `encrypt` loop body, as translated from the source, IS the model's encrypt step over the 20-byte key -/
theorem C08_translated_encrypt_step (h : Half) (x : UInt8) :
    Out.toOption (stepOf Gen.Code.tbcEncryptBody h x) = Out.toOption (encStep 20 h x) := by
  cipher_loop_equiv Gen.Code.tbcEncryptBody encStep

/-- C08: the TBC `decrypt` loop body, as translated from the source, IS the model's decrypt step -/
theorem C08_translated_decrypt_step (h : Half) (c : UInt8) :
    Out.toOption (stepOf Gen.Code.tbcDecryptBody h c) = Out.toOption (decStep 20 h c) := by
  cipher_loop_equiv Gen.Code.tbcDecryptBody decStep

/-- the moduli the model takes from the regenerated constants are 20 -/
theorem C08_translated_moduli : Exp.tbc.encMod = 20 ∧ Exp.tbc.decMod = 20 := by decide

end WowSrp
