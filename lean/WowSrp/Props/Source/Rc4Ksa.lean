/-
`Rc4::new` with `Rc4::key_scheduling_algorithm` (src/rc4.rs), translated from the working tree by tools/gen_ksa.py (Gen/CodeKsa.lean),
denotes the model's `Rc4.new` for EVERY key (the empty key included: `cycle()` of nothing yields nothing, the table stays the identity).
Together with `C09_translated_prga` (Props/Source/Rc4Prga.lean) the whole RC4 of the model — which the C09 theorems prove to be textbook
RC4, and which C18 uses for the matrix-card proof — is regenerated from the source on every run.
-/
import WowSrp.Gen.CodeKsa
namespace WowSrp
open MiniKsa

/-- ANY translated program whose parts mean what the model's parts mean denotes `Rc4.new` (the obligation is about the meaning of the
    `j` update, not its text: `self.state[i].wrapping_add(j).wrapping_add(*k)` is proved the same way) -/
theorem ksa_run_eq_of (p : KsaProg) (h0 : p.unsupported = none) (h1 : p.tableLen = 256) (h2 : p.i0 = 0) (h3 : p.j0 = 0)
    (h4 : p.identityInit = true) (h5 : p.rangeLo = 0) (h6 : p.rangeHi = 256) (h7 : p.cycled = true) (h8 : p.jInit = 0)
    (h9 : ∀ j si k, p.jUpdate.eval j si k = j + si + k) (key : Bytes) :
    p.run key = Rc4.new key := by
  have hl : ∀ n i s j, MiniKsa.loop p key n i s j = ksaLoop key n i s j := by
    intro n
    induction n with
    | zero => intro i s j; rfl
    | succ n ih =>
      intro i s j
      simp only [MiniKsa.loop, ksaLoop, h5, Nat.sub_zero, h9]
      cases hk : key[i % key.length]? with
      | none => rfl
      | some k =>
        simp only [bind, Out.bind]
        cases hg : getOut s i with
        | panic q => rfl
        | ok si =>
          simp only []
          cases hs : swapOut s i (j + si + k).toNat with
          | panic q => rfl
          | ok s2 => exact ih _ _ _
  simp only [KsaProg.run, Rc4.new, h0, h1, h2, h3, h4, h5, h6, h7, h8, hl, if_true, Nat.sub_zero]
  rfl

theorem C09_translated_ksa (key : Bytes) : Gen.CodeKsa.rc4New.run key = Rc4.new key := by
  apply ksa_run_eq_of <;> first | rfl | (intro j si k; simp only [Gen.CodeKsa.rc4New, KExpr.eval] <;> ac_rfl)

theorem C18_translated_ksa (key : Bytes) : Gen.CodeKsa.rc4New.run key = Rc4.new key := C09_translated_ksa key

/- (the statement has no hypotheses; both sides are run on published RC4 keys in Props/C09Vectors.lean and by every correspondence run) -/

#print axioms C09_translated_ksa

end WowSrp
