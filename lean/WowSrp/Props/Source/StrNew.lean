/-
The inner function of `NormalizedString::new` (src/normalized_string.rs), translated from the working tree by tools/gen_str.py
(Gen/CodeStr.lean), denotes the model's `NStr.new` for EVERY string: same accepted value, same error kind with the same character, or both
panic.  All C13 theorems (`C13_accept_iff`, `C13_value`, `C13_errors_length`, `C13_errors_first` ...) are about `NStr.new`; through this
equality they are about the decision as written now.
-/
import WowSrp.Gen.CodeStr
namespace WowSrp
open MiniStr

/-- the outcome with the text of a panic message forgotten -/
def NSOut.forget {α} : NSOut α → Option (NSErr ⊕ α)
  | .ok a => some (.inr a)
  | .err e => some (.inl e)
  | .panic _ => none

private theorem fill_eq (p : NewProg) (hp : ∀ c, p.notAllowed.eval c = (!isAscii c || isAsciiControl c))
    (hs : ∀ c, p.store.eval c = upperByte c) (cs : List Char) (i : Nat) (arr : Bytes) :
    (MiniStr.fill p cs i arr).forget = (NStr.fill cs i arr).forget := by
  induction cs generalizing i arr with
  | nil => simp [MiniStr.fill, NStr.fill]
  | cons c cs ih =>
    simp only [MiniStr.fill, NStr.fill, hp, hs]
    split
    · rfl
    · split
      · exact ih _ _
      · rfl

/-- ANY translated program whose five parts mean what the model's parts mean denotes `NStr.new` (so the obligation below is about the
    meaning of the parts, not about their text: `s.is_empty() || s.len() > 16`, `>= 17`, a named constant, `!(c.is_ascii() &&
    !c.is_ascii_control())` are proved the same way) -/
theorem run_eq_new_of (p : NewProg) (h0 : p.unsupported = none)
    (h1 : ∀ cs, p.tooLong.eval cs = (decide (utf8Len cs > 16) || cs.isEmpty))
    (h2 : p.arrayLen = 16)
    (h3 : ∀ c, p.notAllowed.eval c = (!isAscii c || isAsciiControl c))
    (h4 : ∀ c, p.store.eval c = upperByte c)
    (h5 : ∀ cs, utf8Len cs ≤ 16 → p.length.eval cs % 256 = utf8Len cs) (cs : List Char) :
    (p.run cs).forget = (NStr.new cs).forget := by
  have hmax : maxLen = 16 := by decide
  simp only [NewProg.run, NStr.new, h0, h1, h2, hmax]
  by_cases h : (decide (utf8Len cs > 16) || cs.isEmpty) = true
  · simp [h, NSOut.forget]
  · have hlen : utf8Len cs ≤ 16 := by
      simp at h; omega
    simp only [h]
    have hf := fill_eq p h3 h4 cs 0 (List.replicate 16 0)
    revert hf
    generalize MiniStr.fill p cs 0 (List.replicate 16 0) = a
    generalize NStr.fill cs 0 (List.replicate 16 0) = b
    intro hf
    have hm := h5 cs hlen
    cases a <;> cases b <;> simp [NSOut.forget] at hf <;> simp [NSOut.forget, hm, hf]

private theorem beq127 (n : Nat) : (n == 127) = decide (n = 127) := by
  by_cases h : n = 127 <;> simp [h]

theorem C13_translated_new (cs : List Char) :
    (Gen.CodeStr.nstrNew.run cs).forget = (NStr.new cs).forget := by
  apply run_eq_new_of
  · rfl
  · intro cs
    simp only [Gen.CodeStr.nstrNew, SCond.eval, SNum.eval]
    by_cases h1 : utf8Len cs > 16 <;> by_cases h2 : cs.isEmpty = true <;> simp [h1, h2] <;> omega
  · rfl
  · intro c; simp [Gen.CodeStr.nstrNew, CPred.eval, isAscii, isAsciiControl, beq127]
  · intro c; rfl
  · intro cs h; simp only [Gen.CodeStr.nstrNew, SNum.eval]; exact Nat.mod_eq_of_lt (by omega)

/-- both sides run on concrete strings: accepted and upper-cased, refused for a control character, refused for length -/
example : (Gen.CodeStr.nstrNew.run "aZ~ 9".toList).forget = (NStr.new "aZ~ 9".toList).forget ∧
    (NStr.new "aZ~ 9".toList).forget = some (.inr ⟨[0x41, 0x5A, 0x7E, 0x20, 0x39, 0,0,0,0,0,0,0,0,0,0,0], 5⟩) := by decide
example : (Gen.CodeStr.nstrNew.run ['a', '\t']).forget = some (.inl (.notAllowed '\t')) := by decide
example : (Gen.CodeStr.nstrNew.run ("12345678901234567".toList)).forget = some (.inl .tooLong) ∧
    (Gen.CodeStr.nstrNew.run []).forget = some (.inl .tooLong) := by decide

#print axioms C13_translated_new

end WowSrp
