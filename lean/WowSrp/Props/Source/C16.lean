/-
Translator leg for C16: facts extracted from the Rust source by tools/gen_constants.py on every run
(field order fed to each hash object, structural facts). A reordered / dropped / added field or a changed
structure in the Rust breaks exactly these obligations, independently of the correspondence run.
-/
import WowSrp.Gen.Constants
import WowSrp.Gen.Facts
namespace WowSrp

/-- C16: hash = H(client salt | H(server salt | remapped digits)) -/
theorem C16_source_layout : Gen.layoutPinHash = [["server_salt", "bytes"], ["client_salt", "sha1"], ["ctors:Sha1::new,Sha1::new", "methods:chain_update,chain_update,chain_update,chain_update,finalize_fixed,finalize_fixed", "control:for,for,if,return", "rebound:", "tail:Some(Sha1::new().chain_update(client_salt).chain_update(sha1).finalize_fixed().into(),)"]] := by decide +kernel

/-- C16: pin.rs keeps no state between calls (the hash is a function of its arguments alone) -/
theorem C16_source_no_hidden_state : Gen.pinModuleHasNoSharedState = true := by decide +kernel

end WowSrp
