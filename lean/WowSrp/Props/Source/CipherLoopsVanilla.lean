/- C07: the translated Vanilla loop bodies (see CipherLoopsTactic.lean for the explanation) -/
import WowSrp.Props.Source.CipherLoopsTactic
namespace WowSrp
open MiniRust

/-- C07: the Vanilla `encrypt` loop body, as translated from the source, IS the model's encrypt step (all states, all bytes) -/
theorem C07_translated_encrypt_step (h : Half) (x : UInt8) :
    Out.toOption (stepOf Gen.Code.vanillaEncryptBody h x) = Out.toOption (encStep 40 h x) := by
  cipher_loop_equiv Gen.Code.vanillaEncryptBody encStep

/-- C07: the Vanilla `decrypt` loop body, as translated from the source, IS the model's decrypt step -/
theorem C07_translated_decrypt_step (h : Half) (c : UInt8) :
    Out.toOption (stepOf Gen.Code.vanillaDecryptBody h c) = Out.toOption (decStep 40 h c) := by
  cipher_loop_equiv Gen.Code.vanillaDecryptBody decStep

/-- the step functions the C07 theorems are about are these: the moduli the model takes from the regenerated constants are 40 -/
theorem C07_translated_moduli : Exp.vanilla.encMod = 40 ∧ Exp.vanilla.decMod = 40 := by decide

/-- non-vacuity / sanity: the translated Vanilla encrypt body run on a concrete state -/
example : stepOf Gen.Code.vanillaEncryptBody ⟨List.replicate 40 7, 39, 200⟩ 100 = .ok (⟨List.replicate 40 7, 0, 43⟩, 43) := by decide

end WowSrp
