/-
`EncrypterHalf::new` / `DecrypterHalf::new` of the TBC header cipher (src/tbc_header/encrypt.rs, decrypt.rs), translated from the working tree
by tools/gen_hash.py (Gen/CodeHash.lean), denote the model's `Half.newEnc` / `Half.newDec` for EVERY session key and EVERY `Crypto`: the key is
HMAC-SHA1 keyed with the 16-byte seed literal over the session key, the position and the chaining byte start at zero.  All C08 theorems are
about those model functions.
-/
import WowSrp.Gen.CodeHash
import WowSrp.Model.Header
namespace WowSrp
open MiniHash

theorem C08_translated_enc_new (C : Crypto) (K : Bytes) :
    Gen.CodeHash.tbcEncNew.run C (fun _ => none) [.bytes K] = some (Half.newEnc C .tbc K).key
    ∧ Gen.CodeHash.tbcEncNewIndex = (Half.newEnc C .tbc K).index
    ∧ UInt8.ofNat Gen.CodeHash.tbcEncNewPrev = (Half.newEnc C .tbc K).prev ∧ Gen.CodeHash.tbcEncNewPrev < 256 := by
  refine ⟨?_, rfl, rfl, by decide⟩
  simp [Gen.CodeHash.tbcEncNew, HashProg.run, execAll, HStmt.exec, feedAll, HArg.fed, HArg.val, Half.newEnc, Gen.tbcSeedEnc, bind, Option.bind]

theorem C08_translated_dec_new (C : Crypto) (K : Bytes) :
    Gen.CodeHash.tbcDecNew.run C (fun _ => none) [.bytes K] = some (Half.newDec C .tbc K).key
    ∧ Gen.CodeHash.tbcDecNewIndex = (Half.newDec C .tbc K).index
    ∧ UInt8.ofNat Gen.CodeHash.tbcDecNewPrev = (Half.newDec C .tbc K).prev ∧ Gen.CodeHash.tbcDecNewPrev < 256 := by
  refine ⟨?_, rfl, rfl, by decide⟩
  simp [Gen.CodeHash.tbcDecNew, HashProg.run, execAll, HStmt.exec, feedAll, HArg.fed, HArg.val, Half.newDec, Gen.tbcSeedDec, bind, Option.bind]

/-- sensitivity: key and message are not interchangeable (toy HMAC = key ++ message) -/
example : Gen.CodeHash.tbcEncNew.run ⟨id, fun k m => k ++ m, fun _ => []⟩ (fun _ => none) [.bytes [1, 2]]
    = some [0x38, 0xa7, 0x83, 0x15, 0xf8, 0x92, 0x25, 0x30, 0x71, 0x98, 0x67, 0xb1, 0x8c, 0x04, 0xe2, 0xaa, 1, 2] := by decide +kernel

#print axioms C08_translated_enc_new
#print axioms C08_translated_dec_new
end WowSrp
