/-
Translator leg for C02: facts extracted from the Rust source by tools/gen_constants.py on every run
(field order fed to each hash object, structural facts). A reordered / dropped / added field or a changed
structure in the Rust breaks exactly these obligations, independently of the correspondence run.
-/
import WowSrp.Gen.Constants
import WowSrp.Gen.Facts
namespace WowSrp

/-- C02: proofs and keys are compared by the derived whole-array equality (the Model compares whole lists) -/
theorem C02_source_whole_array_equality : Gen.keyWrapperDerivesEq = true := by decide +kernel

/-- C02/C03: M1 = H(xor | H(U) | salt | A | B | K), server side (precomputed xor) and client side -/
theorem C02_source_layout_M1 :
    Gen.layoutClientProof = [["username.as_ref()"], ["PRECALCULATED_XOR_HASH", "username_hash", "salt.as_le_bytes()", "client_public_key.as_le_bytes()", "server_public_key.as_le_bytes()", "session_key.as_le_bytes()"], ["ctors:Sha1::new,Sha1::new", "methods:chain_update,chain_update,chain_update,chain_update,chain_update,chain_update,chain_update,finalize,finalize", "control:", "rebound:", "tail:Proof::from_le_bytes(out)"]] ∧
    Gen.layoutClientProofCustom = [["username.as_ref()"], ["xor_hash.as_le_bytes()", "username_hash", "salt.as_le_bytes()", "client_public_key.as_le_bytes()", "server_public_key.as_le_bytes()", "session_key.as_le_bytes()"], ["ctors:Sha1::new,Sha1::new", "methods:chain_update,chain_update,chain_update,chain_update,chain_update,chain_update,chain_update,finalize,finalize", "control:", "rebound:", "tail:Proof::from_le_bytes(out)"]] := by decide +kernel

end WowSrp
