/-
C12 — Send and receive directions are independent; split and unsplit lose nothing.
Property theorems only; the generic projection / interleaving lemmas live in Lemmas/HeaderIo.lean.

What is and is not covered
* every finite sequential interleaving of {encrypt chunk, decrypt chunk, split, clone, unsplit} on a
  combined object, for all keys, all chunk sizes (empty chunks included), all three expansions;
* `unsplit` succeeds exactly for equal session keys;
* NOT modelled: OS threads. A thread schedule of two threads each owning one half is not an object of
  this model. The argument that every such schedule is observationally one of the interleavings
  proved here rests on Rust ownership (each half is moved into exactly one thread, `&mut self`
  methods) plus the two syntactic facts `C12_static_facts` (no `unsafe`, no interior mutability /
  statics / shared pointers in the header modules). This clause of C12 is therefore PARTIAL: the
  two-thread runs of the correspondence step are tests, not proofs.
-/
import WowSrp.Lemmas.HeaderIo
namespace WowSrp

/-! ## the operation language -/

/-- a Vanilla/TBC header-crypto value during a history: the combined object, or its two halves
    after `split` -/
inductive Obj where
  | comb (hc : HeaderCrypto)
  | halves (enc dec : Half)
deriving Repr, DecidableEq

/-- the half that currently handles the sending direction -/
def Obj.encHalf : Obj → Half
  | .comb hc => hc.encrypt
  | .halves en _ => en
/-- the half that currently handles the receiving direction -/
def Obj.decHalf : Obj → Half
  | .comb hc => hc.decrypt
  | .halves _ de => de

/-- one operation: new object, bytes produced by the encrypting direction, bytes produced by the
    decrypting direction.
    * `enc` / `dec` go through the facade (`HeaderCrypto::encrypt` / `decrypt`) on a combined object
      and through `EncrypterHalf::encrypt` / `DecrypterHalf::decrypt` on split halves;
    * `split` is `HeaderCrypto::split` (nothing to do when already split);
    * `clone` continues on the clone: `#[derive(Clone)]` on plain data yields an equal value;
    * `unsplit` is `EncrypterHalf::unsplit` — it exists for Vanilla only (TBC: no such method, the
      operation is skipped); when it refuses, the history continues on the halves. -/
def stepOp (e : Exp) : Obj → Op → Out (Obj × Bytes × Bytes)
  | .comb hc, .enc d =>
    match hc.encryptData e d with
    | .panic p => .panic p
    | .ok (hc', o) => .ok (.comb hc', o, [])
  | .halves en de, .enc d =>
    match en.encrypt e d with
    | .panic p => .panic p
    | .ok (en', o) => .ok (.halves en' de, o, [])
  | .comb hc, .dec d =>
    match hc.decryptData e d with
    | .panic p => .panic p
    | .ok (hc', o) => .ok (.comb hc', [], o)
  | .halves en de, .dec d =>
    match de.decrypt e d with
    | .panic p => .panic p
    | .ok (de', o) => .ok (.halves en de', [], o)
  | .comb hc, .split => .ok (.halves hc.split.1 hc.split.2, [], [])
  | .halves en de, .split => .ok (.halves en de, [], [])
  | o, .clone => .ok (o, [], [])
  | .comb hc, .unsplit => .ok (.comb hc, [], [])
  | .halves en de, .unsplit =>
    match e with
    | .vanilla =>
      match en.unsplit de with
      | some hc => .ok (.comb hc, [], [])
      | none => .ok (.halves en de, [], [])
    | .tbc => .ok (.halves en de, [], [])

/-- a whole history; outputs concatenated per direction -/
def runOps (e : Exp) : Obj → List Op → Out (Obj × Bytes × Bytes) := opsRun (stepOp e)

/-- Wrath `ClientCrypto`: the pair is kept together (the model has no separate split object for
    Wrath; `split` / `clone` / `unsplit` leave the value as it is). `enc` is
    `ClientEncrypterHalf::encrypt`, `dec` is `ClientDecrypterHalf::decrypt`. -/
def wClientStep : WClientCrypto → Op → Out (WClientCrypto × Bytes × Bytes)
  | c, .enc d =>
    match c.encrypt.apply d with
    | .panic p => .panic p
    | .ok (r, o) => .ok ({ c with encrypt := r }, o, [])
  | c, .dec d =>
    match c.decrypt.decrypt d with
    | .panic p => .panic p
    | .ok (h, o) => .ok ({ c with decrypt := h }, [], o)
  | c, _ => .ok (c, [], [])

/-- Wrath `ServerCrypto`: `enc` is `ServerEncrypterHalf::encrypt`, `dec` is
    `ServerDecrypterHalf::decrypt` -/
def wServerStep : WServerCrypto → Op → Out (WServerCrypto × Bytes × Bytes)
  | c, .enc d =>
    match c.encrypt.encrypt d with
    | .panic p => .panic p
    | .ok (h, o) => .ok ({ c with encrypt := h }, o, [])
  | c, .dec d =>
    match c.decrypt.apply d with
    | .panic p => .panic p
    | .ok (r, o) => .ok ({ c with decrypt := r }, [], o)
  | c, _ => .ok (c, [], [])

/-! ## projection of each step onto the plain pair of directions -/

/-- every step of a Vanilla/TBC object acts on `(encHalf, decHalf)` exactly like the step of a plain
    pair: `enc` on the first component only, `dec` on the second only, `split` / `clone` / `unsplit`
    (successful or refused) on neither -/
theorem C12_step_projection (e : Exp) (o : Obj) (op : Op) :
    (stepOp e o op).mapOk (fun r => ((r.1.encHalf, r.1.decHalf), r.2))
      = pairStep (Half.encrypt e) (Half.decrypt e) (o.encHalf, o.decHalf) op := by
  cases o with
  | comb hc =>
    cases op with
    | enc d =>
      simp only [stepOp, pairStep, Obj.encHalf, Obj.decHalf, HeaderCrypto.encryptData]
      cases hc.encrypt.encrypt e d <;> rfl
    | dec d =>
      simp only [stepOp, pairStep, Obj.encHalf, Obj.decHalf, HeaderCrypto.decryptData]
      cases hc.decrypt.decrypt e d <;> rfl
    | split => rfl
    | clone => rfl
    | unsplit => rfl
  | halves en de =>
    cases op with
    | enc d =>
      simp only [stepOp, pairStep, Obj.encHalf, Obj.decHalf]
      cases en.encrypt e d <;> rfl
    | dec d =>
      simp only [stepOp, pairStep, Obj.encHalf, Obj.decHalf]
      cases de.decrypt e d <;> rfl
    | split => rfl
    | clone => rfl
    | unsplit =>
      cases e with
      | tbc => rfl
      | vanilla =>
        simp only [stepOp, Half.unsplit]
        split
        · next hc heq =>
          split at heq
          · simp at heq
          · simp only [Option.some.injEq] at heq; subst heq; rfl
        · rfl

theorem wClientStep_projection (c : WClientCrypto) (op : Op) :
    (wClientStep c op).mapOk (fun r => ((r.1.encrypt, r.1.decrypt.rc4), r.2))
      = pairStep Rc4.apply Rc4.apply (c.encrypt, c.decrypt.rc4) op := by
  cases op with
  | enc d =>
    simp only [wClientStep, pairStep]
    cases c.encrypt.apply d <;> rfl
  | dec d =>
    simp only [wClientStep, pairStep, WClientDec.decrypt]
    cases c.decrypt.rc4.apply d <;> rfl
  | split => rfl
  | clone => rfl
  | unsplit => rfl

theorem wServerStep_projection (c : WServerCrypto) (op : Op) :
    (wServerStep c op).mapOk (fun r => ((r.1.encrypt.rc4, r.1.decrypt), r.2))
      = pairStep Rc4.apply Rc4.apply (c.encrypt.rc4, c.decrypt) op := by
  cases op with
  | enc d =>
    simp only [wServerStep, pairStep, WServerEnc.encrypt]
    cases c.encrypt.rc4.apply d <;> rfl
  | dec d =>
    simp only [wServerStep, pairStep]
    cases c.decrypt.apply d <;> rfl
  | split => rfl
  | clone => rfl
  | unsplit => rfl

/-! ## interleaving -/

/-- **interleaving, Vanilla and TBC**: for every history `ops` over
    {encrypt chunk, decrypt chunk, split, clone, unsplit}, started from any object `o`, the history
    succeeds with encrypt-side output `eo`, decrypt-side output `dout` and final halves `en'`, `de'`
    **exactly when** a separate encrypter in the state of `o`'s encrypting half, given all encrypt
    chunks in a single call, returns `(en', eo)` and a separate decrypter in the state of `o`'s
    decrypting half, given all decrypt chunks in a single call, returns `(de', dout)`.
    So neither direction can observe — in its bytes or its final state — how the other direction's
    calls, the splits, clones and re-joins were interleaved with its own calls, nor how its own
    bytes were chunked; and the history panics iff one of the two separate objects does. -/
theorem C12_interleaving (e : Exp) (o : Obj) (ops : List Op) (eo dout : Bytes) (en' de' : Half) :
    (∃ o', runOps e o ops = .ok (o', eo, dout) ∧ o'.encHalf = en' ∧ o'.decHalf = de') ↔
      (o.encHalf.encrypt e (encChunks ops) = .ok (en', eo) ∧
       o.decHalf.decrypt e (decChunks ops) = .ok (de', dout)) := by
  have h := opsRun_interleaving (stepOp e) (Half.encrypt e) (Half.decrypt e)
    (runSteps_chunked _) (runSteps_chunked _) (fun o => (o.encHalf, o.decHalf))
    (C12_step_projection e) o ops eo dout en' de'
  simp only [Prod.mk.injEq] at h
  exact h

/-- the form quoted in the property: a fresh combined object for session key `K` against two fresh
    single-direction objects for the same key -/
theorem C12_interleaving_fresh (C : Crypto) (e : Exp) (K : Bytes) (ops : List Op) (eo dout : Bytes)
    (en' de' : Half) :
    (∃ o', runOps e (.comb (HeaderCrypto.new C e K)) ops = .ok (o', eo, dout) ∧
        o'.encHalf = en' ∧ o'.decHalf = de') ↔
      ((Half.newEnc C e K).encrypt e (encChunks ops) = .ok (en', eo) ∧
       (Half.newDec C e K).decrypt e (decChunks ops) = .ok (de', dout)) :=
  C12_interleaving e (.comb (HeaderCrypto.new C e K)) ops eo dout en' de'

/-- **interleaving, Wrath client pair**: per direction the bytes and the final RC4 state are those of
    one `apply_keystream` call of a separate RC4 on all chunks of that direction -/
theorem C12_interleaving_wrath_client (c : WClientCrypto) (ops : List Op) (eo dout : Bytes) (re rd : Rc4) :
    (∃ c', opsRun wClientStep c ops = .ok (c', eo, dout) ∧ c'.encrypt = re ∧ c'.decrypt.rc4 = rd) ↔
      (c.encrypt.apply (encChunks ops) = .ok (re, eo) ∧
       c.decrypt.rc4.apply (decChunks ops) = .ok (rd, dout)) := by
  have h := opsRun_interleaving wClientStep Rc4.apply Rc4.apply
    (runSteps_chunked _) (runSteps_chunked _) (fun c => (c.encrypt, c.decrypt.rc4))
    wClientStep_projection c ops eo dout re rd
  simp only [Prod.mk.injEq] at h
  exact h

/-- **interleaving, Wrath server pair** -/
theorem C12_interleaving_wrath_server (c : WServerCrypto) (ops : List Op) (eo dout : Bytes) (re rd : Rc4) :
    (∃ c', opsRun wServerStep c ops = .ok (c', eo, dout) ∧ c'.encrypt.rc4 = re ∧ c'.decrypt = rd) ↔
      (c.encrypt.rc4.apply (encChunks ops) = .ok (re, eo) ∧
       c.decrypt.apply (decChunks ops) = .ok (rd, dout)) := by
  have h := opsRun_interleaving wServerStep Rc4.apply Rc4.apply
    (runSteps_chunked _) (runSteps_chunked _) (fun c => (c.encrypt.rc4, c.decrypt))
    wServerStep_projection c ops eo dout re rd
  simp only [Prod.mk.injEq] at h
  exact h

/-- non-vacuity: a Vanilla history that encrypts, splits, decrypts, clones, encrypts an empty chunk,
    re-joins and encrypts again; the encrypt side sees `01 02 03 04 05` exactly as in C07's example -/
example :
    let K := (List.range 40).map UInt8.ofNat
    runOps .vanilla (.comb (HeaderCrypto.new Crypto.real .vanilla K))
        [.enc [1, 2], .split, .dec [9, 8], .clone, .enc [], .unsplit, .enc [3, 4, 5]]
      = .ok (.comb ⟨⟨K, 2, 8⟩, ⟨K, 5, 0x0d⟩⟩, [0x01, 0x04, 0x05, 0x0c, 0x0d], [0x09, 0xfe]) := by decide

/-! ## no shared state -/

/-- **encrypting never changes the decrypting half and vice versa** — all six facade methods of the
    Vanilla/TBC combined object -/
theorem C12_no_shared_state (e : Exp) (hc hc' : HeaderCrypto) :
    (∀ d out, hc.encryptData e d = .ok (hc', out) → hc'.decrypt = hc.decrypt) ∧
    (∀ s o out, hc.encryptServerHeader e s o = .ok (hc', out) → hc'.decrypt = hc.decrypt) ∧
    (∀ s o out, hc.encryptClientHeader e s o = .ok (hc', out) → hc'.decrypt = hc.decrypt) ∧
    (∀ d out, hc.decryptData e d = .ok (hc', out) → hc'.encrypt = hc.encrypt) ∧
    (∀ d hdr, hc.decryptServerHeader e d = .ok (hc', hdr) → hc'.encrypt = hc.encrypt) ∧
    (∀ d hdr, hc.decryptClientHeader e d = .ok (hc', hdr) → hc'.encrypt = hc.encrypt) := by
  have henc : ∀ d out, hc.encryptData e d = .ok (hc', out) → hc'.decrypt = hc.decrypt := by
    intro d out h
    unfold HeaderCrypto.encryptData at h
    cases h1 : hc.encrypt.encrypt e d with
    | panic p => rw [h1] at h; simp at h
    | ok r =>
      rw [h1] at h
      simp only [Out.bind_ok, Out.pure_eq, Out.ok.injEq, Prod.mk.injEq] at h
      rw [← h.1]
  have hdec : ∀ d out, hc.decryptData e d = .ok (hc', out) → hc'.encrypt = hc.encrypt := by
    intro d out h
    unfold HeaderCrypto.decryptData at h
    cases h1 : hc.decrypt.decrypt e d with
    | panic p => rw [h1] at h; simp at h
    | ok r =>
      rw [h1] at h
      simp only [Out.bind_ok, Out.pure_eq, Out.ok.injEq, Prod.mk.injEq] at h
      rw [← h.1]
  refine ⟨henc, fun s o out h => henc _ out h, fun s o out h => henc _ out h, hdec, ?_, ?_⟩
  · intro d hdr h
    unfold HeaderCrypto.decryptServerHeader at h
    cases h1 : hc.decrypt.decryptServerHeader e d with
    | panic p => rw [h1] at h; simp at h
    | ok r =>
      rw [h1] at h
      simp only [Out.bind_ok, Out.pure_eq, Out.ok.injEq, Prod.mk.injEq] at h
      rw [← h.1]
  · intro d hdr h
    cases e with
    | tbc =>
      unfold HeaderCrypto.decryptClientHeader at h
      simp only at h
      cases h1 : hc.decrypt.decryptClientHeader .tbc d with
      | panic p => rw [h1] at h; simp at h
      | ok r =>
        rw [h1] at h
        simp only [Out.bind_ok, Out.pure_eq, Out.ok.injEq, Prod.mk.injEq] at h
        rw [← h.1]
    | vanilla =>
      unfold HeaderCrypto.decryptClientHeader at h
      simp only at h
      cases h1 : hc.decryptData .vanilla d with
      | panic p => rw [h1] at h; simp at h
      | ok r =>
        obtain ⟨hc1, plain⟩ := r
        rw [h1] at h
        simp only [Out.bind_ok] at h
        cases h2 : parseClientHeader plain with
        | panic p => rw [h2] at h; simp at h
        | ok hdr' =>
          rw [h2] at h
          simp only [Out.bind_ok, Out.pure_eq, Out.ok.injEq, Prod.mk.injEq] at h
          obtain ⟨a, _⟩ := h
          subst a
          unfold HeaderCrypto.decryptData at h1
          cases h3 : hc.decrypt.decrypt .vanilla d with
          | panic p => rw [h3] at h1; simp at h1
          | ok r3 =>
            rw [h3] at h1
            simp only [Out.bind_ok, Out.pure_eq, Out.ok.injEq, Prod.mk.injEq] at h1
            rw [← h1.1]

/-- **the same for the four Read / Write wrappers of the combined object** (`HeaderCrypto::
    {write_encrypted_server_header, write_encrypted_client_header, read_and_decrypt_server_header,
    read_and_decrypt_client_header}`), for every writer / reader script and whatever the `io::Result`:
    writing never changes the decrypting half, reading never changes the encrypting half -/
theorem C12_no_shared_state_io (e : Exp) (hc : HeaderCrypto) :
    (∀ s o w R, hc.writeServerHeader e s o w = .ok R → R.state.decrypt = hc.decrypt) ∧
    (∀ s o w R, hc.writeClientHeader e s o w = .ok R → R.state.decrypt = hc.decrypt) ∧
    (∀ script R, hc.readServerHeader e script = .ok R → R.state.encrypt = hc.encrypt) ∧
    (∀ script R, hc.readClientHeader e script = .ok R → R.state.encrypt = hc.encrypt) := by
  refine ⟨fun s o w R h => ?_, fun s o w R h => ?_, fun sc R h => ?_, fun sc R h => ?_⟩
  · unfold HeaderCrypto.writeServerHeader at h
    cases h1 : hc.encrypt.writeServerHeader e s o w with
    | panic p => rw [h1] at h; simp at h
    | ok r => rw [h1] at h; simp only [Out.bind_ok, Out.pure_eq, Out.ok.injEq] at h; rw [← h]
  · unfold HeaderCrypto.writeClientHeader at h
    cases h1 : hc.encrypt.writeClientHeader e s o w with
    | panic p => rw [h1] at h; simp at h
    | ok r => rw [h1] at h; simp only [Out.bind_ok, Out.pure_eq, Out.ok.injEq] at h; rw [← h]
  · unfold HeaderCrypto.readServerHeader at h
    cases h1 : hc.decrypt.readServerHeader e sc with
    | panic p => rw [h1] at h; simp at h
    | ok r => rw [h1] at h; simp only [Out.bind_ok, Out.pure_eq, Out.ok.injEq] at h; rw [← h]
  · unfold HeaderCrypto.readClientHeader at h
    cases h1 : hc.decrypt.readClientHeader e sc with
    | panic p => rw [h1] at h; simp at h
    | ok r => rw [h1] at h; simp only [Out.bind_ok, Out.pure_eq, Out.ok.injEq] at h; rw [← h]

/-- the same for the two Wrath pairs, on the operations of the histories above and on the typed
    header helpers: a call on one half returns a pair whose other half is the old one -/
theorem C12_no_shared_state_wrath :
    (∀ (c c' : WClientCrypto) d eo dout, wClientStep c (.enc d) = .ok (c', eo, dout) → c'.decrypt = c.decrypt) ∧
    (∀ (c c' : WClientCrypto) d eo dout, wClientStep c (.dec d) = .ok (c', eo, dout) → c'.encrypt = c.encrypt) ∧
    (∀ (c c' : WServerCrypto) d eo dout, wServerStep c (.enc d) = .ok (c', eo, dout) → c'.decrypt = c.decrypt) ∧
    (∀ (c c' : WServerCrypto) d eo dout, wServerStep c (.dec d) = .ok (c', eo, dout) → c'.encrypt = c.encrypt) := by
  refine ⟨fun c c' d eo dout h => ?_, fun c c' d eo dout h => ?_, fun c c' d eo dout h => ?_,
    fun c c' d eo dout h => ?_⟩
  · simp only [wClientStep] at h
    cases h1 : c.encrypt.apply d with
    | panic p => rw [h1] at h; simp at h
    | ok r => rw [h1] at h; simp only [Out.ok.injEq, Prod.mk.injEq] at h; rw [← h.1]
  · simp only [wClientStep] at h
    cases h1 : c.decrypt.decrypt d with
    | panic p => rw [h1] at h; simp at h
    | ok r => rw [h1] at h; simp only [Out.ok.injEq, Prod.mk.injEq] at h; rw [← h.1]
  · simp only [wServerStep] at h
    cases h1 : c.encrypt.encrypt d with
    | panic p => rw [h1] at h; simp at h
    | ok r => rw [h1] at h; simp only [Out.ok.injEq, Prod.mk.injEq] at h; rw [← h.1]
  · simp only [wServerStep] at h
    cases h1 : c.decrypt.apply d with
    | panic p => rw [h1] at h; simp at h
    | ok r => rw [h1] at h; simp only [Out.ok.injEq, Prod.mk.injEq] at h; rw [← h.1]

/-- the combined objects have exactly two fields, one per direction (nothing else could be shared) -/
theorem C12_pair_is_two_fields (hc : HeaderCrypto) (c : WClientCrypto) (s : WServerCrypto) :
    hc = ⟨hc.decrypt, hc.encrypt⟩ ∧ c = ⟨c.decrypt, c.encrypt⟩ ∧ s = ⟨s.decrypt, s.encrypt⟩ :=
  ⟨rfl, rfl, rfl⟩

/-! ## split and unsplit (Vanilla) -/

/-- **unsplit succeeds exactly when both halves carry the same session key** — equality of the whole
    key, every byte -/
theorem C12_unsplit_iff (enc dec : Half) : (Half.unsplit enc dec).isSome ↔ enc.key = dec.key := by
  unfold Half.unsplit Half.isPairOf
  by_cases h : enc.key = dec.key
  · simp [h]
  · simp [h]

/-- … and otherwise reports the error -/
theorem C12_unsplit_refused_iff (enc dec : Half) : Half.unsplit enc dec = none ↔ enc.key ≠ dec.key := by
  unfold Half.unsplit Half.isPairOf
  by_cases h : enc.key = dec.key
  · simp [h]
  · simp [h]

/-- **nothing is lost**: a successful unsplit is exactly the object made of the two halves as they
    are (position and previous byte of each half included), and splitting it again returns them -/
theorem C12_unsplit_result (enc dec : Half) (hk : enc.key = dec.key) :
    Half.unsplit enc dec = some ⟨dec, enc⟩ ∧
    (∀ hc, Half.unsplit enc dec = some hc → hc.split = (enc, dec)) := by
  have h1 : Half.unsplit enc dec = some ⟨dec, enc⟩ := by
    unfold Half.unsplit Half.isPairOf; simp [hk]
  refine ⟨h1, fun hc h => ?_⟩
  rw [h1] at h
  simp only [Option.some.injEq] at h
  subst h
  rfl

/-- split followed by unsplit gives back the very same object (whatever state its halves are in),
    provided its halves share a key — which `C12_unsplit_own_halves` shows is always the case -/
theorem C12_split_unsplit (hc : HeaderCrypto) (hk : hc.encrypt.key = hc.decrypt.key) :
    Half.unsplit hc.split.1 hc.split.2 = some hc :=
  (C12_unsplit_result hc.encrypt hc.decrypt hk).1

/-- **keys that differ somewhere are refused** — wherever the difference is -/
theorem C12_unsplit_differ (enc dec : Half) (i : Nat) (hdiff : dec.key[i]? ≠ enc.key[i]?) :
    Half.unsplit enc dec = none ∧ enc.isPairOf dec = false := by
  have hne : enc.key ≠ dec.key := fun h => hdiff (by rw [h])
  refine ⟨(C12_unsplit_refused_iff enc dec).2 hne, ?_⟩
  unfold Half.isPairOf
  simp [hne]

/-- **keys differing in exactly one byte are refused, at every position** `i` — in particular the
    last one (`i = 39` for the 40-byte Vanilla key) -/
theorem C12_unsplit_one_byte (enc dec : Half) (i : Nat) (hi : i < enc.key.length) (b : UInt8)
    (hb : b ≠ enc.key[i]) (hd : dec.key = enc.key.set i b) :
    Half.unsplit enc dec = none ∧ enc.isPairOf dec = false := by
  apply C12_unsplit_differ enc dec i
  rw [hd, List.getElem?_set_self hi, List.getElem?_eq_getElem hi]
  simpa using hb

/-- the instance the mutation "compare 39 bytes" would get wrong: only byte 39 differs -/
example :
    let K := (List.range 40).map UInt8.ofNat
    Half.unsplit ⟨K, 3, 7⟩ ⟨K.set 39 0xff, 5, 9⟩ = none ∧
    Half.unsplit ⟨K, 3, 7⟩ ⟨K, 5, 9⟩ = some ⟨⟨K, 5, 9⟩, ⟨K, 3, 7⟩⟩ := by decide

/-- **`is_pair_of` is symmetric**: the Rust defines `DecrypterHalf::is_pair_of(&self, enc)` as
    `enc.is_pair_of(self)`; as a relation on halves the test does not depend on which side is asked,
    and it is the key-equality test -/
theorem C12_isPairOf_symm (a b : Half) :
    a.isPairOf b = b.isPairOf a ∧ (a.isPairOf b = true ↔ a.key = b.key) := by
  unfold Half.isPairOf
  exact ⟨BEq.comm, by simp⟩

/-- **`unsplit` on an object's own halves always succeeds (Vanilla)**: along every history from a fresh
    combined object, whatever was encrypted or decrypted in between and however often it was split,
    cloned and re-joined, the two halves still carry the session key `K`, so the next `unsplit`
    returns the combined object made of exactly those halves. (Apply to every prefix of a history:
    no `unsplit` inside a history is ever refused.) -/
theorem C12_unsplit_own_halves (C : Crypto) (K : Bytes) (ops : List Op) (o' : Obj) (eo dout : Bytes)
    (h : runOps .vanilla (.comb (HeaderCrypto.new C .vanilla K)) ops = .ok (o', eo, dout)) :
    o'.encHalf.key = K ∧ o'.decHalf.key = K ∧
    Half.unsplit o'.encHalf o'.decHalf = some ⟨o'.decHalf, o'.encHalf⟩ := by
  obtain ⟨h1, h2⟩ := (C12_interleaving_fresh C .vanilla K ops eo dout o'.encHalf o'.decHalf).mp ⟨o', h, rfl, rfl⟩
  have k1 : o'.encHalf.key = K := Half.encrypt_key _ _ _ _ _ h1
  have k2 : o'.decHalf.key = K := Half.decrypt_key _ _ _ _ _ h2
  exact ⟨k1, k2, (C12_unsplit_result _ _ (k1.trans k2.symm)).1⟩

/-! ## the two syntactic facts behind the thread-schedule argument -/

/-- `#![forbid(unsafe_code)]` is present in lib.rs, and the header modules and rc4.rs contain no
    `Cell` / `RefCell` / `Mutex` / `Atomic*` / `static` / `thread_local!` / `Rc` / `Arc`
    (both regenerated from the source on every run).

    OS thread schedules are not modelled. That any schedule of two threads, each owning one half,
    equals some interleaving covered by `C12_interleaving*` rests on Rust ownership plus these two
    facts: a half is plain owned data, its methods take `&mut self`, and nothing reachable from one
    half is reachable from the other. PARTIAL on schedules. -/
theorem C12_static_facts : Gen.forbidUnsafe = true ∧ Gen.headerModulesHaveNoSharedState = true := by
  decide

end WowSrp

#print axioms WowSrp.C12_no_shared_state_io
