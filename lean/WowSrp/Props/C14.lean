/-
C14 — peer-controlled bytes can never crash the server or the client.
Every Rust panic site is an explicit `Out.panic site` in the model; "never panics" = "the result is
`.ok _`" (functions without `Out` in their type cannot panic at all). All theorems are for an
arbitrary `C : Crypto` (with `C.WF`, the output lengths, where hash outputs are indexed) and for both
big-integer back ends. Helper lemmas: `Lemmas/NoPanic.lean`, `Lemmas/NoPanicHeader.lean`.
-/
import WowSrp.Lemmas.NoPanic
import WowSrp.Lemmas.NoPanicHeader
namespace WowSrp

/-! ## server side: login -/

/-- **Registration** (`SrpVerifier::from_username_and_password`): never panics, for every (normalised)
    user name, password and salt draw; the verifier is a 32-byte array. -/
theorem C14_server_register (C : Crypto) (be : Backend) (u p : NStr) (salt : Bytes) :
    ∃ v, SrpVerifier.fromUsernameAndPassword C be u p salt = .ok v ∧ v.passwordVerifier.length = 32 := by
  unfold SrpVerifier.fromUsernameAndPassword
  simp only [calculatePasswordVerifier_ok, Out.bind_ok, Out.pure_eq]
  exact ⟨_, rfl, leN_length _ _⟩

/-- **`SrpProof::into_server` never panics**: for every account record `p` — *no* condition on the
    stored verifier (the property's "not a multiple of N" is not needed in the fixed code: a zero secret
    no longer indexes past the end), not even on the widths of its fields —, every client public key `A`
    (whether or not `PublicKey::from_le_bytes` would accept it), every proof `M1` of any length and every
    challenge draw, the answer is `Ok` or `Err`. On `Ok` the session key has 40 bytes. -/
theorem C14_server_login (C : Crypto) (hC : C.WF) (be : Backend) (p : SrpProof) (A M1 challenge : Bytes) :
    ∃ r, p.intoServer C be A M1 challenge = .ok r ∧
      ∀ srv M2, r = .ok (srv, M2) →
        srv.sessionKey.length = 40 ∧ srv.username = p.username ∧ srv.reconnectChallengeData = challenge := by
  obtain ⟨K, hK, hKl⟩ := calculateSessionKey_ok C hC be A p.serverPublicKey p.passwordVerifier p.serverPrivateKey
  unfold SrpProof.intoServer
  simp only [hK, Out.bind_ok]
  split
  · refine ⟨_, rfl, ?_⟩
    intro srv M2 h; cases h
  · refine ⟨_, rfl, ?_⟩
    intro srv M2 h
    cases h
    exact ⟨hKl, rfl, rfl⟩

/-- the statement in the property's own terms (32-byte fields, 32-byte `A`, 20-byte `M1`) -/
theorem C14_server_login_api (C : Crypto) (hC : C.WF) (be : Backend) (p : SrpProof) (A M1 challenge : Bytes)
    (_ : p.passwordVerifier.length = 32) (_ : p.salt.length = 32) (_ : p.serverPrivateKey.length = 32)
    (_ : p.serverPublicKey.length = 32) (_ : A.length = 32) (_ : M1.length = 20) (_ : challenge.length = 16) :
    ∃ r, p.intoServer C be A M1 challenge = .ok r :=
  let ⟨r, h, _⟩ := C14_server_login C hC be p A M1 challenge
  ⟨r, h⟩

/-- the server's secret for *every* input is a 32-byte array (so `as_equal_slice` sees an even length) -/
theorem C14_server_secret (be : Backend) (A v u b : Bytes) :
    ∃ S, calculateS be A v u b = .ok S ∧ S.length = 32 :=
  ⟨_, calculateS_ok be A v u b, leN_length _ _⟩

/-- `calculate_interleaved` (the function that panicked before the fix) is total on 32-byte secrets,
    the all-zero secret and secrets with any number of leading zero bytes included -/
theorem C14_interleaved (C : Crypto) (hC : C.WF) (S : Bytes) (hS : S.length = 32) :
    ∃ K, calculateInterleaved C S = .ok K ∧ K.length = 40 :=
  calculateInterleaved_ok C hC S (by omega) (by omega)

/-- non-vacuity / the pre-fix crash input: the all-zero secret -/
example (C : Crypto) (hC : C.WF) : ∃ K, calculateInterleaved C (List.replicate 32 0) = .ok K ∧ K.length = 40 :=
  C14_interleaved C hC _ (by simp)
example : asEqualSlice (List.replicate 32 0) = .ok [] := by decide
/-- a verifier that *is* a multiple of N (zero) and a rejected `A` (zero) are answered in an orderly way too -/
example (C : Crypto) (hC : C.WF) (be : Backend) (u : NStr) (M1 ch : Bytes) :
    ∃ r, (⟨u, List.replicate 32 0, List.replicate 32 0, List.replicate 32 0, List.replicate 32 0⟩ : SrpProof).intoServer
      C be (List.replicate 32 0) M1 ch = .ok r :=
  let ⟨r, h, _⟩ := C14_server_login C hC be _ _ M1 ch
  ⟨r, h⟩

/-! ## server side: the challenge (`into_proof`) -/

/-- **`SrpVerifier::into_proof` panics only in the documented case** — the self-generated public key
    `B = (k·v + g^b mod N) mod N` is zero — and otherwise returns a proof object whose 32-byte `B` passes
    `PublicKey::from_le_bytes`. Holds for every stored verifier and every private-key draw (no width or
    non-zero condition on either). -/
theorem C14_into_proof (be : Backend) (ver : SrpVerifier) (b : Bytes) :
    ((kBig * ofLE ver.passwordVerifier + gBig ^ ofLE b % nBig) % nBig ≠ 0 →
      ∃ p, ver.intoProof be b = .ok p ∧ p.serverPublicKey.length = 32 ∧
        PublicKey.fromLE p.serverPublicKey = .ok p.serverPublicKey ∧
        p.passwordVerifier = ver.passwordVerifier ∧ p.serverPrivateKey = b ∧ p.salt = ver.salt) ∧
    ((kBig * ofLE ver.passwordVerifier + gBig ^ ofLE b % nBig) % nBig = 0 →
      ver.intoProof be b = .panic "server.rs:296 The generated public key was invalid") := by
  have h := intoProof_eq be ver b
  unfold serverBVal at h
  constructor
  · intro hne
    rw [if_neg hne] at h
    refine ⟨_, h, leN_length _ _, ?_, rfl, rfl, rfl⟩
    have := fromLE_leN_of_lt _ (serverBVal_lt ver.passwordVerifier b)
    unfold serverBVal at this
    rw [if_neg hne] at this
    exact this
  · intro h0
    rw [if_pos h0] at h
    exact h

/-- in particular: the only panic `into_proof` can ever produce is the documented one -/
theorem C14_into_proof_only_documented (be : Backend) (ver : SrpVerifier) (b : Bytes) (s : String)
    (h : ver.intoProof be b = .panic s) : s = "server.rs:296 The generated public key was invalid" := by
  rw [intoProof_eq] at h
  split at h
  · cases h; rfl
  · cases h

/-- the non-panicking variant `with_specific_private_key` reports the same case as `Err` -/
theorem C14_with_specific_private_key (be : Backend) (ver : SrpVerifier) (b : Bytes) :
    ∃ r, ver.withSpecificPrivateKey be b = .ok r :=
  ⟨_, withSpecificPrivateKey_eq be ver b⟩

/-- non-vacuity, first branch: the honest situation (`v = 7`, `b = 1`: `B = 28`) -/
example : (kBig * ofLE [7] + gBig ^ ofLE [1] % nBig) % nBig ≠ 0 := by decide +kernel
/-- non-vacuity, second branch: the documented panic is reachable — verifier `v = -1/3 mod N` with the
    all-zero draw `b = 0` gives `B = 3v + 1 ≡ 0` -/
example :
    (kBig * ofLE [0xcf, 0x67, 0xd4, 0xc6, 0x04, 0x57, 0x28, 0x72, 0x0a, 0x3f, 0x2a, 0xd5, 0x09, 0x21, 0x01, 0xb0,
      0x8c, 0x35, 0x04, 0xc6, 0x5c, 0x92, 0x73, 0x7e, 0x92, 0x37, 0x96, 0x06, 0x3f, 0x98, 0x87, 0x5b]
      + gBig ^ ofLE (List.replicate 32 0) % nBig) % nBig = 0 := by decide +kernel

/-! ## server side: reconnect -/

/-- **`SrpServer::verify_reconnection_attempt` is a total function**: for every session, every client
    challenge data, proof and challenge redraw it returns a Boolean and the session with only the
    challenge replaced — there is no panic site on this path at all (its type has no `Out`). -/
theorem C14_server_reconnect (C : Crypto) (s : SrpServer) (cd proof draw : Bytes) :
    ∃ (ok : Bool) (s' : SrpServer), s.verifyReconnectionAttempt C cd proof draw = (ok, s') ∧
      s'.username = s.username ∧ s'.sessionKey = s.sessionKey ∧ s'.reconnectChallengeData = draw ∧
      (ok = true ↔ calculateReconnectProof C s.username.asRef cd s.reconnectChallengeData s.sessionKey = proof) := by
  refine ⟨_, _, rfl, rfl, rfl, rfl, ?_⟩
  simp

/-! ## client side -/

/-- **`SrpClientChallenge::new` with the built-in group never panics**: for every server public key `B`
    (any value: 0, N, ≥ N, `k·v mod N` which drives the secret to 0, …), every salt, every private-key
    draw `a` and all credentials. (The documented panic "own public key invalid" cannot happen:
    `7^a mod N ≠ 0` because N is prime.) No width conditions are needed. -/
theorem C14_client (C : Crypto) (hC : C.WF) (be : Backend) (u p : NStr) (B salt a : Bytes) :
    ∃ c, SrpClientChallenge.new C be u p gBig Gen.largeSafePrimeLE B salt a = .ok c ∧
      c.sessionKey.length = 40 ∧ c.clientPublicKey.length = 32 ∧ c.username = u := by
  obtain ⟨c, hc, hk, hA, hu⟩ := clientChallenge_new_ok C hC be u p gBig Gen.largeSafePrimeLE B salt a
    nBig_pos (Nat.le_of_lt nBig_lt') (pow_mod_prime_ne_zero nBig gBig _ nBig_prime gBig_not_dvd)
  exact ⟨c, hc, hk, by rw [hA]; exact leN_length _ _, hu⟩

/-- **`verify_server_proof` is total** for every `M2`: `Err` carrying both proofs, or the client object -/
theorem C14_client_verify (C : Crypto) (c : SrpClientChallenge) (M2 : Bytes) :
    (∃ mine, c.verifyServerProof C M2 = .error ⟨mine, M2⟩) ∨
    c.verifyServerProof C M2 = .ok ⟨c.username, c.sessionKey⟩ := by
  unfold SrpClientChallenge.verifyServerProof
  simp only
  split
  · exact .inl ⟨_, rfl⟩
  · exact .inr rfl

/-- **`calculate_reconnect_values` is total** for every server challenge -/
theorem C14_client_reconnect (C : Crypto) (c : SrpClient) (serverChallenge cd : Bytes) :
    ∃ proof, c.calculateReconnectValues C serverChallenge cd = (cd, proof) := ⟨_, rfl⟩

/-- **The pre-fix crash input.** A hostile server that knows the verifier `v = g^x mod N` sends
    `B = k·v mod N`. The client's secret is then `0^(a+ux) = 0`, a 32-byte array of zeros (for every
    non-zero private key `a`) — and the client still answers in an orderly way. -/
theorem C14_client_zero_secret (C : Crypto) (hC : C.WF) (be : Backend) (u p : NStr) (salt a : Bytes)
    (ha : 0 < ofLE a) :
    let x := calculateX C u.asRef p.asRef salt
    let v := modpowVal gBig (ofLE x) nBig
    let B := leN 32 (kBig * v % nBig)
    (∀ uu, calculateClientS be B x a uu gBig Gen.largeSafePrimeLE = .ok (List.replicate 32 0)) ∧
    ∃ c, SrpClientChallenge.new C be u p gBig Gen.largeSafePrimeLE B salt a = .ok c := by
  intro x v B
  refine ⟨?_, let ⟨c, hc, _⟩ := C14_client C hC be u p B salt a; ⟨c, hc⟩⟩
  intro uu
  rw [calculateClientS_ok be B x a uu gBig Gen.largeSafePrimeLE nBig_pos (Nat.le_of_lt nBig_lt')]
  have hB : ofLE B = kBig * v % nBig := ofLE_leN 32 _ (Nat.lt_trans (Nat.mod_lt _ nBig_pos) nBig_lt')
  have hdvd : ((ofLE Gen.largeSafePrimeLE : Nat) : Int) ∣
      (ofLE B : Int) - (kBig : Int) * (modpowVal gBig (ofLE x) (ofLE Gen.largeSafePrimeLE) : Int) := by
    show ((nBig : Nat) : Int) ∣ (ofLE B : Int) - (kBig : Int) * (v : Int)
    rw [hB]
    push_cast
    exact (Int.mod_modEq _ _).symm.dvd
  rw [modpowVal_eq_zero_of_dvd (ofLE Gen.largeSafePrimeLE) _ _ nBig_pos (by omega) hdvd, leN_zero]

/-- the same, fully concrete and evaluated by the kernel with the real SHA-1: user "A", password "A",
    salt `AB…AB`, private key 5, hostile `B = 3·v mod N`. Both back ends: secret = 32 zero bytes, result `ok`
    (the pre-fix model evaluated to `panic "key.rs:292 index out of bounds"` here). -/
def C14_ex_user : NStr := ⟨0x41 :: List.replicate 15 0, 1⟩
def C14_ex_salt : Bytes := List.replicate 32 0xAB
def C14_ex_a : Bytes := 5 :: List.replicate 31 0
def C14_ex_B : Bytes :=
  leN 32 (kBig * modpowVal gBig (ofLE (calculateX Crypto.real C14_ex_user.asRef C14_ex_user.asRef C14_ex_salt)) nBig % nBig)

example :
    calculateClientS .num C14_ex_B (calculateX Crypto.real C14_ex_user.asRef C14_ex_user.asRef C14_ex_salt)
      C14_ex_a [1, 2, 3] gBig Gen.largeSafePrimeLE = .ok (List.replicate 32 0) ∧
    calculateClientS .rug C14_ex_B (calculateX Crypto.real C14_ex_user.asRef C14_ex_user.asRef C14_ex_salt)
      C14_ex_a [1, 2, 3] gBig Gen.largeSafePrimeLE = .ok (List.replicate 32 0) ∧
    (SrpClientChallenge.new Crypto.real .num C14_ex_user C14_ex_user gBig Gen.largeSafePrimeLE
      C14_ex_B C14_ex_salt C14_ex_a).isOk = true ∧
    (SrpClientChallenge.new Crypto.real .rug C14_ex_user C14_ex_user gBig Gen.largeSafePrimeLE
      C14_ex_B C14_ex_salt C14_ex_a).isOk = true := by
  decide +kernel

/-! ### announced group (extra strength: the property fixes the built-in group) -/

/-- for every announced 32-byte modulus `N' > 0` and every generator the client panics *exactly* in the
    documented case — its own public key `g^a mod N'` is zero — and never because of `B` or the salt -/
theorem C14_client_announced (C : Crypto) (hC : C.WF) (be : Backend) (u p : NStr) (g : Nat)
    (nLE B salt a : Bytes) (hlen : nLE.length = 32) (hN : 0 < ofLE nLE) :
    (g ^ ofLE a % ofLE nLE ≠ 0 →
      ∃ c, SrpClientChallenge.new C be u p g nLE B salt a = .ok c ∧ c.sessionKey.length = 40) ∧
    (g ^ ofLE a % ofLE nLE = 0 →
      SrpClientChallenge.new C be u p g nLE B salt a
        = .panic "client.rs:190 Invalid public key generated for client") := by
  have h32 : ofLE nLE ≤ 256 ^ 32 := ofLE_le_of_length nLE 32 (by omega)
  constructor
  · intro hA
    obtain ⟨c, hc, hk, _⟩ := clientChallenge_new_ok C hC be u p g nLE B salt a hN h32 hA
    exact ⟨c, hc, hk⟩
  · exact clientChallenge_new_invalid_key C be u p g nLE B salt a hN h32

/-- with the announced modulus zero the first `modpow` panics in both back ends (zero modulus) -/
theorem C14_client_announced_zero (C : Crypto) (be : Backend) (u p : NStr) (g : Nat)
    (nLE B salt a : Bytes) (hN : ofLE nLE = 0) :
    ∃ s, SrpClientChallenge.new C be u p g nLE B salt a = .panic s :=
  clientChallenge_new_zero_modulus C be u p g nLE B salt a hN

/-- non-vacuity: an even, tiny announced modulus (`N' = 22` in 32 bytes), `g = 7`, `a = 5` -/
example : (22 :: List.replicate 31 (0 : UInt8)).length = 32 ∧ 0 < ofLE (22 :: List.replicate 31 0) ∧
    7 ^ ofLE [5] % ofLE (22 :: List.replicate 31 0) ≠ 0 := by decide

/-! ## world login -/

/-- **Vanilla / TBC `ProofSeed::into_server_header_crypto` is total**: for every proof, client seed,
    session key and user name the answer is `Err` (carrying both proofs) or the header cipher — and that
    cipher satisfies the bounds invariant of `C14_headers` when the session key has its 40 bytes. -/
theorem C14_world_server (C : Crypto) (e : Exp) (seed : Nat) (u : NStr) (K proof : Bytes) (clientSeed : Nat) :
    (∃ sp, ProofSeed.intoServerHeaderCrypto C e seed u K proof clientSeed = .error ⟨proof, sp⟩) ∨
    (ProofSeed.intoServerHeaderCrypto C e seed u K proof clientSeed = .ok (HeaderCrypto.new C e K) ∧
      (HeaderKeyOk C e K → (HeaderCrypto.new C e K).Inv e)) := by
  unfold ProofSeed.intoServerHeaderCrypto
  simp only
  split
  · exact .inl ⟨_, rfl⟩
  · exact .inr ⟨rfl, HeaderCrypto.new_inv C e K⟩

/-- Vanilla / TBC `into_client_header_crypto` is total -/
theorem C14_world_client (C : Crypto) (e : Exp) (seed : Nat) (u : NStr) (K : Bytes) (serverSeed : Nat) :
    ∃ proof, ProofSeed.intoClientHeaderCrypto C e seed u K serverSeed = (proof, HeaderCrypto.new C e K) :=
  ⟨_, rfl⟩

/-- **Wrath `into_server_header_crypto` never panics** (for every `Crypto`, session key of any length,
    proof, seeds): RC4 keying with the HMAC output and the 1024-byte drop stay inside the 256-byte state.
    On success both halves satisfy the RC4 invariant. -/
theorem C14_world_wrath_server (C : Crypto) (seed : Nat) (u : NStr) (K proof : Bytes) (clientSeed : Nat) :
    ∃ r, ProofSeed.wrathIntoServer C seed u K proof clientSeed = .ok r ∧
      ∀ c, r = .ok c → c.decrypt.state.size = 256 ∧ c.encrypt.Inv := by
  unfold ProofSeed.wrathIntoServer
  simp only
  split
  · exact ⟨_, rfl, fun c h => by cases h⟩
  · obtain ⟨c, hc, hd, he⟩ := WServerCrypto.new_ok C K
    simp only [hc, Out.bind_ok, Out.pure_eq]
    exact ⟨_, rfl, fun c' h => by cases h; exact ⟨hd, he⟩⟩

/-- **Wrath `into_client_header_crypto` never panics** -/
theorem C14_world_wrath_client (C : Crypto) (seed : Nat) (u : NStr) (K : Bytes) (serverSeed : Nat) :
    ∃ proof c, ProofSeed.wrathIntoClient C seed u K serverSeed = .ok (proof, c) ∧
      c.decrypt.Inv ∧ c.encrypt.state.size = 256 := by
  unfold ProofSeed.wrathIntoClient
  obtain ⟨c, hc, hd, he⟩ := WClientCrypto.new_ok C K
  simp only [hc, Out.bind_ok, Out.pure_eq]
  exact ⟨_, _, rfl, hd, he⟩

/-- `Rc4::new` never panics for a key of any length (the crate only passes the 20-byte HMAC output) -/
theorem C14_rc4_new (key : Bytes) : ∃ r, Rc4.new key = .ok r ∧ r.state.size = 256 := Rc4.new_ok key

/-! ## header bytes, Vanilla / TBC

`Half.Inv m h` (`Lemmas/Header.lean`): `0 < m ≤ 255`, `m ≤ h.key.length`, `h.index < m`.
`HeaderKeyOk C e K`: Vanilla — the session key has its 40 bytes; TBC — `C.WF` (HMAC output is 20 bytes). -/

/-- fresh halves satisfy the invariant -/
theorem C14_headers_fresh (C : Crypto) (e : Exp) (K : Bytes) (hK : HeaderKeyOk C e K) :
    (Half.newEnc C e K).Inv e.keyLen ∧ (Half.newDec C e K).Inv e.keyLen :=
  ⟨Half.newEnc_inv C e K hK, Half.newDec_inv C e K hK⟩

theorem C14_headerKeyOk_vanilla (C : Crypto) (K : Bytes) (h : K.length = 40) : HeaderKeyOk C .vanilla K := h
theorem C14_headerKeyOk_tbc (C : Crypto) (hC : C.WF) (K : Bytes) : HeaderKeyOk C .tbc K := hC

/-- **one call, any bytes**: from every state satisfying the invariant each entry point returns `ok`
    and re-establishes the invariant: `decrypt` / `encrypt` on data of any length (empty and longer than
    the key included), `decrypt_server_header([u8; 4])`, `decrypt_client_header([u8; 6])`,
    `read_and_decrypt_*_header` on any reader behaviour (short reads, interruptions, errors, EOF). -/
theorem C14_headers (e : Exp) (h : Half) (hi : h.Inv e.keyLen) :
    (∀ data, ∃ h' out, h.decrypt e data = .ok (h', out) ∧ h'.Inv e.keyLen ∧ out.length = data.length) ∧
    (∀ data, ∃ h' out, h.encrypt e data = .ok (h', out) ∧ h'.Inv e.keyLen ∧ out.length = data.length) ∧
    (∀ data, data.length = 4 → ∃ h' r, h.decryptServerHeader e data = .ok (h', r) ∧ h'.Inv e.keyLen) ∧
    (∀ data, data.length = 6 → ∃ h' r, h.decryptClientHeader e data = .ok (h', r) ∧ h'.Inv e.keyLen) ∧
    (∀ script, ∃ r, h.readServerHeader e script = .ok r ∧ r.state.Inv e.keyLen) ∧
    (∀ script, ∃ r, h.readClientHeader e script = .ok r ∧ r.state.Inv e.keyLen) :=
  ⟨fun d => Half.decrypt_ok e h d hi, fun d => Half.encrypt_ok e h d hi,
   fun d hl => Half.decryptServerHeader_ok e h d hi hl, fun d hl => Half.decryptClientHeader_ok e h d hi hl,
   fun s => Half.readServerHeader_ok e h s hi, fun s => Half.readClientHeader_ok e h s hi⟩

/-- one call a peer can provoke on a half (its output is dropped: only the state matters for what
    happens next) -/
inductive HalfCall where
  | decrypt (data : Bytes)
  | encrypt (data : Bytes)
  | decryptServerHeader (data : Bytes)
  | decryptClientHeader (data : Bytes)
  | readServerHeader (script : List REv)
  | readClientHeader (script : List REv)

/-- what the Rust types guarantee about the arguments: the header arrays are `[u8; 4]` / `[u8; 6]` -/
def HalfCall.Typed : HalfCall → Prop
  | .decryptServerHeader d => d.length = 4
  | .decryptClientHeader d => d.length = 6
  | _ => True

def HalfCall.run (e : Exp) (h : Half) : HalfCall → Out Half
  | .decrypt d => do let (h', _) ← h.decrypt e d; pure h'
  | .encrypt d => do let (h', _) ← h.encrypt e d; pure h'
  | .decryptServerHeader d => do let (h', _) ← h.decryptServerHeader e d; pure h'
  | .decryptClientHeader d => do let (h', _) ← h.decryptClientHeader e d; pure h'
  | .readServerHeader s => do let r ← h.readServerHeader e s; pure r.state
  | .readClientHeader s => do let r ← h.readClientHeader e s; pure r.state

theorem HalfCall.run_ok (e : Exp) (h : Half) (c : HalfCall) (hi : h.Inv e.keyLen) (ht : c.Typed) :
    ∃ h', c.run e h = .ok h' ∧ h'.Inv e.keyLen := by
  obtain ⟨h1, h2, h3, h4, h5, h6⟩ := C14_headers e h hi
  cases c with
  | decrypt d => obtain ⟨h', o, hr, hi', _⟩ := h1 d; exact ⟨h', by simp [HalfCall.run, hr], hi'⟩
  | encrypt d => obtain ⟨h', o, hr, hi', _⟩ := h2 d; exact ⟨h', by simp [HalfCall.run, hr], hi'⟩
  | decryptServerHeader d => obtain ⟨h', o, hr, hi'⟩ := h3 d ht; exact ⟨h', by simp [HalfCall.run, hr], hi'⟩
  | decryptClientHeader d => obtain ⟨h', o, hr, hi'⟩ := h4 d ht; exact ⟨h', by simp [HalfCall.run, hr], hi'⟩
  | readServerHeader s => obtain ⟨r, hr, hi'⟩ := h5 s; exact ⟨r.state, by simp [HalfCall.run, hr], hi'⟩
  | readClientHeader s => obtain ⟨r, hr, hi'⟩ := h6 s; exact ⟨r.state, by simp [HalfCall.run, hr], hi'⟩

/-- **any sequence of calls, any bytes, any amount**: starting from a freshly constructed half (either
    one) over a proper key, no history of calls — in any order, with any data, with any reader scripts —
    reaches a panic. -/
theorem C14_headers_history (C : Crypto) (e : Exp) (K : Bytes) (hK : HeaderKeyOk C e K)
    (calls : List HalfCall) (ht : ∀ c ∈ calls, c.Typed) :
    (∃ h', runCalls (HalfCall.run e) (Half.newDec C e K) calls = .ok h') ∧
    (∃ h', runCalls (HalfCall.run e) (Half.newEnc C e K) calls = .ok h') := by
  have hrun : ∀ s c, Half.Inv e.keyLen s → HalfCall.Typed c → ∃ s', HalfCall.run e s c = .ok s' ∧ Half.Inv e.keyLen s' :=
    fun s c hp hc => HalfCall.run_ok e s c hp hc
  obtain ⟨h1, r1, _⟩ := runCalls_ok_of_inv (HalfCall.run e) (Half.Inv e.keyLen) HalfCall.Typed hrun
    _ calls (Half.newDec_inv C e K hK) ht
  obtain ⟨h2, r2, _⟩ := runCalls_ok_of_inv (HalfCall.run e) (Half.Inv e.keyLen) HalfCall.Typed hrun
    _ calls (Half.newEnc_inv C e K hK) ht
  exact ⟨⟨h1, r1⟩, ⟨h2, r2⟩⟩

/-- the same for several `decrypt` calls with their outputs kept (`runChunks`, as in C07) -/
theorem C14_headers_chunks (C : Crypto) (e : Exp) (K : Bytes) (hK : HeaderKeyOk C e K) (chunks : List Bytes) :
    ∃ h' out, runChunks (Half.decrypt e) (Half.newDec C e K) chunks = .ok (h', out) ∧
      out.length = chunks.flatten.length := by
  have := runChunks_flatten (decStep e.decMod) (Half.newDec C e K) chunks
  unfold Half.decrypt
  rw [this]
  obtain ⟨h', out, hr, _, hl⟩ := Half.decrypt_ok e (Half.newDec C e K) chunks.flatten (Half.newDec_inv C e K hK)
  exact ⟨h', out, hr, hl⟩

/-- the `HeaderCrypto` facade (server: `decrypt_client_header`, client: `decrypt_server_header`, both:
    `decrypt` / `encrypt`) delegates to the halves and is as total as they are -/
theorem C14_headers_facade (e : Exp) (hc : HeaderCrypto) (hi : hc.Inv e) :
    (∀ data, ∃ hc' out, hc.decryptData e data = .ok (hc', out) ∧ hc'.Inv e ∧ out.length = data.length) ∧
    (∀ data, ∃ hc' out, hc.encryptData e data = .ok (hc', out) ∧ hc'.Inv e ∧ out.length = data.length) ∧
    (∀ data, data.length = 4 → ∃ hc' r, hc.decryptServerHeader e data = .ok (hc', r) ∧ hc'.Inv e) ∧
    (∀ data, data.length = 6 → ∃ hc' r, hc.decryptClientHeader e data = .ok (hc', r) ∧ hc'.Inv e) :=
  ⟨fun d => HeaderCrypto.decryptData_ok e hc d hi, fun d => HeaderCrypto.encryptData_ok e hc d hi,
   fun d hl => HeaderCrypto.decryptServerHeader_ok e hc d hi hl,
   fun d hl => HeaderCrypto.decryptClientHeader_ok e hc d hi hl⟩

/-- **the four Read / Write wrappers of the combined object** (`HeaderCrypto::{read_and_decrypt_server_header,
    read_and_decrypt_client_header, write_encrypted_server_header, write_encrypted_client_header}`) are as
    total as the halves' wrappers they delegate to: on any reader / writer behaviour (short reads and
    writes, interruptions, errors, EOF, `Ok(0)`) and for any `size` / `opcode` they return — an `io::Result`,
    never a panic — and re-establish the invariant -/
theorem C14_headers_facade_io (e : Exp) (hc : HeaderCrypto) (hi : hc.Inv e) :
    (∀ script, ∃ R, hc.readServerHeader e script = .ok R ∧ R.state.Inv e) ∧
    (∀ script, ∃ R, hc.readClientHeader e script = .ok R ∧ R.state.Inv e) ∧
    (∀ size opcode script, ∃ R, hc.writeServerHeader e size opcode script = .ok R ∧ R.state.Inv e) ∧
    (∀ size opcode script, ∃ R, hc.writeClientHeader e size opcode script = .ok R ∧ R.state.Inv e) := by
  refine ⟨fun sc => ?_, fun sc => ?_, fun s o w => ?_, fun s o w => ?_⟩
  · obtain ⟨r, hr, hi'⟩ := Half.readServerHeader_ok e hc.decrypt sc hi.1
    simp only [HeaderCrypto.readServerHeader, hr, Out.bind_ok, Out.pure_eq]
    exact ⟨_, rfl, ⟨hi', hi.2⟩⟩
  · obtain ⟨r, hr, hi'⟩ := Half.readClientHeader_ok e hc.decrypt sc hi.1
    simp only [HeaderCrypto.readClientHeader, hr, Out.bind_ok, Out.pure_eq]
    exact ⟨_, rfl, ⟨hi', hi.2⟩⟩
  · obtain ⟨h', out, hr, hi', _⟩ := Half.encrypt_ok e hc.encrypt (serverHeaderBytes s o) hi.2
    simp only [HeaderCrypto.writeServerHeader, Half.writeServerHeader, Half.encryptServerHeader, hr,
      Out.bind_ok, Out.pure_eq]
    exact ⟨_, rfl, ⟨hi.1, hi'⟩⟩
  · obtain ⟨h', out, hr, hi', _⟩ := Half.encrypt_ok e hc.encrypt (clientHeaderBytes s o) hi.2
    simp only [HeaderCrypto.writeClientHeader, Half.writeClientHeader, Half.encryptClientHeader, hr,
      Out.bind_ok, Out.pure_eq]
    exact ⟨_, rfl, ⟨hi.1, hi'⟩⟩

/-- the hypothesis on the key is needed: a Vanilla half over a 39-byte "session key" indexes out of
    bounds on its 40th byte (the API's `[u8; 40]` excludes this) -/
example : (Half.newDec Crypto.real .vanilla (List.replicate 39 0)).decrypt .vanilla (List.replicate 40 0)
    = .panic "decrypt.rs: session_key[index] out of bounds" := by decide
/-- non-vacuity: 100 bytes through a Vanilla decrypter over a 40-byte key -/
example :
    ((Half.newDec Crypto.real .vanilla (List.replicate 40 7)).decrypt .vanilla (List.replicate 100 9)).isOk = true := by
  decide

/-! ## header bytes, Wrath

Invariants: `r.state.size = 256` for a bare RC4 (`ServerDecrypterHalf`, `ClientEncrypterHalf`);
`WClientDec.Inv`: that and a 4-byte header buffer. All RC4 indices are `u8`s. -/

/-- **Wrath, client's decrypter, one call**: `decrypt` on any data, `attempt_decrypt_server_header([u8; 4])`,
    `decrypt_large_server_header(u8)` (also without a preceding attempt),
    `read_and_decrypt_server_header` on any reader behaviour -/
theorem C14_wrath_client (h : WClientDec) (hi : h.Inv) :
    (∀ data, ∃ h' out, h.decrypt data = .ok (h', out) ∧ h'.Inv ∧ out.length = data.length) ∧
    (∀ buf, buf.length = 4 → ∃ h' a, h.attempt buf = .ok (h', a) ∧ h'.Inv) ∧
    (∀ byte, ∃ h' r, h.decryptLarge byte = .ok (h', r) ∧ h'.Inv) ∧
    (∀ script, ∃ r, h.readServerHeader script = .ok r ∧ r.state.Inv) :=
  ⟨fun d => WClientDec.decrypt_ok h d hi, fun b hl => WClientDec.attempt_ok h b hi hl,
   fun b => WClientDec.decryptLarge_ok h b hi, fun s => WClientDec.readServerHeader_ok h s hi⟩

/-- **Wrath, bare RC4 halves (server's decrypter), one call**: `apply_keystream` on any data,
    `decrypt_client_header([u8; 6])`, `read_and_decrypt_client_header` on any reader behaviour -/
theorem C14_wrath_server (r : Rc4) (hs : r.state.size = 256) :
    (∀ data, ∃ r' out, r.apply data = .ok (r', out) ∧ r'.state.size = 256 ∧ out.length = data.length) ∧
    (∀ data, data.length = 6 → ∃ r' h, wServerDecryptHeader r data = .ok (r', h) ∧ r'.state.size = 256) ∧
    (∀ script, ∃ res, wServerReadHeader r script = .ok res ∧ res.state.state.size = 256) :=
  ⟨fun d => Rc4.apply_ok r d hs, fun d hl => wServerDecryptHeader_ok r d hs hl,
   fun s => wServerReadHeader_ok r s hs⟩

/-- the server's encrypter (not peer-fed, for completeness) -/
theorem C14_wrath_server_enc (h : WServerEnc) (hi : h.Inv) :
    (∀ data, ∃ h' out, h.encrypt data = .ok (h', out) ∧ h'.Inv) ∧
    (∀ size opcode, ∃ h' out, h.encryptServerHeader size opcode = .ok (h', out) ∧ h'.Inv) :=
  ⟨fun d => WServerEnc.encrypt_ok h d hi, fun s o => WServerEnc.encryptServerHeader_ok h s o hi⟩

inductive WClientDecCall where
  | decrypt (data : Bytes)
  | attempt (buf : Bytes)
  | decryptLarge (byte : UInt8)
  | readServerHeader (script : List REv)

def WClientDecCall.Typed : WClientDecCall → Prop
  | .attempt b => b.length = 4
  | _ => True

def WClientDecCall.run (h : WClientDec) : WClientDecCall → Out WClientDec
  | .decrypt d => do let (h', _) ← h.decrypt d; pure h'
  | .attempt b => do let (h', _) ← h.attempt b; pure h'
  | .decryptLarge b => do let (h', _) ← h.decryptLarge b; pure h'
  | .readServerHeader s => do let r ← h.readServerHeader s; pure r.state

inductive Rc4Call where
  | apply (data : Bytes)
  | decryptClientHeader (data : Bytes)
  | readClientHeader (script : List REv)

def Rc4Call.Typed : Rc4Call → Prop
  | .decryptClientHeader d => d.length = 6
  | _ => True

def Rc4Call.run (r : Rc4) : Rc4Call → Out Rc4
  | .apply d => do let (r', _) ← r.apply d; pure r'
  | .decryptClientHeader d => do let (r', _) ← wServerDecryptHeader r d; pure r'
  | .readClientHeader s => do let res ← wServerReadHeader r s; pure res.state

theorem WClientDecCall.run_ok (h : WClientDec) (c : WClientDecCall) (hi : h.Inv) (ht : c.Typed) :
    ∃ h', c.run h = .ok h' ∧ h'.Inv := by
  obtain ⟨h1, h2, h3, h4⟩ := C14_wrath_client h hi
  cases c with
  | decrypt d => obtain ⟨h', o, hr, hi', _⟩ := h1 d; exact ⟨h', by simp [WClientDecCall.run, hr], hi'⟩
  | attempt d => obtain ⟨h', o, hr, hi'⟩ := h2 d ht; exact ⟨h', by simp [WClientDecCall.run, hr], hi'⟩
  | decryptLarge d => obtain ⟨h', o, hr, hi'⟩ := h3 d; exact ⟨h', by simp [WClientDecCall.run, hr], hi'⟩
  | readServerHeader s => obtain ⟨r, hr, hi'⟩ := h4 s; exact ⟨r.state, by simp [WClientDecCall.run, hr], hi'⟩

theorem Rc4Call.run_ok (r : Rc4) (c : Rc4Call) (hs : r.state.size = 256) (ht : c.Typed) :
    ∃ r', c.run r = .ok r' ∧ r'.state.size = 256 := by
  obtain ⟨h1, h2, h3⟩ := C14_wrath_server r hs
  cases c with
  | apply d => obtain ⟨r', o, hr, hi', _⟩ := h1 d; exact ⟨r', by simp [Rc4Call.run, hr], hi'⟩
  | decryptClientHeader d => obtain ⟨r', o, hr, hi'⟩ := h2 d ht; exact ⟨r', by simp [Rc4Call.run, hr], hi'⟩
  | readClientHeader s => obtain ⟨res, hr, hi'⟩ := h3 s; exact ⟨res.state, by simp [Rc4Call.run, hr], hi'⟩

/-- **Wrath, any history**: every half constructed by `new` (for every `Crypto` and session key) exists
    (no panic in keying / drop) and survives every sequence of calls with any bytes. -/
theorem C14_wrath_history (C : Crypto) (K : Bytes) :
    (∃ d, WClientDec.new C K = .ok d ∧
      ∀ calls : List WClientDecCall, (∀ c ∈ calls, c.Typed) → ∃ d', runCalls WClientDecCall.run d calls = .ok d') ∧
    (∃ r, WServerDec.new C K = .ok r ∧
      ∀ calls : List Rc4Call, (∀ c ∈ calls, c.Typed) → ∃ r', runCalls Rc4Call.run r calls = .ok r') ∧
    (∃ r, WClientEnc.new C K = .ok r ∧
      ∀ calls : List Rc4Call, (∀ c ∈ calls, c.Typed) → ∃ r', runCalls Rc4Call.run r calls = .ok r') := by
  obtain ⟨d, hd, hdi⟩ := WClientDec.new_ok C K
  obtain ⟨r, hr, hri⟩ := WServerDec.new_ok C K
  obtain ⟨r2, hr2, hri2⟩ := WClientEnc.new_ok C K
  refine ⟨⟨d, hd, fun calls ht => ?_⟩, ⟨r, hr, fun calls ht => ?_⟩, ⟨r2, hr2, fun calls ht => ?_⟩⟩
  · obtain ⟨d', h, _⟩ := runCalls_ok_of_inv WClientDecCall.run WClientDec.Inv WClientDecCall.Typed
      (fun s c hp hc => WClientDecCall.run_ok s c hp hc) d calls hdi ht
    exact ⟨d', h⟩
  · obtain ⟨r', h, _⟩ := runCalls_ok_of_inv Rc4Call.run (fun r => r.state.size = 256) Rc4Call.Typed
      (fun s c hp hc => Rc4Call.run_ok s c hp hc) r calls hri ht
    exact ⟨r', h⟩
  · obtain ⟨r', h, _⟩ := runCalls_ok_of_inv Rc4Call.run (fun r => r.state.size = 256) Rc4Call.Typed
      (fun s c hp hc => Rc4Call.run_ok s c hp hc) r2 calls hri2 ht
    exact ⟨r', h⟩

end WowSrp

#print axioms WowSrp.C14_headers_facade_io
