/-
C17 — integrity hashes depend only on the concatenated files, the salt and the key.
Model: WowSrp/Model/Integrity.lean (the `hmac` crate's successive `update`s are modelled as
concatenation; the correspondence runs check that against the real crate at block boundaries).
All theorems for an arbitrary `C : Crypto`; nothing is assumed about SHA-1 or HMAC (DESIGN §2.2).
-/
import WowSrp.Model.Integrity
import WowSrp.Lemmas.Layout
namespace WowSrp
open WowSrp.Layout

/-- **all three entry points are one function**: Windows, Mac and single-buffer variants return
    SHA-1(client public key | HMAC-SHA1(salt, f1 | f2 | f3 | f4 | f5)) -/
theorem C17_all_equal (C : Crypto) (f1 f2 f3 f4 f5 salt pk : Bytes) :
    integrityWindows C f1 f2 f3 f4 f5 salt pk = integrityGeneric C (f1 ++ f2 ++ f3 ++ f4 ++ f5) salt pk ∧
    integrityMac C f1 f2 f3 f4 f5 salt pk = integrityGeneric C (f1 ++ f2 ++ f3 ++ f4 ++ f5) salt pk ∧
    integrityGeneric C (f1 ++ f2 ++ f3 ++ f4 ++ f5) salt pk =
      C.sha1 (pk ++ C.hmac salt (f1 ++ f2 ++ f3 ++ f4 ++ f5)) := by
  simp only [integrityWindows, integrityMac, integrityGeneric, integrityChecksum, finalise,
    List.nil_append, and_self]

/-- the single-buffer variant, for any buffer -/
theorem C17_generic (C : Crypto) (all salt pk : Bytes) :
    integrityGeneric C all salt pk = C.sha1 (pk ++ C.hmac salt all) := rfl

/-- **independence of the split**: two ways of distributing one byte string over the five file
    arguments (empty files included) give the same 20 bytes, for both five-argument entry points and
    across them -/
theorem C17_split_indep (C : Crypto) (f1 f2 f3 f4 f5 g1 g2 g3 g4 g5 salt pk : Bytes)
    (h : f1 ++ f2 ++ f3 ++ f4 ++ f5 = g1 ++ g2 ++ g3 ++ g4 ++ g5) :
    integrityWindows C f1 f2 f3 f4 f5 salt pk = integrityWindows C g1 g2 g3 g4 g5 salt pk ∧
    integrityMac C f1 f2 f3 f4 f5 salt pk = integrityMac C g1 g2 g3 g4 g5 salt pk ∧
    integrityWindows C f1 f2 f3 f4 f5 salt pk = integrityMac C g1 g2 g3 g4 g5 salt pk := by
  obtain ⟨w1, m1, _⟩ := C17_all_equal C f1 f2 f3 f4 f5 salt pk
  obtain ⟨w2, m2, _⟩ := C17_all_equal C g1 g2 g3 g4 g5 salt pk
  rw [w1, w2, m1, m2, h]
  exact ⟨rfl, rfl, rfl⟩

/-- passing everything as one buffer (in any of the five positions) is one such split -/
theorem C17_one_buffer (C : Crypto) (all salt pk : Bytes) :
    integrityWindows C all [] [] [] [] salt pk = integrityGeneric C all salt pk ∧
    integrityWindows C [] [] [] [] all salt pk = integrityGeneric C all salt pk ∧
    integrityMac C [] [] all [] [] salt pk = integrityGeneric C all salt pk := by
  simp [integrityWindows, integrityMac, integrityGeneric, integrityChecksum]

/-- **reconnect check** = SHA-1(salt | twenty zero bytes) -/
theorem C17_reconnect (C : Crypto) (salt : Bytes) :
    integrityReconnect C salt = C.sha1 (salt ++ List.replicate 20 0) := rfl

/-- **a changed input that leaves the result unchanged exhibits a collision**: two calls whose file
    contents (concatenated), salt or 32-byte key differ but whose results agree yield either an explicit
    HMAC collision (different (salt, files) with equal HMAC) or an explicit SHA-1 collision pair
    (`pk ++ mac ≠ pk' ++ mac'` with equal SHA-1). Covers every single-byte/bit change of any file, of the
    salt and of the key. -/
theorem C17_changed_input_collision (C : Crypto) (files files' salt salt' pk pk' : Bytes)
    (hpk : pk.length = 32) (hpk' : pk'.length = 32)
    (hdiff : files ≠ files' ∨ salt ≠ salt' ∨ pk ≠ pk')
    (heq : integrityGeneric C files salt pk = integrityGeneric C files' salt' pk') :
    ((salt, files) ≠ (salt', files') ∧ C.hmac salt files = C.hmac salt' files') ∨
    (∃ m₁ m₂, m₁ = pk ++ C.hmac salt files ∧ m₂ = pk' ++ C.hmac salt' files' ∧
      m₁ ≠ m₂ ∧ C.sha1 m₁ = C.sha1 m₂) := by
  by_cases hm : C.hmac salt files = C.hmac salt' files'
  · by_cases hsf : (salt, files) = (salt', files')
    · -- then only the key differs
      right
      simp only [Prod.mk.injEq] at hsf
      refine ⟨_, _, rfl, rfl, ?_, heq⟩
      intro h
      have := (List.append_inj h (hpk.trans hpk'.symm)).1
      rcases hdiff with d | d | d
      · exact d hsf.2
      · exact d hsf.1
      · exact d this
    · exact Or.inl ⟨hsf, hm⟩
  · right
    refine ⟨_, _, rfl, rfl, ?_, heq⟩
    intro h
    exact hm (List.append_inj h (hpk.trans hpk'.symm)).2

/-- the same for the five-argument entry points (Windows on one side, Mac on the other, or the same):
    what matters is the concatenation -/
theorem C17_changed_input_collision_files (C : Crypto) (f1 f2 f3 f4 f5 g1 g2 g3 g4 g5 salt salt' pk pk' : Bytes)
    (hpk : pk.length = 32) (hpk' : pk'.length = 32)
    (hdiff : f1 ++ f2 ++ f3 ++ f4 ++ f5 ≠ g1 ++ g2 ++ g3 ++ g4 ++ g5 ∨ salt ≠ salt' ∨ pk ≠ pk')
    (heq : integrityWindows C f1 f2 f3 f4 f5 salt pk = integrityWindows C g1 g2 g3 g4 g5 salt' pk' ∨
           integrityMac C f1 f2 f3 f4 f5 salt pk = integrityMac C g1 g2 g3 g4 g5 salt' pk' ∨
           integrityWindows C f1 f2 f3 f4 f5 salt pk = integrityMac C g1 g2 g3 g4 g5 salt' pk') :
    ((salt, f1 ++ f2 ++ f3 ++ f4 ++ f5) ≠ (salt', g1 ++ g2 ++ g3 ++ g4 ++ g5) ∧
      C.hmac salt (f1 ++ f2 ++ f3 ++ f4 ++ f5) = C.hmac salt' (g1 ++ g2 ++ g3 ++ g4 ++ g5)) ∨
    (∃ m₁ m₂, m₁ = pk ++ C.hmac salt (f1 ++ f2 ++ f3 ++ f4 ++ f5) ∧
      m₂ = pk' ++ C.hmac salt' (g1 ++ g2 ++ g3 ++ g4 ++ g5) ∧ m₁ ≠ m₂ ∧ C.sha1 m₁ = C.sha1 m₂) := by
  apply C17_changed_input_collision C _ _ salt salt' pk pk' hpk hpk' hdiff
  obtain ⟨w1, m1, _⟩ := C17_all_equal C f1 f2 f3 f4 f5 salt pk
  obtain ⟨w2, m2, _⟩ := C17_all_equal C g1 g2 g3 g4 g5 salt' pk'
  rcases heq with h | h | h
  · rw [← w1, ← w2]; exact h
  · rw [← m1, ← m2]; exact h
  · rw [← w1, ← m2]; exact h

/-- a single flipped bit anywhere in a file, the salt or the key is such a change -/
theorem C17_flipped_bit_is_change (files salt pk : Bytes) (i : Nat) :
    (i < 8 * files.length → flipBit files i ≠ files) ∧
    (i < 8 * salt.length → flipBit salt i ≠ salt) ∧
    (i < 8 * pk.length → flipBit pk i ≠ pk ∧ (flipBit pk i).length = pk.length) :=
  ⟨flipBit_ne _ _, flipBit_ne _ _, fun h => ⟨flipBit_ne _ _ h, flipBit_length _ _⟩⟩

/-- reconnect variant: equal results for different 16-byte salts ⇒ explicit SHA-1 collision pair -/
theorem C17_reconnect_changed_salt_collision (C : Crypto) (salt salt' : Bytes) (hne : salt ≠ salt')
    (heq : integrityReconnect C salt = integrityReconnect C salt') :
    ∃ m₁ m₂, m₁ = salt ++ List.replicate 20 0 ∧ m₂ = salt' ++ List.replicate 20 0 ∧
      m₁ ≠ m₂ ∧ C.sha1 m₁ = C.sha1 m₂ :=
  ⟨_, _, rfl, rfl, fun h => hne (List.append_cancel_right h), heq⟩

/-! ### non-vacuity -/
section
private def Cconst : Crypto := ⟨fun _ => List.replicate 20 0, fun _ _ => List.replicate 20 0, fun _ => List.replicate 16 0⟩
/-- the hypotheses of the collision theorem are jointly satisfiable (with the constant hash) -/
example : (List.replicate 32 (1 : UInt8)).length = 32 ∧ ([1] : Bytes) ≠ [2] ∧
    integrityGeneric Cconst [1] [5] (List.replicate 32 1) = integrityGeneric Cconst [2] [5] (List.replicate 32 1) := by
  decide
/-- a split with empty files -/
example : ([1, 2] : Bytes) ++ [] ++ [3] ++ [] ++ [4, 5] = [] ++ [1] ++ [2, 3, 4] ++ [5] ++ [] := by decide
end

end WowSrp
