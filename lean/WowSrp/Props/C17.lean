/-
C17 — integrity hashes depend only on the concatenated files, the salt and the key.
Model: WowSrp/Model/Integrity.lean (the `hmac` crate's successive `update`s are modelled as
concatenation; the correspondence runs check that against the real crate at block boundaries).
All theorems for an arbitrary `C : Crypto`; nothing is assumed about SHA-1 or HMAC (DESIGN §2.2).
-/
import WowSrp.Model.Integrity
import WowSrp.Lemmas.Layout
namespace WowSrp
open WowSrp.Layout

/-- **all three entry points are one function**: Windows, Mac and single-buffer variants return
    SHA-1(client public key | HMAC-SHA1(salt, f1 | f2 | f3 | f4 | f5)) -/
theorem C17_all_equal (C : Crypto) (f1 f2 f3 f4 f5 salt pk : Bytes) :
    integrityWindows C f1 f2 f3 f4 f5 salt pk = integrityGeneric C (f1 ++ f2 ++ f3 ++ f4 ++ f5) salt pk ∧
    integrityMac C f1 f2 f3 f4 f5 salt pk = integrityGeneric C (f1 ++ f2 ++ f3 ++ f4 ++ f5) salt pk ∧
    integrityGeneric C (f1 ++ f2 ++ f3 ++ f4 ++ f5) salt pk =
      C.sha1 (pk ++ C.hmac salt (f1 ++ f2 ++ f3 ++ f4 ++ f5)) := by
  simp only [integrityWindows, integrityMac, integrityGeneric, integrityChecksum, finalise,
    List.nil_append, and_self]

/-- the single-buffer variant, for any buffer -/
theorem C17_generic (C : Crypto) (all salt pk : Bytes) :
    integrityGeneric C all salt pk = C.sha1 (pk ++ C.hmac salt all) := rfl

/-- **independence of the split**: two ways of distributing one byte string over the five file
    arguments (empty files included) give the same 20 bytes, for both five-argument entry points and
    across them -/
theorem C17_split_indep (C : Crypto) (f1 f2 f3 f4 f5 g1 g2 g3 g4 g5 salt pk : Bytes)
    (h : f1 ++ f2 ++ f3 ++ f4 ++ f5 = g1 ++ g2 ++ g3 ++ g4 ++ g5) :
    integrityWindows C f1 f2 f3 f4 f5 salt pk = integrityWindows C g1 g2 g3 g4 g5 salt pk ∧
    integrityMac C f1 f2 f3 f4 f5 salt pk = integrityMac C g1 g2 g3 g4 g5 salt pk ∧
    integrityWindows C f1 f2 f3 f4 f5 salt pk = integrityMac C g1 g2 g3 g4 g5 salt pk := by
  obtain ⟨w1, m1, _⟩ := C17_all_equal C f1 f2 f3 f4 f5 salt pk
  obtain ⟨w2, m2, _⟩ := C17_all_equal C g1 g2 g3 g4 g5 salt pk
  rw [w1, w2, m1, m2, h]
  exact ⟨rfl, rfl, rfl⟩

/-- passing everything as one buffer (in any of the five positions) is one such split -/
theorem C17_one_buffer (C : Crypto) (all salt pk : Bytes) :
    integrityWindows C all [] [] [] [] salt pk = integrityGeneric C all salt pk ∧
    integrityWindows C [] [] [] [] all salt pk = integrityGeneric C all salt pk ∧
    integrityMac C [] [] all [] [] salt pk = integrityGeneric C all salt pk := by
  simp [integrityWindows, integrityMac, integrityGeneric, integrityChecksum]

/-- **reconnect check** = SHA-1(salt | twenty zero bytes) -/
theorem C17_reconnect (C : Crypto) (salt : Bytes) :
    integrityReconnect C salt = C.sha1 (salt ++ List.replicate 20 0) := rfl

/-- general form, salts of ANY length (kept because it is true, and the 16-byte theorems below are
    instances of it). NOTE that for salts of unrestricted length its first disjunct is weak: real HMAC
    zero-pads a short key to the block size, so `hmac salt m = hmac (salt ++ [0]) m` and
    "different (salt, files) with equal HMAC" is then met trivially. The property quantifies over
    16-byte salts: see `C17_changed_input_collision`, where both salts have the same length 16 and the
    padding identity cannot be used. -/
theorem C17_changed_input_collision_anysalt (C : Crypto) (files files' salt salt' pk pk' : Bytes)
    (hpk : pk.length = 32) (hpk' : pk'.length = 32)
    (hdiff : files ≠ files' ∨ salt ≠ salt' ∨ pk ≠ pk')
    (heq : integrityGeneric C files salt pk = integrityGeneric C files' salt' pk') :
    ((salt, files) ≠ (salt', files') ∧ C.hmac salt files = C.hmac salt' files') ∨
    (∃ m₁ m₂, m₁ = pk ++ C.hmac salt files ∧ m₂ = pk' ++ C.hmac salt' files' ∧
      m₁ ≠ m₂ ∧ C.sha1 m₁ = C.sha1 m₂) := by
  by_cases hm : C.hmac salt files = C.hmac salt' files'
  · by_cases hsf : (salt, files) = (salt', files')
    · -- then only the key differs
      right
      simp only [Prod.mk.injEq] at hsf
      refine ⟨_, _, rfl, rfl, ?_, heq⟩
      intro h
      have := (List.append_inj h (hpk.trans hpk'.symm)).1
      rcases hdiff with d | d | d
      · exact d hsf.2
      · exact d hsf.1
      · exact d this
    · exact Or.inl ⟨hsf, hm⟩
  · right
    refine ⟨_, _, rfl, rfl, ?_, heq⟩
    intro h
    exact hm (List.append_inj h (hpk.trans hpk'.symm)).2

/-- **a changed input that leaves the result unchanged exhibits a collision** (16-byte salts, 32-byte
    keys — the property's quantifier): two calls whose file contents (concatenated), 16-byte salt or
    32-byte key differ but whose results agree yield either an explicit HMAC collision — two
    (16-byte key, message) pairs that differ, both keys of the same length 16, with equal HMAC — or an
    explicit SHA-1 collision pair (`pk ++ mac ≠ pk' ++ mac'` with equal SHA-1). Covers every
    single-byte/bit change of any file, of the salt and of the key. -/
theorem C17_changed_input_collision (C : Crypto) (files files' salt salt' pk pk' : Bytes)
    (hsalt : salt.length = 16) (hsalt' : salt'.length = 16)
    (hpk : pk.length = 32) (hpk' : pk'.length = 32)
    (hdiff : files ≠ files' ∨ salt ≠ salt' ∨ pk ≠ pk')
    (heq : integrityGeneric C files salt pk = integrityGeneric C files' salt' pk') :
    (salt.length = 16 ∧ salt'.length = 16 ∧
      (salt, files) ≠ (salt', files') ∧ C.hmac salt files = C.hmac salt' files') ∨
    (∃ m₁ m₂, m₁ = pk ++ C.hmac salt files ∧ m₂ = pk' ++ C.hmac salt' files' ∧
      m₁ ≠ m₂ ∧ C.sha1 m₁ = C.sha1 m₂) :=
  (C17_changed_input_collision_anysalt C files files' salt salt' pk pk' hpk hpk' hdiff heq).imp
    (fun h => ⟨hsalt, hsalt', h⟩) id

/-- five-argument entry points, salts of any length (see the note at
    `C17_changed_input_collision_anysalt`) -/
theorem C17_changed_input_collision_files_anysalt (C : Crypto)
    (f1 f2 f3 f4 f5 g1 g2 g3 g4 g5 salt salt' pk pk' : Bytes)
    (hpk : pk.length = 32) (hpk' : pk'.length = 32)
    (hdiff : f1 ++ f2 ++ f3 ++ f4 ++ f5 ≠ g1 ++ g2 ++ g3 ++ g4 ++ g5 ∨ salt ≠ salt' ∨ pk ≠ pk')
    (heq : integrityWindows C f1 f2 f3 f4 f5 salt pk = integrityWindows C g1 g2 g3 g4 g5 salt' pk' ∨
           integrityMac C f1 f2 f3 f4 f5 salt pk = integrityMac C g1 g2 g3 g4 g5 salt' pk' ∨
           integrityWindows C f1 f2 f3 f4 f5 salt pk = integrityMac C g1 g2 g3 g4 g5 salt' pk') :
    ((salt, f1 ++ f2 ++ f3 ++ f4 ++ f5) ≠ (salt', g1 ++ g2 ++ g3 ++ g4 ++ g5) ∧
      C.hmac salt (f1 ++ f2 ++ f3 ++ f4 ++ f5) = C.hmac salt' (g1 ++ g2 ++ g3 ++ g4 ++ g5)) ∨
    (∃ m₁ m₂, m₁ = pk ++ C.hmac salt (f1 ++ f2 ++ f3 ++ f4 ++ f5) ∧
      m₂ = pk' ++ C.hmac salt' (g1 ++ g2 ++ g3 ++ g4 ++ g5) ∧ m₁ ≠ m₂ ∧ C.sha1 m₁ = C.sha1 m₂) := by
  apply C17_changed_input_collision_anysalt C _ _ salt salt' pk pk' hpk hpk' hdiff
  obtain ⟨w1, m1, _⟩ := C17_all_equal C f1 f2 f3 f4 f5 salt pk
  obtain ⟨w2, m2, _⟩ := C17_all_equal C g1 g2 g3 g4 g5 salt' pk'
  rcases heq with h | h | h
  · rw [← w1, ← w2]; exact h
  · rw [← m1, ← m2]; exact h
  · rw [← w1, ← m2]; exact h

/-- the same for the five-argument entry points (Windows on one side, Mac on the other, or the same),
    16-byte salts and 32-byte keys: what matters is the concatenation -/
theorem C17_changed_input_collision_files (C : Crypto) (f1 f2 f3 f4 f5 g1 g2 g3 g4 g5 salt salt' pk pk' : Bytes)
    (hsalt : salt.length = 16) (hsalt' : salt'.length = 16)
    (hpk : pk.length = 32) (hpk' : pk'.length = 32)
    (hdiff : f1 ++ f2 ++ f3 ++ f4 ++ f5 ≠ g1 ++ g2 ++ g3 ++ g4 ++ g5 ∨ salt ≠ salt' ∨ pk ≠ pk')
    (heq : integrityWindows C f1 f2 f3 f4 f5 salt pk = integrityWindows C g1 g2 g3 g4 g5 salt' pk' ∨
           integrityMac C f1 f2 f3 f4 f5 salt pk = integrityMac C g1 g2 g3 g4 g5 salt' pk' ∨
           integrityWindows C f1 f2 f3 f4 f5 salt pk = integrityMac C g1 g2 g3 g4 g5 salt' pk') :
    (salt.length = 16 ∧ salt'.length = 16 ∧
      (salt, f1 ++ f2 ++ f3 ++ f4 ++ f5) ≠ (salt', g1 ++ g2 ++ g3 ++ g4 ++ g5) ∧
      C.hmac salt (f1 ++ f2 ++ f3 ++ f4 ++ f5) = C.hmac salt' (g1 ++ g2 ++ g3 ++ g4 ++ g5)) ∨
    (∃ m₁ m₂, m₁ = pk ++ C.hmac salt (f1 ++ f2 ++ f3 ++ f4 ++ f5) ∧
      m₂ = pk' ++ C.hmac salt' (g1 ++ g2 ++ g3 ++ g4 ++ g5) ∧ m₁ ≠ m₂ ∧ C.sha1 m₁ = C.sha1 m₂) :=
  (C17_changed_input_collision_files_anysalt C f1 f2 f3 f4 f5 g1 g2 g3 g4 g5 salt salt' pk pk'
    hpk hpk' hdiff heq).imp (fun h => ⟨hsalt, hsalt', h⟩) id

/-- **same salt**: when only the files change (same 16-byte salt — the single-byte-of-a-file case) the
    HMAC disjunct is a collision of `HMAC(salt, ·)` on two different MESSAGES under one key -/
theorem C17_changed_files_collision (C : Crypto) (files files' salt pk : Bytes)
    (hsalt : salt.length = 16) (hpk : pk.length = 32) (hdiff : files ≠ files')
    (heq : integrityGeneric C files salt pk = integrityGeneric C files' salt pk) :
    (salt.length = 16 ∧ files ≠ files' ∧ C.hmac salt files = C.hmac salt files') ∨
    (∃ m₁ m₂, m₁ = pk ++ C.hmac salt files ∧ m₂ = pk ++ C.hmac salt files' ∧
      m₁ ≠ m₂ ∧ C.sha1 m₁ = C.sha1 m₂) :=
  (C17_changed_input_collision C files files' salt salt pk pk hsalt hsalt hpk hpk (Or.inl hdiff) heq).imp
    (fun h => ⟨hsalt, hdiff, h.2.2.2⟩) id

/-- a single flipped bit anywhere in a file, the salt or the key is such a change -/
theorem C17_flipped_bit_is_change (files salt pk : Bytes) (i : Nat) :
    (i < 8 * files.length → flipBit files i ≠ files) ∧
    (i < 8 * salt.length → flipBit salt i ≠ salt) ∧
    (i < 8 * pk.length → flipBit pk i ≠ pk ∧ (flipBit pk i).length = pk.length) :=
  ⟨flipBit_ne _ _, flipBit_ne _ _, fun h => ⟨flipBit_ne _ _ h, flipBit_length _ _⟩⟩

/-- reconnect variant: equal results for different salts (of any length, in particular 16 bytes) ⇒
    explicit SHA-1 collision pair. No length hypothesis is needed here and none would strengthen the
    statement: the salt is a PREFIX of a SHA-1 input with a fixed 20-byte suffix, so different salts
    always give different inputs (there is no key padding as in HMAC). -/
theorem C17_reconnect_changed_salt_collision (C : Crypto) (salt salt' : Bytes) (hne : salt ≠ salt')
    (heq : integrityReconnect C salt = integrityReconnect C salt') :
    ∃ m₁ m₂, m₁ = salt ++ List.replicate 20 0 ∧ m₂ = salt' ++ List.replicate 20 0 ∧
      m₁ ≠ m₂ ∧ C.sha1 m₁ = C.sha1 m₂ :=
  ⟨_, _, rfl, rfl, fun h => hne (List.append_cancel_right h), heq⟩

/-! ### non-vacuity -/
section
private def Cconst : Crypto := ⟨fun _ => List.replicate 20 0, fun _ _ => List.replicate 20 0, fun _ => List.replicate 16 0⟩
/-- the hypotheses of the collision theorem are jointly satisfiable (with the constant hash) -/
example : (List.replicate 32 (1 : UInt8)).length = 32 ∧ (List.replicate 16 (5 : UInt8)).length = 16 ∧
    ([1] : Bytes) ≠ [2] ∧
    integrityGeneric Cconst [1] (List.replicate 16 5) (List.replicate 32 1)
      = integrityGeneric Cconst [2] (List.replicate 16 5) (List.replicate 32 1) := by
  decide
/-- why the salt length matters: with a zero-padding keyed hash (as real HMAC does for short keys) the
    general form's first disjunct is met by `salt' = salt ++ [0]` and identical files and key -/
example :
    let Cpad : Crypto := ⟨fun m => m, fun k m => (k ++ List.replicate (64 - k.length) 0) ++ m, fun _ => []⟩
    (([5] : Bytes), ([1] : Bytes)) ≠ ([5, 0], [1]) ∧ Cpad.hmac [5] [1] = Cpad.hmac [5, 0] [1] := by
  decide
/-- a split with empty files -/
example : ([1, 2] : Bytes) ++ [] ++ [3] ++ [] ++ [4, 5] = [] ++ [1] ++ [2, 3, 4] ++ [5] ++ [] := by decide
end

#print axioms C17_changed_input_collision
#print axioms C17_changed_input_collision_files
#print axioms C17_changed_files_collision
#print axioms C17_changed_input_collision_anysalt
#print axioms C17_changed_input_collision_files_anysalt
#print axioms C17_reconnect_changed_salt_collision

end WowSrp
