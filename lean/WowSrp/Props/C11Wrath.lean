/-
C11 (continued) — the Wrath combined objects `ClientCrypto` / `ServerCrypto`
(src/wrath_header/mod.rs): every facade method is its half's method, `split` hands out the two
fields, and a failed header read through the facade leaves the whole combined object untouched.

`Out.mapOk f` (Lemmas/HeaderIo.lean; iff-lemmas in Lemmas/MapOk.lean) applies `f` to a non-panicking outcome and passes a panic
through with its message, so an equation `facade = (half call).mapOk f` says at once: the facade
panics iff the half panics (same message), and otherwise returns `f` of the half's result.
-/
import WowSrp.Props.C11
import WowSrp.Lemmas.MapOk
namespace WowSrp

/-! ## every facade method returns its half's result and replaces only that half -/

/-- **`ClientCrypto` facade = halves.** For each delegating method: the facade's outcome is the half's
    outcome (panic ↦ the same panic) with the new half put back into the *same* combined object; the
    returned bytes / header / attempt result are the half's. For the Write/Read wrappers the `IoRes`
    carries `{ c with … := r.state }`, the same `io::Result` and the same remaining script / sink. -/
theorem C11_wrath_facade_eq_half_client (c : WClientCrypto) :
    (∀ d, c.encryptData d =
      (c.encrypt.apply d).mapOk fun p => ({ c with encrypt := p.1 }, p.2)) ∧
    (∀ d, c.decryptData d =
      (c.decrypt.decrypt d).mapOk fun p => ({ c with decrypt := p.1 }, p.2)) ∧
    (∀ size opcode, c.encryptClientHeader size opcode =
      (wClientEncryptHeader c.encrypt size opcode).mapOk fun p => ({ c with encrypt := p.1 }, p.2)) ∧
    (∀ size opcode script, c.writeClientHeader size opcode script =
      (wClientWriteHeader c.encrypt size opcode script).mapOk fun r =>
        ⟨{ c with encrypt := r.state }, r.result, r.rest⟩) ∧
    (∀ buf, c.attempt buf =
      (c.decrypt.attempt buf).mapOk fun p => ({ c with decrypt := p.1 }, p.2)) ∧
    (∀ byte, c.decryptLarge byte =
      (c.decrypt.decryptLarge byte).mapOk fun p => ({ c with decrypt := p.1 }, p.2)) ∧
    (∀ script, c.readServerHeader script =
      (c.decrypt.readServerHeader script).mapOk fun r =>
        ⟨{ c with decrypt := r.state }, r.result, r.rest⟩) := by
  refine ⟨fun d => ?_, fun d => ?_, fun s o => ?_, fun s o w => ?_, fun b => ?_, fun b => ?_,
    fun sc => ?_⟩
  · unfold WClientCrypto.encryptData
    cases c.encrypt.apply d <;> rfl
  · unfold WClientCrypto.decryptData
    cases c.decrypt.decrypt d <;> rfl
  · unfold WClientCrypto.encryptClientHeader
    cases wClientEncryptHeader c.encrypt s o <;> rfl
  · unfold WClientCrypto.writeClientHeader
    cases wClientWriteHeader c.encrypt s o w <;> rfl
  · unfold WClientCrypto.attempt
    cases c.decrypt.attempt b <;> rfl
  · unfold WClientCrypto.decryptLarge
    cases c.decrypt.decryptLarge b <;> rfl
  · unfold WClientCrypto.readServerHeader
    cases c.decrypt.readServerHeader sc <;> rfl

/-- **`ServerCrypto` facade = halves**, likewise -/
theorem C11_wrath_facade_eq_half_server (c : WServerCrypto) :
    (∀ d, c.encryptData d =
      (c.encrypt.encrypt d).mapOk fun p => ({ c with encrypt := p.1 }, p.2)) ∧
    (∀ d, c.decryptData d =
      (c.decrypt.apply d).mapOk fun p => ({ c with decrypt := p.1 }, p.2)) ∧
    (∀ size opcode, c.encryptServerHeader size opcode =
      (c.encrypt.encryptServerHeader size opcode).mapOk fun p => ({ c with encrypt := p.1 }, p.2)) ∧
    (∀ size opcode script, c.writeServerHeader size opcode script =
      (c.encrypt.writeServerHeader size opcode script).mapOk fun r =>
        ⟨{ c with encrypt := r.state }, r.result, r.rest⟩) ∧
    (∀ d, c.decryptClientHeader d =
      (wServerDecryptHeader c.decrypt d).mapOk fun p => ({ c with decrypt := p.1 }, p.2)) ∧
    (∀ script, c.readClientHeader script =
      (wServerReadHeader c.decrypt script).mapOk fun r =>
        ⟨{ c with decrypt := r.state }, r.result, r.rest⟩) := by
  refine ⟨fun d => ?_, fun d => ?_, fun s o => ?_, fun s o w => ?_, fun d => ?_, fun sc => ?_⟩
  · unfold WServerCrypto.encryptData
    cases c.encrypt.encrypt d <;> rfl
  · unfold WServerCrypto.decryptData
    cases c.decrypt.apply d <;> rfl
  · unfold WServerCrypto.encryptServerHeader
    cases c.encrypt.encryptServerHeader s o <;> rfl
  · unfold WServerCrypto.writeServerHeader
    cases c.encrypt.writeServerHeader s o w <;> rfl
  · unfold WServerCrypto.decryptClientHeader
    cases wServerDecryptHeader c.decrypt d <;> rfl
  · unfold WServerCrypto.readClientHeader
    cases wServerReadHeader c.decrypt sc <;> rfl

/-- both objects at once -/
theorem C11_wrath_facade_eq_half (c : WClientCrypto) (s : WServerCrypto) :
    ((∀ d, c.encryptData d =
        (c.encrypt.apply d).mapOk fun p => ({ c with encrypt := p.1 }, p.2)) ∧
     (∀ d, c.decryptData d =
        (c.decrypt.decrypt d).mapOk fun p => ({ c with decrypt := p.1 }, p.2)) ∧
     (∀ size opcode, c.encryptClientHeader size opcode =
        (wClientEncryptHeader c.encrypt size opcode).mapOk fun p => ({ c with encrypt := p.1 }, p.2)) ∧
     (∀ size opcode script, c.writeClientHeader size opcode script =
        (wClientWriteHeader c.encrypt size opcode script).mapOk fun r =>
          ⟨{ c with encrypt := r.state }, r.result, r.rest⟩) ∧
     (∀ buf, c.attempt buf =
        (c.decrypt.attempt buf).mapOk fun p => ({ c with decrypt := p.1 }, p.2)) ∧
     (∀ byte, c.decryptLarge byte =
        (c.decrypt.decryptLarge byte).mapOk fun p => ({ c with decrypt := p.1 }, p.2)) ∧
     (∀ script, c.readServerHeader script =
        (c.decrypt.readServerHeader script).mapOk fun r =>
          ⟨{ c with decrypt := r.state }, r.result, r.rest⟩)) ∧
    ((∀ d, s.encryptData d =
        (s.encrypt.encrypt d).mapOk fun p => ({ s with encrypt := p.1 }, p.2)) ∧
     (∀ d, s.decryptData d =
        (s.decrypt.apply d).mapOk fun p => ({ s with decrypt := p.1 }, p.2)) ∧
     (∀ size opcode, s.encryptServerHeader size opcode =
        (s.encrypt.encryptServerHeader size opcode).mapOk fun p => ({ s with encrypt := p.1 }, p.2)) ∧
     (∀ size opcode script, s.writeServerHeader size opcode script =
        (s.encrypt.writeServerHeader size opcode script).mapOk fun r =>
          ⟨{ s with encrypt := r.state }, r.result, r.rest⟩) ∧
     (∀ d, s.decryptClientHeader d =
        (wServerDecryptHeader s.decrypt d).mapOk fun p => ({ s with decrypt := p.1 }, p.2)) ∧
     (∀ script, s.readClientHeader script =
        (wServerReadHeader s.decrypt script).mapOk fun r =>
          ⟨{ s with decrypt := r.state }, r.result, r.rest⟩)) :=
  ⟨C11_wrath_facade_eq_half_client c, C11_wrath_facade_eq_half_server s⟩

/-- **the same in "returns … ↔ the half returns …" / "panics ↔ the half panics" form**, for the raw
    data methods of both objects (the other methods follow from `C11_wrath_facade_eq_half` and
    `Out.mapOk_eq_ok_iff` / `Out.mapOk_eq_panic_iff` in exactly the same way) -/
theorem C11_wrath_facade_eq_half_iff (c c' : WClientCrypto) (s s' : WServerCrypto) (d out : Bytes)
    (p : String) :
    (c.encryptData d = .ok (c', out) ↔
      ∃ r, c.encrypt.apply d = .ok (r, out) ∧ c' = { c with encrypt := r }) ∧
    (c.decryptData d = .ok (c', out) ↔
      ∃ r, c.decrypt.decrypt d = .ok (r, out) ∧ c' = { c with decrypt := r }) ∧
    (s.encryptData d = .ok (s', out) ↔
      ∃ r, s.encrypt.encrypt d = .ok (r, out) ∧ s' = { s with encrypt := r }) ∧
    (s.decryptData d = .ok (s', out) ↔
      ∃ r, s.decrypt.apply d = .ok (r, out) ∧ s' = { s with decrypt := r }) ∧
    (c.encryptData d = .panic p ↔ c.encrypt.apply d = .panic p) ∧
    (c.decryptData d = .panic p ↔ c.decrypt.decrypt d = .panic p) ∧
    (s.encryptData d = .panic p ↔ s.encrypt.encrypt d = .panic p) ∧
    (s.decryptData d = .panic p ↔ s.decrypt.apply d = .panic p) := by
  have hc := C11_wrath_facade_eq_half_client c
  have hs := C11_wrath_facade_eq_half_server s
  rw [hc.1 d, hc.2.1 d, hs.1 d, hs.2.1 d]
  simp only [Out.mapOk_eq_ok_iff, Out.mapOk_eq_panic_iff, Prod.mk.injEq]
  refine ⟨?_, ?_, ?_, ?_, trivial, trivial, trivial, trivial⟩ <;>
  · constructor
    · rintro ⟨⟨r, o⟩, h1, h2, h3⟩
      simp only at h2 h3
      subst h3
      exact ⟨r, h1, h2⟩
    · rintro ⟨r, h1, h2⟩
      exact ⟨(r, out), h1, h2, rfl⟩

/-- **the I/O wrappers in the same form**: the facade returns an `IoRes` iff the half's wrapper
    returns one with the same `io::Result` and the same remaining script / sink, and the facade's
    state is the old combined object with only that half replaced -/
theorem C11_wrath_facade_eq_half_io_iff (c : WClientCrypto) (s : WServerCrypto) (size opcode : Nat)
    (w : List WEv) (script : List REv) :
    (∀ R, c.writeClientHeader size opcode w = .ok R ↔
      ∃ r, wClientWriteHeader c.encrypt size opcode w = .ok r ∧
        R.state = { c with encrypt := r.state } ∧ R.result = r.result ∧ R.rest = r.rest) ∧
    (∀ R, c.readServerHeader script = .ok R ↔
      ∃ r, c.decrypt.readServerHeader script = .ok r ∧
        R.state = { c with decrypt := r.state } ∧ R.result = r.result ∧ R.rest = r.rest) ∧
    (∀ R, s.writeServerHeader size opcode w = .ok R ↔
      ∃ r, s.encrypt.writeServerHeader size opcode w = .ok r ∧
        R.state = { s with encrypt := r.state } ∧ R.result = r.result ∧ R.rest = r.rest) ∧
    (∀ R, s.readClientHeader script = .ok R ↔
      ∃ r, wServerReadHeader s.decrypt script = .ok r ∧
        R.state = { s with decrypt := r.state } ∧ R.result = r.result ∧ R.rest = r.rest) := by
  have hc := C11_wrath_facade_eq_half_client c
  have hs := C11_wrath_facade_eq_half_server s
  rw [hc.2.2.2.1 size opcode w, hc.2.2.2.2.2.2 script, hs.2.2.2.1 size opcode w, hs.2.2.2.2.2 script]
  simp only [Out.mapOk_eq_ok_iff]
  refine ⟨fun R => ?_, fun R => ?_, fun R => ?_, fun R => ?_⟩ <;>
  · constructor
    · rintro ⟨r, h1, h2⟩
      exact ⟨r, h1, by rw [h2], by rw [h2], by rw [h2]⟩
    · rintro ⟨r, h1, h2, h3, h4⟩
      refine ⟨r, h1, ?_⟩
      cases R
      simp only at h2 h3 h4
      rw [h2, h3, h4]

/-- non-vacuity of the panic clauses: a half whose RC4 state array is too short panics, and the
    facade reports exactly that panic -/
example : ∃ p, (WClientCrypto.mk ⟨⟨#[], 0, 0⟩, []⟩ ⟨#[], 0, 0⟩).encryptData [1] = .panic p ∧
    (Rc4.mk #[] 0 0).apply [1] = .panic p := ⟨_, rfl, rfl⟩

/-! ## split -/

/-- **split halves are literally the two fields** of both Wrath objects, so using a split half *is*
    using the half the facade delegates to -/
theorem C11_wrath_split_is_fields (c : WClientCrypto) (s : WServerCrypto) :
    c.split = (c.encrypt, c.decrypt) ∧ s.split = (s.encrypt, s.decrypt) := ⟨rfl, rfl⟩

/-! ## failed reads through the facade -/

/-- **a failed read through the facade leaves the whole combined object as it was**: if `read_exact`
    fails within the first 4 bytes (`ClientCrypto::read_and_decrypt_server_header`) / within the 6
    bytes (`ServerCrypto::read_and_decrypt_client_header`) — whatever the reason, wherever — the
    facade reports the reader's error, has consumed the script as far as `read_exact` did, and returns
    the *same* object `c` (both halves: encrypter, RC4 decrypter state and saved 4-byte header) -/
theorem C11_wrath_failed_read_facade (script rest : List REv) (k : IoKind) :
    (∀ c : WClientCrypto, readExact script 4 [] = (.error k, rest) →
      c.readServerHeader script = .ok ⟨c, .error k, rest⟩) ∧
    (∀ s : WServerCrypto, readExact script 6 [] = (.error k, rest) →
      s.readClientHeader script = .ok ⟨s, .error k, rest⟩) := by
  constructor
  · intro c hr
    rw [(C11_wrath_facade_eq_half_client c).2.2.2.2.2.2 script,
      C11_failed_read_wrath_client c.decrypt script rest k hr]
    rfl
  · intro s hr
    rw [(C11_wrath_facade_eq_half_server s).2.2.2.2.2 script,
      C11_failed_read_wrath_server s.decrypt script rest k hr]
    rfl

/-- **injected at every byte offset, for every error kind**: the reader delivers fewer than 4 / 6
    bytes (fragmented and interrupted at will: `pre` is a benign prefix), then fails with `ev`; the
    facade reports that event's kind, the combined object is unchanged, and the script has been
    consumed exactly up to the failing event -/
theorem C11_wrath_failed_read_facade_at_offset (pre tail : List REv) (ev : REv) (k : IoKind)
    (hb : ∀ x ∈ pre, x.benign = true) (hk : ev.failKind = some k) :
    (∀ c : WClientCrypto, (dataOf pre).length < 4 →
      c.readServerHeader (pre ++ ev :: tail) = .ok ⟨c, .error k, tail⟩) ∧
    (∀ s : WServerCrypto, (dataOf pre).length < 6 →
      s.readClientHeader (pre ++ ev :: tail) = .ok ⟨s, .error k, tail⟩) :=
  ⟨fun c hn => (C11_wrath_failed_read_facade _ _ k).1 c (readExact_fail_stop pre tail ev 4 k [] hb hn hk),
   fun s hn => (C11_wrath_failed_read_facade _ _ k).2 s (readExact_fail_stop pre tail ev 6 k [] hb hn hk)⟩

/-- non-vacuity: three bytes in two fragments with an interruption in between, then error kind 7 -/
example (c : WClientCrypto) (s : WServerCrypto) :
    c.readServerHeader [.data [1], .interrupted, .data [2, 3], .err 7, .data [4, 5]]
      = .ok ⟨c, .error 7, [.data [4, 5]]⟩ ∧
    s.readClientHeader [.data [1], .interrupted, .data [2, 3], .err 7, .data [4, 5]]
      = .ok ⟨s, .error 7, [.data [4, 5]]⟩ :=
  have h := C11_wrath_failed_read_facade_at_offset [.data [1], .interrupted, .data [2, 3]] [.data [4, 5]]
    (.err 7) 7 (by decide) rfl
  ⟨h.1 c (by decide), h.2 s (by decide)⟩

end WowSrp
