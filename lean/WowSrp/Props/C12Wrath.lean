/-
C12 (continued) — no shared state through the Wrath facades `ClientCrypto` / `ServerCrypto`
(src/wrath_header/mod.rs): every sending-side method returns a combined object whose `decrypt`
half is the old one, every receiving-side method one whose `encrypt` half is the old one — for the
raw data methods, the typed header helpers and the Read/Write wrappers alike.
-/
import WowSrp.Props.C12
import WowSrp.Lemmas.MapOk
namespace WowSrp

/-- **Wrath facades: a call in one direction returns an object whose other half is the old one.**
    Sending side (`encrypt`, `encrypt_client_header` / `encrypt_server_header`,
    `write_encrypted_client_header` / `write_encrypted_server_header`): `.decrypt` unchanged — for the
    client that is the RC4 decrypter *and* its saved 4-byte header. Receiving side (`decrypt`,
    `attempt_decrypt_server_header`, `decrypt_large_server_header`, `decrypt_client_header`,
    `read_and_decrypt_server_header` / `read_and_decrypt_client_header`): `.encrypt` unchanged — for
    the server that is the RC4 encrypter *and* its 5-byte header buffer. The I/O wrappers are covered
    whatever their `io::Result` is (success or error). -/
theorem C12_no_shared_state_wrath_facade :
    -- ClientCrypto, sending
    (∀ (c c' : WClientCrypto) d out, c.encryptData d = .ok (c', out) → c'.decrypt = c.decrypt) ∧
    (∀ (c c' : WClientCrypto) size opcode out,
      c.encryptClientHeader size opcode = .ok (c', out) → c'.decrypt = c.decrypt) ∧
    (∀ (c : WClientCrypto) size opcode script R,
      c.writeClientHeader size opcode script = .ok R → R.state.decrypt = c.decrypt) ∧
    -- ClientCrypto, receiving
    (∀ (c c' : WClientCrypto) d out, c.decryptData d = .ok (c', out) → c'.encrypt = c.encrypt) ∧
    (∀ (c c' : WClientCrypto) buf a, c.attempt buf = .ok (c', a) → c'.encrypt = c.encrypt) ∧
    (∀ (c c' : WClientCrypto) byte hdr, c.decryptLarge byte = .ok (c', hdr) → c'.encrypt = c.encrypt) ∧
    (∀ (c : WClientCrypto) script R,
      c.readServerHeader script = .ok R → R.state.encrypt = c.encrypt) ∧
    -- ServerCrypto, sending
    (∀ (s s' : WServerCrypto) d out, s.encryptData d = .ok (s', out) → s'.decrypt = s.decrypt) ∧
    (∀ (s s' : WServerCrypto) size opcode out,
      s.encryptServerHeader size opcode = .ok (s', out) → s'.decrypt = s.decrypt) ∧
    (∀ (s : WServerCrypto) size opcode script R,
      s.writeServerHeader size opcode script = .ok R → R.state.decrypt = s.decrypt) ∧
    -- ServerCrypto, receiving
    (∀ (s s' : WServerCrypto) d out, s.decryptData d = .ok (s', out) → s'.encrypt = s.encrypt) ∧
    (∀ (s s' : WServerCrypto) d hdr, s.decryptClientHeader d = .ok (s', hdr) → s'.encrypt = s.encrypt) ∧
    (∀ (s : WServerCrypto) script R,
      s.readClientHeader script = .ok R → R.state.encrypt = s.encrypt) := by
  refine ⟨?_, ?_, ?_, ?_, ?_, ?_, ?_, ?_, ?_, ?_, ?_, ?_, ?_⟩
  · intro c c' d out h
    have hm : (c.encrypt.apply d).mapOk (fun p => ({ c with encrypt := p.1 }, p.2)) = .ok (c', out) := by
      rw [← h]; unfold WClientCrypto.encryptData; cases c.encrypt.apply d <;> rfl
    exact mapOk_pair_untouched _ (fun x => { c with encrypt := x }) (·.decrypt) _ (fun _ => rfl) _ _ hm
  · intro c c' s o out h
    have hm : (wClientEncryptHeader c.encrypt s o).mapOk (fun p => ({ c with encrypt := p.1 }, p.2))
        = .ok (c', out) := by
      rw [← h]; unfold WClientCrypto.encryptClientHeader
      cases wClientEncryptHeader c.encrypt s o <;> rfl
    exact mapOk_pair_untouched _ (fun x => { c with encrypt := x }) (·.decrypt) _ (fun _ => rfl) _ _ hm
  · intro c s o w R h
    have hm : (wClientWriteHeader c.encrypt s o w).mapOk
        (fun r => (⟨{ c with encrypt := r.state }, r.result, r.rest⟩ : IoRes WClientCrypto Unit Bytes))
        = .ok R := by
      rw [← h]; unfold WClientCrypto.writeClientHeader
      cases wClientWriteHeader c.encrypt s o w <;> rfl
    exact mapOk_io_untouched _ (fun x => { c with encrypt := x }) (·.decrypt) _ (fun _ => rfl) _ hm
  · intro c c' d out h
    have hm : (c.decrypt.decrypt d).mapOk (fun p => ({ c with decrypt := p.1 }, p.2)) = .ok (c', out) := by
      rw [← h]; unfold WClientCrypto.decryptData; cases c.decrypt.decrypt d <;> rfl
    exact mapOk_pair_untouched _ (fun x => { c with decrypt := x }) (·.encrypt) _ (fun _ => rfl) _ _ hm
  · intro c c' b a h
    have hm : (c.decrypt.attempt b).mapOk (fun p => ({ c with decrypt := p.1 }, p.2)) = .ok (c', a) := by
      rw [← h]; unfold WClientCrypto.attempt; cases c.decrypt.attempt b <;> rfl
    exact mapOk_pair_untouched _ (fun x => { c with decrypt := x }) (·.encrypt) _ (fun _ => rfl) _ _ hm
  · intro c c' b hdr h
    have hm : (c.decrypt.decryptLarge b).mapOk (fun p => ({ c with decrypt := p.1 }, p.2))
        = .ok (c', hdr) := by
      rw [← h]; unfold WClientCrypto.decryptLarge; cases c.decrypt.decryptLarge b <;> rfl
    exact mapOk_pair_untouched _ (fun x => { c with decrypt := x }) (·.encrypt) _ (fun _ => rfl) _ _ hm
  · intro c sc R h
    have hm : (c.decrypt.readServerHeader sc).mapOk
        (fun r => (⟨{ c with decrypt := r.state }, r.result, r.rest⟩ :
          IoRes WClientCrypto (Nat × Nat) (List REv))) = .ok R := by
      rw [← h]; unfold WClientCrypto.readServerHeader
      cases c.decrypt.readServerHeader sc <;> rfl
    exact mapOk_io_untouched _ (fun x => { c with decrypt := x }) (·.encrypt) _ (fun _ => rfl) _ hm
  · intro s s' d out h
    have hm : (s.encrypt.encrypt d).mapOk (fun p => ({ s with encrypt := p.1 }, p.2)) = .ok (s', out) := by
      rw [← h]; unfold WServerCrypto.encryptData; cases s.encrypt.encrypt d <;> rfl
    exact mapOk_pair_untouched _ (fun x => { s with encrypt := x }) (·.decrypt) _ (fun _ => rfl) _ _ hm
  · intro s s' sz o out h
    have hm : (s.encrypt.encryptServerHeader sz o).mapOk (fun p => ({ s with encrypt := p.1 }, p.2))
        = .ok (s', out) := by
      rw [← h]; unfold WServerCrypto.encryptServerHeader
      cases s.encrypt.encryptServerHeader sz o <;> rfl
    exact mapOk_pair_untouched _ (fun x => { s with encrypt := x }) (·.decrypt) _ (fun _ => rfl) _ _ hm
  · intro s sz o w R h
    have hm : (s.encrypt.writeServerHeader sz o w).mapOk
        (fun r => (⟨{ s with encrypt := r.state }, r.result, r.rest⟩ : IoRes WServerCrypto Unit Bytes))
        = .ok R := by
      rw [← h]; unfold WServerCrypto.writeServerHeader
      cases s.encrypt.writeServerHeader sz o w <;> rfl
    exact mapOk_io_untouched _ (fun x => { s with encrypt := x }) (·.decrypt) _ (fun _ => rfl) _ hm
  · intro s s' d out h
    have hm : (s.decrypt.apply d).mapOk (fun p => ({ s with decrypt := p.1 }, p.2)) = .ok (s', out) := by
      rw [← h]; unfold WServerCrypto.decryptData; cases s.decrypt.apply d <;> rfl
    exact mapOk_pair_untouched _ (fun x => { s with decrypt := x }) (·.encrypt) _ (fun _ => rfl) _ _ hm
  · intro s s' d hdr h
    have hm : (wServerDecryptHeader s.decrypt d).mapOk (fun p => ({ s with decrypt := p.1 }, p.2))
        = .ok (s', hdr) := by
      rw [← h]; unfold WServerCrypto.decryptClientHeader
      cases wServerDecryptHeader s.decrypt d <;> rfl
    exact mapOk_pair_untouched _ (fun x => { s with decrypt := x }) (·.encrypt) _ (fun _ => rfl) _ _ hm
  · intro s sc R h
    have hm : (wServerReadHeader s.decrypt sc).mapOk
        (fun r => (⟨{ s with decrypt := r.state }, r.result, r.rest⟩ :
          IoRes WServerCrypto (Nat × Nat) (List REv))) = .ok R := by
      rw [← h]; unfold WServerCrypto.readClientHeader
      cases wServerReadHeader s.decrypt sc <;> rfl
    exact mapOk_io_untouched _ (fun x => { s with decrypt := x }) (·.encrypt) _ (fun _ => rfl) _ hm

/-- non-vacuity: the facade calls do succeed (so the hypotheses above are satisfiable) — the read
    wrappers on a reader that fails at once, for arbitrary objects … -/
example (c : WClientCrypto) (s : WServerCrypto) :
    (∃ R, c.readServerHeader [.err 3] = .ok R) ∧ (∃ R, s.readClientHeader [.err 3] = .ok R) := by
  have h4 : readExact [.err 3] 4 [] = (.error 3, []) :=
    readExact_fail_stop [] [] (.err 3) 4 3 [] (by simp) (by decide) rfl
  have h6 : readExact [.err 3] Gen.wrathClientHeaderLength [] = (.error 3, []) :=
    readExact_fail_stop [] [] (.err 3) 6 3 [] (by simp) (by decide) rfl
  constructor
  · refine ⟨⟨c, .error 3, []⟩, ?_⟩
    simp only [WClientCrypto.readServerHeader, WClientDec.readServerHeader, h4]
    rfl
  · refine ⟨⟨s, .error 3, []⟩, ?_⟩
    simp only [WServerCrypto.readClientHeader, wServerReadHeader, h6]
    rfl

/-- … and a data call on a concrete object with a full 256-byte RC4 state (identity permutation) -/
example :
    ((WClientCrypto.mk ⟨⟨(Array.range 256).map UInt8.ofNat, 0, 0⟩, [0, 0, 0, 0]⟩
        ⟨(Array.range 256).map UInt8.ofNat, 0, 0⟩).encryptData [1, 2, 3]).mapOk (·.2) = .ok [3, 7, 4] ∧
    ((WServerCrypto.mk ⟨(Array.range 256).map UInt8.ofNat, 0, 0⟩
        ⟨⟨(Array.range 256).map UInt8.ofNat, 0, 0⟩, [0, 0, 0, 0, 0]⟩).decryptData [1, 2, 3]).mapOk (·.2)
      = .ok [3, 7, 4] := by
  decide +kernel

end WowSrp
