/-
C05 — reconnect proofs verify only against the current, single-use challenge.
Model: `SrpServer.verifyReconnectionAttempt`, `SrpClient.calculateReconnectValues`,
`calculateReconnectProof` (WowSrp/Model/Srp.lean). All theorems hold for an arbitrary `C : Crypto`;
no property of SHA-1 is assumed anywhere (DESIGN §2.2): "accepted although a field differs"
theorems hand back an explicit collision pair.

Residual, stated and not hidden: the server challenge is whatever the RNG draws. If the RNG hands
out the same 128-bit challenge at two positions of a history, a pair captured at the first position
is the *correct* answer at the second one and is accepted (`C05_history` says exactly that). That
`ThreadRng` does not repeat is outside any model (C15).
-/
import WowSrp.Model.Srp
import WowSrp.Model.Rng
import WowSrp.Lemmas.Layout
namespace WowSrp
open WowSrp.Layout

/-- one reconnect attempt as the server sees it: the client's challenge bytes, the presented proof,
    and the 16 bytes the server draws *after* that attempt -/
abbrev Attempt := Bytes × Bytes × Bytes

/-- a history of reconnect attempts against one server object: the verdict of every attempt -/
def runHistory (C : Crypto) : SrpServer → List Attempt → List Bool
  | _, [] => []
  | s, (cd, proof, draw) :: rest =>
    let r := s.verifyReconnectionAttempt C cd proof draw
    r.1 :: runHistory C r.2 rest

/-- the server object after a history -/
def stateAfter (C : Crypto) : SrpServer → List Attempt → SrpServer
  | s, [] => s
  | s, (cd, proof, draw) :: rest => stateAfter C (s.verifyReconnectionAttempt C cd proof draw).2 rest

/-- the challenge on offer before attempt `i`: the one set at login for `i = 0`, otherwise the draw
    made after attempt `i - 1` -/
def challengeOnOffer (s : SrpServer) (h : List Attempt) : (i : Nat) → i < h.length → Bytes
  | 0, _ => s.reconnectChallengeData
  | j+1, hj => (h[j]'(Nat.lt_of_succ_lt hj)).2.2

/-- the same as a list: login challenge, then every draw -/
def offers (s : SrpServer) (h : List Attempt) : List Bytes :=
  s.reconnectChallengeData :: h.map (fun a => a.2.2)

/-- **verdict**: the attempt is accepted exactly when the presented proof equals
    SHA-1(username | client challenge | server challenge on offer | session key); the comparison is
    over the whole byte list -/
theorem C05_verdict (C : Crypto) (s : SrpServer) (cd proof draw : Bytes) :
    (s.verifyReconnectionAttempt C cd proof draw).1 =
      (calculateReconnectProof C s.username.asRef cd s.reconnectChallengeData s.sessionKey == proof) := rfl

/-- the proof function is the documented hash of the documented layout -/
theorem C05_proof_layout (C : Crypto) (U cd sd K : Bytes) :
    calculateReconnectProof C U cd sd K = C.sha1 (U ++ cd ++ sd ++ K) := rfl

/-- the verdict as a proposition -/
theorem C05_verdict_iff (C : Crypto) (s : SrpServer) (cd proof draw : Bytes) :
    (s.verifyReconnectionAttempt C cd proof draw).1 = true ↔
      proof = C.sha1 (s.username.asRef ++ cd ++ s.reconnectChallengeData ++ s.sessionKey) := by
  simp only [SrpServer.verifyReconnectionAttempt, calculateReconnectProof, beq_iff_eq]
  exact eq_comm

/-- **refresh**: whatever the verdict, the challenge is replaced by the new draw; username and
    session key stay -/
theorem C05_refresh (C : Crypto) (s : SrpServer) (cd proof draw : Bytes) :
    (s.verifyReconnectionAttempt C cd proof draw).2 = { s with reconnectChallengeData := draw } := rfl

theorem runHistory_length (C : Crypto) (s : SrpServer) (h : List Attempt) :
    (runHistory C s h).length = h.length := by
  induction h generalizing s with
  | nil => rfl
  | cons a rest ih => obtain ⟨cd, proof, draw⟩ := a; simp [runHistory, ih]

/-- the whole verdict list at once: attempt `i` is judged against offer `i`, where the offers are the
    login challenge followed by the draws -/
theorem C05_history_list (C : Crypto) (s : SrpServer) (h : List Attempt) :
    runHistory C s h =
      List.zipWith (fun (a : Attempt) (c : Bytes) =>
        calculateReconnectProof C s.username.asRef a.1 c s.sessionKey == a.2.1) h (offers s h) := by
  induction h generalizing s with
  | nil => rfl
  | cons a rest ih =>
    obtain ⟨cd, proof, draw⟩ := a
    simp only [runHistory, offers, List.map_cons, List.zipWith_cons_cons]
    rw [ih]
    rfl

/-- **history**: in every history, attempt `i` is accepted iff its proof is the hash over the
    challenge on offer before attempt `i` — the login challenge for `i = 0`, the draw made after
    attempt `i - 1` otherwise — together with this attempt's client bytes and the server's username
    and session key. What happened at the other positions is irrelevant. -/
theorem C05_history (C : Crypto) (s : SrpServer) (h : List Attempt) (i : Nat) (hi : i < h.length) :
    (runHistory C s h)[i]'(by rw [runHistory_length]; exact hi) = true ↔
      h[i].2.1 = C.sha1 (s.username.asRef ++ h[i].1 ++ challengeOnOffer s h i hi ++ s.sessionKey) := by
  induction h generalizing s i with
  | nil => simp at hi
  | cons e rest ih =>
    obtain ⟨cd, proof, draw⟩ := e
    cases i with
    | zero =>
      simp only [runHistory, List.getElem_cons_zero, challengeOnOffer]
      exact C05_verdict_iff C s cd proof draw
    | succ j =>
      have hj : j < rest.length := by simpa using hi
      simp only [runHistory, List.getElem_cons_succ]
      rw [ih _ j hj]
      cases j with
      | zero => simp [challengeOnOffer, SrpServer.verifyReconnectionAttempt]
      | succ k => simp [challengeOnOffer, SrpServer.verifyReconnectionAttempt]

/-- after any history the server holds the same username and session key, and the challenge is the
    last draw (the login challenge if there was no attempt) -/
theorem C05_state_after (C : Crypto) (s : SrpServer) (h : List Attempt) :
    stateAfter C s h =
      { s with reconnectChallengeData := (offers s h).getLast (by simp [offers]) } := by
  induction h generalizing s with
  | nil => rfl
  | cons a rest ih =>
    obtain ⟨cd, proof, draw⟩ := a
    simp only [stateAfter, ih, offers, List.map_cons, SrpServer.verifyReconnectionAttempt]
    simp [List.getLast_cons]

/-- **the legitimate client reconnects forever**: a client holding the same username text and
    session key, answering the challenge on offer with any client challenge bytes `cd` of its own, is
    accepted at every position of every history — whatever was presented, accepted or refused, at the
    other positions -/
theorem C05_legit_forever (C : Crypto) (s : SrpServer) (c : SrpClient) (h : List Attempt)
    (i : Nat) (hi : i < h.length) (cd : Bytes)
    (hu : c.username.asRef = s.username.asRef) (hk : c.sessionKey = s.sessionKey)
    (hans : (h[i].1, h[i].2.1) = c.calculateReconnectValues C (challengeOnOffer s h i hi) cd) :
    (runHistory C s h)[i]'(by rw [runHistory_length]; exact hi) = true := by
  rw [C05_history]
  simp only [SrpClient.calculateReconnectValues, calculateReconnectProof, Prod.mk.injEq] at hans
  rw [hans.2, hans.1, hu, hk]

/-- in particular a run of `n` honest reconnects in a row is accepted `n` times -/
theorem C05_legit_run (C : Crypto) (s : SrpServer) (c : SrpClient)
    (hu : c.username.asRef = s.username.asRef) (hk : c.sessionKey = s.sessionKey)
    (rounds : List (Bytes × Bytes)) :   -- (client challenge, server's next draw) per round
    ∀ s' : SrpServer, s'.username = s.username → s'.sessionKey = s.sessionKey →
    runHistory C s' (List.zipWith (fun (r : Bytes × Bytes) (ch : Bytes) =>
        ((c.calculateReconnectValues C ch r.1).1, (c.calculateReconnectValues C ch r.1).2, r.2))
        rounds (s'.reconnectChallengeData :: rounds.map (·.2)))
      = List.replicate rounds.length true := by
  induction rounds with
  | nil => intro s' _ _; rfl
  | cons r rest ih =>
    intro s' h1 h2
    simp only [List.map_cons, List.zipWith_cons_cons, runHistory, List.length_cons,
      List.replicate_succ]
    congr 1
    · simp [SrpServer.verifyReconnectionAttempt, SrpClient.calculateReconnectValues, hu, hk, h1, h2]
    · exact ih { s' with reconnectChallengeData := r.2 } h1 h2

/-- **any changed proof bit is refused outright** (no hash reasoning): a presented proof different
    from the expected value — in particular each of its 160 single-bit changes — gets verdict `false` -/
theorem C05_changed_proof_refused (C : Crypto) (s : SrpServer) (cd proof' draw : Bytes)
    (hne : proof' ≠ calculateReconnectProof C s.username.asRef cd s.reconnectChallengeData s.sessionKey) :
    (s.verifyReconnectionAttempt C cd proof' draw).1 = false := by
  simp only [SrpServer.verifyReconnectionAttempt, beq_eq_false_iff_ne]
  exact fun h => hne h.symm

theorem C05_flipped_proof_refused (C : Crypto) (s : SrpServer) (cd draw : Bytes) (i : Nat)
    (hi : i < 8 * (calculateReconnectProof C s.username.asRef cd s.reconnectChallengeData s.sessionKey).length) :
    (s.verifyReconnectionAttempt C cd
      (flipBit (calculateReconnectProof C s.username.asRef cd s.reconnectChallengeData s.sessionKey) i) draw).1
      = false :=
  C05_changed_proof_refused C s cd _ draw (flipBit_ne _ i hi)

/-- with real output lengths that is 160 bit positions -/
theorem C05_flipped_proof_refused_160 (C : Crypto) (hC : C.WF) (s : SrpServer) (cd draw : Bytes) (i : Nat)
    (hi : i < 160) :
    (s.verifyReconnectionAttempt C cd
      (flipBit (calculateReconnectProof C s.username.asRef cd s.reconnectChallengeData s.sessionKey) i) draw).1
      = false := by
  apply C05_flipped_proof_refused
  rw [calculateReconnectProof, hC.sha1_len]; omega

/-- **acceptance of a proof made from other inputs exhibits a collision** (general form): the
    presented proof was computed as the reconnect hash over (U', cd', c', K'); the server, holding
    (U, K), challenge `c` on offer, is handed client bytes `cd`, and accepts. If the two quadruples
    differ in any component, the two hash inputs are an explicit SHA-1 collision pair.
    Widths as in the Rust types: challenges 16 bytes, session keys 40 bytes; usernames of any length. -/
theorem C05_other_inputs_collision (C : Crypto) (s : SrpServer) (cd draw U' cd' c' K' : Bytes)
    (hcd : cd.length = 16) (hcd' : cd'.length = 16)
    (hc : s.reconnectChallengeData.length = 16) (hc' : c'.length = 16)
    (hK : s.sessionKey.length = 40) (hK' : K'.length = 40)
    (hdiff : (U', cd', c', K') ≠ (s.username.asRef, cd, s.reconnectChallengeData, s.sessionKey))
    (hacc : (s.verifyReconnectionAttempt C cd (calculateReconnectProof C U' cd' c' K') draw).1 = true) :
    ∃ m₁ m₂, m₁ = s.username.asRef ++ cd ++ s.reconnectChallengeData ++ s.sessionKey ∧
      m₂ = U' ++ cd' ++ c' ++ K' ∧ m₁ ≠ m₂ ∧ C.sha1 m₁ = C.sha1 m₂ := by
  refine ⟨_, _, rfl, rfl, ?_, ?_⟩
  · intro heq
    obtain ⟨h1, h2, h3, h4⟩ :=
      layout4_inj (hcd.trans hcd'.symm) (hc.trans hc'.symm) (hK.trans hK'.symm) heq
    exact hdiff (by rw [h1, h2, h3, h4])
  · rw [C05_verdict_iff] at hacc
    exact hacc.symm

/-- **replay**: a captured pair `(cd, proof)` that was the correct answer while challenge `c_j` was on
    offer is presented again while a different challenge `c_i` is on offer. If it is accepted, the two
    hash inputs below are different byte strings with the same SHA-1. -/
theorem C05_replay (C : Crypto) (s : SrpServer) (cd proof draw c_j : Bytes)
    (hcd : cd.length = 16) (hci : s.reconnectChallengeData.length = 16) (hcj : c_j.length = 16)
    (hK : s.sessionKey.length = 40)
    (hcaptured : proof = calculateReconnectProof C s.username.asRef cd c_j s.sessionKey)
    (hne : s.reconnectChallengeData ≠ c_j)
    (hacc : (s.verifyReconnectionAttempt C cd proof draw).1 = true) :
    ∃ m₁ m₂, m₁ = s.username.asRef ++ cd ++ s.reconnectChallengeData ++ s.sessionKey ∧
      m₂ = s.username.asRef ++ cd ++ c_j ++ s.sessionKey ∧ m₁ ≠ m₂ ∧ C.sha1 m₁ = C.sha1 m₂ := by
  subst hcaptured
  exact C05_other_inputs_collision C s cd draw _ cd c_j _ hcd hcd hci hcj hK hK
    (by intro h; simp only [Prod.mk.injEq] at h; exact hne h.2.2.1.symm) hacc

/-- replay inside a history: the pair presented at position `j` was correct there; the very same
    pair is presented again at position `i`, where another challenge is on offer, and is accepted ⇒
    explicit collision pair. (If the two challenges are equal — the RNG repeated a 128-bit value —
    the replay *is* accepted: see the header comment.) -/
theorem C05_replay_in_history (C : Crypto) (s : SrpServer) (h : List Attempt) (i j : Nat)
    (hi : i < h.length) (hj : j < h.length)
    (hsame : h[i].1 = h[j].1 ∧ h[i].2.1 = h[j].2.1)
    (hci : (challengeOnOffer s h i hi).length = 16) (hcj : (challengeOnOffer s h j hj).length = 16)
    (hne : challengeOnOffer s h i hi ≠ challengeOnOffer s h j hj)
    (haccj : (runHistory C s h)[j]'(by rw [runHistory_length]; exact hj) = true)
    (hacci : (runHistory C s h)[i]'(by rw [runHistory_length]; exact hi) = true) :
    ∃ m₁ m₂, m₁ = s.username.asRef ++ h[j].1 ++ challengeOnOffer s h i hi ++ s.sessionKey ∧
      m₂ = s.username.asRef ++ h[j].1 ++ challengeOnOffer s h j hj ++ s.sessionKey ∧
      m₁ ≠ m₂ ∧ C.sha1 m₁ = C.sha1 m₂ := by
  rw [C05_history C s h j hj] at haccj
  rw [C05_history C s h i hi] at hacci
  rw [hsame.1, hsame.2] at hacci
  refine ⟨_, _, rfl, rfl, ?_, ?_⟩
  · intro heq
    obtain ⟨_, _, h3, _⟩ := layout4_inj rfl (hci.trans hcj.symm) rfl heq
    exact hne h3
  · rw [← hacci, ← haccj]

/-- **wrong session key**: a proof made with another 40-byte key that is accepted ⇒ collision pair -/
theorem C05_wrong_key (C : Crypto) (s : SrpServer) (cd draw K' : Bytes)
    (hcd : cd.length = 16) (hc : s.reconnectChallengeData.length = 16)
    (hK : s.sessionKey.length = 40) (hK' : K'.length = 40) (hne : K' ≠ s.sessionKey)
    (hacc : (s.verifyReconnectionAttempt C cd
      (calculateReconnectProof C s.username.asRef cd s.reconnectChallengeData K') draw).1 = true) :
    ∃ m₁ m₂, m₁ = s.username.asRef ++ cd ++ s.reconnectChallengeData ++ s.sessionKey ∧
      m₂ = s.username.asRef ++ cd ++ s.reconnectChallengeData ++ K' ∧ m₁ ≠ m₂ ∧ C.sha1 m₁ = C.sha1 m₂ :=
  C05_other_inputs_collision C s cd draw _ cd _ K' hcd hcd hc hc hK hK'
    (by intro h; simp only [Prod.mk.injEq] at h; exact hne h.2.2.2) hacc

/-- **wrong username** (of any length, also one that is a prefix or an extension of the right one):
    accepted ⇒ collision pair -/
theorem C05_wrong_username (C : Crypto) (s : SrpServer) (cd draw U' : Bytes)
    (hcd : cd.length = 16) (hc : s.reconnectChallengeData.length = 16)
    (hK : s.sessionKey.length = 40) (hne : U' ≠ s.username.asRef)
    (hacc : (s.verifyReconnectionAttempt C cd
      (calculateReconnectProof C U' cd s.reconnectChallengeData s.sessionKey) draw).1 = true) :
    ∃ m₁ m₂, m₁ = s.username.asRef ++ cd ++ s.reconnectChallengeData ++ s.sessionKey ∧
      m₂ = U' ++ cd ++ s.reconnectChallengeData ++ s.sessionKey ∧ m₁ ≠ m₂ ∧ C.sha1 m₁ = C.sha1 m₂ :=
  C05_other_inputs_collision C s cd draw U' cd _ _ hcd hcd hc hc hK hK
    (by intro h; simp only [Prod.mk.injEq] at h; exact hne h.1) hacc

/-- **changed client challenge**: the proof was made over `cd'` but the server is handed `cd ≠ cd'`
    (e.g. one bit of the client challenge changed in transit): accepted ⇒ collision pair -/
theorem C05_changed_client_data (C : Crypto) (s : SrpServer) (cd cd' draw : Bytes)
    (hcd : cd.length = 16) (hcd' : cd'.length = 16) (hc : s.reconnectChallengeData.length = 16)
    (hK : s.sessionKey.length = 40) (hne : cd' ≠ cd)
    (hacc : (s.verifyReconnectionAttempt C cd
      (calculateReconnectProof C s.username.asRef cd' s.reconnectChallengeData s.sessionKey) draw).1 = true) :
    ∃ m₁ m₂, m₁ = s.username.asRef ++ cd ++ s.reconnectChallengeData ++ s.sessionKey ∧
      m₂ = s.username.asRef ++ cd' ++ s.reconnectChallengeData ++ s.sessionKey ∧
      m₁ ≠ m₂ ∧ C.sha1 m₁ = C.sha1 m₂ :=
  C05_other_inputs_collision C s cd draw _ cd' _ _ hcd hcd' hc hc hK hK
    (by intro h; simp only [Prod.mk.injEq] at h; exact hne h.2.1) hacc

/-! ### replay and the RNG stream: the distinctness hypothesis is about the draws

`C05_replay_in_history` has the hypothesis `hne : challengeOnOffer … i ≠ challengeOnOffer … j`. Here the
challenges are tied to the model of the RNG (`Model/Rng.lean`, `drawBytes`): after every attempt —
whatever the verdict — the server takes the next `Gen.reconnectDataLength` = 16 bytes from the front of
the stream (`ReconnectData::randomize_data`). The draws of a history of `n` attempts are therefore the
first `n` consecutive 16-byte segments of the stream, `r₀, r₁, …`, and the challenge on offer before
attempt `i` is the login challenge for `i = 0` and `r_(i-1)` otherwise. -/

/-- `ReconnectData::randomize_data`: the next `Gen.reconnectDataLength` bytes of the RNG stream -/
def drawChallenge (rng : Bytes) : Option (Bytes × Bytes) := drawBytes Gen.reconnectDataLength rng

/-- a list of presented pairs `(client challenge bytes, proof)` run against one server object and the
    RNG stream, in program order: compare, then draw the next challenge from the front of the stream.
    Result: the verdicts and the unused rest of the stream; `none` = the stream ran out -/
def runHistoryRng (C : Crypto) : SrpServer → List (Bytes × Bytes) → Bytes → Option (List Bool × Bytes)
  | _, [], rng => some ([], rng)
  | s, (cd, proof) :: rest, rng =>
    match drawChallenge rng with
    | none => none
    | some (draw, rng') =>
      let r := s.verifyReconnectionAttempt C cd proof draw
      (runHistoryRng C r.2 rest rng').map fun (vs, out) => (r.1 :: vs, out)

/-- the first `n` consecutive 16-byte segments of a stream: `r₀ = bytes 0‥15`, `r₁ = bytes 16‥31`, … -/
def drawList : Nat → Bytes → List Bytes
  | 0, _ => []
  | n+1, rng => rng.take 16 :: drawList n (rng.drop 16)

/-- presented pairs together with the draw made after each of them: an `Attempt` history -/
def withDraws (pairs : List (Bytes × Bytes)) (draws : List Bytes) : List Attempt :=
  List.zipWith (fun p d => (p.1, p.2, d)) pairs draws

/-- tie to the source: a reconnect challenge is 16 bytes (regenerated on every run) -/
theorem C05_challenge_width : Gen.reconnectDataLength = 16 := by decide

@[simp] theorem drawList_length (n : Nat) (rng : Bytes) : (drawList n rng).length = n := by
  induction n generalizing rng with
  | zero => rfl
  | succ n ih => simp [drawList, ih]

/-- **the draws are the stream's segments**: draw `k` is bytes `16k ‥ 16k+15` of the stream -/
theorem C05_draws_are_segments (n : Nat) (rng : Bytes) (k : Nat) (hk : k < n) :
    (drawList n rng)[k]? = some ((rng.drop (16 * k)).take 16) := by
  induction n generalizing rng k with
  | zero => omega
  | succ n ih =>
    cases k with
    | zero => simp [drawList]
    | succ k =>
      simp only [drawList, List.getElem?_cons_succ]
      rw [ih (rng.drop 16) k (by omega), List.drop_drop]
      congr 3
      omega

/-- when the stream is long enough every draw has exactly 16 bytes -/
theorem C05_draws_width (n : Nat) (rng : Bytes) (hlen : 16 * n ≤ rng.length) :
    ∀ d ∈ drawList n rng, d.length = 16 := by
  induction n generalizing rng with
  | zero => intro d hd; simp [drawList] at hd
  | succ n ih =>
    intro d hd
    simp only [drawList, List.mem_cons] at hd
    rcases hd with rfl | hd
    · rw [List.length_take]; omega
    · exact ih (rng.drop 16) (by rw [List.length_drop]; omega) d hd

/-- **link to the `Attempt` histories of `runHistory`**: running `n` presented pairs against the stream
    succeeds iff the stream holds `16·n` bytes; the verdicts are those of the history whose draws are the
    first `n` segments of the stream, and exactly `16·n` bytes are consumed, from the front -/
theorem C05_history_rng (C : Crypto) (s : SrpServer) (pairs : List (Bytes × Bytes)) (rng : Bytes) :
    runHistoryRng C s pairs rng =
      if rng.length < 16 * pairs.length then none
      else some (runHistory C s (withDraws pairs (drawList pairs.length rng)),
                 rng.drop (16 * pairs.length)) := by
  induction pairs generalizing s rng with
  | nil => simp [runHistoryRng, withDraws, runHistory]
  | cons a rest ih =>
    obtain ⟨cd, proof⟩ := a
    simp only [runHistoryRng, drawChallenge, drawBytes, C05_challenge_width, List.length_cons]
    by_cases hl : rng.length < 16
    · rw [if_pos hl, if_pos (by omega)]
    · rw [if_neg hl]
      simp only
      rw [ih]
      have hd : (rng.drop 16).length = rng.length - 16 := List.length_drop
      by_cases hl2 : rng.length < 16 * (rest.length + 1)
      · rw [if_pos (by omega), if_pos hl2]; rfl
      · rw [if_neg (by omega), if_neg hl2]
        simp only [Option.map_some, drawList, withDraws, List.zipWith_cons_cons, runHistory,
          List.drop_drop]
        congr 3
        omega

/-- the verdict at one position of such a history: it is the comparison of the presented proof with
    the hash over the challenge on offer there -/
theorem runHistory_withDraws_getElem? (C : Crypto) (s : SrpServer) (pairs : List (Bytes × Bytes))
    (draws : List Bytes) (hl : draws.length = pairs.length) (i : Nat) (cd proof c : Bytes)
    (hp : pairs[i]? = some (cd, proof))
    (hc : (s.reconnectChallengeData :: draws)[i]? = some c) :
    (runHistory C s (withDraws pairs draws))[i]? =
      some (calculateReconnectProof C s.username.asRef cd c s.sessionKey == proof) := by
  induction pairs generalizing s draws i with
  | nil => simp at hp
  | cons a rest ih =>
    cases draws with
    | nil => simp at hl
    | cons d ds =>
      obtain ⟨cd0, proof0⟩ := a
      cases i with
      | zero =>
        simp only [List.getElem?_cons_zero, Option.some.injEq, Prod.mk.injEq] at hp hc
        obtain ⟨rfl, rfl⟩ := hp
        subst hc
        simp [withDraws, runHistory, SrpServer.verifyReconnectionAttempt]
      | succ k =>
        simp only [List.getElem?_cons_succ] at hp hc
        simp only [withDraws, List.zipWith_cons_cons, runHistory, List.getElem?_cons_succ]
        have := ih (s.verifyReconnectionAttempt C cd0 proof0 d).2 ds (by simpa using hl) k hp
          (by cases k <;> simpa [SrpServer.verifyReconnectionAttempt] using hc)
        simpa [withDraws, SrpServer.verifyReconnectionAttempt] using this

/-- **a captured pair is never accepted a second time when the draws are distinct** (self-contained:
    the only hypotheses are about the RNG stream and about which pair is presented where).
    `pairs` are the `(client challenge, proof)` pairs presented, in order, to one server object `s`;
    the server's challenges come from the stream `rng` (`runHistoryRng`). If the login challenge and
    the draws `r₀, r₁, …` (the consecutive 16-byte segments of the stream, `drawList`) are pairwise
    distinct, then ANY pair `(cd, proof)` that is accepted at position `i` and presented again at any other
    position `j ≠ i` (earlier or later) is refused there — or the two hash inputs below, which differ
    exactly in the challenge that was on offer, are an explicit SHA-1 collision pair. -/
theorem C05_replay_refused_when_draws_distinct (C : Crypto) (s : SrpServer)
    (pairs : List (Bytes × Bytes)) (rng rest : Bytes) (verdicts : List Bool)
    (hrun : runHistoryRng C s pairs rng = some (verdicts, rest))
    (hdistinct : (s.reconnectChallengeData :: drawList pairs.length rng).Pairwise (· ≠ ·))
    (i j : Nat) (hij : i ≠ j) (cd proof : Bytes)
    (hpi : pairs[i]? = some (cd, proof)) (hpj : pairs[j]? = some (cd, proof))
    (hacc : verdicts[i]? = some true) :
    verdicts[j]? = some false ∨
    ∃ c_i c_j m₁ m₂,
      (s.reconnectChallengeData :: drawList pairs.length rng)[i]? = some c_i ∧
      (s.reconnectChallengeData :: drawList pairs.length rng)[j]? = some c_j ∧ c_i ≠ c_j ∧
      m₁ = s.username.asRef ++ cd ++ c_i ++ s.sessionKey ∧
      m₂ = s.username.asRef ++ cd ++ c_j ++ s.sessionKey ∧ m₁ ≠ m₂ ∧ C.sha1 m₁ = C.sha1 m₂ := by
  rw [C05_history_rng] at hrun
  split at hrun
  · cases hrun
  · simp only [Option.some.injEq, Prod.mk.injEq] at hrun
    obtain ⟨hv, _⟩ := hrun
    subst hv
    have hi : i < pairs.length := by
      rcases Nat.lt_or_ge i pairs.length with h | h
      · exact h
      · rw [List.getElem?_eq_none h] at hpi; cases hpi
    have hj : j < pairs.length := by
      rcases Nat.lt_or_ge j pairs.length with h | h
      · exact h
      · rw [List.getElem?_eq_none h] at hpj; cases hpj
    have hli : i < (s.reconnectChallengeData :: drawList pairs.length rng).length := by
      simp; omega
    have hlj : j < (s.reconnectChallengeData :: drawList pairs.length rng).length := by
      simp; omega
    have hci := List.getElem?_eq_getElem hli
    have hcj := List.getElem?_eq_getElem hlj
    have hne : (s.reconnectChallengeData :: drawList pairs.length rng)[i] ≠
        (s.reconnectChallengeData :: drawList pairs.length rng)[j] := by
      rcases Nat.lt_or_gt_of_ne hij with h | h
      · exact List.pairwise_iff_getElem.1 hdistinct i j hli hlj h
      · exact fun e => List.pairwise_iff_getElem.1 hdistinct j i hlj hli h e.symm
    rw [runHistory_withDraws_getElem? C s pairs _ (drawList_length _ _) i cd proof _ hpi hci] at hacc
    rw [runHistory_withDraws_getElem? C s pairs _ (drawList_length _ _) j cd proof _ hpj hcj]
    simp only [Option.some.injEq, beq_iff_eq] at hacc
    by_cases hb : calculateReconnectProof C s.username.asRef cd
        (s.reconnectChallengeData :: drawList pairs.length rng)[j] s.sessionKey = proof
    · right
      refine ⟨_, _, _, _, hci, hcj, hne, rfl, rfl, ?_, ?_⟩
      · intro heq
        simp only [List.append_assoc] at heq
        exact hne (List.append_cancel_right (List.append_cancel_left (List.append_cancel_left heq)))
      · exact hacc.trans hb.symm
    · left
      simp only [Option.some.injEq, beq_eq_false_iff_ne, ne_eq]
      exact hb

/-- **the hypothesis is necessary** (general form): if the SAME challenge is on offer before attempts
    `i` and `j` — the RNG repeated a 128-bit value, or repeated the login challenge — then the same pair
    gets the same verdict at both positions; in particular a pair accepted at `i` is accepted at `j` -/
theorem C05_replay_accepted_when_offers_equal (C : Crypto) (s : SrpServer)
    (pairs : List (Bytes × Bytes)) (rng rest : Bytes) (verdicts : List Bool)
    (hrun : runHistoryRng C s pairs rng = some (verdicts, rest))
    (i j : Nat) (cd proof c : Bytes)
    (hci : (s.reconnectChallengeData :: drawList pairs.length rng)[i]? = some c)
    (hcj : (s.reconnectChallengeData :: drawList pairs.length rng)[j]? = some c)
    (hpi : pairs[i]? = some (cd, proof)) (hpj : pairs[j]? = some (cd, proof)) :
    verdicts[j]? = verdicts[i]? ∧ (verdicts[i]? = some true → verdicts[j]? = some true) := by
  rw [C05_history_rng] at hrun
  split at hrun
  · cases hrun
  · simp only [Option.some.injEq, Prod.mk.injEq] at hrun
    obtain ⟨hv, _⟩ := hrun
    subst hv
    have h : (runHistory C s (withDraws pairs (drawList pairs.length rng)))[j]? =
        (runHistory C s (withDraws pairs (drawList pairs.length rng)))[i]? := by
      rw [runHistory_withDraws_getElem? C s pairs _ (drawList_length _ _) i cd proof c hpi hci,
        runHistory_withDraws_getElem? C s pairs _ (drawList_length _ _) j cd proof c hpj hcj]
    exact ⟨h, fun hacc => h.trans hacc⟩

/-- **the hypothesis is necessary** (as asked): if two draws are equal, `r_i = r_j`, the pair accepted
    at position `i + 1` (where `r_i` is on offer) is accepted at position `j + 1` as well -/
theorem C05_replay_accepted_when_draws_equal (C : Crypto) (s : SrpServer)
    (pairs : List (Bytes × Bytes)) (rng rest : Bytes) (verdicts : List Bool)
    (hrun : runHistoryRng C s pairs rng = some (verdicts, rest))
    (i j : Nat) (cd proof r : Bytes)
    (hri : (drawList pairs.length rng)[i]? = some r) (hrj : (drawList pairs.length rng)[j]? = some r)
    (hpi : pairs[i + 1]? = some (cd, proof)) (hpj : pairs[j + 1]? = some (cd, proof))
    (hacc : verdicts[i + 1]? = some true) :
    verdicts[j + 1]? = some true :=
  (C05_replay_accepted_when_offers_equal C s pairs rng rest verdicts hrun (i + 1) (j + 1) cd proof r
    (by simpa using hri) (by simpa using hrj) hpi hpj).2 hacc

/-! ### non-vacuity -/
section
private def u : NStr := ⟨[0x41, 0,0,0,0,0,0,0,0,0,0,0,0,0,0,0], 1⟩
private def k40 : Bytes := (List.range 40).map UInt8.ofNat
private def c0 : Bytes := List.replicate 16 7
private def c1 : Bytes := List.replicate 16 9
private def cd0 : Bytes := (List.range 16).map UInt8.ofNat
private def srv : SrpServer := ⟨u, k40, c0⟩
/-- SHA-1("A" | 00..0f | 07×16 | 00..27), the correct answer to the login challenge `c0` -/
private def good0 : Bytes :=
  [0x18, 0xf0, 0xf2, 0xa5, 0xb7, 0x02, 0xaf, 0x7e, 0x14, 0xe0, 0x6f, 0xde, 0x96, 0x58, 0xd5, 0x99, 0x58, 0x10, 0x42, 0x2f]

/-- on the real SHA-1: the correct answer is accepted, its replay under the next challenge and a
    proof with the last bit flipped are refused -/
example : runHistory Crypto.real srv [(cd0, good0, c1), (cd0, good0, c1)] = [true, false] := by
  decide +kernel
example : flipBit good0 159 = good0.take 19 ++ [0xaf] := by decide

/-- the hypotheses of the collision theorems (`C05_replay`, …) are jointly satisfiable — necessarily
    with a hash that has a known collision, here the constant one: lengths as in the Rust types,
    different challenges, and the replay accepted -/
private def Cconst : Crypto := ⟨fun _ => List.replicate 20 0, fun _ _ => List.replicate 20 0, fun _ => List.replicate 16 0⟩
example : cd0.length = 16 ∧ srv.reconnectChallengeData.length = 16 ∧ c1.length = 16 ∧
    srv.sessionKey.length = 40 ∧ srv.reconnectChallengeData ≠ c1 ∧
    (srv.verifyReconnectionAttempt Cconst cd0
      (calculateReconnectProof Cconst srv.username.asRef cd0 c1 srv.sessionKey) c1).1 = true := by decide

private def c2 : Bytes := List.replicate 16 11
private def fourTimes : List (Bytes × Bytes) := [(cd0, good0), (cd0, good0), (cd0, good0), (cd0, good0)]

/-- `C05_replay_refused_when_draws_distinct` on the real SHA-1: the stream hands out `r₀ = c1`,
    `r₁ = c2`, `r₂ = 10×16`, all different from each other and from the login challenge `c0` (the
    hypothesis holds), the stream is long enough, and the pair accepted at position 0 is refused at
    positions 1 and 2; 48 bytes are consumed and the rest of the stream is left alone -/
example :
    (srv.reconnectChallengeData ::
      drawList (fourTimes.take 3).length (c1 ++ c2 ++ List.replicate 16 10 ++ [1, 2])).Pairwise (· ≠ ·) ∧
    runHistoryRng Crypto.real srv (fourTimes.take 3) (c1 ++ c2 ++ List.replicate 16 10 ++ [1, 2]) =
        some ([true, false, false], [1, 2]) := by
  refine ⟨by decide, by decide +kernel⟩

/-- **the distinctness hypothesis is necessary**, on the real SHA-1: the stream repeats a draw,
    `r₀ = r₂ = c0` (and `r₀` also repeats the login challenge). The pair that answers `c0`, accepted at
    position 1 (where `r₀` is on offer), is accepted again at position 3 (where `r₂ = r₀` is on offer);
    at position 2, where the different draw `r₁ = c1` is on offer, it is refused -/
example : runHistoryRng Crypto.real srv fourTimes (c0 ++ c1 ++ c0 ++ c1) =
    some ([true, true, false, true], []) := by decide +kernel

/-- the same through `C05_replay_accepted_when_draws_equal` (i = 0, j = 2): its hypotheses are
    jointly satisfiable and it predicts the acceptance at position 3 -/
example (verdicts : List Bool) (rest : Bytes)
    (hrun : runHistoryRng Crypto.real srv fourTimes (c0 ++ c1 ++ c0 ++ c1) = some (verdicts, rest))
    (hacc : verdicts[1]? = some true) : verdicts[3]? = some true :=
  C05_replay_accepted_when_draws_equal Crypto.real srv fourTimes _ rest verdicts hrun 0 2 cd0 good0 c0
    (by decide) (by decide) (by decide) (by decide) hacc

/-- a stream that is too short: the run stops (no verdict list) -/
example : runHistoryRng Crypto.real srv fourTimes (c0 ++ c1 ++ c0) = none := by decide +kernel
end

#print axioms C05_challenge_width
#print axioms C05_draws_are_segments
#print axioms C05_draws_width
#print axioms C05_history_rng
#print axioms C05_replay_refused_when_draws_distinct
#print axioms C05_replay_accepted_when_offers_equal
#print axioms C05_replay_accepted_when_draws_equal

end WowSrp
