/-
C06 — the world-login proof is accepted iff name, session key and both seeds match.
Model: `calculateWorldServerProof`, `ProofSeed.*` (WowSrp/Model/World.lean). The model has one
Vanilla/TBC pair of entry points parameterised by `e : Exp` (the two Rust copies differ only in the
`HeaderCrypto` they build) and a separate Wrath pair. All theorems for an arbitrary `C : Crypto`;
no property of SHA-1 is assumed (DESIGN §2.2).
-/
import WowSrp.Model.World
import WowSrp.Lemmas.Layout
import WowSrp.Lemmas.Rc4Total
namespace WowSrp
open WowSrp.Layout

/-- the documented layout: username | four zero bytes | client seed LE | server seed LE | session key -/
def worldProofInput (U : Bytes) (clientSeed serverSeed : Nat) (K : Bytes) : Bytes :=
  U ++ [0, 0, 0, 0] ++ leN 4 clientSeed ++ leN 4 serverSeed ++ K

theorem calculateWorldServerProof_eq (C : Crypto) (U K : Bytes) (ss cs : Nat) :
    calculateWorldServerProof C U K ss cs = C.sha1 (worldProofInput U cs ss K) := rfl

/-! ### the client side -/

/-- **client proof, Vanilla and TBC**: the proof sent is
    SHA-1(username | 0,0,0,0 | own seed LE | server seed LE | session key); the crypto object is the
    fresh `HeaderCrypto` for that session key -/
theorem C06_client_proof (C : Crypto) (e : Exp) (seed : Nat) (u : NStr) (K : Bytes) (serverSeed : Nat) :
    (ProofSeed.intoClientHeaderCrypto C e seed u K serverSeed).1 =
      C.sha1 (u.asRef ++ [0, 0, 0, 0] ++ leN 4 seed ++ leN 4 serverSeed ++ K) ∧
    (ProofSeed.intoClientHeaderCrypto C e seed u K serverSeed).2 = HeaderCrypto.new C e K :=
  ⟨rfl, rfl⟩

/-- **client proof, Wrath**: the call returns (no panic), with the same proof bytes and the fresh
    `ClientCrypto` -/
theorem C06_client_proof_wrath (C : Crypto) (seed : Nat) (u : NStr) (K : Bytes) (serverSeed : Nat) :
    ∃ c, WClientCrypto.new C K = .ok c ∧
      ProofSeed.wrathIntoClient C seed u K serverSeed =
        .ok (C.sha1 (u.asRef ++ [0, 0, 0, 0] ++ leN 4 seed ++ leN 4 serverSeed ++ K), c) := by
  obtain ⟨c, hc⟩ := WClientCrypto.new_total C K
  refine ⟨c, hc, ?_⟩
  simp only [ProofSeed.wrathIntoClient, hc, Out.bind_ok, Out.pure_eq]
  rfl

/-! ### the server side -/

/-- **server decision, Vanilla and TBC**, as one equation: success with the fresh `HeaderCrypto`
    exactly when the presented proof equals the hash for the server's own seed, the client's seed, the
    username and the session key; otherwise the error carrying the presented and the computed proof -/
theorem C06_server_eq (C : Crypto) (e : Exp) (seed : Nat) (u : NStr) (K proof : Bytes) (clientSeed : Nat) :
    ProofSeed.intoServerHeaderCrypto C e seed u K proof clientSeed =
      if proof = C.sha1 (u.asRef ++ [0, 0, 0, 0] ++ leN 4 clientSeed ++ leN 4 seed ++ K)
      then .ok (HeaderCrypto.new C e K)
      else .error ⟨proof, C.sha1 (u.asRef ++ [0, 0, 0, 0] ++ leN 4 clientSeed ++ leN 4 seed ++ K)⟩ := by
  unfold ProofSeed.intoServerHeaderCrypto
  rw [calculateWorldServerProof_eq]
  unfold worldProofInput
  generalize C.sha1 (u.asRef ++ [0, 0, 0, 0] ++ leN 4 clientSeed ++ leN 4 seed ++ K) = x
  by_cases h : proof = x
  · simp [h]
  · have h' : x ≠ proof := fun y => h y.symm
    simp [h, h']

/-- **server accepts iff** the proof is that value; the object handed out is `HeaderCrypto::new(K)` -/
theorem C06_server_iff (C : Crypto) (e : Exp) (seed : Nat) (u : NStr) (K proof : Bytes) (clientSeed : Nat)
    (hc : HeaderCrypto) :
    ProofSeed.intoServerHeaderCrypto C e seed u K proof clientSeed = .ok hc ↔
      proof = C.sha1 (u.asRef ++ [0, 0, 0, 0] ++ leN 4 clientSeed ++ leN 4 seed ++ K) ∧
      hc = HeaderCrypto.new C e K := by
  rw [C06_server_eq]
  generalize C.sha1 (u.asRef ++ [0, 0, 0, 0] ++ leN 4 clientSeed ++ leN 4 seed ++ K) = x
  split
  · next h => simp [h, eq_comm]
  · next h => simp [h]

/-- **otherwise the error carries both proofs** (presented one first, server's second) -/
theorem C06_server_error (C : Crypto) (e : Exp) (seed : Nat) (u : NStr) (K proof : Bytes) (clientSeed : Nat)
    (hne : proof ≠ C.sha1 (u.asRef ++ [0, 0, 0, 0] ++ leN 4 clientSeed ++ leN 4 seed ++ K)) :
    ProofSeed.intoServerHeaderCrypto C e seed u K proof clientSeed =
      .error ⟨proof, C.sha1 (u.asRef ++ [0, 0, 0, 0] ++ leN 4 clientSeed ++ leN 4 seed ++ K)⟩ := by
  rw [C06_server_eq, if_neg hne]

/-- **server decision, Wrath**, as one equation; it never panics (RC4 set-up is total) -/
theorem C06_server_eq_wrath (C : Crypto) (seed : Nat) (u : NStr) (K proof : Bytes) (clientSeed : Nat) :
    ∃ c0, WServerCrypto.new C K = .ok c0 ∧
    ProofSeed.wrathIntoServer C seed u K proof clientSeed =
      .ok (if proof = C.sha1 (u.asRef ++ [0, 0, 0, 0] ++ leN 4 clientSeed ++ leN 4 seed ++ K)
        then .ok c0
        else .error ⟨proof, C.sha1 (u.asRef ++ [0, 0, 0, 0] ++ leN 4 clientSeed ++ leN 4 seed ++ K)⟩) := by
  obtain ⟨c0, hc0⟩ := WServerCrypto.new_total C K
  refine ⟨c0, hc0, ?_⟩
  unfold ProofSeed.wrathIntoServer
  rw [calculateWorldServerProof_eq]
  unfold worldProofInput
  generalize C.sha1 (u.asRef ++ [0, 0, 0, 0] ++ leN 4 clientSeed ++ leN 4 seed ++ K) = x
  by_cases h : proof = x
  · simp [h, hc0]
  · have h' : x ≠ proof := fun y => h y.symm
    simp [h, h']

/-- **Wrath server accepts iff** the proof is that value; the object handed out is `ServerCrypto::new(K)` -/
theorem C06_server_iff_wrath (C : Crypto) (seed : Nat) (u : NStr) (K proof : Bytes) (clientSeed : Nat)
    (c : WServerCrypto) :
    ProofSeed.wrathIntoServer C seed u K proof clientSeed = .ok (.ok c) ↔
      proof = C.sha1 (u.asRef ++ [0, 0, 0, 0] ++ leN 4 clientSeed ++ leN 4 seed ++ K) ∧
      WServerCrypto.new C K = .ok c := by
  obtain ⟨c0, hc0, heq⟩ := C06_server_eq_wrath C seed u K proof clientSeed
  rw [heq, hc0]
  generalize C.sha1 (u.asRef ++ [0, 0, 0, 0] ++ leN 4 clientSeed ++ leN 4 seed ++ K) = x
  split
  · next h => simp [h, eq_comm]
  · next h => simp [h]

theorem C06_server_error_wrath (C : Crypto) (seed : Nat) (u : NStr) (K proof : Bytes) (clientSeed : Nat)
    (hne : proof ≠ C.sha1 (u.asRef ++ [0, 0, 0, 0] ++ leN 4 clientSeed ++ leN 4 seed ++ K)) :
    ProofSeed.wrathIntoServer C seed u K proof clientSeed =
      .ok (.error ⟨proof, C.sha1 (u.asRef ++ [0, 0, 0, 0] ++ leN 4 clientSeed ++ leN 4 seed ++ K)⟩) := by
  obtain ⟨c0, _, heq⟩ := C06_server_eq_wrath C seed u K proof clientSeed
  rw [heq, if_neg hne]

/-! ### pairing -/

/-- **pairing, Vanilla and TBC**: what a client with seed `cs` answers to server seed `ss` is accepted by
    the server with seed `ss` that was told client seed `cs` (same username text and session key) — all
    seeds, all names, all keys -/
theorem C06_pairing (C : Crypto) (e : Exp) (cs ss : Nat) (u : NStr) (K : Bytes) :
    ProofSeed.intoServerHeaderCrypto C e ss u K
      (ProofSeed.intoClientHeaderCrypto C e cs u K ss).1 cs = .ok (HeaderCrypto.new C e K) := by
  rw [C06_server_iff]
  exact ⟨rfl, rfl⟩

/-- **pairing, Wrath** -/
theorem C06_pairing_wrath (C : Crypto) (cs ss : Nat) (u : NStr) (K : Bytes) :
    ∃ proof cc sc, ProofSeed.wrathIntoClient C cs u K ss = .ok (proof, cc) ∧
      ProofSeed.wrathIntoServer C ss u K proof cs = .ok (.ok sc) ∧
      WClientCrypto.new C K = .ok cc ∧ WServerCrypto.new C K = .ok sc := by
  obtain ⟨cc, hcc, hcl⟩ := C06_client_proof_wrath C cs u K ss
  obtain ⟨sc, hsc⟩ := WServerCrypto.new_total C K
  exact ⟨_, cc, sc, hcl, (C06_server_iff_wrath ..).2 ⟨rfl, hsc⟩, hcc, hsc⟩

/-- pairing across the text of the name only: the server compares `as_ref()` texts, so two
    `NormalizedString`s with the same text pair up as well -/
theorem C06_pairing_text (C : Crypto) (e : Exp) (cs ss : Nat) (u u' : NStr) (K : Bytes)
    (hu : u.asRef = u'.asRef) :
    ProofSeed.intoServerHeaderCrypto C e ss u' K
      (ProofSeed.intoClientHeaderCrypto C e cs u K ss).1 cs = .ok (HeaderCrypto.new C e K) := by
  rw [C06_server_iff, ← hu]
  exact ⟨rfl, rfl⟩

/-! ### changed proof: refused outright -/

/-- **any changed proof bit is refused**, all three expansions: a presented value different from the
    expected one — in particular each single-bit change of the expected proof — is answered with the
    error carrying both values, and no crypto object -/
theorem C06_changed_bit_refused (C : Crypto) (seed : Nat) (u : NStr) (K proof' : Bytes) (clientSeed : Nat)
    (hne : proof' ≠ calculateWorldServerProof C u.asRef K seed clientSeed) :
    (∀ e, ProofSeed.intoServerHeaderCrypto C e seed u K proof' clientSeed =
        .error ⟨proof', calculateWorldServerProof C u.asRef K seed clientSeed⟩) ∧
    ProofSeed.wrathIntoServer C seed u K proof' clientSeed =
        .ok (.error ⟨proof', calculateWorldServerProof C u.asRef K seed clientSeed⟩) :=
  ⟨fun e => C06_server_error C e seed u K proof' clientSeed hne,
   C06_server_error_wrath C seed u K proof' clientSeed hne⟩

/-- the single-bit instances: with real output lengths there are 160 of them -/
theorem C06_flipped_proof_refused (C : Crypto) (hC : C.WF) (seed : Nat) (u : NStr) (K : Bytes)
    (clientSeed : Nat) (i : Nat) (hi : i < 160) :
    let good := calculateWorldServerProof C u.asRef K seed clientSeed
    (∀ e, ProofSeed.intoServerHeaderCrypto C e seed u K (flipBit good i) clientSeed =
        .error ⟨flipBit good i, good⟩) ∧
    ProofSeed.wrathIntoServer C seed u K (flipBit good i) clientSeed = .ok (.error ⟨flipBit good i, good⟩) := by
  intro good
  apply C06_changed_bit_refused
  apply flipBit_ne
  show i < 8 * (C.sha1 _).length
  rw [hC.sha1_len]; omega

/-! ### changed field: explicit collision pair -/

/-- the layout is injective on (name, 32-bit seed, 32-bit seed, 40-byte key) -/
theorem worldProofInput_inj {U U' K K' : Bytes} {cs cs' ss ss' : Nat}
    (hcs : cs < 2 ^ 32) (hcs' : cs' < 2 ^ 32) (hss : ss < 2 ^ 32) (hss' : ss' < 2 ^ 32)
    (hK : K.length = K'.length)
    (h : worldProofInput U cs ss K = worldProofInput U' cs' ss' K') :
    U = U' ∧ cs = cs' ∧ ss = ss' ∧ K = K' := by
  unfold worldProofInput at h
  obtain ⟨h1, _, h3, h4, h5⟩ := layout5_inj rfl (by simp) (by simp) hK h
  exact ⟨h1, leN_inj 4 _ _ hcs hcs' h3, leN_inj 4 _ _ hss hss' h4, h5⟩

/-- **acceptance although a field differs exhibits a collision**. The presented proof is what some
    client computed from (U', own seed cs', server seed ss', K'); the server holds (u, K), its own seed
    `ss`, and was told client seed `cs`. If the proof equals the server's expected value although the
    quadruples differ in the username, either seed or any byte of the key, the two hash inputs are
    different byte strings with equal SHA-1. Seeds are `u32`s, session keys 40 bytes. -/
theorem C06_changed_field_collision_core (C : Crypto) (U U' K K' : Bytes) (cs cs' ss ss' : Nat)
    (hcs : cs < 2 ^ 32) (hcs' : cs' < 2 ^ 32) (hss : ss < 2 ^ 32) (hss' : ss' < 2 ^ 32)
    (hK : K.length = 40) (hK' : K'.length = 40)
    (hdiff : (U', cs', ss', K') ≠ (U, cs, ss, K))
    (hacc : calculateWorldServerProof C U' K' ss' cs' = calculateWorldServerProof C U K ss cs) :
    ∃ m₁ m₂, m₁ = U ++ [0, 0, 0, 0] ++ leN 4 cs ++ leN 4 ss ++ K ∧
      m₂ = U' ++ [0, 0, 0, 0] ++ leN 4 cs' ++ leN 4 ss' ++ K' ∧ m₁ ≠ m₂ ∧ C.sha1 m₁ = C.sha1 m₂ := by
  refine ⟨_, _, rfl, rfl, ?_, hacc.symm⟩
  intro heq
  obtain ⟨h1, h2, h3, h4⟩ := worldProofInput_inj hcs hcs' hss hss' (hK.trans hK'.symm) heq
  exact hdiff (by rw [h1, h2, h3, h4])

/-- **Vanilla / TBC entry point**: the server hands out header crypto for a proof a client made from
    other data ⇒ explicit collision pair -/
theorem C06_changed_field_collision (C : Crypto) (e : Exp) (u : NStr) (U' K K' : Bytes) (cs cs' ss ss' : Nat)
    (hc : HeaderCrypto)
    (hcs : cs < 2 ^ 32) (hcs' : cs' < 2 ^ 32) (hss : ss < 2 ^ 32) (hss' : ss' < 2 ^ 32)
    (hK : K.length = 40) (hK' : K'.length = 40)
    (hdiff : U' ≠ u.asRef ∨ cs' ≠ cs ∨ ss' ≠ ss ∨ K' ≠ K)
    (hacc : ProofSeed.intoServerHeaderCrypto C e ss u K
      (calculateWorldServerProof C U' K' ss' cs') cs = .ok hc) :
    ∃ m₁ m₂, m₁ = u.asRef ++ [0, 0, 0, 0] ++ leN 4 cs ++ leN 4 ss ++ K ∧
      m₂ = U' ++ [0, 0, 0, 0] ++ leN 4 cs' ++ leN 4 ss' ++ K' ∧ m₁ ≠ m₂ ∧ C.sha1 m₁ = C.sha1 m₂ := by
  apply C06_changed_field_collision_core C u.asRef U' K K' cs cs' ss ss' hcs hcs' hss hss' hK hK'
  · intro h
    simp only [Prod.mk.injEq] at h
    rcases hdiff with d | d | d | d
    · exact d h.1
    · exact d h.2.1
    · exact d h.2.2.1
    · exact d h.2.2.2
  · exact ((C06_server_iff ..).1 hacc).1

/-- **Wrath entry point**: same -/
theorem C06_changed_field_collision_wrath (C : Crypto) (u : NStr) (U' K K' : Bytes) (cs cs' ss ss' : Nat)
    (c : WServerCrypto)
    (hcs : cs < 2 ^ 32) (hcs' : cs' < 2 ^ 32) (hss : ss < 2 ^ 32) (hss' : ss' < 2 ^ 32)
    (hK : K.length = 40) (hK' : K'.length = 40)
    (hdiff : U' ≠ u.asRef ∨ cs' ≠ cs ∨ ss' ≠ ss ∨ K' ≠ K)
    (hacc : ProofSeed.wrathIntoServer C ss u K
      (calculateWorldServerProof C U' K' ss' cs') cs = .ok (.ok c)) :
    ∃ m₁ m₂, m₁ = u.asRef ++ [0, 0, 0, 0] ++ leN 4 cs ++ leN 4 ss ++ K ∧
      m₂ = U' ++ [0, 0, 0, 0] ++ leN 4 cs' ++ leN 4 ss' ++ K' ∧ m₁ ≠ m₂ ∧ C.sha1 m₁ = C.sha1 m₂ := by
  apply C06_changed_field_collision_core C u.asRef U' K K' cs cs' ss ss' hcs hcs' hss hss' hK hK'
  · intro h
    simp only [Prod.mk.injEq] at h
    rcases hdiff with d | d | d | d
    · exact d h.1
    · exact d h.2.1
    · exact d h.2.2.1
    · exact d h.2.2.2
  · exact ((C06_server_iff_wrath ..).1 hacc).1

/-- **swapped seeds**: a proof computed with the two seeds in each other's position is accepted only
    if the seeds are equal, or else the two inputs below are an explicit collision pair (all three
    expansions: the hypothesis is the equality every entry point tests) -/
theorem C06_swapped_seeds (C : Crypto) (U K : Bytes) (cs ss : Nat)
    (hcs : cs < 2 ^ 32) (hss : ss < 2 ^ 32) (hK : K.length = 40)
    (hacc : calculateWorldServerProof C U K cs ss = calculateWorldServerProof C U K ss cs) :
    cs = ss ∨
    ∃ m₁ m₂, m₁ = U ++ [0, 0, 0, 0] ++ leN 4 cs ++ leN 4 ss ++ K ∧
      m₂ = U ++ [0, 0, 0, 0] ++ leN 4 ss ++ leN 4 cs ++ K ∧ m₁ ≠ m₂ ∧ C.sha1 m₁ = C.sha1 m₂ := by
  by_cases h : cs = ss
  · exact Or.inl h
  · right
    exact C06_changed_field_collision_core C U U K K cs ss ss cs hcs hss hss hcs hK hK
      (by intro h'; simp only [Prod.mk.injEq] at h'; exact h h'.2.1.symm) hacc

/-- swapped seeds at the Vanilla / TBC and Wrath entry points -/
theorem C06_swapped_seeds_entry (C : Crypto) (u : NStr) (K : Bytes) (cs ss : Nat)
    (hcs : cs < 2 ^ 32) (hss : ss < 2 ^ 32) (hK : K.length = 40)
    (hacc : (∃ e hc, ProofSeed.intoServerHeaderCrypto C e ss u K
                (calculateWorldServerProof C u.asRef K cs ss) cs = .ok hc) ∨
            (∃ c, ProofSeed.wrathIntoServer C ss u K
                (calculateWorldServerProof C u.asRef K cs ss) cs = .ok (.ok c))) :
    cs = ss ∨
    ∃ m₁ m₂, m₁ = u.asRef ++ [0, 0, 0, 0] ++ leN 4 cs ++ leN 4 ss ++ K ∧
      m₂ = u.asRef ++ [0, 0, 0, 0] ++ leN 4 ss ++ leN 4 cs ++ K ∧ m₁ ≠ m₂ ∧ C.sha1 m₁ = C.sha1 m₂ := by
  apply C06_swapped_seeds C u.asRef K cs ss hcs hss hK
  rcases hacc with ⟨e, hc, h⟩ | ⟨c, h⟩
  · exact ((C06_server_iff ..).1 h).1
  · exact ((C06_server_iff_wrath ..).1 h).1

/-! ### the seed accessor -/

/-- **the seed reported is the seed hashed**: `seed()` returns the little-endian value of the four
    drawn bytes, it is a `u32`, and the proof hashes exactly those four bytes in the client-seed
    position (client) / server-seed position (server) -/
theorem C06_seed_accessor (C : Crypto) (e : Exp) (d : Bytes) (u : NStr) (K proof : Bytes) (other : Nat) :
    ProofSeed.seed (ProofSeed.ofDraw d) = ofLE (d.take 4) ∧
    ProofSeed.seed (ProofSeed.ofDraw d) < 2 ^ 32 ∧
    (ProofSeed.intoClientHeaderCrypto C e (ProofSeed.ofDraw d) u K other).1 =
      C.sha1 (u.asRef ++ [0, 0, 0, 0] ++ leN 4 (ProofSeed.seed (ProofSeed.ofDraw d)) ++ leN 4 other ++ K) ∧
    (ProofSeed.intoServerHeaderCrypto C e (ProofSeed.ofDraw d) u K proof other =
      if proof = C.sha1 (u.asRef ++ [0, 0, 0, 0] ++ leN 4 other ++ leN 4 (ProofSeed.seed (ProofSeed.ofDraw d)) ++ K)
      then .ok (HeaderCrypto.new C e K)
      else .error ⟨proof, C.sha1 (u.asRef ++ [0, 0, 0, 0] ++ leN 4 other ++ leN 4 (ProofSeed.seed (ProofSeed.ofDraw d)) ++ K)⟩) ∧
    (d.length = 4 → leN 4 (ProofSeed.seed (ProofSeed.ofDraw d)) = d) := by
  refine ⟨rfl, ?_, rfl, C06_server_eq .., ?_⟩
  · have := ofLE_lt (d.take 4)
    have hl : (d.take 4).length ≤ 4 := by simp [List.length_take]; omega
    have : 256 ^ (d.take 4).length ≤ 256 ^ 4 := Nat.pow_le_pow_right (by decide) hl
    show ofLE (d.take 4) < 2 ^ 32
    omega
  · intro hd
    have : d.take 4 = d := by rw [← hd]; exact List.take_length
    show leN 4 (ofLE (d.take 4)) = d
    rw [this]
    have := leN_ofLE d
    rwa [hd] at this

/-- the Wrath `ProofSeed` uses the same accessor and the same number -/
theorem C06_seed_accessor_wrath (C : Crypto) (d : Bytes) (u : NStr) (K : Bytes) (other : Nat)
    (r : Bytes × WClientCrypto)
    (h : ProofSeed.wrathIntoClient C (ProofSeed.ofDraw d) u K other = .ok r) :
    r.1 = C.sha1 (u.asRef ++ [0, 0, 0, 0] ++ leN 4 (ProofSeed.seed (ProofSeed.ofDraw d)) ++ leN 4 other ++ K) := by
  obtain ⟨c, _, hcl⟩ := C06_client_proof_wrath C (ProofSeed.ofDraw d) u K other
  rw [hcl] at h
  injection h with h
  rw [← h]
  rfl

/-! ### the three expansion modules -/

/-- **the three modules compute one function**: for every (seed, name, key, other seed) the client
    proofs of Vanilla, TBC and Wrath are the same 20 bytes; for every (seed, name, key, presented proof,
    client seed) the three servers take the same decision and, when refusing, return the same error -/
theorem C06_three_modules (C : Crypto) (seed : Nat) (u : NStr) (K proof : Bytes) (other : Nat) :
    (ProofSeed.intoClientHeaderCrypto C .vanilla seed u K other).1 =
      (ProofSeed.intoClientHeaderCrypto C .tbc seed u K other).1 ∧
    (∃ c, ProofSeed.wrathIntoClient C seed u K other =
      .ok ((ProofSeed.intoClientHeaderCrypto C .vanilla seed u K other).1, c)) ∧
    (ProofSeed.intoServerHeaderCrypto C .vanilla seed u K proof other).map (fun _ => ()) =
      (ProofSeed.intoServerHeaderCrypto C .tbc seed u K proof other).map (fun _ => ()) ∧
    (∃ r, ProofSeed.wrathIntoServer C seed u K proof other = .ok r ∧
      r.map (fun _ => ()) =
        (ProofSeed.intoServerHeaderCrypto C .vanilla seed u K proof other).map (fun _ => ())) := by
  refine ⟨rfl, ?_, ?_, ?_⟩
  · obtain ⟨c, _, h⟩ := C06_client_proof_wrath C seed u K other
    exact ⟨c, h⟩
  · rw [C06_server_eq, C06_server_eq]
    split <;> rfl
  · obtain ⟨c0, _, h⟩ := C06_server_eq_wrath C seed u K proof other
    refine ⟨_, h, ?_⟩
    rw [C06_server_eq]
    split <;> rfl

/-! ### non-vacuity -/
section
private def Cconst : Crypto := ⟨fun _ => List.replicate 20 0, fun _ _ => List.replicate 20 0, fun _ => List.replicate 16 0⟩
private def uA : NStr := ⟨[0x41, 0,0,0,0,0,0,0,0,0,0,0,0,0,0,0], 1⟩
private def k40 : Bytes := (List.range 40).map UInt8.ofNat

/-- the hypotheses of the collision theorems are jointly satisfiable (necessarily with a hash that
    has a known collision — the constant one): boundary seeds 0 and 0xFFFFFFFF, swapped, accepted -/
example : (0 : Nat) < 2 ^ 32 ∧ 0xFFFFFFFF < 2 ^ 32 ∧ k40.length = 40 ∧
    ProofSeed.intoServerHeaderCrypto Cconst .vanilla 0xFFFFFFFF uA k40
      (calculateWorldServerProof Cconst uA.asRef k40 0 0xFFFFFFFF) 0 = .ok (HeaderCrypto.new Cconst .vanilla k40) :=
  ⟨by decide, by decide, by decide, (C06_server_iff ..).2 ⟨by decide, rfl⟩⟩

/-- the layout itself, little-endian seeds, for name "A", client seed 0xDEADBEEF, server seed 1 -/
example : worldProofInput uA.asRef 0xDEADBEEF 1 [9] = [0x41, 0, 0, 0, 0, 0xEF, 0xBE, 0xAD, 0xDE, 1, 0, 0, 0, 9] := by
  decide
end

end WowSrp
