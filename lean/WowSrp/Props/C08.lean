/-
C08 — TBC header cipher: HMAC-derived 20-byte key, same recurrence as Vanilla (position modulo 20),
exact inverse. Property theorems only; helper lemmas live in Lemmas/Header.lean.
Everything is stated for an arbitrary `C : Crypto` with `C.WF` (only the 20-byte HMAC output length
is used, never anything about the values of the hash).
-/
import WowSrp.Lemmas.Header
namespace WowSrp

/-- tie to the source: both TBC halves advance their index modulo 20 = the length of an HMAC-SHA1
    output (`PROOF_LENGTH`); re-checked against the regenerated constants on every run -/
theorem C08_constants :
    Gen.tbcEncMod = 20 ∧ Gen.tbcDecMod = 20 ∧ Gen.proofLength = 20 := by decide

/-- the two separately coded seeds (one literal in `encrypt.rs`, one in `decrypt.rs`) are the same
    16 bytes; `decide` on the two *generated* constants — a one-sided edit of the Rust breaks this -/
theorem C08_seed_same : Gen.tbcSeedEnc = Gen.tbcSeedDec := by decide

/-- the seed is the documented TBC constant -/
theorem C08_seed_value :
    Gen.tbcSeedEnc = [0x38, 0xA7, 0x83, 0x15, 0xF8, 0x92, 0x25, 0x30, 0x71, 0x98, 0x67, 0xB1, 0x8C, 0x04, 0xE2, 0xAA] ∧
    Gen.tbcSeedEnc.length = 16 := by decide

/-- **key derivation**: both halves are keyed with HMAC-SHA1(seed, session key) — HMAC *key* = seed,
    HMAC *message* = session key — start at position 0 with previous byte 0; and the seed is the
    documented 16 bytes. For every session key (of any length) and every `Crypto`. -/
theorem C08_key_derivation (C : Crypto) (K : Bytes) :
    (Half.newEnc C .tbc K).key = C.hmac Gen.tbcSeedEnc K ∧
    (Half.newDec C .tbc K).key = C.hmac Gen.tbcSeedEnc K ∧
    (Half.newEnc C .tbc K).index = 0 ∧ (Half.newEnc C .tbc K).prev = 0 ∧
    (Half.newDec C .tbc K).index = 0 ∧ (Half.newDec C .tbc K).prev = 0 ∧
    Gen.tbcSeedEnc = [0x38, 0xA7, 0x83, 0x15, 0xF8, 0x92, 0x25, 0x30, 0x71, 0x98, 0x67, 0xB1, 0x8C, 0x04, 0xE2, 0xAA] := by
  refine ⟨rfl, ?_, rfl, rfl, rfl, rfl, C08_seed_value.1⟩
  simp only [Half.newDec, ← C08_seed_same]

/-- the two separately coded constructors produce equal structs (what derived `==` on the Rust halves
    would compare), for every session key -/
theorem C08_keys_equal (C : Crypto) (K : Bytes) : Half.newEnc C .tbc K = Half.newDec C .tbc K := by
  simp only [Half.newEnc, Half.newDec, C08_seed_same]

/-- a fresh TBC half satisfies the bounds invariant with modulus 20
    (`key[index]` in range, `index + 1` fits a `u8`) — needs only that HMAC outputs are 20 bytes -/
theorem C08_fresh_inv (C : Crypto) (hC : C.WF) (K : Bytes) :
    (Half.newEnc C .tbc K).Inv 20 ∧ (Half.newDec C .tbc K).Inv 20 := by
  simp [Half.newEnc, Half.newDec, Half.Inv, hC.hmac_len]

/-- **bounds**: from every state satisfying the invariant (position 0..19, any previous byte, any
    key of at least 20 bytes), for every input byte, the step neither indexes out of bounds nor
    overflows, and re-establishes the invariant — so no stream of any length can panic -/
theorem C08_step_bounds (h : Half) (x : UInt8) (hi : h.Inv 20) :
    ∃ h' y, encStep Gen.tbcEncMod h x = .ok (h', y) ∧ h'.Inv 20 ∧
    ∃ h'' z, decStep Gen.tbcDecMod h x = .ok (h'', z) ∧ h''.Inv 20 := by
  have he : Gen.tbcEncMod = 20 := by decide
  have hd : Gen.tbcDecMod = 20 := by decide
  rw [he, hd]
  exact ⟨_, _, encStep_ok 20 h x hi, Half.Inv_step 20 h _ hi, _, _, decStep_ok 20 h x hi, Half.Inv_step 20 h _ hi⟩

/-- **recurrence**: the TBC encrypter turns x_0, x_1, … into
    c_n = (x_n xor k[n mod 20]) + c_(n-1), c_(-1) = 0 with k = HMAC(seed, K) — the Vanilla Spec over
    the derived key — for streams of every length and every session key; it ends at position
    `length mod 20` remembering the last ciphertext byte -/
theorem C08_recurrence (C : Crypto) (hC : C.WF) (K xs : Bytes) :
    ∃ h', (Half.newEnc C .tbc K).encrypt .tbc xs = .ok (h', Spec.recEnc (C.hmac Gen.tbcSeedEnc K) 0 0 xs) ∧
      h'.key = C.hmac Gen.tbcSeedEnc K ∧ h'.index = xs.length % 20 ∧
      h'.prev = (Spec.recEnc (C.hmac Gen.tbcSeedEnc K) 0 0 xs).getLastD 0 := by
  have he : Exp.tbc.encMod = 20 := by decide
  obtain ⟨h', h1, _, h3, h4, h5⟩ :=
    encrypt_spec 20 (Half.newEnc C .tbc K) xs 0 (C08_fresh_inv C hC K).1 (by simp [Half.newEnc, hC.hmac_len]) (by simp [Half.newEnc])
  refine ⟨h', ?_, by simpa [Half.newEnc] using h3, by simpa using h4, by simpa [Half.newEnc] using h5⟩
  simpa [Half.encrypt, he, Half.newEnc] using h1

/-- the same ciphertext written with `Spec.vanillaStream`: TBC = Vanilla over the derived key -/
theorem C08_recurrence_vanilla (C : Crypto) (hC : C.WF) (K xs : Bytes) :
    ∃ h', (Half.newEnc C .tbc K).encrypt .tbc xs = .ok (h', Spec.vanillaStream (C.hmac Gen.tbcSeedEnc K) xs) := by
  obtain ⟨h', h1, _⟩ := C08_recurrence C hC K xs
  exact ⟨h', h1⟩

/-- **chunking**: however the bytes are split over calls — empty calls and calls longer than the
    key included — the result is that of one call on the concatenation (both directions, any state) -/
theorem C08_chunking (h : Half) (chunks : List Bytes) :
    runChunks (Half.encrypt .tbc) h chunks = Half.encrypt .tbc h chunks.flatten ∧
    runChunks (Half.decrypt .tbc) h chunks = Half.decrypt .tbc h chunks.flatten :=
  ⟨runChunks_flatten _ h chunks, runChunks_flatten _ h chunks⟩

/-- zero-length calls change nothing -/
theorem C08_empty_call (h : Half) :
    Half.encrypt .tbc h [] = .ok (h, []) ∧ Half.decrypt .tbc h [] = .ok (h, []) := ⟨rfl, rfl⟩

/-- **exact inverse, one step, every state**: for each of the 20·256 cipher states and each of the
    256 input bytes, a decrypter in the same state maps the encrypter's output byte back to the input
    byte, and both end in the same state (algebra on bytes, not enumeration) -/
theorem C08_inverse_step (e d : Half) (x : UInt8) (hi : e.Inv 20)
    (hk : d.key = e.key) (hx : d.index = e.index) (hp : d.prev = e.prev) :
    ∃ e' d' c, encStep Gen.tbcEncMod e x = .ok (e', c) ∧ decStep Gen.tbcDecMod d c = .ok (d', x) ∧
      e'.Inv 20 ∧ d'.key = e'.key ∧ d'.index = e'.index ∧ d'.prev = e'.prev := by
  have he : Gen.tbcEncMod = 20 := by decide
  have hd : Gen.tbcDecMod = 20 := by decide
  rw [he, hd]
  have hdi : d.Inv 20 := by
    obtain ⟨a, b, c, e4⟩ := hi
    exact ⟨a, b, by rw [hk]; exact c, by rw [hx]; exact e4⟩
  refine ⟨_, { d with index := (d.index + 1) % 20, prev := (x ^^^ e.key[e.index]'(by unfold Half.Inv at hi; omega)) + e.prev },
    _, encStep_ok 20 e x hi, ?_, Half.Inv_step 20 e _ hi, ?_, ?_, ?_⟩
  · rw [decStep_ok 20 d _ hdi]
    have hkk : d.key[d.index]'(by unfold Half.Inv at hdi; omega) = e.key[e.index]'(by unfold Half.Inv at hi; omega) := by
      simp [hk, hx]
    simp only [hkk, hp, UInt8.add_sub_cancel, UInt8.xor_assoc, UInt8.xor_self, UInt8.xor_zero]
  · simp [hk]
  · simp [hx]
  · simp

/-- **round trip, indefinitely**: for every session key (hence every derived 20-byte key), every
    stream, every partition of the plaintext into calls on the sender and every (independent)
    partition of the ciphertext into calls on the receiver, the receiver — built by the *decrypter's*
    constructor with its own copy of the seed — recovers the sender's bytes exactly and the two
    halves end in equal states (same key, position, previous byte), so the next header round-trips too -/
theorem C08_roundtrip (C : Crypto) (hC : C.WF) (K : Bytes) (sendChunks recvChunks : List Bytes)
    (cipher : Bytes) (e' : Half)
    (hsend : runChunks (Half.encrypt .tbc) (Half.newEnc C .tbc K) sendChunks = .ok (e', cipher))
    (hpart : recvChunks.flatten = cipher) :
    ∃ d', runChunks (Half.decrypt .tbc) (Half.newDec C .tbc K) recvChunks = .ok (d', sendChunks.flatten) ∧
      d'.key = e'.key ∧ d'.index = e'.index ∧ d'.prev = e'.prev := by
  have he : Exp.tbc.encMod = 20 := by decide
  have hd : Exp.tbc.decMod = 20 := by decide
  have hlen : (C.hmac Gen.tbcSeedEnc K).length = 20 := hC.hmac_len _ _
  rw [(C08_chunking _ _).1] at hsend
  rw [(C08_chunking _ _).2, hpart, ← C08_keys_equal]
  obtain ⟨h1, r1, _, k1, i1, p1⟩ :=
    encrypt_spec 20 (Half.newEnc C .tbc K) sendChunks.flatten 0 (C08_fresh_inv C hC K).1 (by simp [Half.newEnc, hlen]) (by simp [Half.newEnc])
  simp only [Half.encrypt, he] at hsend
  rw [r1] at hsend
  injection hsend with hsend
  injection hsend with hs1 hs2
  subst hs1
  obtain ⟨h2, r2, _, k2, i2, p2⟩ :=
    decrypt_spec 20 (Half.newEnc C .tbc K) cipher 0 (C08_fresh_inv C hC K).1 (by simp [Half.newEnc, hlen]) (by simp [Half.newEnc])
  refine ⟨h2, ?_, ?_, ?_, ?_⟩
  · simp only [Half.decrypt, hd, r2]
    congr 2
    rw [← hs2]
    exact Spec.recDec_recEnc _ 0 _ _
  · rw [k1, k2]
  · rw [i1, i2, ← hs2, Spec.recEnc_length]
  · rw [p1, p2, ← hs2]

/-- **round trip from any pair of equal states** (the induction step "equal before ⇒ recovered and equal
    after", usable at any point of a connection, with no reference to how the halves were made): for
    every encrypter half `e0` and decrypter half `d0` holding the same key, position and previous byte,
    with the invariant (`key.length = 20`, `index < 20`) — any 20-byte key, not only an HMAC output, every stream and every partition
    of it into calls on the sender: the sender does not panic and emits the recurrence from its current
    position; for every (independent) partition of that ciphertext into calls on the receiver, the
    receiver recovers the sender's bytes exactly, and the two halves end equal again with the
    invariant kept — so the theorem applies again to whatever is sent next -/
theorem C08_roundtrip_from_equal_states (e0 d0 : Half) (hlen : e0.key.length = 20) (hidx : e0.index < 20)
    (hk : d0.key = e0.key) (hx : d0.index = e0.index) (hp : d0.prev = e0.prev)
    (sendChunks : List Bytes) :
    ∃ e', runChunks (Half.encrypt .tbc) e0 sendChunks =
        .ok (e', Spec.recEnc e0.key e0.index e0.prev sendChunks.flatten) ∧
      e'.key = e0.key ∧ e'.key.length = 20 ∧ e'.index < 20 ∧
      ∀ recvChunks : List Bytes,
        recvChunks.flatten = Spec.recEnc e0.key e0.index e0.prev sendChunks.flatten →
        ∃ d', runChunks (Half.decrypt .tbc) d0 recvChunks = .ok (d', sendChunks.flatten) ∧
          d'.key = e'.key ∧ d'.index = e'.index ∧ d'.prev = e'.prev ∧ d' = e' := by
  have he : Exp.tbc.encMod = 20 := by decide
  have hd : Exp.tbc.decMod = 20 := by decide
  have hi : e0.Inv 20 := ⟨by decide, by decide, by rw [hlen]; exact Nat.le_refl _, hidx⟩
  obtain ⟨e', d', r1, r2, inv1, k1, k2, i2, p2⟩ :=
    roundtrip_from_equal 20 e0 d0 hi hlen.symm hk hx hp sendChunks.flatten
  refine ⟨e', ?_, k1, by rw [k1]; exact hlen, inv1.2.2.2, ?_⟩
  · rw [(C08_chunking _ _).1]
    simp only [Half.encrypt, he, r1]
  · intro recvChunks hpart
    refine ⟨d', ?_, k2, i2, p2, ?_⟩
    · rw [(C08_chunking _ _).2, hpart]
      simp only [Half.decrypt, hd, r2]
    · obtain ⟨a, b, c⟩ := d'
      obtain ⟨a', b', c'⟩ := e'
      simp only at k2 i2 p2
      rw [k2, i2, p2]

/-- the same in the form of `C08_roundtrip` (the sender's result as a hypothesis) -/
theorem C08_roundtrip_from_equal_states' (e0 d0 : Half) (hlen : e0.key.length = 20) (hidx : e0.index < 20)
    (hk : d0.key = e0.key) (hx : d0.index = e0.index) (hp : d0.prev = e0.prev)
    (sendChunks recvChunks : List Bytes) (cipher : Bytes) (e' : Half)
    (hsend : runChunks (Half.encrypt .tbc) e0 sendChunks = .ok (e', cipher))
    (hpart : recvChunks.flatten = cipher) :
    ∃ d', runChunks (Half.decrypt .tbc) d0 recvChunks = .ok (d', sendChunks.flatten) ∧
      d'.key = e'.key ∧ d'.index = e'.index ∧ d'.prev = e'.prev ∧
      e'.key.length = 20 ∧ e'.index < 20 := by
  obtain ⟨e1, h1, _, hl, hi, hrecv⟩ :=
    C08_roundtrip_from_equal_states e0 d0 hlen hidx hk hx hp sendChunks
  rw [h1] at hsend
  injection hsend with hsend
  injection hsend with hs1 hs2
  subst hs1
  obtain ⟨d', g1, g2, g3, g4, _⟩ := hrecv recvChunks (hpart.trans hs2.symm)
  exact ⟨d', g1, g2, g3, g4, hl, hi⟩

/-- non-vacuity of `C08_roundtrip_from_equal_states`: a mid-connection state (position 18, previous byte
    0x5a) three bytes before the key wraps around; five bytes sent in three calls (one empty) -/
example :
    let K := (List.range 20).map UInt8.ofNat
    ∃ e', runChunks (Half.encrypt .tbc) ⟨K, 18, 0x5a⟩ [[1, 2], [], [3, 4, 5]] =
        .ok (e', Spec.recEnc K 18 0x5a [1, 2, 3, 4, 5]) ∧ e'.key.length = 20 ∧ e'.index < 20 :=
  have ⟨e', h, _, hl, hi, _⟩ := C08_roundtrip_from_equal_states ⟨(List.range 20).map UInt8.ofNat, 18, 0x5a⟩
    ⟨(List.range 20).map UInt8.ofNat, 18, 0x5a⟩ (by decide) (by decide) rfl rfl rfl [[1, 2], [], [3, 4, 5]]
  ⟨e', h, hl, hi⟩
/-- … and by evaluation: the position has wrapped to 3, the receiver (calls of 4 and 1 bytes) is in the same state -/
example :
    (let K := (List.range 20).map UInt8.ofNat
     match runChunks (Half.encrypt .tbc) ⟨K, 18, 0x5a⟩ [[1, 2], [], [3, 4, 5]] with
     | .panic _ => false
     | .ok (e', c) =>
       match runChunks (Half.decrypt .tbc) ⟨K, 18, 0x5a⟩ [c.take 4, c.drop 4] with
       | .panic _ => false
       | .ok (d', p) => d' == e' && p == [1, 2, 3, 4, 5] && e'.index == 3 && c != p) = true := by
  decide

/-! non-vacuity: the hypotheses are met by concrete, non-trivial data. `Crypto.real` (executable
    SHA-1/HMAC) derives a 20-byte key from a 40-byte session key, and a chunked stream longer than
    the key is encrypted and decrypted. (Tests, evaluated by the kernel.) -/
example : (Crypto.real.hmac Gen.tbcSeedEnc ((List.range 40).map UInt8.ofNat)).length = 20 := by decide +kernel
example :
    (let K := (List.range 40).map UInt8.ofNat
     let xs : List Bytes := [[1, 2], [], (List.range 25).map UInt8.ofNat]
     match runChunks (Half.encrypt .tbc) (Half.newEnc Crypto.real .tbc K) xs with
     | .panic _ => false
     | .ok (e', c) =>
       match runChunks (Half.decrypt .tbc) (Half.newDec Crypto.real .tbc K) [c.take 3, c.drop 3] with
       | .panic _ => false
       | .ok (d', p) => d' == e' && p == xs.flatten && e'.index == 7 && e'.key.length == 20 && c != xs.flatten) = true := by
  decide +kernel

end WowSrp

#print axioms WowSrp.C08_roundtrip_from_equal_states
#print axioms WowSrp.C08_roundtrip_from_equal_states'
