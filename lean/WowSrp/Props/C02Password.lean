/-
C02 (continued) — a client that used ANOTHER PASSWORD (or another username) and is accepted.

`C02_wrong_password_partial` (Props/C02.lean) stops at "explicit M1 collision ∨ both sides hold the same
session key" and has no hypothesis `pw' ≠ pw`. Here the second disjunct is taken apart with the
API-level value theorems of Props/C03.lean (`C03_api_verifier`, `C03_api_client`, `C03_session_key`,
`SrpVerifier.intoProof_spec`): both session keys are `Spec.K C S = SHA_Interleave(LE32(S))` of the two
shared secrets

    S₁ = Sclient(B, x', a, u) = (B − 3·g^x')^(a + u·x') mod N'      (client, x' from the password typed)
    S₂ = Sserver(A, v, u, b)  = (A·v^u)^b mod N                     (server, v = 7^x mod N stored)

and acceptance of a client that typed another password leaves exactly these possibilities, each with an
explicit witness:
  (a) the two M1 inputs are different strings with the same SHA-1 (pinned pair);
  (b) `S₁ ≠ S₂` (as numbers and as 32-byte little-endian strings) but `Spec.K C S₁ = Spec.K C S₂`:
      the session-key derivation maps two different secrets to one key (`C02_interleave_collision` splits
      that further: a SHA-1 collision on the half strings, or the two secrets differ only in the
      low-order bytes SHA_Interleave discards);
  (c) `S₁ = S₂` as numbers, and then
      (c1) `x' = x` although the passwords differ: an explicit SHA-1 collision inside `calculate_x`
           (`U ":" pw` vs `U ":" pw'`, or the outer inputs `salt | H(..)`), or
      (c2) `x' ≠ x`: the arithmetic coincidence `(B − 3·g^x')^(a+u·x') ≡ (A·v^u)^b`. This one is NOT a
           hash event and cannot be excluded for all `a, b` (see the example at the end: for a hash with
           `u = 0` and the degenerate draws `a = b = 0` it happens).
No collision resistance is assumed; `C : Crypto` is arbitrary (`C.WF` = output lengths).

For another USERNAME nothing is left over: the name enters M1 through `H(U)`, so acceptance always
exhibits a SHA-1 collision (`C02_wrong_username_collision`).
-/
import WowSrp.Props.C02
import WowSrp.Props.C03
import WowSrp.Lemmas.NStr
namespace WowSrp

/-! ### accepted credential strings: different values have different texts -/

/-- the text view of a string accepted by `NormalizedString::new` determines the value (the array is
    the text followed by zeros, the length is the text's length): two accepted strings with the same
    text are the same value -/
theorem C02_accepted_text_inj (cs cs' : List Char) (n n' : NStr)
    (h : NStr.new cs = .ok n) (h' : NStr.new cs' = .ok n') (ht : n.asRef = n'.asRef) : n = n' := by
  obtain ⟨_, rfl⟩ := (new_ok_iff cs n).1 h
  obtain ⟨_, rfl⟩ := (new_ok_iff cs' n').1 h'
  have e1 : (cs.map upperSpec).length = cs.length := List.length_map _
  have e2 : (cs'.map upperSpec).length = cs'.length := List.length_map _
  have t1 : (⟨padTo 16 (cs.map upperSpec), cs.length⟩ : NStr).asRef = cs.map upperSpec := by
    show (padTo 16 (cs.map upperSpec)).take cs.length = _
    rw [← e1]; exact padTo_take 16 _
  have t2 : (⟨padTo 16 (cs'.map upperSpec), cs'.length⟩ : NStr).asRef = cs'.map upperSpec := by
    show (padTo 16 (cs'.map upperSpec)).take cs'.length = _
    rw [← e2]; exact padTo_take 16 _
  rw [t1, t2] at ht
  have hl : cs.length = cs'.length := by rw [← e1, ← e2, ht]
  rw [ht, hl]

/-! ### the pieces -/

/-- **`calculate_x` collision**: equal `x` for two different passwords exhibits a SHA-1 collision, either
    of the inner inputs `U ":" P`, `U ":" P'` or of the outer inputs `salt | H(U ":" P)`, `salt | H(U ":" P')` -/
theorem C02_x_collision (C : Crypto) (hC : C.WF) (U P P' salt : Bytes) (hP : P' ≠ P)
    (hx : Spec.x C U P' salt = Spec.x C U P salt) :
    ∃ m₁ m₂, m₁ ≠ m₂ ∧ C.sha1 m₁ = C.sha1 m₂ ∧
      ((m₁ = U ++ [0x3a] ++ P ∧ m₂ = U ++ [0x3a] ++ P') ∨
       (m₁ = salt ++ C.sha1 (U ++ [0x3a] ++ P) ∧ m₂ = salt ++ C.sha1 (U ++ [0x3a] ++ P'))) := by
  have houter : C.sha1 (salt ++ C.sha1 (U ++ [0x3a] ++ P)) =
      C.sha1 (salt ++ C.sha1 (U ++ [0x3a] ++ P')) :=
    ofLE_inj _ _ (by rw [hC.sha1_len, hC.sha1_len]) hx.symm
  by_cases hin : C.sha1 (U ++ [0x3a] ++ P) = C.sha1 (U ++ [0x3a] ++ P')
  · refine ⟨_, _, ?_, hin, Or.inl ⟨rfl, rfl⟩⟩
    intro h
    exact hP (List.append_cancel_left h).symm
  · refine ⟨_, _, ?_, houter, Or.inr ⟨rfl, rfl⟩⟩
    intro h
    exact hin (List.append_cancel_left h)

/-- the residual of case (c2) written as the congruence it is: the client's secret is the non-negative
    remainder of the integer power, so `Sclient = Sserver` says
    `(B − 3·(g^x' mod N'))^(a + u·x') mod N' = (A·(v^u mod N))^b mod N` -/
theorem C02_residual_is_congruence (B x' a u g N' A v b : Nat) (hN : 0 < N') :
    Spec.Sclient B x' a u g N' = Spec.Sserver A v u b ↔
      ((B : Int) - 3 * ((g ^ x' % N' : Nat) : Int)) ^ (a + u * x') % (N' : Int) =
        (((A * (v ^ u % Spec.N)) ^ b % Spec.N : Nat) : Int) := by
  rw [← (C03_client_S_range B x' a u g N' hN).2]
  unfold Spec.Sserver
  exact Int.natCast_inj.symm

/-! ### wrong password -/

/-- **wrong password, three ways** (text form: the hypothesis is that the two password TEXTS differ).
    Server record made by the API from `(U, pw, salt)` (`from_username_and_password`, then `into_proof`
    with drawn private key `b`); a client that ran `SrpClientChallenge::new` with the same username, the
    password `pw'`, the `B` and salt the server sent, any announced 32-byte group `(g, N')` and any drawn
    private key `a`; the server accepts the client's `A` and `M1`. Then the two session keys are the
    interleaves of the two Spec secrets, and one of (a), (b), (c1), (c2) of the file header holds. -/
theorem C02_wrong_password_three_way_of_text (C : Crypto) (hC : C.WF) (be : Backend)
    (U pw pw' : NStr) (salt b a chal : Bytes) (g : Nat) (nLE : Bytes)
    (ver : SrpVerifier) (p : SrpProof) (cc : SrpClientChallenge) (srv : SrpServer) (M2 : Bytes)
    (hpw : pw'.asRef ≠ pw.asRef)
    (hver : SrpVerifier.fromUsernameAndPassword C be U pw salt = .ok ver)
    (hproof : ver.intoProof be b = .ok p)
    (hN : 0 < ofLE nLE) (hl : nLE.length = 32)
    (hclient : SrpClientChallenge.new C be U pw' g nLE p.serverPublicKey p.salt a = .ok cc)
    (hacc : p.intoServer C be cc.clientPublicKey cc.clientProof chal = .ok (.ok (srv, M2))) :
    let x  := Spec.x C U.asRef pw.asRef salt
    let x' := Spec.x C U.asRef pw'.asRef salt
    let v  := 7 ^ x % Spec.N
    let B  := Spec.B v (ofLE b)
    let A  := g ^ ofLE a % ofLE nLE
    let u  := Spec.u C A B
    let S₁ := Spec.Sclient B x' (ofLE a) u g (ofLE nLE)
    let S₂ := Spec.Sserver A v u (ofLE b)
    cc.sessionKey = Spec.K C S₁ ∧ srv.sessionKey = Spec.K C S₂ ∧
    ((∃ m₁ m₂,
        m₁ = Gen.precalculatedXorHash ++ C.sha1 U.asRef ++ salt ++ leN 32 A ++ leN 32 B ++ Spec.K C S₂ ∧
        m₂ = calculateXorHash C nLE g ++ C.sha1 U.asRef ++ salt ++ leN 32 A ++ leN 32 B ++ Spec.K C S₁ ∧
        m₁ ≠ m₂ ∧ C.sha1 m₁ = C.sha1 m₂) ∨
     (S₁ ≠ S₂ ∧ leN 32 S₁ ≠ leN 32 S₂ ∧ Spec.K C S₁ = Spec.K C S₂) ∨
     (S₁ = S₂ ∧ x' = x ∧
        ∃ m₁ m₂, m₁ ≠ m₂ ∧ C.sha1 m₁ = C.sha1 m₂ ∧
          ((m₁ = U.asRef ++ [0x3a] ++ pw.asRef ∧ m₂ = U.asRef ++ [0x3a] ++ pw'.asRef) ∨
           (m₁ = salt ++ C.sha1 (U.asRef ++ [0x3a] ++ pw.asRef) ∧
            m₂ = salt ++ C.sha1 (U.asRef ++ [0x3a] ++ pw'.asRef)))) ∨
     (S₁ = S₂ ∧ x' ≠ x)) := by
  intro x x' v B A u S₁ S₂
  -- widths: every number that travels is below 256^32
  have hofv : ∀ n : Nat, ofLE (leN 32 (7 ^ n % Spec.N)) = 7 ^ n % Spec.N :=
    fun n => ofLE_leN 32 _ (Nat.lt_trans (Nat.mod_lt _ specN_pos) specN_lt)
  have hofB : ∀ v b : Nat, ofLE (leN 32 (Spec.B v b)) = Spec.B v b :=
    fun v b => ofLE_leN 32 _ (Nat.lt_trans (Spec.B_lt v b) nBig_lt')
  have hN'lt : ofLE nLE < 256 ^ 32 := by
    have := ofLE_lt nLE
    rwa [hl] at this
  have hofA : ofLE (leN 32 (g ^ ofLE a % ofLE nLE)) = g ^ ofLE a % ofLE nLE :=
    ofLE_leN 32 _ (Nat.lt_trans (Nat.mod_lt _ hN) hN'lt)
  -- the server record
  have hver2 := C03_api_verifier C be U pw salt
  rw [hver] at hver2
  have hvereq : ver = ⟨U, leN 32 (7 ^ Spec.x C U.asRef pw.asRef salt % Spec.N), salt⟩ := by
    injection hver2
  subst hvereq
  rw [SrpVerifier.intoProof_spec] at hproof
  simp only [hofv] at hproof
  split at hproof
  · cases hproof
  · have hp : p = ⟨U, leN 32 (Spec.B (7 ^ Spec.x C U.asRef pw.asRef salt % Spec.N) (ofLE b)), salt, b,
        leN 32 (7 ^ Spec.x C U.asRef pw.asRef salt % Spec.N)⟩ := (Out.ok.inj hproof).symm
    have hpU : p.username = U := by rw [hp]
    have hpB : p.serverPublicKey =
        leN 32 (Spec.B (7 ^ Spec.x C U.asRef pw.asRef salt % Spec.N) (ofLE b)) := by rw [hp]
    have hpS : p.salt = salt := by rw [hp]
    have hpb : p.serverPrivateKey = b := by rw [hp]
    have hpv : p.passwordVerifier = leN 32 (7 ^ Spec.x C U.asRef pw.asRef salt % Spec.N) := by rw [hp]
    have hBl : p.serverPublicKey.length = 32 := by rw [hpB]; exact leN_length _ _
    -- the client object
    have hA : Spec.A g (ofLE a) (ofLE nLE) ≠ 0 := by
      intro h0
      rw [(C04_client_self C hC be U pw' g nLE _ _ a hl hN).2.1 h0] at hclient
      cases hclient
    have hcl := SrpClientChallenge.new_spec C hC be U pw' g nLE p.serverPublicKey p.salt a hN hl hBl hA
    rw [hclient] at hcl
    have hcc := Out.ok.inj hcl
    have hccA : cc.clientPublicKey = leN 32 (g ^ ofLE a % ofLE nLE) := by rw [hcc]; rfl
    have hAl : cc.clientPublicKey.length = 32 := by rw [hccA]; exact leN_length _ _
    have hK1 : cc.sessionKey = Spec.K C S₁ := by
      rw [hcc]
      simp only [hpB, hpS, hofB]
      rfl
    -- the server's key
    have hKs := C03_session_key C hC be cc.clientPublicKey p.serverPublicKey p.passwordVerifier
      p.serverPrivateKey hAl hBl
    have hKval : Spec.K C (Spec.Sserver (ofLE cc.clientPublicKey) (ofLE p.passwordVerifier)
        (Spec.u C (ofLE cc.clientPublicKey) (ofLE p.serverPublicKey)) (ofLE p.serverPrivateKey)) =
        Spec.K C S₂ := by
      rw [hccA, hpB, hpv, hpb, hofA, hofv, hofB]
    have hsrv := ((C02_server_iff C be p _ _ chal _ hKs srv M2).1 hacc).2.1
    have hK2 : srv.sessionKey = Spec.K C S₂ := by rw [hsrv]; exact hKval
    refine ⟨hK1, hK2, ?_⟩
    -- M1 level
    rcases C02_wrong_password_partial C hC be U pw' g nLE _ _ a cc p chal _ srv M2 hclient hKs rfl rfl hacc
      with ⟨m₁, m₂, e1, e2, hne, hh⟩ | hk
    · left
      refine ⟨m₁, m₂, ?_, ?_, hne, hh⟩
      · rw [e1, hccA, hK2, hpU, hpB, hpS]
      · rw [e2, hccA, hK1, hpB, hpS]
    · right
      rw [hK1, hK2] at hk
      have hS1 : S₁ < 256 ^ 32 :=
        Nat.lt_trans (C03_client_S_range _ _ _ _ _ _ hN).1 hN'lt
      have hS2 : S₂ < 256 ^ 32 := Nat.lt_trans (Nat.mod_lt _ specN_pos) specN_lt
      by_cases hS : S₁ = S₂
      · right
        by_cases hx : x' = x
        · left
          exact ⟨hS, hx, C02_x_collision C hC U.asRef pw.asRef pw'.asRef salt hpw hx⟩
        · right
          exact ⟨hS, hx⟩
      · left
        exact ⟨hS, fun h => hS (leN_inj 32 S₁ S₂ hS1 hS2 h), hk⟩

/-- **wrong password, three ways** (as asked: `pw' ≠ pw`, both accepted by `NormalizedString::new`) -/
theorem C02_wrong_password_three_way (C : Crypto) (hC : C.WF) (be : Backend)
    (U pw pw' : NStr) (cpw cpw' : List Char) (salt b a chal : Bytes) (g : Nat) (nLE : Bytes)
    (ver : SrpVerifier) (p : SrpProof) (cc : SrpClientChallenge) (srv : SrpServer) (M2 : Bytes)
    (hok : NStr.new cpw = .ok pw) (hok' : NStr.new cpw' = .ok pw') (hpw : pw' ≠ pw)
    (hver : SrpVerifier.fromUsernameAndPassword C be U pw salt = .ok ver)
    (hproof : ver.intoProof be b = .ok p)
    (hN : 0 < ofLE nLE) (hl : nLE.length = 32)
    (hclient : SrpClientChallenge.new C be U pw' g nLE p.serverPublicKey p.salt a = .ok cc)
    (hacc : p.intoServer C be cc.clientPublicKey cc.clientProof chal = .ok (.ok (srv, M2))) :
    let x  := Spec.x C U.asRef pw.asRef salt
    let x' := Spec.x C U.asRef pw'.asRef salt
    let v  := 7 ^ x % Spec.N
    let B  := Spec.B v (ofLE b)
    let A  := g ^ ofLE a % ofLE nLE
    let u  := Spec.u C A B
    let S₁ := Spec.Sclient B x' (ofLE a) u g (ofLE nLE)
    let S₂ := Spec.Sserver A v u (ofLE b)
    cc.sessionKey = Spec.K C S₁ ∧ srv.sessionKey = Spec.K C S₂ ∧
    ((∃ m₁ m₂,
        m₁ = Gen.precalculatedXorHash ++ C.sha1 U.asRef ++ salt ++ leN 32 A ++ leN 32 B ++ Spec.K C S₂ ∧
        m₂ = calculateXorHash C nLE g ++ C.sha1 U.asRef ++ salt ++ leN 32 A ++ leN 32 B ++ Spec.K C S₁ ∧
        m₁ ≠ m₂ ∧ C.sha1 m₁ = C.sha1 m₂) ∨
     (S₁ ≠ S₂ ∧ leN 32 S₁ ≠ leN 32 S₂ ∧ Spec.K C S₁ = Spec.K C S₂) ∨
     (S₁ = S₂ ∧ x' = x ∧
        ∃ m₁ m₂, m₁ ≠ m₂ ∧ C.sha1 m₁ = C.sha1 m₂ ∧
          ((m₁ = U.asRef ++ [0x3a] ++ pw.asRef ∧ m₂ = U.asRef ++ [0x3a] ++ pw'.asRef) ∨
           (m₁ = salt ++ C.sha1 (U.asRef ++ [0x3a] ++ pw.asRef) ∧
            m₂ = salt ++ C.sha1 (U.asRef ++ [0x3a] ++ pw'.asRef)))) ∨
     (S₁ = S₂ ∧ x' ≠ x)) :=
  C02_wrong_password_three_way_of_text C hC be U pw pw' salt b a chal g nLE ver p cc srv M2
    (fun h => hpw (C02_accepted_text_inj cpw' cpw pw' pw hok' hok h)) hver hproof hN hl hclient hacc

/-! ### case (b) one level further: what an interleave collision is -/

/-- `g₀ h₀ g₁ h₁ …` determines both lists (of equal lengths) -/
theorem zipInterleave_inj : ∀ (G H G' H' : Bytes), G.length = H.length → G'.length = H'.length →
    G.length = G'.length → Spec.zipInterleave G H = Spec.zipInterleave G' H' → G = G' ∧ H = H'
  | [], [], [], [], _, _, _, _ => ⟨rfl, rfl⟩
  | [], _ :: _, _, _, h, _, _, _ => by simp at h
  | _ :: _, [], _, _, h, _, _, _ => by simp at h
  | _, _, [], _ :: _, _, h, _, _ => by simp at h
  | _, _, _ :: _, [], _, h, _, _ => by simp at h
  | [], [], _ :: _, _ :: _, _, _, h, _ => by simp at h
  | _ :: _, _ :: _, [], [], _, _, h, _ => by simp at h
  | a :: as, b :: bs, a' :: as', b' :: bs', h1, h2, h3, h => by
    simp only [Spec.zipInterleave, List.zip_cons_cons, List.flatMap_cons, List.cons_append,
      List.nil_append, List.cons.injEq] at h
    obtain ⟨rfl, rfl, h⟩ := h
    obtain ⟨rfl, rfl⟩ := zipInterleave_inj as bs as' bs' (by simpa using h1) (by simpa using h2)
      (by simpa using h3) h
    exact ⟨rfl, rfl⟩

/-- the even/odd split of an even-length string determines the string -/
theorem halves_inj : ∀ (s t : Bytes), s.length % 2 = 0 → t.length % 2 = 0 →
    Spec.halves s = Spec.halves t → s = t
  | [], [], _, _, _ => rfl
  | [], [_], _, h, _ => by simp at h
  | [], _ :: _ :: _, _, _, h => by simp [Spec.halves] at h
  | [_], _, h, _, _ => by simp at h
  | _ :: _ :: _, [], _, _, h => by simp [Spec.halves] at h
  | _ :: _ :: _, [_], _, h, _ => by simp at h
  | a :: b :: r, a' :: b' :: r', hs, ht, h => by
    simp only [Spec.halves, Prod.mk.injEq, List.cons.injEq] at h
    obtain ⟨⟨rfl, h1⟩, rfl, h2⟩ := h
    have hr : r.length % 2 = 0 := by simp only [List.length_cons] at hs; omega
    have hr' : r'.length % 2 = 0 := by simp only [List.length_cons] at ht; omega
    rw [halves_inj r r' hr hr' (Prod.ext h1 h2)]

/-- **interleave collision, taken apart**: two even-length secrets (e.g. the 32-byte `LE32(S₁)`,
    `LE32(S₂)` of case (b)) with the same SHA_Interleave either give an explicit SHA-1 collision — the
    even-position or the odd-position halves of the stripped secrets are different strings with the same
    hash — or are equal after the strip, i.e. they differ only in the low-order bytes SHA_Interleave
    throws away (its documented quirk: an odd number of low-order zero bytes takes one more byte along) -/
theorem C02_interleave_collision (C : Crypto) (hC : C.WF) (s t : Bytes)
    (hs : s.length % 2 = 0) (ht : t.length % 2 = 0)
    (hK : Spec.interleave C s = Spec.interleave C t) :
    Spec.strip s = Spec.strip t ∨
    ∃ m₁ m₂, m₁ ≠ m₂ ∧ C.sha1 m₁ = C.sha1 m₂ ∧
      ((m₁ = (Spec.halves (Spec.strip s)).1 ∧ m₂ = (Spec.halves (Spec.strip t)).1) ∨
       (m₁ = (Spec.halves (Spec.strip s)).2 ∧ m₂ = (Spec.halves (Spec.strip t)).2)) := by
  unfold Spec.interleave at hK
  obtain ⟨h1, h2⟩ := zipInterleave_inj _ _ _ _ (by rw [hC.sha1_len, hC.sha1_len])
    (by rw [hC.sha1_len, hC.sha1_len]) (by rw [hC.sha1_len, hC.sha1_len]) hK
  by_cases e1 : (Spec.halves (Spec.strip s)).1 = (Spec.halves (Spec.strip t)).1
  · by_cases e2 : (Spec.halves (Spec.strip s)).2 = (Spec.halves (Spec.strip t)).2
    · left
      exact halves_inj _ _ (Spec.strip_length_even s hs) (Spec.strip_length_even t ht) (Prod.ext e1 e2)
    · exact Or.inr ⟨_, _, e2, h2, Or.inr ⟨rfl, rfl⟩⟩
  · exact Or.inr ⟨_, _, e1, h1, Or.inl ⟨rfl, rfl⟩⟩

/-- case (b) in that form: `Spec.K C S₁ = Spec.K C S₂` for the 32-byte encodings -/
theorem C02_session_key_collision (C : Crypto) (hC : C.WF) (S₁ S₂ : Nat)
    (hK : Spec.K C S₁ = Spec.K C S₂) :
    Spec.strip (leN 32 S₁) = Spec.strip (leN 32 S₂) ∨
    ∃ m₁ m₂, m₁ ≠ m₂ ∧ C.sha1 m₁ = C.sha1 m₂ ∧
      ((m₁ = (Spec.halves (Spec.strip (leN 32 S₁))).1 ∧ m₂ = (Spec.halves (Spec.strip (leN 32 S₂))).1) ∨
       (m₁ = (Spec.halves (Spec.strip (leN 32 S₁))).2 ∧ m₂ = (Spec.halves (Spec.strip (leN 32 S₂))).2)) :=
  C02_interleave_collision C hC _ _ (by rw [leN_length]) (by rw [leN_length]) hK

/-! ### wrong username: always a collision -/

/-- **wrong username**: ANY server record `p`, a client that ran `SrpClientChallenge::new` with a username
    whose text differs from the record's (any password, any announced group, any private key), and the
    server accepts ⇒ an explicit SHA-1 collision, always: either the two names themselves collide, or
    the two M1 inputs are different strings with the same hash. No residual: the name enters M1
    directly through `H(U)`. -/
theorem C02_wrong_username_collision (C : Crypto) (hC : C.WF) (be : Backend)
    (U' pw' : NStr) (g : Nat) (nLE a chal : Bytes) (p : SrpProof) (cc : SrpClientChallenge)
    (srv : SrpServer) (M2 : Bytes)
    (hU : U'.asRef ≠ p.username.asRef)
    (hclient : SrpClientChallenge.new C be U' pw' g nLE p.serverPublicKey p.salt a = .ok cc)
    (hacc : p.intoServer C be cc.clientPublicKey cc.clientProof chal = .ok (.ok (srv, M2))) :
    ∃ m₁ m₂, m₁ ≠ m₂ ∧ C.sha1 m₁ = C.sha1 m₂ ∧
      ((m₁ = p.username.asRef ∧ m₂ = U'.asRef) ∨
       (m₁ = Gen.precalculatedXorHash ++ C.sha1 p.username.asRef ++ p.salt ++ cc.clientPublicKey ++
              p.serverPublicKey ++ srv.sessionKey ∧
        m₂ = calculateXorHash C nLE g ++ C.sha1 U'.asRef ++ p.salt ++ cc.clientPublicKey ++
              p.serverPublicKey ++ cc.sessionKey)) := by
  cases hK : calculateSessionKey C be cc.clientPublicKey p.serverPublicKey p.passwordVerifier
      p.serverPrivateKey with
  | panic site => rw [C02_server_panic C be p _ _ chal site hK] at hacc; cases hacc
  | ok K =>
    obtain ⟨hM1, hsrv, _⟩ := (C02_server_iff C be p _ _ chal K hK srv M2).1 hacc
    have hsk : srv.sessionKey = K := by rw [hsrv]
    rw [(C02_client_M1 C be U' pw' g nLE _ _ a cc hclient).2, C02_M1_layout] at hM1
    rw [hsk]
    by_cases hm : Gen.precalculatedXorHash ++ C.sha1 p.username.asRef ++ p.salt ++ cc.clientPublicKey ++
        p.serverPublicKey ++ K =
        calculateXorHash C nLE g ++ C.sha1 U'.asRef ++ p.salt ++ cc.clientPublicKey ++
          p.serverPublicKey ++ cc.sessionKey
    · have hx : Gen.precalculatedXorHash.length = (calculateXorHash C nLE g).length := by
        simp only [calculateXorHash, xorBytes, List.length_zipWith, hC.sha1_len]
        decide
      obtain ⟨_, e2, _⟩ := Layout.layout6_inj hx
        ((hC.sha1_len _).trans (hC.sha1_len _).symm) rfl rfl rfl hm
      exact ⟨_, _, fun h => hU h.symm, e2, Or.inl ⟨rfl, rfl⟩⟩
    · exact ⟨_, _, hm, hM1.symm, Or.inr ⟨rfl, rfl⟩⟩

/-- **wrong username at the API** (as asked: a record made from `(U, pw, salt)`, a client that used
    `(U', pw', salt)` with `U' ≠ U`, both names accepted by `NormalizedString::new`; the client's
    password is arbitrary — the right one included): acceptance exhibits a SHA-1 collision -/
theorem C02_wrong_username_three_way (C : Crypto) (hC : C.WF) (be : Backend)
    (U U' pw pw' : NStr) (cu cu' : List Char) (salt b a chal : Bytes) (g : Nat) (nLE : Bytes)
    (ver : SrpVerifier) (p : SrpProof) (cc : SrpClientChallenge) (srv : SrpServer) (M2 : Bytes)
    (hok : NStr.new cu = .ok U) (hok' : NStr.new cu' = .ok U') (hU : U' ≠ U)
    (hver : SrpVerifier.fromUsernameAndPassword C be U pw salt = .ok ver)
    (hproof : ver.intoProof be b = .ok p)
    (hclient : SrpClientChallenge.new C be U' pw' g nLE p.serverPublicKey p.salt a = .ok cc)
    (hacc : p.intoServer C be cc.clientPublicKey cc.clientProof chal = .ok (.ok (srv, M2))) :
    ∃ m₁ m₂, m₁ ≠ m₂ ∧ C.sha1 m₁ = C.sha1 m₂ ∧
      ((m₁ = U.asRef ∧ m₂ = U'.asRef) ∨
       (m₁ = Gen.precalculatedXorHash ++ C.sha1 U.asRef ++ salt ++ cc.clientPublicKey ++
              p.serverPublicKey ++ srv.sessionKey ∧
        m₂ = calculateXorHash C nLE g ++ C.sha1 U'.asRef ++ salt ++ cc.clientPublicKey ++
              p.serverPublicKey ++ cc.sessionKey)) := by
  have hver2 := C03_api_verifier C be U pw salt
  rw [hver] at hver2
  have hvereq := Out.ok.inj hver2
  rw [SrpVerifier.intoProof_spec] at hproof
  split at hproof
  · cases hproof
  · have hp := (Out.ok.inj hproof).symm
    have hpU : p.username = U := by rw [hp, hvereq]
    have hpS : p.salt = salt := by rw [hp, hvereq]
    have h := C02_wrong_username_collision C hC be U' pw' g nLE a chal p cc srv M2
      (by rw [hpU]; exact fun h => hU (C02_accepted_text_inj cu' cu U' U hok' hok h)) hclient hacc
    rw [hpU, hpS] at h
    exact h

/-! ### non-vacuity: each residual case does occur for SOME hash — the theorem is generic in `C`

For the real SHA-1 no witness of any of the four cases can be written down: (a), (b), (c1) are SHA-1
collisions of prescribed shape (none is known), and (c2) asks for draws `a, b` with
`(B − 3·7^x')^(a+u·x') ≡ (A·v^u)^b (mod N)`, `u = SHA-1(A | B)` depending on both — a 256-bit coincidence
(or a discrete-logarithm computation in the 256-bit group) that cannot be produced by evaluation. What can
be shown is that the hypotheses are jointly satisfiable and that the residual cases (c2) and (b) are
inhabited for hashes chosen for the purpose; (c1) is the example at the end of Props/C02.lean (constant
hash: every password has the same `x`). -/
section
private def sum8 (m : Bytes) : UInt8 := m.foldl (· + ·) 0
private def rep20 (x : UInt8) : Bytes := List.replicate 20 x
/-- a hash that is 0 on the 64-byte input of `u = H(A | B)`, ignores the xor-hash prefix of the
    176-byte M1 input, and is a byte sum otherwise (so different passwords give different `x`) -/
private def Ctoy : Crypto :=
  ⟨fun m => if m.length = 64 then rep20 0 else rep20 (sum8 (if m.length = 176 then m.drop 20 else m)),
   fun _ _ => rep20 0, fun _ => List.replicate 16 0⟩
/-- the same, but 0 on 16-byte inputs (the halves of a 32-byte secret) instead of on 64-byte ones -/
private def Chalf : Crypto :=
  ⟨fun m => if m.length = 16 then rep20 0 else rep20 (sum8 (if m.length = 176 then m.drop 20 else m)),
   fun _ _ => rep20 0, fun _ => List.replicate 16 0⟩

example : Ctoy.WF :=
  ⟨fun m => by show (if _ then _ else _ : Bytes).length = 20; split <;> rfl, fun _ _ => rfl, fun _ => rfl⟩
example : Chalf.WF :=
  ⟨fun m => by show (if _ then _ else _ : Bytes).length = 20; split <;> rfl, fun _ _ => rfl, fun _ => rfl⟩

private def z15 : Bytes := List.replicate 15 0
private def z31 : Bytes := List.replicate 31 0
private def z32 : Bytes := List.replicate 32 0
private def uA : NStr := ⟨0x41 :: z15, 1⟩
private def pA : NStr := ⟨0x41 :: z15, 1⟩
private def pB : NStr := ⟨0x42 :: z15, 1⟩
private def salt5 : Bytes := List.replicate 32 5
private def vA : Bytes :=
  [85, 236, 113, 213, 94, 12, 197, 184, 27, 158, 60, 101, 239, 84, 50, 147, 3, 87, 55, 94, 205, 187, 157,
   158, 241, 122, 103, 152, 181, 48, 155, 58]
private def verT : SrpVerifier := ⟨uA, vA, salt5⟩
private def keyOnes : Bytes := (List.replicate 20 [1, 0]).flatten

/-- the three names/passwords are what `NormalizedString::new` returns for "A", "A", "B" -/
example : NStr.new ['A'] = .ok uA ∧ NStr.new ['A'] = .ok pA ∧ NStr.new ['B'] = .ok pB ∧ pB ≠ pA := by
  decide

/-- **case (c2) occurs** (so the last disjunct of `C02_wrong_password_three_way` cannot be dropped in a
    theorem that holds for every hash and every draw): hash `Ctoy` (`u = 0`), degenerate draws
    `a = b = 0`, built-in group. The record is made for password "A"; the client types "B"; all
    hypotheses of the theorem hold; the two `x` differ (no hash collision is involved); both secrets
    are `1`, both session keys are equal, and the server accepts the wrong password. -/
example :
    let prfT : SrpProof :=
      ⟨uA, [73, 41, 23, 86, 149, 162, 18, 127, 195, 123, 246, 111, 63, 77, 149, 177, 183, 180, 159, 241,
            220, 215, 43, 30, 121, 29, 85, 63, 194, 45, 134, 38], salt5, z32, vA⟩
    let cclT : SrpClientChallenge := ⟨uA, rep20 161, 1 :: z31, keyOnes⟩
    SrpVerifier.fromUsernameAndPassword Ctoy .num uA pA salt5 = .ok verT ∧
    verT.intoProof .num z32 = .ok prfT ∧
    0 < ofLE Gen.largeSafePrimeLE ∧ Gen.largeSafePrimeLE.length = 32 ∧
    SrpClientChallenge.new Ctoy .num uA pB gBig Gen.largeSafePrimeLE prfT.serverPublicKey prfT.salt z32
      = .ok cclT ∧
    prfT.intoServer Ctoy .num cclT.clientPublicKey cclT.clientProof [] =
      .ok (.ok (⟨uA, keyOnes, []⟩, rep20 169)) ∧
    Spec.x Ctoy uA.asRef pB.asRef salt5 ≠ Spec.x Ctoy uA.asRef pA.asRef salt5 ∧
    (∀ B x' A v : Nat, Spec.Sclient B x' (ofLE z32) (Spec.u Ctoy A B) 7 Spec.N =
        Spec.Sserver A v (Spec.u Ctoy A B) (ofLE z32)) := by
  intro prfT cclT
  refine ⟨by decide +kernel, by decide +kernel, by decide +kernel, by decide, by decide +kernel,
    by decide +kernel, by decide +kernel, ?_⟩
  intro B x' A v
  have hu : Spec.u Ctoy A B = 0 := by
    have hlen : (leN 32 A ++ leN 32 B).length = 64 := by simp
    unfold Spec.u
    simp only [Ctoy, hlen, ↓reduceIte]
    decide
  have hz : ofLE z32 = 0 := by decide
  rw [hu, hz]
  simp only [Spec.Sclient, Spec.Sserver, Nat.zero_mul, Nat.add_zero, pow_zero]
  decide

/-- **case (b) occurs**: hash `Chalf` (0 on the 16-byte halves), draws `a = 2`, `b = 3`. The client
    typed "B" against a record for "A"; the two 32-byte secrets are different, their interleaves are
    equal, and the server accepts. -/
example :
    let prfT : SrpProof :=
      ⟨uA, [159, 42, 23, 86, 149, 162, 18, 127, 195, 123, 246, 111, 63, 77, 149, 177, 183, 180, 159, 241,
            220, 215, 43, 30, 121, 29, 85, 63, 194, 45, 134, 38], salt5, 3 :: z31, vA⟩
    let cclT : SrpClientChallenge := ⟨uA, rep20 20, 49 :: z31, List.replicate 40 0⟩
    let s₁ : Bytes :=
      [209, 14, 11, 170, 198, 31, 226, 185, 129, 94, 202, 206, 217, 206, 160, 104, 185, 110, 127, 151, 47,
       188, 115, 149, 50, 47, 213, 98, 107, 17, 93, 105]
    let s₂ : Bytes :=
      [21, 96, 68, 230, 48, 250, 179, 19, 235, 232, 94, 63, 68, 163, 36, 198, 44, 112, 82, 162, 5, 44, 77,
       216, 177, 205, 180, 165, 40, 194, 178, 24]
    SrpVerifier.fromUsernameAndPassword Chalf .num uA pA salt5 = .ok verT ∧
    verT.intoProof .num (3 :: z31) = .ok prfT ∧
    SrpClientChallenge.new Chalf .num uA pB gBig Gen.largeSafePrimeLE prfT.serverPublicKey prfT.salt
      (2 :: z31) = .ok cclT ∧
    prfT.intoServer Chalf .num cclT.clientPublicKey cclT.clientProof [] =
      .ok (.ok (⟨uA, List.replicate 40 0, []⟩, rep20 193)) ∧
    calculateClientS .num prfT.serverPublicKey (calculateX Chalf uA.asRef pB.asRef salt5) (2 :: z31)
      (calculateU Chalf cclT.clientPublicKey prfT.serverPublicKey) gBig Gen.largeSafePrimeLE = .ok s₁ ∧
    calculateS .num cclT.clientPublicKey prfT.passwordVerifier
      (calculateU Chalf cclT.clientPublicKey prfT.serverPublicKey) (3 :: z31) = .ok s₂ ∧
    s₁ ≠ s₂ ∧ Spec.interleave Chalf s₁ = Spec.interleave Chalf s₂ := by
  intro prfT cclT s₁ s₂
  refine ⟨by decide +kernel, by decide +kernel, by decide +kernel, by decide +kernel, by decide +kernel,
    by decide +kernel, by decide, by decide +kernel⟩
end

#print axioms C02_accepted_text_inj
#print axioms C02_x_collision
#print axioms C02_residual_is_congruence
#print axioms C02_wrong_password_three_way_of_text
#print axioms C02_wrong_password_three_way
#print axioms C02_interleave_collision
#print axioms C02_session_key_collision
#print axioms C02_wrong_username_collision
#print axioms C02_wrong_username_three_way


/-! ### The headline clause on the real hash

Run by the kernel on the real SHA-1 (record "A"/"A", salt 05…05, b = 3, a = 2): the client who types the password "B" is REFUSED, and so is
the client who claims the name "B" with the right password; the right credentials are accepted.  (A test, labelled as a test: the
theorems above are what holds for every input.) -/

private def realLogin (un pw : NStr) : Out Bool := do
  let ver ← SrpVerifier.fromUsernameAndPassword Crypto.real .num uA uA salt5
  let p ← ver.intoProof .num (3 :: z31)
  let cc ← SrpClientChallenge.new Crypto.real .num un pw gBig Gen.largeSafePrimeLE p.serverPublicKey p.salt (2 :: z31)
  let r ← p.intoServer Crypto.real .num cc.clientPublicKey cc.clientProof []
  pure (match r with | .ok _ => true | .error _ => false)

example : realLogin uA uA = .ok true ∧ realLogin uA ⟨0x42 :: z15, 1⟩ = .ok false ∧ realLogin ⟨0x42 :: z15, 1⟩ uA = .ok false := by
  decide +kernel

end WowSrp
