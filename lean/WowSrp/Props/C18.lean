/-
C18 — matrix-card proofs match what a user reads off the printed card.
Property theorems only; helper lemmas live in Lemmas/MatrixCard.lean, Lemmas/Select.lean,
Lemmas/Rc4.lean; the selection Spec (`Spec.pick`) in Spec/Pin.lean.

A card is `MatrixCard.WF` when `data.length = digit_count * height * width` (what `from_data` and
`new` guarantee), `1 ≤ width * height ≤ 255` and `digit_count ≥ 1`.
`c.cell i = (c.data.drop (i * d)).take d` is cell number `i` in printing order.
-/
import WowSrp.Lemmas.MatrixCard
namespace WowSrp

/-- tie to the definitions used below and to `from_data`: a card accepted by `from_data` has exactly
    `digit_count * height * width` digits, and `cell i` is the slice `data[i*d ..< i*d + d]` -/
theorem C18_defs (d h w : Nat) (data : Bytes) (c : MatrixCard) (i : Nat) :
    (MatrixCard.fromData d h w data = some c →
      c.data.length = c.digitCount * c.height * c.width ∧
      c.digitCount = d ∧ c.height = h ∧ c.width = w ∧ c.data = data) ∧
    c.cell i = (c.data.drop (i * c.digitCount)).take c.digitCount := by
  refine ⟨fun hf => ?_, rfl⟩
  unfold MatrixCard.fromData at hf
  split at hf
  · cases hf
  · next hlen =>
    injection hf with hf; subst hf
    simp only [bne_iff_ne, ne_eq, Decidable.not_not] at hlen
    exact ⟨hlen, rfl, rfl, rfl, rfl⟩

/-- **cell lookup = printed card**: for every position (x, y) on the card, `get_number_at_coordinates`
    returns (without panicking) the `d` digits starting at offset `(y*width + x) * d`, and that is
    exactly the cell `to_printer()` yields at index `y*width + x`, i.e. the one printed at row `y`,
    column `x` -/
theorem C18_cell (c : MatrixCard) (hc : c.WF) (x y : Nat) (hx : x < c.width) (hy : y < c.height) :
    let cell := (c.data.drop ((y * c.width + x) * c.digitCount)).take c.digitCount
    c.getNumberAt x y = .ok cell ∧ c.printed (y * c.width + x) = .ok (some cell) ∧
    cell.length = c.digitCount :=
  ⟨c.getNumberAt_eq hc x y hx hy, c.printed_eq hc _ (cellIndex_lt _ _ _ _ hx hy),
    c.cell_length hc _ (cellIndex_lt _ _ _ _ hx hy)⟩

/-- **cells are distinct, non-overlapping, in printing order**: the printed card has exactly
    `width * height` cells; distinct positions (x, y) are distinct cell numbers; digit `k` of cell `i`
    is `data[i*d + k]`; and the index ranges `[i*d, (i+1)*d)` of two different cells do not meet -/
theorem C18_cells_disjoint (c : MatrixCard) (hc : c.WF) :
    (∀ i, (i < c.width * c.height → c.printed i = .ok (some (c.cell i))) ∧
          (c.width * c.height ≤ i → c.printed i = .ok none)) ∧
    (∀ x y x' y', x < c.width → x' < c.width → y * c.width + x = y' * c.width + x' → x = x' ∧ y = y') ∧
    (∀ i k, k < c.digitCount → (c.cell i)[k]? = c.data[i * c.digitCount + k]?) ∧
    (∀ i j k k', i ≠ j → k < c.digitCount → k' < c.digitCount →
        i * c.digitCount + k ≠ j * c.digitCount + k') := by
  refine ⟨fun i => ⟨c.printed_eq hc i, c.printed_none hc i⟩,
    fun x y x' y' hx hx' h => cellIndex_inj _ _ _ _ _ hx hx' h,
    fun i k hk => by rw [c.cell_getElem?, if_pos hk],
    fun i j k k' hij hk hk' => cellRanges_disjoint _ _ _ _ _ hij hk hk'⟩

/-- **challenged cells**: for every card geometry of at most 255 cells, every challenge count up to
    the number of cells and every seed, `generate_coordinates` does not panic and returns the Spec's
    selection without replacement from the cell numbers `0 .. width*height-1`: exactly `count`
    entries, pairwise distinct, each on the card -/
theorem C18_coords (w h count seed : Nat) (hs : w * h ≤ 255) (hc : count ≤ w * h) :
    ∃ coords, generateCoordinates w h count seed = .ok coords ∧
      coords = (Spec.pick count (List.range (w * h)) seed).map UInt8.ofNat ∧
      coords.length = count ∧ coords.Nodup ∧ ∀ c ∈ coords, c.toNat < w * h :=
  ⟨_, generateCoordinates_spec w h count seed hs hc, rfl, coords_facts w h count seed hs hc⟩

/-- **challenged positions**: the verifier is constructed without panic, and for every round
    `r < count` `get_matrix_coordinates` returns a position `(x, y)` on the card, namely the decoding
    `y*width + x` of the `r`-th selected cell number; different rounds challenge different positions -/
theorem C18_coords_on_card (C : Crypto) (w h count seed : Nat) (K : Bytes)
    (hs : w * h ≤ 255) (hc : count ≤ w * h) :
    ∃ v coords, MCVerifier.new C count h seed w K = .ok v ∧
      generateCoordinates w h count seed = .ok coords ∧ v.coordinates = coords ∧
      (∀ r, r < count → ∃ x y, v.getCoordinates r = .ok (some (x, y)) ∧ x < w ∧ y < h ∧
          ∃ hr : r < coords.length, y * w + x = coords[r].toNat) ∧
      (∀ r r', r < count → r' < count → v.getCoordinates r = v.getCoordinates r' → r = r') := by
  obtain ⟨r0, hr0, _⟩ := MC.new_ok (C.md5 (leN 8 seed ++ K))
  have hg := generateCoordinates_spec w h count seed hs hc
  obtain ⟨f1, f2, f3⟩ := coords_facts w h count seed hs hc
  have hnew := MCVerifier.new_eq C count h seed w K _ r0 hg hr0
  refine ⟨_, _, hnew, hg, rfl, fun r hr => ?_, fun r r' hr hr' he => ?_⟩
  · exact MCVerifier.getCoordinates_lt _ r hr f1 f3
  · obtain ⟨x, y, e1, _, _, q1, p1⟩ := MCVerifier.getCoordinates_lt
      ⟨count, h, w, _, C.md5 (leN 8 seed ++ K), [], r0⟩ r hr f1 f3
    obtain ⟨x', y', e2, _, _, q2, p2⟩ := MCVerifier.getCoordinates_lt
      ⟨count, h, w, _, C.md5 (leN 8 seed ++ K), [], r0⟩ r' hr' f1 f3
    rw [e1, e2] at he
    injection he with he; injection he with he; injection he with hx hy
    subst hx; subst hy
    exact nodup_getElem_inj _ f2 r r' q1 q2 (UInt8.toNat_inj.mp (p1.symm.trans p2))

/-- **round bound**: for a verifier built with parameters as above, asking for any round at or beyond
    the challenge count yields no coordinates, and no round whatsoever (0..255 and beyond) panics -/
theorem C18_round_bound (C : Crypto) (w h count seed : Nat) (K : Bytes)
    (hs : w * h ≤ 255) (hc : count ≤ w * h) :
    ∃ v, MCVerifier.new C count h seed w K = .ok v ∧
      ∀ round, (round ≥ count → v.getCoordinates round = .ok none) ∧
               ∃ res, v.getCoordinates round = .ok res := by
  obtain ⟨v, coords, hnew, hg, hv, hlt, _⟩ := C18_coords_on_card C w h count seed K hs hc
  obtain ⟨r0, hr0, _⟩ := MC.new_ok (C.md5 (leN 8 seed ++ K))
  have hcnt : v.challengeCount = count := by
    rw [MCVerifier.new_eq C count h seed w K _ r0 hg hr0] at hnew
    injection hnew with hnew; rw [← hnew]
  refine ⟨v, hnew, fun round => ⟨fun hge => v.getCoordinates_ge round (by omega), ?_⟩⟩
  by_cases hr : round < count
  · obtain ⟨x, y, e, _⟩ := hlt round hr
    exact ⟨_, e⟩
  · exact ⟨none, v.getCoordinates_ge round (by omega)⟩

/-- **round bound, any parameters**: whatever the geometry, count, seed and key — whenever
    `MatrixCardVerifier::new` returns a verifier at all, no round panics, and rounds at or beyond the
    count yield no coordinates -/
theorem C18_round_bound_any (C : Crypto) (w h count seed : Nat) (K : Bytes) (v : MCVerifier)
    (hnew : MCVerifier.new C count h seed w K = .ok v) (round : Nat) :
    (round ≥ count → v.getCoordinates round = .ok none) ∧ ∃ res, v.getCoordinates round = .ok res := by
  unfold MCVerifier.new at hnew
  cases hg : generateCoordinates w h count seed with
  | panic p => simp [hg] at hnew
  | ok coords =>
    obtain ⟨r0, hr0, _⟩ := MC.new_ok (C.md5 (leN 8 seed ++ K))
    simp only [hg, hr0, Out.bind_ok, Out.pure_eq] at hnew
    injection hnew with hnew
    subst hnew
    unfold generateCoordinates at hg
    split at hg
    · cases hg
    · simp only at hg
      have hlen : coords.length = count := by simpa using mcCoordLoop_length _ _ _ _ _ _ _ hg
      refine ⟨fun hge => MCVerifier.getCoordinates_ge _ round hge, ?_⟩
      by_cases hr : round < count
      · have hw : ¬ w = 0 := by
          intro h0
          cases count with
          | zero => omega
          | succ n =>
            have := mcCoordLoop_pos _ _ _ _ _ _ hg
            rw [h0] at this; simp at this
        unfold MCVerifier.getCoordinates
        simp only [if_neg (show ¬ round ≥ count by omega), List.getElem?_eq_getElem (show round < coords.length by omega),
          if_neg hw]
        split <;> exact ⟨_, rfl⟩
      · exact ⟨none, MCVerifier.getCoordinates_ge _ round (by simp only; omega)⟩

/-- **a reading exists**: for every well-formed card and every verifier as above there is a sequence of
    cells satisfying `ReadsOffCard` (so `C18_accept` / `C18_reject` are not vacuous), namely the card's
    cells at the challenged numbers -/
theorem C18_reads_exists (C : Crypto) (card : MatrixCard) (hc : card.WF) (count seed : Nat) (K : Bytes)
    (hcount : count ≤ card.width * card.height) :
    ∃ v0 cells, MCVerifier.new C count card.height seed card.width K = .ok v0 ∧
      ReadsOffCard card v0 cells ∧ cells.length = count := by
  obtain ⟨r0, r1, enc, _, _, hnew, _, _⟩ := verify_pipeline C card hc count seed K hcount
  obtain ⟨f1, _, f3⟩ := coords_facts card.width card.height count seed hc.small hcount
  exact ⟨_, _, hnew, ReadsOffCard.intro card hc _ rfl rfl f1 f3, by simpa using f1⟩

/-- **accept, and the proof formula**: the client builds the verifier, enters — for rounds
    `0 .. count-1`, in round order — the digits printed at the challenged cells, and calls `into_proof`.
    Nothing panics; the proof is `HMAC-SHA1(key = MD5(seed_le8 | session key), RC4_{that MD5}(digits))`
    (RC4 keyed by the same MD5, no keystream dropped); and `verify_matrix_card_hash` accepts it -/
theorem C18_accept (C : Crypto) (card : MatrixCard) (hc : card.WF) (count seed : Nat) (K : Bytes)
    (hcount : count ≤ card.width * card.height) :
    ∃ v0 r0, MCVerifier.new C count card.height seed card.width K = .ok v0 ∧
      Rc4.new (C.md5 (leN 8 seed ++ K)) = .ok r0 ∧
      ∀ cells, ReadsOffCard card v0 cells →
        ∃ v1 r1 enc, v0.enterValues cells.flatten = .ok v1 ∧
          r0.apply cells.flatten = .ok (r1, enc) ∧
          v1.intoProof C = C.hmac (C.md5 (leN 8 seed ++ K)) enc ∧
          verifyMatrixCardHash C card count seed K (v1.intoProof C) = .ok true := by
  obtain ⟨r0, r1, enc, hr0, hs0, hnew, ha, hver⟩ := verify_pipeline C card hc count seed K hcount
  obtain ⟨f1, _, f3⟩ := coords_facts card.width card.height count seed hc.small hcount
  refine ⟨_, r0, hnew, hr0, fun cells hcells => ?_⟩
  have he := ReadsOffCard.eq card hc _ cells rfl rfl f1 f3 hcells
  simp only at he
  rw [he]
  refine ⟨_, r1, enc, MCVerifier.enterValues_eq _ _ r1 enc ha, ha, ?_, ?_⟩
  · simp [MCVerifier.intoProof]
  · rw [hver]; simp [MCVerifier.intoProof]

/-- **reject**: if the client enters any other digit sequence (of any length) the proof it obtains is
    rejected — unless THE two RC4 ciphertexts form an HMAC collision under the key
    `MD5(seed | session key)`. The pair is pinned: `enc` is the RC4 encryption (from the fresh state
    `r0` keyed by that MD5) of the digits printed at the challenged cells, `enc'` the RC4 encryption
    (from the same state) of what was entered; they are different byte strings because RC4 encryption
    from a fixed state is injective; the proof the client obtains is `HMAC(k, enc')`, the server
    expects `HMAC(k, enc)`; and acceptance is possible only if `HMAC(k, enc) = HMAC(k, enc')` for that
    very pair — not for some unrelated pair of messages (which, by pigeonhole, always exists). -/
theorem C18_reject (C : Crypto) (card : MatrixCard) (hc : card.WF) (count seed : Nat) (K : Bytes)
    (hcount : count ≤ card.width * card.height) :
    ∃ v0 r0, MCVerifier.new C count card.height seed card.width K = .ok v0 ∧
      Rc4.new (C.md5 (leN 8 seed ++ K)) = .ok r0 ∧
      ∀ cells, ReadsOffCard card v0 cells → ∀ entered : Bytes, entered ≠ cells.flatten →
        ∃ v1' r1 enc r1' enc', v0.enterValues entered = .ok v1' ∧
          r0.apply cells.flatten = .ok (r1, enc) ∧
          r0.apply entered = .ok (r1', enc') ∧
          v1'.intoProof C = C.hmac (C.md5 (leN 8 seed ++ K)) enc' ∧
          enc ≠ enc' ∧
          (verifyMatrixCardHash C card count seed K (v1'.intoProof C) = .ok false ∨
           C.hmac (C.md5 (leN 8 seed ++ K)) enc = C.hmac (C.md5 (leN 8 seed ++ K)) enc') := by
  obtain ⟨r0, r1, enc, hr0, hs0, hnew, ha, hver⟩ := verify_pipeline C card hc count seed K hcount
  obtain ⟨f1, _, f3⟩ := coords_facts card.width card.height count seed hc.small hcount
  refine ⟨_, r0, hnew, hr0, fun cells hcells entered hne => ?_⟩
  have he := ReadsOffCard.eq card hc _ cells rfl rfl f1 f3 hcells
  simp only at he
  obtain ⟨r1', enc', ha', _, _⟩ := MC.apply_ok r0 entered hs0
  have hdiff : enc ≠ enc' := fun heq =>
    hne ((MC.apply_injective r0 _ _ r1 r1' enc enc' ha ha' heq).symm.trans he.symm)
  refine ⟨_, r1, enc, r1', enc', MCVerifier.enterValues_eq _ _ r1' enc' ha', by rw [he]; exact ha, ha',
    by simp [MCVerifier.intoProof], hdiff, ?_⟩
  rw [hver]
  simp only [MCVerifier.intoProof, List.nil_append]
  by_cases hh : C.hmac (C.md5 (leN 8 seed ++ K)) enc = C.hmac (C.md5 (leN 8 seed ++ K)) enc'
  · exact Or.inr hh
  · exact Or.inl (by simp [hh])

/-- **reject, decision form**: with the same pinned pair, the server's verdict on the proof made from
    any other digit sequence is exactly "do THE two ciphertexts collide under HMAC": it never panics,
    and it is `true` iff `HMAC(k, enc) = HMAC(k, enc')`. Under any HMAC without a collision on that
    pair the verdict is `false`. -/
theorem C18_reject_iff (C : Crypto) (card : MatrixCard) (hc : card.WF) (count seed : Nat) (K : Bytes)
    (hcount : count ≤ card.width * card.height) :
    ∃ v0 r0, MCVerifier.new C count card.height seed card.width K = .ok v0 ∧
      Rc4.new (C.md5 (leN 8 seed ++ K)) = .ok r0 ∧
      ∀ cells, ReadsOffCard card v0 cells → ∀ entered : Bytes, entered ≠ cells.flatten →
        ∃ v1' r1 enc r1' enc' b, v0.enterValues entered = .ok v1' ∧
          r0.apply cells.flatten = .ok (r1, enc) ∧
          r0.apply entered = .ok (r1', enc') ∧
          enc ≠ enc' ∧
          verifyMatrixCardHash C card count seed K (v1'.intoProof C) = .ok b ∧
          (b = true ↔
            C.hmac (C.md5 (leN 8 seed ++ K)) enc = C.hmac (C.md5 (leN 8 seed ++ K)) enc') := by
  obtain ⟨r0, r1, enc, hr0, hs0, hnew, ha, hver⟩ := verify_pipeline C card hc count seed K hcount
  obtain ⟨f1, _, f3⟩ := coords_facts card.width card.height count seed hc.small hcount
  refine ⟨_, r0, hnew, hr0, fun cells hcells entered hne => ?_⟩
  have he := ReadsOffCard.eq card hc _ cells rfl rfl f1 f3 hcells
  simp only at he
  obtain ⟨r1', enc', ha', _, _⟩ := MC.apply_ok r0 entered hs0
  have hdiff : enc ≠ enc' := fun heq =>
    hne ((MC.apply_injective r0 _ _ r1 r1' enc enc' ha ha' heq).symm.trans he.symm)
  refine ⟨_, r1, enc, r1', enc', _, MCVerifier.enterValues_eq _ _ r1' enc' ha', by rw [he]; exact ha, ha',
    hdiff, hver _, ?_⟩
  simp [MCVerifier.intoProof]

/-- the earlier, weaker form of `C18_reject` (collision pair existentially quantified, not pinned) is
    implied by the pinned one; kept only so that nothing that was stated before is lost -/
theorem C18_reject_unpinned (C : Crypto) (card : MatrixCard) (hc : card.WF) (count seed : Nat) (K : Bytes)
    (hcount : count ≤ card.width * card.height) :
    ∃ v0, MCVerifier.new C count card.height seed card.width K = .ok v0 ∧
      ∀ cells, ReadsOffCard card v0 cells → ∀ entered : Bytes, entered ≠ cells.flatten →
        ∃ v1', v0.enterValues entered = .ok v1' ∧
          (verifyMatrixCardHash C card count seed K (v1'.intoProof C) = .ok false ∨
           ∃ m₁ m₂, m₁ ≠ m₂ ∧
             C.hmac (C.md5 (leN 8 seed ++ K)) m₁ = C.hmac (C.md5 (leN 8 seed ++ K)) m₂) := by
  obtain ⟨v0, r0, hnew, _, h⟩ := C18_reject C card hc count seed K hcount
  refine ⟨v0, hnew, fun cells hcells entered hne => ?_⟩
  obtain ⟨v1', _, enc, _, enc', he, _, _, _, hd, hor⟩ := h cells hcells entered hne
  exact ⟨v1', he, hor.imp id fun hh => ⟨enc, enc', hd, hh⟩⟩

/-! non-vacuity: concrete cards, geometries and seeds -/

/-- a 2-digit, 3-row, 4-column card with all cells different -/
def exampleCard : MatrixCard :=
  ⟨2, 4, 3, [0,0, 0,1, 0,2, 0,3,  1,0, 1,1, 1,2, 1,3,  2,0, 2,1, 2,2, 2,3]⟩

example : MatrixCard.fromData 2 3 4 exampleCard.data = some exampleCard := by decide
theorem exampleCard_wf : exampleCard.WF := ⟨by decide, by decide, by decide, by decide⟩
/-- (1,0) ↦ bytes 2..3, (0,1) ↦ bytes 8..9, (0,0) ↦ bytes 0..1, (3,2) ↦ the last cell; and the printed
    card agrees (the defect the property describes made the first three coincide) -/
example :
    exampleCard.getNumberAt 1 0 = .ok [0, 1] ∧ exampleCard.printed 1 = .ok (some [0, 1]) ∧
    exampleCard.getNumberAt 0 1 = .ok [1, 0] ∧ exampleCard.printed 4 = .ok (some [1, 0]) ∧
    exampleCard.getNumberAt 0 0 = .ok [0, 0] ∧ exampleCard.printed 0 = .ok (some [0, 0]) ∧
    exampleCard.getNumberAt 3 2 = .ok [2, 3] ∧ exampleCard.printed 11 = .ok (some [2, 3]) ∧
    exampleCard.printed 12 = .ok none := by decide
/-- the Rust unit test's coordinates: (7,2), (0,0), (4,1) on an 8-wide, 10-high card -/
example : generateCoordinates 8 10 3 14574472801782155463 = .ok [23, 0, 12] := by decide +kernel
example : (8 * 10 ≤ 255) ∧ (3 ≤ 8 * 10) ∧ 23 = 2 * 8 + 7 ∧ 12 = 1 * 8 + 4 := by decide
/-- the hypotheses of `C18_accept` / `C18_reject` / `C18_reads_exists` are met by the example card with
    3 challenges (any hash functions, any seed 7, any session key) -/
example (C : Crypto) (K : Bytes) : True := by
  have _ := C18_accept C exampleCard exampleCard_wf 3 7 K (by decide)
  have _ := C18_reject C exampleCard exampleCard_wf 3 7 K (by decide)
  have _ := C18_reads_exists C exampleCard exampleCard_wf 3 7 K (by decide)
  trivial
/-- the largest geometry and a full-length challenge are covered -/
example : (255 * 1 ≤ 255) ∧ (255 ≤ 255 * 1) := by decide

/-- with an HMAC that is injective in the message (here: the identity on the message) the collision
    disjunct of `C18_reject` is impossible, so the theorem does force rejection: on the example card
    every wrong entry is refused -/
example (K : Bytes) (entered : Bytes) :
    let C : Crypto := ⟨fun _ => [], fun _ m => m, fun _ => List.replicate 16 0⟩
    ∀ v0 cells, MCVerifier.new C 3 exampleCard.height 7 exampleCard.width K = .ok v0 →
      ReadsOffCard exampleCard v0 cells → entered ≠ cells.flatten →
      ∃ v1', v0.enterValues entered = .ok v1' ∧
        verifyMatrixCardHash C exampleCard 3 7 K (v1'.intoProof C) = .ok false := by
  intro C v0 cells hv hcells hne
  obtain ⟨v0', r0, hnew, _, h⟩ := C18_reject C exampleCard exampleCard_wf 3 7 K (by decide)
  rw [hv] at hnew; injection hnew with hnew; subst hnew
  obtain ⟨v1', _, enc, _, enc', he, _, _, _, hd, hor⟩ := h cells hcells entered hne
  exact ⟨v1', he, hor.resolve_right hd⟩

#print axioms C18_reject
#print axioms C18_reject_iff
#print axioms C18_reject_unpinned

end WowSrp
