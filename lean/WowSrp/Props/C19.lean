/-
C19 — both big-integer back ends (`srp-default-math` = num-bigint, `srp-fast-math` = rug/GMP) produce
identical results: every API-level function of the authentication model returns the same bytes, errors
and accept/reject decisions for the same inputs and the same random draws, and the two configurations
panic on exactly the same inputs (the texts of the panic messages differ, nothing else does).
No side conditions: even / tiny / zero announced moduli and zero exponents are included.
-/
import WowSrp.Lemmas.LE
import WowSrp.Lemmas.PowMod
import WowSrp.Lemmas.Pratt
import WowSrp.Model.Srp
namespace WowSrp

/-- Two outcomes agree: both `ok` with the same value, or both panic (the panic *site* is a text of the
    library that panicked and is allowed to differ between the back ends). -/
def Out.sameOutcome {α : Type} : Out α → Out α → Prop
  | .ok a, .ok b => a = b
  | .panic _, .panic _ => True
  | _, _ => False

/-- the same for the result of a whole login -/
def LoginResult.sameOutcome : LoginResult → LoginResult → Prop
  | .panic _, .panic _ => True
  | a, b => a = b

theorem Out.sameOutcome_of_eq {α : Type} {x y : Out α} (h : x = y) : x.sameOutcome y := by
  subst h; cases x <;> simp [Out.sameOutcome]

theorem Out.sameOutcome_panic {α : Type} (s t : String) : (Out.panic s : Out α).sameOutcome (.panic t) :=
  trivial

/-- `sameOutcome` is exactly: equal `ok`s, or two panics -/
theorem Out.sameOutcome_iff {α : Type} (x y : Out α) :
    x.sameOutcome y ↔ (∃ a, x = .ok a ∧ y = .ok a) ∨ (∃ s t, x = .panic s ∧ y = .panic t) := by
  cases x <;> cases y <;> simp [Out.sameOutcome, eq_comm]

theorem Out.sameOutcome_bind {α β : Type} {x y : Out α} {f g : α → Out β}
    (h : x.sameOutcome y) (hf : ∀ a, (f a).sameOutcome (g a)) : (x >>= f).sameOutcome (y >>= g) := by
  cases x <;> cases y <;> simp [Out.sameOutcome] at h ⊢
  · subst h; exact hf _

theorem LoginResult.sameOutcome_of_eq {x y : LoginResult} (h : x = y) : x.sameOutcome y := by
  subst h; cases x <;> simp [LoginResult.sameOutcome]

/-! ### the two primitives that differ between the back ends -/

/-- **`modpow` agrees**: the two back ends return the same number whenever either returns one …
    NOTE: `Backend.modpow` is ONE definition for both back ends, so this theorem alone only says that
    the shared definition does not look at the back end except for the panic label. That each library
    really computes this shared definition is proved in `Props/C19Backends.lean`
    (`C19_num_modpow_faithful`, `C19_rug_modpow_faithful`,
    `C19_backends_agree_from_library_semantics`) from separate per-library definitions
    (`Model/BigIntLib.lean`: num-bigint's magnitude power with sign fix-up; rug's
    `secure_pow_mod` / `pow_mod` branch over GMP's Euclidean residue). -/
theorem C19_modpow_agree (base : Int) (e m r : Nat) :
    Backend.num.modpow base e m = .ok r ↔ Backend.rug.modpow base e m = .ok r := by
  unfold Backend.modpow
  split <;> simp

/-- … and they panic on exactly the same inputs: a zero modulus, nothing else (in particular not an
    even modulus and not a zero exponent — the `secure_pow_mod` preconditions of the pre-fix code) -/
theorem C19_modpow_panic_iff (be : Backend) (base : Int) (e m : Nat) :
    (∃ s, be.modpow base e m = .panic s) ↔ m = 0 :=
  Backend.modpow_panic_iff be base e m

theorem C19_modpow_sameOutcome (base : Int) (e m : Nat) :
    (Backend.num.modpow base e m).sameOutcome (Backend.rug.modpow base e m) := by
  unfold Backend.modpow
  split <;> simp [Out.sameOutcome]

/-- for a positive modulus the result does not depend on the back end at all -/
theorem Backend.modpow_indep (be : Backend) (base : Int) (e m : Nat) (hm : 0 < m) :
    be.modpow base e m = Backend.num.modpow base e m := by
  rw [Backend.modpow_ok be _ _ _ hm, Backend.modpow_ok .num _ _ _ hm]

/-- **byte output agrees after the fixed-size copy**: num-bigint writes zero as `[0]`, rug as `[]`;
    copied into a zeroed array of `w > 0` bytes (every use in the crate: `w = 32`) both give the same
    array, and both panic for the same (too large) numbers -/
theorem C19_bytes_agree (w n : Nat) (site : String) (hw : 0 < w) :
    padCopy w (Backend.num.toBytesLe n) site = padCopy w (Backend.rug.toBytesLe n) site := by
  by_cases h : n = 0
  · subst h
    simp only [Backend.toBytesLe, if_true, toLE_zero]
    rw [padCopy_ok w [0] site (by simp only [List.length_cons, List.length_nil]; omega), padCopy_ok w [] site (by simp)]
    congr 1
    have : w = (w - 1) + 1 := by omega
    simp only [List.length_cons, List.length_nil, Nat.sub_zero]
    rw [this, List.replicate_succ]; simp
  · simp only [Backend.toBytesLe, h, if_false]

theorem C19_bytes_agree_32 (n : Nat) (site : String) :
    padCopy 32 (Backend.num.toBytesLe n) site = padCopy 32 (Backend.rug.toBytesLe n) site :=
  C19_bytes_agree 32 n site (by decide)

/-- the encodings themselves differ only for zero, and always denote the same number -/
theorem C19_toBytesLe_value (n : Nat) :
    ofLE (Backend.num.toBytesLe n) = ofLE (Backend.rug.toBytesLe n) := by
  rw [Backend.ofLE_toBytesLe, Backend.ofLE_toBytesLe]

theorem padCopy32_indep (be : Backend) (n : Nat) (site : String) :
    padCopy 32 (be.toBytesLe n) site = padCopy 32 (Backend.num.toBytesLe n) site := by
  cases be
  · rfl
  · exact (C19_bytes_agree_32 n site).symm

theorem toPadded32_indep (be : Backend) (n : Nat) : toPadded32 be n = toPadded32 .num n :=
  padCopy32_indep be n _

/-! ### server side and built-in group: literally equal results (all moduli are `N > 0`) -/

/-- `calculate_password_verifier` -/
theorem C19_agree_calculatePasswordVerifier (C : Crypto) (U P salt : Bytes) :
    calculatePasswordVerifier C .num U P salt = calculatePasswordVerifier C .rug U P salt := by
  simp only [calculatePasswordVerifier, Backend.modpow_indep .rug _ _ _ nBig_pos, toPadded32_indep .rug]

/-- `PublicKey::try_from_bigint` -/
theorem C19_agree_tryFromBigint (b : Nat) :
    PublicKey.tryFromBigint .num b = PublicKey.tryFromBigint .rug b := by
  simp only [PublicKey.tryFromBigint, padCopy32_indep .rug]

/-- `calculate_server_public_key` -/
theorem C19_agree_calculateServerPublicKey (v b : Bytes) :
    calculateServerPublicKey .num v b = calculateServerPublicKey .rug v b := by
  simp only [calculateServerPublicKey, Backend.modpow_indep .rug _ _ _ nBig_pos, C19_agree_tryFromBigint]

/-- `calculate_S` (server) -/
theorem C19_agree_calculateS (A v u b : Bytes) :
    calculateS .num A v u b = calculateS .rug A v u b := by
  simp only [calculateS, Backend.modpow_indep .rug _ _ _ nBig_pos, padCopy32_indep .rug]

/-- `calculate_session_key` -/
theorem C19_agree_calculateSessionKey (C : Crypto) (A B v b : Bytes) :
    calculateSessionKey C .num A B v b = calculateSessionKey C .rug A B v b := by
  simp only [calculateSessionKey, C19_agree_calculateS]

/-- `SrpVerifier::from_username_and_password` (any salt draw) -/
theorem C19_agree_fromUsernameAndPassword (C : Crypto) (u p : NStr) (salt : Bytes) :
    SrpVerifier.fromUsernameAndPassword C .num u p salt = SrpVerifier.fromUsernameAndPassword C .rug u p salt := by
  simp only [SrpVerifier.fromUsernameAndPassword, C19_agree_calculatePasswordVerifier]

/-- `SrpVerifier::with_specific_private_key` -/
theorem C19_agree_withSpecificPrivateKey (s : SrpVerifier) (b : Bytes) :
    s.withSpecificPrivateKey .num b = s.withSpecificPrivateKey .rug b := by
  simp only [SrpVerifier.withSpecificPrivateKey, C19_agree_calculateServerPublicKey]

/-- `SrpVerifier::into_proof` (any private-key draw, the all-zero draw included): same proof object,
    same documented panic -/
theorem C19_agree_intoProof (s : SrpVerifier) (b : Bytes) :
    s.intoProof .num b = s.intoProof .rug b := by
  simp only [SrpVerifier.intoProof, SrpVerifier.withSpecificPrivateKey, C19_agree_calculateServerPublicKey]

/-- `SrpProof::into_server`: same session key, same accept/reject decision, same M2, same error -/
theorem C19_agree_intoServer (C : Crypto) (p : SrpProof) (A M1 challenge : Bytes) :
    p.intoServer C .num A M1 challenge = p.intoServer C .rug A M1 challenge := by
  simp only [SrpProof.intoServer, C19_agree_calculateSessionKey]

/-! ### client side, announced group: same outcome for every announced modulus and generator -/

/-- `PublicKey::client_try_from_bigint`: the zero test and the `% N'` test are on values, the copy is
    `C19_bytes_agree` -/
theorem C19_agree_clientTryFromBigint (b n : Nat) :
    PublicKey.clientTryFromBigint .num b n = PublicKey.clientTryFromBigint .rug b n := by
  simp only [PublicKey.clientTryFromBigint, padCopy32_indep .rug]

/-- `calculate_client_public_key`, every `a`, `g`, announced `N'` (zero, one, even, … included) -/
theorem C19_agree_calculateClientPublicKey (a : Bytes) (g : Nat) (nLE : Bytes) :
    (calculateClientPublicKey .num a g nLE).sameOutcome (calculateClientPublicKey .rug a g nLE) := by
  unfold calculateClientPublicKey
  apply Out.sameOutcome_bind (C19_modpow_sameOutcome _ _ _)
  intro A
  exact Out.sameOutcome_of_eq (C19_agree_clientTryFromBigint A _)

/-- `calculate_client_S` (negative base `B - k·g^x` included) -/
theorem C19_agree_calculateClientS (B x a u : Bytes) (g : Nat) (nLE : Bytes) :
    (calculateClientS .num B x a u g nLE).sameOutcome (calculateClientS .rug B x a u g nLE) := by
  unfold calculateClientS
  apply Out.sameOutcome_bind (C19_modpow_sameOutcome _ _ _)
  intro t
  apply Out.sameOutcome_bind (C19_modpow_sameOutcome _ _ _)
  intro s
  exact Out.sameOutcome_of_eq (toPadded32_indep .rug s).symm

/-- `SrpClientChallenge::new`, every announced group, every `B`, salt, private-key draw -/
theorem C19_agree_clientChallenge (C : Crypto) (u p : NStr) (g : Nat) (nLE B salt a : Bytes) :
    (SrpClientChallenge.new C .num u p g nLE B salt a).sameOutcome
      (SrpClientChallenge.new C .rug u p g nLE B salt a) := by
  unfold SrpClientChallenge.new
  apply Out.sameOutcome_bind (C19_agree_calculateClientPublicKey a g nLE)
  intro r
  cases r with
  | error e => exact Out.sameOutcome_panic _ _
  | ok A =>
    apply Out.sameOutcome_bind (C19_agree_calculateClientS _ _ _ _ _ _)
    intro S
    exact Out.sameOutcome_of_eq rfl

/-- with a non-zero announced modulus the client's results are literally equal … -/
theorem C19_agree_clientChallenge_eq (C : Crypto) (u p : NStr) (g : Nat) (nLE B salt a : Bytes)
    (hN : 0 < ofLE nLE) :
    SrpClientChallenge.new C .num u p g nLE B salt a = SrpClientChallenge.new C .rug u p g nLE B salt a := by
  simp only [SrpClientChallenge.new, calculateClientPublicKey, calculateClientS,
    Backend.modpow_indep .rug _ _ _ hN, C19_agree_clientTryFromBigint, toPadded32_indep .rug]

/-- … in particular with the built-in group -/
theorem C19_agree_clientChallenge_builtin (C : Crypto) (u p : NStr) (B salt a : Bytes) :
    SrpClientChallenge.new C .num u p gBig Gen.largeSafePrimeLE B salt a
      = SrpClientChallenge.new C .rug u p gBig Gen.largeSafePrimeLE B salt a :=
  C19_agree_clientChallenge_eq C u p gBig _ B salt a nBig_pos

/-! ### a whole login -/

/-- **`C19_agree`**: a whole login (registration, optional storage round trip, challenge, client,
    server, M2 check) gives the same result — same keys, same A, B, M1, M2, verifier, same failure
    stage, same panic — under both back ends, for all credentials and all random draws -/
theorem C19_agree_runLogin_eq (C : Crypto) (us ps uc pc : List Char) (viaStorage : Bool)
    (salt b a challenge : Bytes) :
    runLogin C .num us ps uc pc viaStorage salt b a challenge
      = runLogin C .rug us ps uc pc viaStorage salt b a challenge := by
  simp only [runLogin, C19_agree_fromUsernameAndPassword, C19_agree_intoProof,
    C19_agree_clientChallenge_builtin, C19_agree_intoServer]

theorem C19_agree_runLogin (C : Crypto) (us ps uc pc : List Char) (viaStorage : Bool)
    (salt b a challenge : Bytes) :
    (runLogin C .num us ps uc pc viaStorage salt b a challenge).sameOutcome
      (runLogin C .rug us ps uc pc viaStorage salt b a challenge) :=
  LoginResult.sameOutcome_of_eq (C19_agree_runLogin_eq C us ps uc pc viaStorage salt b a challenge)

/-! ### the pre-fix divergences, as concrete instances -/

/-- exponent 0 (all-zero private-key draw): pre-fix rug panicked "exponent not greater than zero" -/
example : Backend.num.modpow 7 0 nBig = .ok 1 ∧ Backend.rug.modpow 7 0 nBig = .ok 1 := by
  decide +kernel
/-- even modulus: pre-fix rug panicked "modulo not odd" -/
example : Backend.num.modpow 7 5 22 = .ok 21 ∧ Backend.rug.modpow 7 5 22 = .ok 21 := by decide
/-- negative base, even modulus: `(-3)^5 mod 22 = 21`, `mod 23 = 10` -/
example : Backend.num.modpow (-3) 5 22 = .ok 21 ∧ Backend.rug.modpow (-3) 5 22 = .ok 21 ∧
    Backend.rug.modpow (-3) 5 23 = .ok 10 := by decide
/-- zero modulus: both panic, with different texts -/
example : Backend.num.modpow 7 5 0 = .panic "num-bigint modpow: zero modulus" ∧
    Backend.rug.modpow 7 5 0 = .panic "rug pow_mod: zero modulus" := by decide
/-- zero: `[0]` versus `[]`, the same 32-byte array -/
example : Backend.num.toBytesLe 0 = [0] ∧ Backend.rug.toBytesLe 0 = [] ∧
    padCopy 32 (Backend.num.toBytesLe 0) "s" = padCopy 32 (Backend.rug.toBytesLe 0) "s" :=
  ⟨rfl, toLE_zero, C19_bytes_agree_32 0 "s"⟩
/-- all-zero private key draw `b = 0`: both back ends give `B = 3·v + 1` -/
example (v : Bytes) :
    calculateServerPublicKey .num v (List.replicate 32 0) = calculateServerPublicKey .rug v (List.replicate 32 0) :=
  C19_agree_calculateServerPublicKey v _
/-- even announced modulus (`N' = 22`), generator 7: both back ends produce the same client key -/
example :
    calculateClientPublicKey .num [5] 7 [22] = .ok (.ok (leN 32 21)) ∧
    calculateClientPublicKey .rug [5] 7 [22] = .ok (.ok (leN 32 21)) := by decide +kernel

end WowSrp
