/-
C04 — Public keys are refused exactly when they are congruent to zero modulo N.
Property theorems only; helper lemmas live in Lemmas/Keys.lean (namespace `Keys`), including the
local proof that the model's square-and-multiply `powMod` is `b ^ e % m` (`Keys.powMod_spec`), so
that everything below is stated with the mathematical `g ^ e % N`.

`nBig = ofLE Gen.largeSafePrimeLE` is the built-in modulus N, `gBig = 7`, `kBig = 3`.
-/
import WowSrp.Lemmas.Keys
namespace WowSrp
open Keys

/-- tie to the source: the modulus is a 32-byte array whose value has its top bit set — so `2 N`
    does not fit in 32 bytes — keys are 32 bytes, `g = 7`, `k = 3` (re-checked against the
    regenerated constants on every run) -/
theorem C04_constants :
    Gen.largeSafePrimeLE.length = 32 ∧ Gen.publicKeyLength = 32 ∧
    Gen.largeSafePrimeBE.reverse = Gen.largeSafePrimeLE ∧
    0 < nBig ∧ nBig < 2 ^ 256 ∧ 2 ^ 256 ≤ 2 * nBig ∧ gBig = 7 ∧ kBig = 3 :=
  ⟨by decide, by decide, by decide, nBig_pos, nBig_lt, two_nBig_ge, by decide, by decide⟩

/-- **acceptance**: a 32-byte array is accepted iff its value is neither 0 nor N -/
theorem C04_accept_iff (k : Bytes) (hk : k.length = 32) :
    PublicKey.fromLE k = .ok k ↔ (ofLE k ≠ 0 ∧ ofLE k ≠ nBig) := by
  rcases fromLE_cases k hk with ⟨h0, e⟩ | ⟨hN, e⟩ | ⟨h0, hN, e⟩
  · rw [e]; constructor
    · intro h; cases h
    · intro h; exact absurd h0 h.1
  · rw [e]; constructor
    · intro h; cases h
    · intro h; exact absurd hN h.2
  · rw [e]; exact ⟨fun _ => ⟨h0, hN⟩, fun _ => rfl⟩

/-- an accepted key is handed back unchanged (what `as_le_bytes` returns is the input), any length -/
theorem C04_accept_unchanged (k k' : Bytes) (h : PublicKey.fromLE k = .ok k') : k' = k := by
  unfold PublicKey.fromLE at h
  split at h
  · cases h; rfl
  · cases h

/-- **error kind "zero"**: reported iff the value is 0 (arrays of every length) -/
theorem C04_err_zero (k : Bytes) : PublicKey.fromLE k = .error .isZero ↔ ofLE k = 0 := by
  constructor
  · intro h
    rw [ofLE_eq_zero_iff]
    unfold PublicKey.fromLE checkPublicKey at h
    by_cases hz : k.all (· == 0) = true
    · exact hz
    · rw [if_neg hz] at h
      split at h
      · cases h
      · next e he =>
        split at he
        · cases he; cases h
        · cases he
  · intro h; unfold PublicKey.fromLE; rw [check_zero k h]

/-- **error kind "multiple of N"**: reported iff the value is N itself -/
theorem C04_err_mod (k : Bytes) (hk : k.length = 32) :
    PublicKey.fromLE k = .error .modIsZero ↔ ofLE k = nBig := by
  have hpos := nBig_pos
  rcases fromLE_cases k hk with ⟨h0, e⟩ | ⟨hN, e⟩ | ⟨h0, hN, e⟩
  · rw [e]; constructor
    · intro h; cases h
    · intro h; omega
  · rw [e]; exact ⟨fun _ => hN, fun _ => rfl⟩
  · rw [e]; constructor
    · intro h; cases h
    · intro h; exact absurd h hN

/-- **only two**: among the values of 32-byte arrays the multiples of N are 0 and N (`2 N ≥ 2^256`) -/
theorem C04_only_two (k : Bytes) (hk : k.length = 32) :
    ofLE k % nBig = 0 ↔ ofLE k = 0 ∨ ofLE k = nBig :=
  only_two (ofLE k) (ofLE_lt_of_length k hk)

/-- **refused exactly when ≡ 0 mod N** -/
theorem C04_refused_iff_mod_zero (k : Bytes) (hk : k.length = 32) :
    (∃ e, PublicKey.fromLE k = .error e) ↔ ofLE k % nBig = 0 := by
  rw [C04_only_two k hk]
  rcases fromLE_cases k hk with ⟨h0, e⟩ | ⟨hN, e⟩ | ⟨h0, hN, e⟩
  · rw [e]; exact ⟨fun _ => Or.inl h0, fun _ => ⟨_, rfl⟩⟩
  · rw [e]; exact ⟨fun _ => Or.inr hN, fun _ => ⟨_, rfl⟩⟩
  · rw [e]; constructor
    · rintro ⟨_, h⟩; cases h
    · rintro (h | h)
      · exact absurd h h0
      · exact absurd h hN

/-- **exactly two arrays**: of the 2^256 32-byte arrays the refused ones are the all-zero array and
    the array of N, byte for byte — nothing else (in particular no other array made of their bytes) -/
theorem C04_exactly_two (k : Bytes) (hk : k.length = 32) :
    (∃ e, PublicKey.fromLE k = .error e) ↔ k = List.replicate 32 0 ∨ k = Gen.largeSafePrimeLE := by
  rw [C04_refused_iff_mod_zero k hk, C04_only_two k hk]
  constructor
  · rintro (h | h)
    · left; exact ofLE_inj _ _ (by simp [hk]) (by rw [h, ofLE_replicate_zero])
    · right; exact ofLE_inj _ _ (by rw [hk, prime_length]) h
  · rintro (rfl | rfl)
    · left; exact ofLE_replicate_zero 32
    · right; rfl

/-- **the server's own key**: with `B = (k·v + g^b mod N) mod N` (every stored verifier `v`, every
    drawn private key `b`, both big-integer back ends): `into_proof` panics — at the
    "generated public key was invalid" site and nowhere else — iff `B = 0`; otherwise it yields a proof
    whose public key is the 32-byte encoding of `B`, the other fields being carried over -/
theorem C04_server_self (be : Backend) (s : SrpVerifier) (b : Bytes) :
    ((∃ p, s.intoProof be b = .panic p) ↔
      (kBig * ofLE s.passwordVerifier + gBig ^ ofLE b % nBig) % nBig = 0) ∧
    ((kBig * ofLE s.passwordVerifier + gBig ^ ofLE b % nBig) % nBig = 0 →
      s.intoProof be b = .panic "server.rs:296 The generated public key was invalid") ∧
    ((kBig * ofLE s.passwordVerifier + gBig ^ ofLE b % nBig) % nBig ≠ 0 →
      ∃ key, s.intoProof be b = .ok ⟨s.username, key, s.salt, b, s.passwordVerifier⟩ ∧
        key.length = 32 ∧
        ofLE key = (kBig * ofLE s.passwordVerifier + gBig ^ ofLE b % nBig) % nBig) := by
  have hcases := calcServer_cases be s.passwordVerifier b
  unfold serverB at hcases
  have hzero : (kBig * ofLE s.passwordVerifier + gBig ^ ofLE b % nBig) % nBig = 0 →
      s.intoProof be b = .panic "server.rs:296 The generated public key was invalid" := by
    intro h0
    rcases hcases with ⟨_, e⟩ | ⟨hne, _⟩
    · unfold SrpVerifier.intoProof SrpVerifier.withSpecificPrivateKey
      rw [e]; rfl
    · exact absurd h0 hne
  have hnz : (kBig * ofLE s.passwordVerifier + gBig ^ ofLE b % nBig) % nBig ≠ 0 →
      ∃ key, s.intoProof be b = .ok ⟨s.username, key, s.salt, b, s.passwordVerifier⟩ ∧
        key.length = 32 ∧
        ofLE key = (kBig * ofLE s.passwordVerifier + gBig ^ ofLE b % nBig) % nBig := by
    intro hne
    rcases hcases with ⟨h0, _⟩ | ⟨_, key, e, hl, hv⟩
    · exact absurd h0 hne
    · refine ⟨key, ?_, hl, hv⟩
      unfold SrpVerifier.intoProof SrpVerifier.withSpecificPrivateKey
      rw [e]; rfl
  refine ⟨⟨?_, fun h => ⟨_, hzero h⟩⟩, hzero, hnz⟩
  rintro ⟨p, hp⟩
  apply Decidable.byContradiction
  intro hne
  obtain ⟨key, e, _⟩ := hnz hne
  rw [e] at hp; cases hp

/-- the same rule, seen at `calculate_server_public_key`: the refusal is always of kind "zero"
    (`B` is already reduced, so it can never be N), and `B = 0` and `B ≡ 0 mod N` coincide -/
theorem C04_server_key (be : Backend) (v b : Bytes) :
    ((kBig * ofLE v + gBig ^ ofLE b % nBig) % nBig = 0 →
      calculateServerPublicKey be v b = .ok (.error .isZero)) ∧
    ((kBig * ofLE v + gBig ^ ofLE b % nBig) % nBig ≠ 0 →
      ∃ key, calculateServerPublicKey be v b = .ok (.ok key) ∧ key.length = 32 ∧
        ofLE key = (kBig * ofLE v + gBig ^ ofLE b % nBig) % nBig) := by
  have hcases := calcServer_cases be v b
  unfold serverB at hcases
  constructor
  · intro h0
    rcases hcases with ⟨_, e⟩ | ⟨hne, _⟩
    · exact e
    · exact absurd h0 hne
  · intro hne
    rcases hcases with ⟨h0, _⟩ | ⟨_, h⟩
    · exact absurd h0 hne
    · exact h

/-- **the client's own key** relative to *whatever* modulus `N'` (32 bytes, non-zero) and generator
    `g` the server announced, for every drawn private key `a`, both back ends:
    `calculate_client_public_key` refuses iff `A = g^a mod N'` is 0, and otherwise returns the 32-byte
    encoding of `A`. `A` is already reduced modulo `N'`, so "`A = 0`" and "`A ≡ 0 mod N'`" coincide:
    the refusal is always of kind "zero" and the "multiple of N" kind is unreachable here. -/
theorem C04_client_key (be : Backend) (a : Bytes) (g : Nat) (nLE : Bytes)
    (hn : nLE.length = 32) (hpos : 0 < ofLE nLE) :
    (g ^ ofLE a % ofLE nLE = 0 → calculateClientPublicKey be a g nLE = .ok (.error .isZero)) ∧
    (g ^ ofLE a % ofLE nLE ≠ 0 →
      ∃ key, calculateClientPublicKey be a g nLE = .ok (.ok key) ∧ key.length = 32 ∧
        ofLE key = g ^ ofLE a % ofLE nLE) ∧
    ((∃ e, calculateClientPublicKey be a g nLE = .ok (.error e)) ↔ g ^ ofLE a % ofLE nLE = 0) := by
  have hcases := calcClient_cases be a g nLE hpos (ofLE_lt_of_length nLE hn)
  rcases hcases with ⟨h0, e⟩ | ⟨hne, key, e, hl, hv⟩
  · refine ⟨fun _ => e, fun h => absurd h0 h, fun _ => h0, fun _ => ⟨_, e⟩⟩
  · refine ⟨fun h => absurd h hne, fun _ => ⟨key, e, hl, hv⟩, ?_, fun h => absurd h hne⟩
    rintro ⟨x, hx⟩; rw [e] at hx; cases hx

/-- an announced modulus of zero makes the client panic inside the big-integer library
    (`modpow` with a zero modulus), before any key check -/
theorem C04_client_zero_modulus (be : Backend) (a : Bytes) (g : Nat) (nLE : Bytes)
    (h : ofLE nLE = 0) : ∃ p, calculateClientPublicKey be a g nLE = .panic p :=
  ⟨_, calcClient_zero_modulus be a g nLE h⟩

/-- **the client's own key, through the API**: for every announced 32-byte non-zero modulus `N'` and
    generator `g`, every account, server key `B`, salt and drawn private key `a`, both back ends and
    any hash with the right output length: `SrpClientChallenge::new` panics iff
    `g^a mod N' = 0`, and then at the "Invalid public key generated for client" site; in every other
    case it returns a challenge whose public key is the 32-byte encoding of `g^a mod N'`
    (no other step of the constructor can panic). -/
theorem C04_client_self (C : Crypto) (hC : C.WF) (be : Backend) (u p : NStr) (g : Nat)
    (nLE B salt a : Bytes) (hn : nLE.length = 32) (hpos : 0 < ofLE nLE) :
    ((∃ site, SrpClientChallenge.new C be u p g nLE B salt a = .panic site) ↔
      g ^ ofLE a % ofLE nLE = 0) ∧
    (g ^ ofLE a % ofLE nLE = 0 →
      SrpClientChallenge.new C be u p g nLE B salt a =
        .panic "client.rs:190 Invalid public key generated for client") ∧
    (g ^ ofLE a % ofLE nLE ≠ 0 →
      ∃ c, SrpClientChallenge.new C be u p g nLE B salt a = .ok c ∧ c.username = u ∧
        c.clientPublicKey.length = 32 ∧ ofLE c.clientPublicKey = g ^ ofLE a % ofLE nLE) := by
  have hlt := ofLE_lt_of_length nLE hn
  have hcases := calcClient_cases be a g nLE hpos hlt
  have hzero : g ^ ofLE a % ofLE nLE = 0 →
      SrpClientChallenge.new C be u p g nLE B salt a =
        .panic "client.rs:190 Invalid public key generated for client" := by
    intro h0
    rcases hcases with ⟨_, e⟩ | ⟨hne, _⟩
    · unfold SrpClientChallenge.new; rw [e]; rfl
    · exact absurd h0 hne
  have hnz : g ^ ofLE a % ofLE nLE ≠ 0 →
      ∃ c, SrpClientChallenge.new C be u p g nLE B salt a = .ok c ∧ c.username = u ∧
        c.clientPublicKey.length = 32 ∧ ofLE c.clientPublicKey = g ^ ofLE a % ofLE nLE := by
    intro hne
    rcases hcases with ⟨h0, _⟩ | ⟨_, key, e, hl, hv⟩
    · exact absurd h0 hne
    · obtain ⟨S, hS, hSl⟩ := calculateClientS_ok be B (calculateX C u.asRef p.asRef salt) a
        (calculateU C key B) g nLE hpos hlt
      obtain ⟨K, hK⟩ := calculateInterleaved_ok C hC S hSl
      refine ⟨⟨u, calculateClientProofCustom C u.asRef K key B salt nLE g, key, K⟩, ?_, rfl, hl, hv⟩
      unfold SrpClientChallenge.new
      rw [e, Out.bind_ok]
      simp only
      rw [hS, Out.bind_ok, hK, Out.bind_ok]
      rfl
  refine ⟨⟨?_, fun h => ⟨_, hzero h⟩⟩, hzero, hnz⟩
  rintro ⟨site, hp⟩
  apply Decidable.byContradiction
  intro hne
  obtain ⟨c, e, _⟩ := hnz hne
  rw [e] at hp; cases hp

/-! ### non-vacuity: concrete instances -/

/-- `le32(183)` — first byte equal to N's first byte, the rest zero — is a valid key and accepted
    (the byte-wise shortcut of the original code refused it) -/
example : PublicKey.fromLE (0xb7 :: List.replicate 31 0) = .ok (0xb7 :: List.replicate 31 0) :=
  (C04_accept_iff _ (by decide)).mpr ⟨by decide, by decide +kernel⟩

/-- `[0, 0x9b, 0, …]` (0x9b00) is accepted -/
example : PublicKey.fromLE (0 :: 0x9b :: List.replicate 30 0) = .ok (0 :: 0x9b :: List.replicate 30 0) :=
  (C04_accept_iff _ (by decide)).mpr ⟨by decide, by decide +kernel⟩

/-- zero is refused as "zero" -/
example : PublicKey.fromLE (List.replicate 32 0) = .error .isZero := (C04_err_zero _).mpr (by decide)

/-- N is refused as "multiple of N" -/
example : PublicKey.fromLE Gen.largeSafePrimeLE = .error .modIsZero :=
  (C04_err_mod _ (by decide)).mpr rfl

/-- N + 1 is accepted -/
example : PublicKey.fromLE (0xb8 :: Gen.largeSafePrimeLE.tail) = .ok (0xb8 :: Gen.largeSafePrimeLE.tail) :=
  (C04_accept_iff _ (by decide)).mpr ⟨by decide +kernel, by decide +kernel⟩

/-- N − 1 is accepted -/
example : PublicKey.fromLE (0xb6 :: Gen.largeSafePrimeLE.tail) = .ok (0xb6 :: Gen.largeSafePrimeLE.tail) :=
  (C04_accept_iff _ (by decide)).mpr ⟨by decide +kernel, by decide +kernel⟩

/-- the panicking case of `C04_server_self` is inhabited: `v = (2N − 7)/3`, `b = 1` give `B = 0` -/
example : (kBig * ofLE [0xcd, 0x67, 0xd4, 0xc6, 0x04, 0x57, 0x28, 0x72, 0x0a, 0x3f, 0x2a, 0xd5, 0x09,
    0x21, 0x01, 0xb0, 0x8c, 0x35, 0x04, 0xc6, 0x5c, 0x92, 0x73, 0x7e, 0x92, 0x37, 0x96, 0x06, 0x3f,
    0x98, 0x87, 0x5b] + gBig ^ ofLE [1] % nBig) % nBig = 0 := by decide +kernel

/-- … and so is the ordinary case: `v = 1`, `b = 1` give `B = 10` -/
example : (kBig * ofLE [1] + gBig ^ ofLE [1] % nBig) % nBig = 10 := by decide +kernel

/-- the hypotheses of `C04_client_self` are satisfiable with a refusing instance (announced `N' = 49`,
    `g = 7`, `a = 2`: `7^2 mod 49 = 0`) and an accepting one (`a = 1`) -/
example : (49 :: List.replicate 31 (0 : UInt8)).length = 32 ∧ 0 < ofLE (49 :: List.replicate 31 0) ∧
    7 ^ ofLE [2] % ofLE (49 :: List.replicate 31 0) = 0 ∧
    7 ^ ofLE [1] % ofLE (49 :: List.replicate 31 0) = 7 := by decide

end WowSrp
