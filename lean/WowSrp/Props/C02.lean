/-
C02 — wrong credentials or any altered handshake value are rejected.
Model: `SrpProof.intoServer`, `SrpClientChallenge.verifyServerProof`, `calculateClientProof`,
`calculateServerProof`, `SrpClientChallenge.new` (WowSrp/Model/Srp.lean). All theorems for an
arbitrary `C : Crypto` (`C.WF` — output lengths — only where a layout has to be cut into fields);
no collision resistance is assumed anywhere (DESIGN §2.2).

In the refusing branch the result is `.ok (.error ⟨presented, computed⟩)` of type
`Except MatchProofsError (SrpServer × Bytes)`: an `SrpServer` (resp. `SrpClient`) value exists only
under the `.ok` constructor, i.e. only after the whole-list comparison succeeded — that is what
"no authenticated session object comes into existence" means in the model, and it holds by the
result type together with `C02_server_eq` / `C02_client_eq`.
-/
import WowSrp.Model.Srp
import WowSrp.Lemmas.Layout
namespace WowSrp
open WowSrp.Layout

/-! ### the two decisions -/

/-- **server decision as one equation**. `K` is the session key the server derives (when that
    derivation returns): the result is the session object, holding `K` and the drawn challenge, together
    with `M2 = SHA-1(A | M1 | K)` exactly when the presented `M1` equals the server's own computation
    over (username, K, A, B, salt); otherwise the error carrying the presented and the computed proof -/
theorem C02_server_eq (C : Crypto) (be : Backend) (p : SrpProof) (A M1 chal K : Bytes)
    (hK : calculateSessionKey C be A p.serverPublicKey p.passwordVerifier p.serverPrivateKey = .ok K) :
    p.intoServer C be A M1 chal =
      .ok (if M1 = calculateClientProof C p.username.asRef K A p.serverPublicKey p.salt
        then .ok (⟨p.username, K, chal⟩, calculateServerProof C A M1 K)
        else .error ⟨M1, calculateClientProof C p.username.asRef K A p.serverPublicKey p.salt⟩) := by
  unfold SrpProof.intoServer
  rw [hK]
  simp only [Out.bind_ok]
  generalize calculateClientProof C p.username.asRef K A p.serverPublicKey p.salt = M1s
  by_cases h : M1 = M1s
  · simp [h]
  · simp [h]

/-- **server accepts iff** `M1` is the value determined by the stored verifier (through `K`), salt,
    username and the two public keys; then the session holds exactly (username, K, drawn challenge)
    and `M2 = SHA-1(A | M1 | K)` -/
theorem C02_server_iff (C : Crypto) (be : Backend) (p : SrpProof) (A M1 chal K : Bytes)
    (hK : calculateSessionKey C be A p.serverPublicKey p.passwordVerifier p.serverPrivateKey = .ok K)
    (srv : SrpServer) (M2 : Bytes) :
    p.intoServer C be A M1 chal = .ok (.ok (srv, M2)) ↔
      M1 = calculateClientProof C p.username.asRef K A p.serverPublicKey p.salt ∧
      srv = ⟨p.username, K, chal⟩ ∧ M2 = calculateServerProof C A M1 K := by
  rw [C02_server_eq C be p A M1 chal K hK]
  generalize calculateClientProof C p.username.asRef K A p.serverPublicKey p.salt = M1s
  split
  · next h => simp [h, eq_comm]
  · next h => simp [h]

/-- **otherwise**: the error carries exactly the presented and the computed proof -/
theorem C02_server_error (C : Crypto) (be : Backend) (p : SrpProof) (A M1 chal K : Bytes)
    (hK : calculateSessionKey C be A p.serverPublicKey p.passwordVerifier p.serverPrivateKey = .ok K)
    (hne : M1 ≠ calculateClientProof C p.username.asRef K A p.serverPublicKey p.salt) :
    p.intoServer C be A M1 chal =
      .ok (.error ⟨M1, calculateClientProof C p.username.asRef K A p.serverPublicKey p.salt⟩) := by
  rw [C02_server_eq C be p A M1 chal K hK, if_neg hne]

/-- if the key derivation itself panics the call panics: no session object either -/
theorem C02_server_panic (C : Crypto) (be : Backend) (p : SrpProof) (A M1 chal : Bytes) (site : String)
    (hK : calculateSessionKey C be A p.serverPublicKey p.passwordVerifier p.serverPrivateKey = .panic site) :
    p.intoServer C be A M1 chal = .panic site := by
  unfold SrpProof.intoServer
  rw [hK]
  rfl

/-- **client decision as one equation**: the client object exists exactly when the presented `M2`
    equals SHA-1(own A | own M1 | own K) -/
theorem C02_client_eq (C : Crypto) (c : SrpClientChallenge) (M2 : Bytes) :
    c.verifyServerProof C M2 =
      if M2 = C.sha1 (c.clientPublicKey ++ c.clientProof ++ c.sessionKey)
      then .ok ⟨c.username, c.sessionKey⟩
      else .error ⟨C.sha1 (c.clientPublicKey ++ c.clientProof ++ c.sessionKey), M2⟩ := by
  unfold SrpClientChallenge.verifyServerProof calculateServerProof
  generalize C.sha1 (c.clientPublicKey ++ c.clientProof ++ c.sessionKey) = x
  by_cases h : M2 = x
  · simp [h]
  · simp [h]

/-- **client accepts iff** -/
theorem C02_client_iff (C : Crypto) (c : SrpClientChallenge) (M2 : Bytes) (cl : SrpClient) :
    c.verifyServerProof C M2 = .ok cl ↔
      M2 = C.sha1 (c.clientPublicKey ++ c.clientProof ++ c.sessionKey) ∧ cl = ⟨c.username, c.sessionKey⟩ := by
  rw [C02_client_eq]
  generalize C.sha1 (c.clientPublicKey ++ c.clientProof ++ c.sessionKey) = x
  split
  · next h => simp [h, eq_comm]
  · next h => simp [h]

/-- **otherwise**: the error carries the computed proof (as `client_proof`) and the presented one -/
theorem C02_client_error (C : Crypto) (c : SrpClientChallenge) (M2 : Bytes)
    (hne : M2 ≠ C.sha1 (c.clientPublicKey ++ c.clientProof ++ c.sessionKey)) :
    c.verifyServerProof C M2 =
      .error ⟨C.sha1 (c.clientPublicKey ++ c.clientProof ++ c.sessionKey), M2⟩ := by
  rw [C02_client_eq, if_neg hne]

/-! ### what M1 and M2 bind -/

/-- **M1 layout**: xor-hash constant | SHA-1(username) | salt | A | B | K -/
theorem C02_M1_layout (C : Crypto) (U K A B salt : Bytes) :
    calculateClientProof C U K A B salt =
      C.sha1 (Gen.precalculatedXorHash ++ C.sha1 U ++ salt ++ A ++ B ++ K) := rfl

/-- the client computes M1 over the same layout, with the xor hash it derives from the announced
    group; `SrpClientChallenge.new` stores that value, its `A` and its `K` -/
theorem C02_client_M1 (C : Crypto) (be : Backend) (u pw : NStr) (g : Nat) (nLE B salt a : Bytes)
    (cc : SrpClientChallenge) (h : SrpClientChallenge.new C be u pw g nLE B salt a = .ok cc) :
    cc.username = u ∧
    cc.clientProof = C.sha1 (calculateXorHash C nLE g ++ C.sha1 u.asRef ++ salt ++ cc.clientPublicKey ++ B ++ cc.sessionKey) := by
  unfold SrpClientChallenge.new at h
  cases h1 : calculateClientPublicKey be a g nLE with
  | panic s => rw [h1] at h; cases h
  | ok r =>
    rw [h1] at h
    simp only [Out.bind_ok] at h
    cases r with
    | error e => cases h
    | ok A =>
      simp only at h
      cases h2 : calculateClientS be B (calculateX C u.asRef pw.asRef salt) a (calculateU C A B) g nLE with
      | panic s => rw [h2] at h; cases h
      | ok S =>
        rw [h2] at h
        simp only [Out.bind_ok] at h
        cases h3 : calculateInterleaved C S with
        | panic s => rw [h3] at h; cases h
        | ok K =>
          rw [h3] at h
          simp only [Out.bind_ok, Out.pure_eq] at h
          injection h with h
          subst h
          exact ⟨rfl, rfl⟩

/-! ### changed proofs are refused outright -/

/-- **every changed M1 is refused** (no hash reasoning): any presented value other than the server's
    own — in particular each single-bit change of it — is answered with the error carrying both -/
theorem C02_changed_bit_refused (C : Crypto) (be : Backend) (p : SrpProof) (A M1' chal K : Bytes)
    (hK : calculateSessionKey C be A p.serverPublicKey p.passwordVerifier p.serverPrivateKey = .ok K)
    (hne : M1' ≠ calculateClientProof C p.username.asRef K A p.serverPublicKey p.salt) :
    p.intoServer C be A M1' chal =
      .ok (.error ⟨M1', calculateClientProof C p.username.asRef K A p.serverPublicKey p.salt⟩) :=
  C02_server_error C be p A M1' chal K hK hne

/-- the 160 single-bit changes of the right M1 -/
theorem C02_flipped_M1_refused (C : Crypto) (hC : C.WF) (be : Backend) (p : SrpProof) (A chal K : Bytes)
    (hK : calculateSessionKey C be A p.serverPublicKey p.passwordVerifier p.serverPrivateKey = .ok K)
    (i : Nat) (hi : i < 160) :
    let M1s := calculateClientProof C p.username.asRef K A p.serverPublicKey p.salt
    p.intoServer C be A (flipBit M1s i) chal = .ok (.error ⟨flipBit M1s i, M1s⟩) := by
  intro M1s
  apply C02_server_error C be p A _ chal K hK
  apply flipBit_ne
  show i < 8 * (C.sha1 _).length
  rw [hC.sha1_len]; omega

/-- **every changed M2 is refused** by the client -/
theorem C02_changed_bit_refused_M2 (C : Crypto) (c : SrpClientChallenge) (M2' : Bytes)
    (hne : M2' ≠ calculateServerProof C c.clientPublicKey c.clientProof c.sessionKey) :
    c.verifyServerProof C M2' =
      .error ⟨calculateServerProof C c.clientPublicKey c.clientProof c.sessionKey, M2'⟩ :=
  C02_client_error C c M2' hne

/-- the 160 single-bit changes of the right M2 -/
theorem C02_flipped_M2_refused (C : Crypto) (hC : C.WF) (c : SrpClientChallenge) (i : Nat) (hi : i < 160) :
    let M2s := calculateServerProof C c.clientPublicKey c.clientProof c.sessionKey
    c.verifyServerProof C (flipBit M2s i) = .error ⟨M2s, flipBit M2s i⟩ := by
  intro M2s
  apply C02_client_error
  apply flipBit_ne
  show i < 8 * (C.sha1 _).length
  rw [hC.sha1_len]; omega

/-! ### changed fields: explicit collision pairs -/

/-- **a changed salt, A, B, K or username hash that leaves M1 unchanged exhibits a collision**.
    Both proofs are computed by `calculate_client_proof`; salts and public keys are 32 bytes, hash
    outputs 20 bytes (`C.WF`). The session key is the last field, so its width (40 bytes in the Rust
    types) is not even needed: the theorem holds for keys of any length. -/
theorem C02_changed_field_gives_collision (C : Crypto) (hC : C.WF)
    (U U' salt salt' A A' B B' K K' : Bytes)
    (hs : salt.length = 32) (hs' : salt'.length = 32) (hA : A.length = 32) (hA' : A'.length = 32)
    (hB : B.length = 32) (hB' : B'.length = 32)
    (hdiff : salt ≠ salt' ∨ A ≠ A' ∨ B ≠ B' ∨ K ≠ K' ∨ C.sha1 U ≠ C.sha1 U')
    (heq : calculateClientProof C U K A B salt = calculateClientProof C U' K' A' B' salt') :
    ∃ m₁ m₂, m₁ = Gen.precalculatedXorHash ++ C.sha1 U ++ salt ++ A ++ B ++ K ∧
      m₂ = Gen.precalculatedXorHash ++ C.sha1 U' ++ salt' ++ A' ++ B' ++ K' ∧
      m₁ ≠ m₂ ∧ C.sha1 m₁ = C.sha1 m₂ := by
  refine ⟨_, _, rfl, rfl, ?_, heq⟩
  intro h
  obtain ⟨_, e2, e3, e4, e5, e6⟩ := layout6_inj rfl
    ((hC.sha1_len U).trans (hC.sha1_len U').symm) (hs.trans hs'.symm) (hA.trans hA'.symm)
    (hB.trans hB'.symm) h
  rcases hdiff with d | d | d | d | d
  · exact d e3
  · exact d e4
  · exact d e5
  · exact d e6
  · exact d e2

/-- **a changed username**: either the two names already collide under SHA-1 (that pair is returned),
    or the M1 inputs are a collision pair -/
theorem C02_changed_username_gives_collision (C : Crypto) (hC : C.WF)
    (U U' salt A B K : Bytes) (hne : U ≠ U')
    (heq : calculateClientProof C U K A B salt = calculateClientProof C U' K A B salt) :
    (C.sha1 U = C.sha1 U' ∧ ∃ m₁ m₂, m₁ = U ∧ m₂ = U' ∧ m₁ ≠ m₂ ∧ C.sha1 m₁ = C.sha1 m₂) ∨
    (C.sha1 U ≠ C.sha1 U' ∧
      ∃ m₁ m₂, m₁ = Gen.precalculatedXorHash ++ C.sha1 U ++ salt ++ A ++ B ++ K ∧
        m₂ = Gen.precalculatedXorHash ++ C.sha1 U' ++ salt ++ A ++ B ++ K ∧
        m₁ ≠ m₂ ∧ C.sha1 m₁ = C.sha1 m₂) := by
  by_cases h : C.sha1 U = C.sha1 U'
  · exact Or.inl ⟨h, U, U', rfl, rfl, hne, h⟩
  · right
    refine ⟨h, _, _, rfl, rfl, ?_, heq⟩
    intro hm
    obtain ⟨_, e2, _⟩ := layout6_inj rfl ((hC.sha1_len U).trans (hC.sha1_len U').symm) rfl rfl rfl hm
    exact h e2

/-- **at the entry point**: the server (its own username, salt, B, the `A` it was handed, the `K` it
    derived) accepts an M1 that was computed by `calculate_client_proof` over other values ⇒ explicit
    collision pair (or, for a different name with the same hash, that pair of names) -/
theorem C02_changed_field_accepted_gives_collision (C : Crypto) (hC : C.WF) (be : Backend) (p : SrpProof)
    (A chal K : Bytes) (U' salt' A' B' K' : Bytes) (r : SrpServer × Bytes)
    (hKs : calculateSessionKey C be A p.serverPublicKey p.passwordVerifier p.serverPrivateKey = .ok K)
    (hs : p.salt.length = 32) (hs' : salt'.length = 32) (hA : A.length = 32) (hA' : A'.length = 32)
    (hB : p.serverPublicKey.length = 32) (hB' : B'.length = 32)
    (hdiff : p.salt ≠ salt' ∨ A ≠ A' ∨ p.serverPublicKey ≠ B' ∨ K ≠ K' ∨ p.username.asRef ≠ U')
    (hacc : p.intoServer C be A (calculateClientProof C U' K' A' B' salt') chal = .ok (.ok r)) :
    ∃ m₁ m₂, m₁ ≠ m₂ ∧ C.sha1 m₁ = C.sha1 m₂ ∧
      ((m₁ = p.username.asRef ∧ m₂ = U') ∨
       (m₁ = Gen.precalculatedXorHash ++ C.sha1 p.username.asRef ++ p.salt ++ A ++ p.serverPublicKey ++ K ∧
        m₂ = Gen.precalculatedXorHash ++ C.sha1 U' ++ salt' ++ A' ++ B' ++ K')) := by
  have heq := ((C02_server_iff C be p A _ chal K hKs r.1 r.2).1 hacc).1
  by_cases hu : C.sha1 p.username.asRef = C.sha1 U'
  · by_cases hU : p.username.asRef = U'
    · have hd : p.salt ≠ salt' ∨ A ≠ A' ∨ p.serverPublicKey ≠ B' ∨ K ≠ K' ∨
          C.sha1 p.username.asRef ≠ C.sha1 U' := by
        rcases hdiff with d | d | d | d | d
        · exact Or.inl d
        · exact Or.inr (Or.inl d)
        · exact Or.inr (Or.inr (Or.inl d))
        · exact Or.inr (Or.inr (Or.inr (Or.inl d)))
        · exact absurd hU d
      obtain ⟨m₁, m₂, e1, e2, hne, hh⟩ := C02_changed_field_gives_collision C hC _ _ _ _ _ _ _ _ _ _
        hs hs' hA hA' hB hB' hd heq.symm
      exact ⟨m₁, m₂, hne, hh, Or.inr ⟨e1, e2⟩⟩
    · exact ⟨_, _, hU, hu, Or.inl ⟨rfl, rfl⟩⟩
  · obtain ⟨m₁, m₂, e1, e2, hne, hh⟩ := C02_changed_field_gives_collision C hC _ _ _ _ _ _ _ _ _ _
      hs hs' hA hA' hB hB' (Or.inr (Or.inr (Or.inr (Or.inr hu)))) heq.symm
    exact ⟨m₁, m₂, hne, hh, Or.inr ⟨e1, e2⟩⟩

/-! ### wrong password — PARTIAL by nature

Full statement one would like: "a client that ran `SrpClientChallenge::new` with a password other than
the one the verifier was made from is refused by `into_server`". That is not a theorem of any model of
SRP: the password enters M1 only through the session key `K` (`K_client` is derived from
`(B − k·g^x')^(a + u·x')`, `K_server` from `(A·v^u)^b`), and for particular `a, b` the two keys coincide
although `x' ≠ x` (probability ≈ 2⁻²⁵⁶ over `a, b`, but not zero), in which case the server *does* accept.
What is proved, at full generality (any client username, password, announced group, `B`, salt, private
key): acceptance implies an explicit SHA-1 collision pair **or** the two sides hold the same session key.
The second disjunct cannot be removed for all `a, b` because it is not false for all of them.

Continued in Props/C02Password.lean (it needs the value theorems of Props/C03.lean, which this file does
not import): `C02_wrong_password_three_way` adds the hypothesis `pw' ≠ pw` and takes the second disjunct
apart — interleave collision, `calculate_x` collision, or the arithmetic coincidence of the two secrets
with `x' ≠ x` — and `C02_wrong_username_collision` shows that another username always yields a collision. -/

/-- **wrong password (partial)**: the server accepts what a client object computed ⇒ either the two
    M1 inputs are an explicit collision pair, or client and server derived the same session key -/
theorem C02_wrong_password_partial (C : Crypto) (hC : C.WF) (be : Backend)
    (u' pw' : NStr) (g : Nat) (nLE B salt' a : Bytes) (cc : SrpClientChallenge)
    (p : SrpProof) (chal K : Bytes) (srv : SrpServer) (M2 : Bytes)
    (hclient : SrpClientChallenge.new C be u' pw' g nLE B salt' a = .ok cc)
    (hKs : calculateSessionKey C be cc.clientPublicKey p.serverPublicKey p.passwordVerifier
              p.serverPrivateKey = .ok K)
    (hB : B.length = p.serverPublicKey.length) (hs : salt'.length = p.salt.length)
    (hacc : p.intoServer C be cc.clientPublicKey cc.clientProof chal = .ok (.ok (srv, M2))) :
    (∃ m₁ m₂,
      m₁ = Gen.precalculatedXorHash ++ C.sha1 p.username.asRef ++ p.salt ++ cc.clientPublicKey ++
            p.serverPublicKey ++ srv.sessionKey ∧
      m₂ = calculateXorHash C nLE g ++ C.sha1 u'.asRef ++ salt' ++ cc.clientPublicKey ++ B ++ cc.sessionKey ∧
      m₁ ≠ m₂ ∧ C.sha1 m₁ = C.sha1 m₂) ∨
    cc.sessionKey = srv.sessionKey := by
  obtain ⟨hM1, hsrv, _⟩ := (C02_server_iff C be p _ _ chal K hKs srv M2).1 hacc
  have hsk : srv.sessionKey = K := by rw [hsrv]
  rw [hsk]
  rw [(C02_client_M1 C be u' pw' g nLE B salt' a cc hclient).2, C02_M1_layout] at hM1
  by_cases hm : Gen.precalculatedXorHash ++ C.sha1 p.username.asRef ++ p.salt ++ cc.clientPublicKey ++
      p.serverPublicKey ++ K =
      calculateXorHash C nLE g ++ C.sha1 u'.asRef ++ salt' ++ cc.clientPublicKey ++ B ++ cc.sessionKey
  · right
    have hx : Gen.precalculatedXorHash.length = (calculateXorHash C nLE g).length := by
      simp only [calculateXorHash, xorBytes, List.length_zipWith, hC.sha1_len]
      decide
    obtain ⟨_, _, _, _, _, e6⟩ := layout6_inj hx
      ((hC.sha1_len _).trans (hC.sha1_len _).symm) hs.symm rfl hB.symm hm
    exact e6.symm
  · exact Or.inl ⟨_, _, rfl, rfl, hm, hM1.symm⟩

/-! ### non-vacuity -/
section
private def Cconst : Crypto := ⟨fun _ => List.replicate 20 0, fun _ _ => List.replicate 20 0, fun _ => List.replicate 16 0⟩
private def b32 (x : UInt8) : Bytes := List.replicate 32 x
private def b40 (x : UInt8) : Bytes := List.replicate 40 x

/-- `Cconst` has the right output lengths -/
example : Cconst.WF := ⟨fun _ => rfl, fun _ _ => rfl, fun _ => rfl⟩

/-- the hypotheses of `C02_changed_field_gives_collision` are jointly satisfiable (necessarily with a
    hash that has a known collision): 32-byte fields, a different salt, equal M1 -/
example : (b32 1).length = 32 ∧ (b32 2).length = 32 ∧ b32 1 ≠ b32 2 ∧
    calculateClientProof Cconst [0x41] (b40 3) (b32 4) (b32 5) (b32 1) =
      calculateClientProof Cconst [0x41] (b40 3) (b32 4) (b32 5) (b32 2) := by decide

/-- single-bit flips are real changes of a 20-byte proof: all 160 positions -/
example : ∀ i, i < 160 → flipBit (List.replicate 20 (0 : UInt8)) i ≠ List.replicate 20 0 :=
  fun i hi => flipBit_ne _ i (by simpa using hi)

private def uA : NStr := ⟨[0x41, 0,0,0,0,0,0,0,0,0,0,0,0,0,0,0], 1⟩
private def pB : NStr := ⟨[0x42, 0,0,0,0,0,0,0,0,0,0,0,0,0,0,0], 1⟩
private def z31 : Bytes := List.replicate 31 0
private def prf : SrpProof := ⟨uA, 90 :: 1 :: List.replicate 30 0, b32 5, 3 :: z31, 1 :: z31⟩
private def ccl : SrpClientChallenge := ⟨uA, List.replicate 20 0, 49 :: z31, b40 0⟩

/-- the hypotheses of `C02_wrong_password_partial` are jointly satisfiable, and its second disjunct
    does occur with a password other than the registered one: under the (degenerate) constant hash
    every password gives the same `x`, so the verifier `v = g^0 = 1` made for password "A" accepts the
    client that typed "B" (b = 3, a = 2, the real group) — both sides hold the same session key -/
example :
    SrpClientChallenge.new Cconst .num uA pB gBig Gen.largeSafePrimeLE prf.serverPublicKey prf.salt (2 :: z31)
      = .ok ccl ∧
    calculateSessionKey Cconst .num ccl.clientPublicKey prf.serverPublicKey prf.passwordVerifier
      prf.serverPrivateKey = .ok (b40 0) ∧
    prf.intoServer Cconst .num ccl.clientPublicKey ccl.clientProof [] =
      .ok (.ok (⟨uA, b40 0, []⟩, List.replicate 20 0)) ∧
    ccl.sessionKey = b40 0 := by
  have h2 : calculateSessionKey Cconst .num ccl.clientPublicKey prf.serverPublicKey prf.passwordVerifier
      prf.serverPrivateKey = .ok (b40 0) := by decide +kernel
  exact ⟨by decide +kernel, h2, (C02_server_iff _ _ _ _ _ _ _ h2 _ _).2 ⟨by decide, rfl, by decide⟩, rfl⟩
end

end WowSrp
