/-
C15 (continued) — the convenience generators (`pin::get_pin_grid_seed`, `pin::get_pin_salt`,
`integrity::get_salt_value`, `matrix_card::get_matrix_card_seed`, the three `ProofSeed::new`;
Model/Rng.lean): each takes exactly its `n` bytes from the front of the RNG stream and returns an
injective function of exactly those bytes. Helper lemmas live in Lemmas/RngDraw.lean.
-/
import WowSrp.Props.C15
import WowSrp.Model.Rng
import WowSrp.Lemmas.RngDraw
namespace WowSrp
open WowSrp.Layout

/-- `gen` **draws exactly `n` bytes and returns `val` of them**:
    1. it succeeds iff the stream still has at least `n` bytes (and fails iff it has fewer);
    2. it returns `(v, rest)` iff `v = val (first n bytes)` and `rest` is the stream without its
       first `n` bytes — so exactly `n` bytes are consumed, from the front;
    3. `val` is injective on `n`-byte inputs: no drawn byte is dropped or masked;
    4. hence two successful calls give the same value iff the first `n` bytes of their streams agree
       (in particular: streams whose first `n` bytes differ give different values, and nothing past
       the first `n` bytes influences the value). -/
def DrawsExactly {α : Type} (gen : Bytes → Option (α × Bytes)) (n : Nat) (val : Bytes → α) : Prop :=
  (∀ rng, (gen rng).isSome ↔ n ≤ rng.length) ∧
  (∀ rng, gen rng = none ↔ rng.length < n) ∧
  (∀ rng v rest, gen rng = some (v, rest) ↔
    n ≤ rng.length ∧ v = val (rng.take n) ∧ rest = rng.drop n) ∧
  (∀ d d' : Bytes, d.length = n → d'.length = n → val d = val d' → d = d') ∧
  (∀ rng rng' v rest v' rest', gen rng = some (v, rest) → gen rng' = some (v', rest') →
    (v = v' ↔ rng.take n = rng'.take n))

/-- tie to the source: the two salt lengths (regenerated on every run) -/
theorem C15_rng_constants : Gen.pinSaltSize = 16 ∧ Gen.integritySaltLength = 16 := by decide

/-- **every convenience generator draws exactly its bytes**: the PIN grid seed is the little-endian
    `u32` of the next 4 bytes, the PIN salt the next `Gen.pinSaltSize` = 16 bytes themselves, the
    integrity salt the next `Gen.integritySaltLength` = 16 bytes themselves, the matrix-card seed the
    little-endian `u64` of the next 8 bytes, `ProofSeed::new` the little-endian `u32` of the next 4
    bytes; the seeds are `< 2^32` / `< 2^64` and the salts have exactly the documented length. -/
theorem C15_convenience_generators :
    DrawsExactly getPinGridSeed 4 ofLE ∧
    DrawsExactly getPinSalt Gen.pinSaltSize id ∧
    DrawsExactly getIntegritySalt Gen.integritySaltLength id ∧
    DrawsExactly getMatrixCardSeed 8 ofLE ∧
    DrawsExactly proofSeedNew 4 ofLE ∧
    (∀ rng v rest, getPinGridSeed rng = some (v, rest) → v < 2 ^ 32) ∧
    (∀ rng v rest, getPinSalt rng = some (v, rest) → v.length = Gen.pinSaltSize) ∧
    (∀ rng v rest, getIntegritySalt rng = some (v, rest) → v.length = Gen.integritySaltLength) ∧
    (∀ rng v rest, getMatrixCardSeed rng = some (v, rest) → v < 2 ^ 64) ∧
    (∀ rng v rest, proofSeedNew rng = some (v, rest) → v < 2 ^ 32) := by
  have mk : ∀ {α : Type} (gen : Bytes → Option (α × Bytes)) (n : Nat) (val : Bytes → α),
      (∀ rng, gen rng = if rng.length < n then none else some (val (rng.take n), rng.drop n)) →
      (∀ d d' : Bytes, d.length = n → d'.length = n → val d = val d' → d = d') →
      DrawsExactly gen n val := by
    intro α gen n val hgen hinj
    obtain ⟨h1, h2, h3, h4⟩ := draw_spec gen n val hgen hinj
    exact ⟨h1, h2, h3, hinj, h4⟩
  have hofLE : ∀ n (d d' : Bytes), d.length = n → d'.length = n → ofLE d = ofLE d' → d = d' :=
    fun n d d' h h' e => ofLE_inj d d' (h.trans h'.symm) e
  have hid : ∀ n (d d' : Bytes), d.length = n → d'.length = n → id d = id d' → d = d' :=
    fun _ _ _ _ _ e => e
  have g1 : DrawsExactly getPinGridSeed 4 ofLE := mk _ _ _ (drawBytes_map_eq 4 ofLE) (hofLE 4)
  have g2 : DrawsExactly getPinSalt Gen.pinSaltSize id := mk _ _ _ (drawBytes_eq _) (hid _)
  have g3 : DrawsExactly getIntegritySalt Gen.integritySaltLength id := mk _ _ _ (drawBytes_eq _) (hid _)
  have g4 : DrawsExactly getMatrixCardSeed 8 ofLE := mk _ _ _ (drawBytes_map_eq 8 ofLE) (hofLE 8)
  have g5 : DrawsExactly proofSeedNew 4 ofLE := mk _ _ _ (drawBytes_map_eq 4 ofLE) (hofLE 4)
  have bound : ∀ (n : Nat) (rng : Bytes), n ≤ rng.length → ofLE (rng.take n) < 256 ^ n := by
    intro n rng hl
    have h := ofLE_lt (rng.take n)
    rwa [List.length_take, Nat.min_eq_left hl] at h
  have len : ∀ (n : Nat) (rng : Bytes), n ≤ rng.length → (id (rng.take n) : Bytes).length = n := by
    intro n rng hl
    show (rng.take n).length = n
    rw [List.length_take, Nat.min_eq_left hl]
  refine ⟨g1, g2, g3, g4, g5, ?_, ?_, ?_, ?_, ?_⟩
  · intro rng v rest h
    obtain ⟨hl, hv, _⟩ := (g1.2.2.1 rng v rest).1 h
    rw [hv]; exact bound 4 rng hl
  · intro rng v rest h
    obtain ⟨hl, hv, _⟩ := (g2.2.2.1 rng v rest).1 h
    rw [hv]; exact len _ rng hl
  · intro rng v rest h
    obtain ⟨hl, hv, _⟩ := (g3.2.2.1 rng v rest).1 h
    rw [hv]; exact len _ rng hl
  · intro rng v rest h
    obtain ⟨hl, hv, _⟩ := (g4.2.2.1 rng v rest).1 h
    rw [hv]; exact bound 8 rng hl
  · intro rng v rest h
    obtain ⟨hl, hv, _⟩ := (g5.2.2.1 rng v rest).1 h
    rw [hv]; exact bound 4 rng hl

/-- the "different bytes ⇒ different value" clause spelled out for one generator (the others are the
    same clause of `C15_convenience_generators`): two streams whose first 4 bytes differ give
    different PIN grid seeds -/
theorem C15_pin_grid_seed_differs (rng rng' : Bytes) (v v' : Nat) (rest rest' : Bytes)
    (h : getPinGridSeed rng = some (v, rest)) (h' : getPinGridSeed rng' = some (v', rest'))
    (hne : rng.take 4 ≠ rng'.take 4) : v ≠ v' :=
  fun e => hne ((C15_convenience_generators.1.2.2.2.2 rng rng' v rest v' rest' h h').1 e)

/-- calls made one after the other draw disjoint, consecutive pieces of the stream: e.g. a PIN grid
    seed followed by a PIN salt use bytes 0‥3 and 4‥19 -/
theorem C15_generators_sequential (rng : Bytes) (seed : Nat) (r₁ salt r₂ : Bytes)
    (h₁ : getPinGridSeed rng = some (seed, r₁)) (h₂ : getPinSalt r₁ = some (salt, r₂)) :
    seed = ofLE (rng.take 4) ∧ salt = (rng.drop 4).take 16 ∧ r₂ = rng.drop 20 := by
  obtain ⟨_, hv, hr⟩ := (C15_convenience_generators.1.2.2.1 rng seed r₁).1 h₁
  obtain ⟨_, hs, hr₂⟩ := (C15_convenience_generators.2.1.2.2.1 r₁ salt r₂).1 h₂
  have h16 : Gen.pinSaltSize = 16 := rfl
  rw [h16] at hs hr₂
  subst hr
  refine ⟨hv, hs, ?_⟩
  rw [hr₂, List.drop_drop]

/-- non-vacuity: concrete streams — success with the expected value and rest, failure on a short
    stream, and two streams differing in the 4th byte only -/
example :
    getPinGridSeed [1, 2, 0, 0, 9, 8] = some (513, [9, 8]) ∧
    getPinGridSeed [1, 2, 0] = none ∧
    getPinGridSeed [1, 2, 0, 1, 9, 8] = some (16777729, [9, 8]) ∧
    getMatrixCardSeed [0, 0, 0, 0, 0, 0, 0, 1, 7] = some (2 ^ 56, [7]) ∧
    proofSeedNew [255, 255, 255, 255] = some (2 ^ 32 - 1, []) ∧
    getPinSalt (List.replicate 15 0) = none ∧
    getIntegritySalt (List.replicate 16 5 ++ [6]) = some (List.replicate 16 5, [6]) := by
  decide

end WowSrp
