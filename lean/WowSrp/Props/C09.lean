/-
C09 — Wrath header streams are RC4-drop1024 under direction-specific HMAC keys.
Property theorems only; helper lemmas live in Lemmas/Rc4.lean, the textbook RC4 in Spec/Rc4.lean.

What is NOT a theorem, and is not claimed: "the two directions never share a keystream" for ALL
session keys. RC4 has colliding keys and HMAC is not injective (and `C : Crypto` is arbitrary here), so
for some hypothetical K the two derived RC4 states could coincide. What is proved is
* the *constant assignment* (`C09_directions`): S ≠ R, client-encrypt and server-decrypt use S,
  server-encrypt and client-decrypt use R;
* a *reduction* (`C09_shared_state_gives_key_collision`, `C09_no_key_collision_gives_disjoint_states`):
  the PRGA step is a bijection on intact states (`Lemmas/Rc4Inv.lean`), so if the two directions are EVER
  in the same RC4 state after the same number of bytes — right after the 1024-byte drop or a million
  bytes later — then already `Rc4::new(HMAC(S, K)) = Rc4::new(HMAC(R, K))`: an explicit related-key
  collision of KSA∘HMAC under the two fixed constants. (That KSA is injective on 20-byte keys is NOT claimed.)
Inequality of the two keystreams is tested per sampled key by the harness; one concrete key is
evaluated in `Props/C09Directions.lean`.
-/
import WowSrp.Lemmas.Rc4
import WowSrp.Lemmas.Rc4Spec
import WowSrp.Lemmas.Rc4Inv
namespace WowSrp

/-- `Rc4::new` never panics — for every key, the empty one included (there the `zip` with the empty
    `cycle()` runs zero iterations and the table stays the identity) — and yields an intact table with
    both counters at 0 -/
theorem C09_new_ok (key : Bytes) : ∃ r, Rc4.new key = .ok r ∧ r.Inv ∧ r.i = 0 ∧ r.j = 0 := Rc4.new_total key

/-- the empty-key case spelled out -/
theorem C09_new_empty_key : Rc4.new [] = .ok ⟨(Array.range 256).map UInt8.ofNat, 0, 0⟩ := Rc4.new_nil

/-- one `pseudo_random_generation` / one byte of `apply_keystream` under the invariant: none of the
    indexings or the swap is out of bounds, the invariant is re-established -/
theorem C09_step_no_panic (r : Rc4) (hr : r.Inv) (x : UInt8) :
    (∃ r' v, r.prga = .ok (r', v) ∧ r'.Inv) ∧ (∃ r' y, r.step x = .ok (r', y) ∧ r'.Inv) :=
  ⟨⟨_, _, r.prga_pure hr, r.next_inv hr⟩, ⟨_, _, r.step_pure x hr, r.next_inv hr⟩⟩

/-- **no panic**: from every state with an intact table (every `i`, `j`), `apply_keystream` on data
    of every length succeeds, returns as many bytes as given and keeps the table intact -/
theorem C09_no_panic (r : Rc4) (hr : r.Inv) (data : Bytes) :
    ∃ r' out, r.apply data = .ok (r', out) ∧ r'.Inv ∧ out.length = data.length :=
  ⟨_, _, r.apply_eq hr data, Rc4.advance_inv _ _ hr,
    by rw [xorBytes_length _ _ (by rw [Rc4.stream_length])]⟩

/-- **the keystream does not depend on the data**: let `ks` be what `apply_keystream` returns on
    `n` zero bytes (the next `n` keystream bytes) and `r'` the state it ends in. Then on *any* data of
    length `n` the call returns `data xor ks` and ends in the same `r'`. In particular the state after a
    call depends only on the length of the data. -/
theorem C09_keystream_indep_of_data (r : Rc4) (hr : r.Inv) (n : Nat) :
    ∃ r' ks, r.apply (List.replicate n 0) = .ok (r', ks) ∧ ks.length = n ∧ r'.Inv ∧
      ∀ xs : Bytes, xs.length = n → r.apply xs = .ok (r', xorBytes xs ks) := by
  refine ⟨_, _, r.apply_zeros hr n, Rc4.stream_length n r, Rc4.advance_inv _ _ hr, ?_⟩
  intro xs hx
  rw [r.apply_eq hr xs, hx]

/-- corollary in the form "same length ⇒ same next state" -/
theorem C09_state_depends_on_length_only (r : Rc4) (hr : r.Inv) (xs ys : Bytes) (hl : xs.length = ys.length) :
    ∃ r' ox oy, r.apply xs = .ok (r', ox) ∧ r.apply ys = .ok (r', oy) := by
  refine ⟨Rc4.advance ys.length r, xorBytes xs (Rc4.stream ys.length r), xorBytes ys (Rc4.stream ys.length r),
    ?_, r.apply_eq hr ys⟩
  rw [r.apply_eq hr xs, hl]

/-- **chunking**: any partition of a stream into calls (empty calls included) gives the result of one
    call on the concatenation — any state -/
theorem C09_chunking (r : Rc4) (chunks : List Bytes) :
    runChunks Rc4.apply r chunks = Rc4.apply r chunks.flatten :=
  runChunks_flatten Rc4.step r chunks

/-- **involution**: two RC4s in the same state — if one turns `xs` into `cs` and ends in `r'`, the
    other turns `cs` back into `xs` and ends in `r'` as well (no hypothesis on the state needed) -/
theorem C09_involution (r r' : Rc4) (xs cs : Bytes) (h : r.apply xs = .ok (r', cs)) :
    r.apply cs = .ok (r', xs) := Rc4.apply_involution r r' xs cs h

/-- **direction constants**: S ≠ R, and which of them each of the four halves is keyed with, as
    extracted from the four constructors (swapping the constants on one half only breaks this) -/
theorem C09_directions :
    Gen.wrathS ≠ Gen.wrathR ∧ keyClientEnc = Gen.wrathS ∧ keyServerDec = Gen.wrathS ∧
    keyServerEnc = Gen.wrathR ∧ keyClientDec = Gen.wrathR := by decide

/-- the documented values of the two constants -/
theorem C09_direction_values :
    Gen.wrathS = [0xC2, 0xB3, 0x72, 0x3C, 0xC6, 0xAE, 0xD9, 0xB5, 0x34, 0x3C, 0x53, 0xEE, 0x2F, 0x43, 0x67, 0xCE] ∧
    Gen.wrathR = [0xCC, 0x98, 0xAE, 0x04, 0xE8, 0x97, 0xEA, 0xCA, 0x12, 0xDD, 0xC0, 0x93, 0x42, 0x91, 0x53, 0x57] ∧
    Gen.wrathKeyLength = 16 := by decide

/-- the number of discarded keystream bytes -/
theorem C09_drop : Gen.wrathDrop = 1024 := by decide

/-- **key derivation**: `InnerCrypto::new(K, key)` never panics and is RC4 keyed with
    HMAC-SHA1(key = direction constant, message = session key), counters at 0, then advanced by exactly
    1024 keystream bytes: its state is the state `Rc4::new(hmac)` reaches after `apply_keystream` on
    *any* 1024 bytes. For every `Crypto`, session key and constant. -/
theorem C09_key_derivation (C : Crypto) (K key : Bytes) :
    ∃ r0 r, Rc4.new (C.hmac key K) = .ok r0 ∧ r0.i = 0 ∧ r0.j = 0 ∧ r0.Inv ∧
      InnerCrypto.new C K key = .ok r ∧ r.Inv ∧
      ∀ junk : Bytes, junk.length = 1024 → ∃ out, r0.apply junk = .ok (r, out) := by
  obtain ⟨r0, h0, hinv, hi, hj, hnew, hinv'⟩ := InnerCrypto.new_pure C K key
  refine ⟨r0, _, h0, hi, hj, hinv, hnew, hinv', ?_⟩
  intro junk hl
  refine ⟨xorBytes junk (Rc4.stream 1024 r0), ?_⟩
  rw [r0.apply_eq hinv junk, hl, C09_drop]

/-- the four halves, by name: each is `InnerCrypto::new` with the constant of its direction -/
theorem C09_halves (C : Crypto) (K : Bytes) :
    WClientEnc.new C K = InnerCrypto.new C K Gen.wrathS ∧
    WServerDec.new C K = InnerCrypto.new C K Gen.wrathS ∧
    (∃ r, InnerCrypto.new C K Gen.wrathR = .ok r ∧
      WServerEnc.new C K = .ok ⟨r, List.replicate 5 0⟩ ∧ WClientDec.new C K = .ok ⟨r, List.replicate 4 0⟩) := by
  refine ⟨by rw [WClientEnc.new, wrath_key_assignment.1], by rw [WServerDec.new, wrath_key_assignment.2.1], ?_⟩
  obtain ⟨r0, _, _, _, _, h, _⟩ := InnerCrypto.new_pure C K Gen.wrathR
  obtain ⟨r, _, hs, hc⟩ := wrath_pair_s2c C K
  refine ⟨_, h, ?_, ?_⟩
  · simp only [WServerEnc.new, wrath_key_assignment.2.2.1, h, bind, Out.bind, pure]; rfl
  · simp only [WClientDec.new, wrath_key_assignment.2.2.2, h, bind, Out.bind, pure]; rfl

/-- **round trip client → server, indefinitely**: for every `Crypto` and session key the client's
    encrypter and the server's decrypter are constructed (no panic) in the same RC4 state; for every
    stream of any length (so the 8-bit counter `i` wraps at 256, 65 536, … inside this statement),
    every partition of the plaintext into calls on the client and every independent partition of the
    ciphertext into calls on the server, the server recovers the client's bytes exactly, neither side
    panics, and the two states are equal again afterwards -/
theorem C09_roundtrip_c2s (C : Crypto) (K : Bytes) (sendChunks recvChunks : List Bytes) :
    ∃ e d, WClientEnc.new C K = .ok e ∧ WServerDec.new C K = .ok d ∧ d = e ∧
      ∃ e' cipher, runChunks Rc4.apply e sendChunks = .ok (e', cipher) ∧
        cipher.length = sendChunks.flatten.length ∧
        (recvChunks.flatten = cipher →
          runChunks Rc4.apply d recvChunks = .ok (e', sendChunks.flatten)) := by
  obtain ⟨r, he, hd, hinv⟩ := wrath_pair_c2s C K
  refine ⟨r, r, he, hd, rfl, ?_⟩
  obtain ⟨e', cipher, hsend, _, hlen⟩ := C09_no_panic r hinv sendChunks.flatten
  rw [← C09_chunking] at hsend
  exact ⟨e', cipher, hsend, hlen, fun hpart => Rc4.roundtrip_chunks r e' _ _ _ hsend hpart⟩

/-- **round trip server → client, indefinitely**: the same for the other direction, through the
    `ServerEncrypterHalf::encrypt` / `ClientDecrypterHalf::decrypt` wrappers (which carry a header
    buffer next to the RC4 state and do not touch it here): equal RC4 states at construction, every
    stream, every pair of partitions, exact recovery, equal RC4 states afterwards -/
theorem C09_roundtrip_s2c (C : Crypto) (K : Bytes) (sendChunks recvChunks : List Bytes) :
    ∃ s c, WServerEnc.new C K = .ok s ∧ WClientDec.new C K = .ok c ∧ c.rc4 = s.rc4 ∧
      ∃ s' cipher, runChunks WServerEnc.encrypt s sendChunks = .ok (s', cipher) ∧
        cipher.length = sendChunks.flatten.length ∧
        (recvChunks.flatten = cipher →
          ∃ c', runChunks WClientDec.decrypt c recvChunks = .ok (c', sendChunks.flatten) ∧
            c'.rc4 = s'.rc4 ∧ c'.header = c.header ∧ s'.serverHeader = s.serverHeader) := by
  obtain ⟨r, hinv, hs, hc⟩ := wrath_pair_s2c C K
  refine ⟨_, _, hs, hc, rfl, ?_⟩
  obtain ⟨e', cipher, hsend, _, hlen⟩ := C09_no_panic r hinv sendChunks.flatten
  rw [← C09_chunking] at hsend
  refine ⟨⟨e', List.replicate Gen.wrathServerHeaderMaxLength 0⟩, cipher,
    by rw [WServerEnc.runChunks_encrypt]; simp only [hsend], hlen, ?_⟩
  intro hpart
  have := Rc4.roundtrip_chunks r e' _ _ _ hsend hpart
  exact ⟨⟨e', List.replicate Gen.wrathServerHeaderMinLength 0⟩,
    by rw [WClientDec.runChunks_decrypt]; simp only [this], rfl, rfl, rfl⟩

/-- the round trip between any two RC4 states that are equal, with no reference to how they were
    made (this is the induction step "equal before ⇒ recovered and equal after", usable at any point
    of a connection) -/
theorem C09_roundtrip_from_equal_states (e e' : Rc4) (sendChunks recvChunks : List Bytes) (cipher : Bytes)
    (hsend : runChunks Rc4.apply e sendChunks = .ok (e', cipher)) (hpart : recvChunks.flatten = cipher) :
    runChunks Rc4.apply e recvChunks = .ok (e', sendChunks.flatten) :=
  Rc4.roundtrip_chunks e e' _ _ _ hsend hpart

/-! ### the two directions: a shared state is a key collision -/

/-- **the PRGA step is a bijection on intact states** (table of 256 entries, every `i`, `j`), so `n`
    keystream bytes on is an injective map, for every `n`; stated on the model's own
    `pseudo_random_generation` / `apply_keystream` (`Lemmas/Rc4Inv.lean`: `Rc4.prev` is the inverse step) -/
theorem C09_prga_bijective :
    (∀ (a b : Rc4), a.Inv → b.Inv → ∀ (s : Rc4) (va vb : UInt8),
      a.prga = .ok (s, va) → b.prga = .ok (s, vb) → a = b) ∧
    (∀ r : Rc4, r.Inv → ∃ (a : Rc4) (v : UInt8), a.Inv ∧ a.prga = .ok (r, v)) ∧
    (∀ (a b : Rc4), a.Inv → b.Inv → ∀ (xs ys : Bytes), xs.length = ys.length →
      ∀ (s : Rc4) (ox oy : Bytes), a.apply xs = .ok (s, ox) → b.apply ys = .ok (s, oy) → a = b) := by
  refine ⟨fun a b ha hb s va vb h₁ h₂ => Rc4.prga_injective a b ha hb s va vb h₁ h₂, ?_,
    fun a b ha hb xs ys hl s ox oy h₁ h₂ => Rc4.apply_injective_state a b ha hb xs ys hl s ox oy h₁ h₂⟩
  intro r hr
  obtain ⟨a, ha, hn⟩ := Rc4.next_surjective r hr
  exact ⟨a, a.out, ha, by rw [a.prga_pure ha, hn]⟩

/-- **if the two directions ever share a state, the two derived RC4 keys collide.** Let `c2s` / `s2c` be
    the client→server and server→client ciphers built from the same session key `K`
    (`InnerCrypto::new(K, S)` resp. `(K, R)`: what the four halves hold, `C09_halves`). If after the
    same number of bytes — any data, `xs.length = ys.length`, in particular `xs = ys = []`: right after
    the 1024-byte drop — the two are in the same RC4 state `r`, then the two key schedules already
    agreed: `Rc4::new(HMAC(S, K)) = Rc4::new(HMAC(R, K))`. For every `Crypto` and every `K`. -/
theorem C09_shared_state_gives_key_collision (C : Crypto) (K : Bytes) (c2s s2c : Rc4)
    (h₁ : InnerCrypto.new C K Gen.wrathS = .ok c2s) (h₂ : InnerCrypto.new C K Gen.wrathR = .ok s2c)
    (xs ys : Bytes) (hl : xs.length = ys.length) (r : Rc4) (ox oy : Bytes)
    (hx : c2s.apply xs = .ok (r, ox)) (hy : s2c.apply ys = .ok (r, oy)) :
    Rc4.new (C.hmac Gen.wrathS K) = Rc4.new (C.hmac Gen.wrathR K) := by
  obtain ⟨rS, hS, invS, _, _, newS, invS'⟩ := InnerCrypto.new_pure C K Gen.wrathS
  obtain ⟨rR, hR, invR, _, _, newR, invR'⟩ := InnerCrypto.new_pure C K Gen.wrathR
  rw [newS] at h₁
  rw [newR] at h₂
  have h₁ := Out.ok.inj h₁
  have h₂ := Out.ok.inj h₂
  subst h₁
  subst h₂
  have e := Rc4.apply_injective_state _ _ invS' invR' xs ys hl r ox oy hx hy
  have e0 : rS = rR := Rc4.advance_injective _ rS rR invS invR e
  rw [hS, hR, e0]

/-- the same on the four halves by name: `a` is the client's encrypter or the server's decrypter, `b` the
    RC4 of the server's encrypter or of the client's decrypter -/
theorem C09_shared_state_gives_key_collision_halves (C : Crypto) (K : Bytes)
    (ce sd : Rc4) (se : WServerEnc) (cd : WClientDec)
    (hce : WClientEnc.new C K = .ok ce) (hsd : WServerDec.new C K = .ok sd)
    (hse : WServerEnc.new C K = .ok se) (hcd : WClientDec.new C K = .ok cd)
    (a b : Rc4) (ha : a = ce ∨ a = sd) (hb : b = se.rc4 ∨ b = cd.rc4)
    (xs ys : Bytes) (hl : xs.length = ys.length) (r : Rc4) (ox oy : Bytes)
    (hx : a.apply xs = .ok (r, ox)) (hy : b.apply ys = .ok (r, oy)) :
    Rc4.new (C.hmac Gen.wrathS K) = Rc4.new (C.hmac Gen.wrathR K) := by
  obtain ⟨e1, e2, rR, hR, e3, e4⟩ := C09_halves C K
  rw [e1] at hce
  rw [e2] at hsd
  rw [e3] at hse
  rw [e4] at hcd
  injection hse with hse
  injection hcd with hcd
  have ha' : InnerCrypto.new C K Gen.wrathS = .ok a := by
    cases ha with
    | inl h => rw [h]; exact hce
    | inr h => rw [h]; exact hsd
  have hb' : b = rR := by
    cases hb with
    | inl h => rw [h, ← hse]
    | inr h => rw [h, ← hcd]
  subst hb'
  exact C09_shared_state_gives_key_collision C K a b ha' hR xs ys hl r ox oy hx hy

/-- **contrapositive: no key collision ⇒ the two directions never share a state.** For a session key whose
    two derived RC4 key schedules differ (one evaluation of KSA∘HMAC per direction decides this), both
    ciphers exist, never panic, and after ANY equal number of bytes on either side the two RC4 states
    are different — at the drop boundary and forever after. (Different states may still emit equal
    keystream bytes here and there; that is not excluded and not claimed.) -/
theorem C09_no_key_collision_gives_disjoint_states (C : Crypto) (K : Bytes)
    (hne : Rc4.new (C.hmac Gen.wrathS K) ≠ Rc4.new (C.hmac Gen.wrathR K)) :
    ∃ c2s s2c, InnerCrypto.new C K Gen.wrathS = .ok c2s ∧ InnerCrypto.new C K Gen.wrathR = .ok s2c ∧
      ∀ xs ys : Bytes, xs.length = ys.length →
        ∃ r₁ r₂ o₁ o₂, c2s.apply xs = .ok (r₁, o₁) ∧ s2c.apply ys = .ok (r₂, o₂) ∧ r₁ ≠ r₂ := by
  obtain ⟨rS, _, _, _, _, newS, invS'⟩ := InnerCrypto.new_pure C K Gen.wrathS
  obtain ⟨rR, _, _, _, _, newR, invR'⟩ := InnerCrypto.new_pure C K Gen.wrathR
  refine ⟨_, _, newS, newR, fun xs ys hl => ?_⟩
  have hx := Rc4.apply_eq _ invS' xs
  have hy := Rc4.apply_eq _ invR' ys
  refine ⟨_, _, _, _, hx, hy, fun e => hne ?_⟩
  rw [← e] at hy
  exact C09_shared_state_gives_key_collision C K _ _ newS newR xs ys hl _ _ _ hx hy

/-! ### the model's RC4 is the textbook RC4

`Spec/Rc4.lean` is RC4 as RFC 6229 / the textbook describes it: tables of naturals, every index and
sum reduced `mod 256`, the key cycled by `i mod keylength`. `Rc4.abs` reads a model state (array of
`u8`, `u8` counters) as a Spec state (`Lemmas/Rc4Spec.lean`). -/

/-- **refinement**: for every key of 1 ≤ length (≤ 256 is the RC4 key range; the proof does not need
    the upper bound, the key is cycled) `Rc4::new` does not panic and ends in the state the Spec's KSA
    gives; from every state with an intact table one `pseudo_random_generation` is one Spec PRGA step
    with the same output byte (`u8` wrap-around = `mod 256`); hence for every `n` — beyond 256 and
    65 536 too — the model's next `n` keystream bytes (what `apply_keystream` returns on zeros) are the
    Spec's, and the states stay related. -/
theorem C09_rc4_refines :
    (∀ key : Bytes, 1 ≤ key.length →
      ∃ r, Rc4.new key = .ok r ∧ r.Inv ∧ r.abs = Spec.Rc4.init (key.map UInt8.toNat)) ∧
    (∀ r : Rc4, r.Inv →
      ∃ r' v, r.prga = .ok (r', v) ∧ r'.Inv ∧ r.abs.prga = (r'.abs, v.toNat)) ∧
    (∀ (r : Rc4) (n : Nat), r.Inv →
      ∃ r' ks, r.apply (List.replicate n 0) = .ok (r', ks) ∧
        ks.map UInt8.toNat = Spec.Rc4.keystream n r.abs ∧ r'.abs = Spec.Rc4.advance n r.abs) := by
  refine ⟨?_, ?_, ?_⟩
  · intro key hk
    exact Rc4.new_abs key (by intro h; subst h; simp at hk)
  · intro r hr
    obtain ⟨h1, h2⟩ := r.abs_next
    exact ⟨_, _, r.prga_pure hr, r.next_inv hr, by rw [h1, h2]⟩
  · intro r n hr
    obtain ⟨h1, h2⟩ := Rc4.abs_stream n r
    exact ⟨_, _, r.apply_zeros hr n, h1, h2⟩

/-- put together for a whole keyed stream: for every non-empty key and every data, `Rc4::new(key)`
    followed by `apply_keystream(data)` is `data xor` the Spec keystream of that key (as numbers) -/
theorem C09_rc4_refines_stream (key data : Bytes) (hk : 1 ≤ key.length) :
    ∃ r r' out, Rc4.new key = .ok r ∧ r.apply data = .ok (r', out) ∧ out.length = data.length ∧
      out.map UInt8.toNat = List.zipWith (· ^^^ ·) (data.map UInt8.toNat)
        (Spec.Rc4.keystream data.length (Spec.Rc4.init (key.map UInt8.toNat))) := by
  obtain ⟨r, hnew, hinv, habs⟩ := C09_rc4_refines.1 key hk
  have hap := r.apply_eq hinv data
  have hl : (xorBytes data (Rc4.stream data.length r)).length = data.length :=
    xorBytes_length _ _ (by rw [Rc4.stream_length])
  refine ⟨r, _, _, hnew, hap, hl, ?_⟩
  have hs := (Rc4.abs_stream data.length r).1
  rw [habs] at hs
  rw [← hs]
  simp [xorBytes, List.map_zipWith, List.zipWith_map, UInt8.toNat_xor]

/-- the Wrath halves in Spec terms: for every `Crypto` whose HMAC output is non-empty (`C.WF`: 20
    bytes) the state `InnerCrypto::new(K, key)` starts from is the Spec's RC4 keyed with
    HMAC(key, K) advanced by 1024 bytes (RC4-drop1024) -/
theorem C09_inner_refines (C : Crypto) (hC : C.WF) (K key : Bytes) :
    ∃ r, InnerCrypto.new C K key = .ok r ∧ r.Inv ∧
      r.abs = Spec.Rc4.advance 1024 (Spec.Rc4.init ((C.hmac key K).map UInt8.toNat)) ∧
      ∀ n, ∃ r' ks, r.apply (List.replicate n 0) = .ok (r', ks) ∧
        ks.map UInt8.toNat = Spec.rc4DropKeystream ((C.hmac key K).map UInt8.toNat) 1024 n := by
  obtain ⟨r0, h0, hinv0, _, _, hnew, hinv⟩ := InnerCrypto.new_pure C K key
  obtain ⟨r0', h0', _, habs⟩ := C09_rc4_refines.1 (C.hmac key K) (by rw [hC.hmac_len]; decide)
  rw [h0] at h0'
  injection h0' with e
  subst e
  have hadv : (Rc4.advance Gen.wrathDrop r0).abs =
      Spec.Rc4.advance 1024 (Spec.Rc4.init ((C.hmac key K).map UInt8.toNat)) := by
    rw [(Rc4.abs_stream _ r0).2, habs, C09_drop]
  refine ⟨_, hnew, hinv, hadv, ?_⟩
  intro n
  obtain ⟨r', ks, h1, h2, _⟩ := C09_rc4_refines.2.2 _ n hinv
  exact ⟨r', ks, h1, by rw [h2, hadv]; rfl⟩

/-! ### tests (labelled as such): RFC 6229 vectors, evaluated by the kernel on the *Spec*; by
    `C09_rc4_refines` they are facts about the model too. Key 0x0102030405, offsets 0 and 16, and the
    32-byte key 0x01..0x20, offsets 0 and 16 — the two vectors of the crate's own unit test.
    More vectors (56- and 128-bit keys, offsets 240/256) in `Props/C09Vectors.lean`. -/
example : Spec.Rc4.keystream 32 (Spec.Rc4.init [1, 2, 3, 4, 5]) =
    [0xb2, 0x39, 0x63, 0x05, 0xf0, 0x3d, 0xc0, 0x27, 0xcc, 0xc3, 0x52, 0x4a, 0x0a, 0x11, 0x18, 0xa8,
     0x69, 0x82, 0x94, 0x4f, 0x18, 0xfc, 0x82, 0xd5, 0x89, 0xc4, 0x03, 0xa4, 0x7a, 0x0d, 0x09, 0x19] := by
  decide +kernel
example : Spec.Rc4.keystream 32 (Spec.Rc4.init ((List.range 32).map (· + 1))) =
    [0xea, 0xa6, 0xbd, 0x25, 0x88, 0x0b, 0xf9, 0x3d, 0x3f, 0x5d, 0x1e, 0x4c, 0xa2, 0x61, 0x1d, 0x91,
     0xcf, 0xa4, 0x5c, 0x9f, 0x7e, 0x71, 0x4b, 0x54, 0xbd, 0xfa, 0x80, 0x02, 0x7c, 0xb1, 0x43, 0x80] := by
  decide +kernel

/-! non-vacuity: an intact state exists for every key (`C09_new_ok`), the constructors succeed for
    every `Crypto` and session key (`C09_roundtrip_c2s/s2c` produce the halves themselves rather than
    assuming them), and `Crypto.real` satisfies `C.WF`-style length facts on concrete inputs (C08). -/

end WowSrp

#print axioms WowSrp.C09_prga_bijective
#print axioms WowSrp.C09_shared_state_gives_key_collision
#print axioms WowSrp.C09_shared_state_gives_key_collision_halves
#print axioms WowSrp.C09_no_key_collision_gives_disjoint_states
