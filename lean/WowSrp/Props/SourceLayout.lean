/-
Translator leg for the hash layouts: `tools/gen_constants.py` extracts, from the Rust source on every
run, the sequence of arguments fed to each hash object of every hashing function
(`Gen.layout*`). The theorems below pin those sequences to the field order that the Model
(and the property statements) use; a reordered, dropped or added field in the Rust breaks the
corresponding proof obligation independently of the correspondence run.
-/
import WowSrp.Gen.Constants
namespace WowSrp

/-- C01/C03: the SRP modules keep no state between calls (no statics, thread-locals, interior mutability),
    and the modulus every modpow uses is converted from the prime the object holds — the Model's
    functions are pure, so a login's outcome cannot depend on what ran before on the same thread -/
theorem C01_source_no_hidden_state :
    Gen.srpModulesHaveNoSharedState = true ∧ Gen.primeToBigintIsPure = true ∧
    Gen.defaultPrimeIsLE = true ∧ Gen.defaultGeneratorIsG = true := by decide
/-- C02: proofs and keys are compared by the derived whole-array equality (the Model compares whole lists) -/
theorem C02_source_whole_array_equality : Gen.keyWrapperDerivesEq = true := by decide
/-- no constant was missing from the source when the model constants were regenerated -/
theorem source_constants_complete : Gen.missingConstants = [] := by decide

/-- C03: x = H(salt | H(U ":" P)) -/
theorem C03_source_layout_x : Gen.layoutCalculateX =
    [["username.as_ref()", "\":\"", "password.as_ref()"], ["salt.as_le_bytes()", "p"]] := by decide
/-- C03: u = H(A | B) -/
theorem C03_source_layout_u : Gen.layoutCalculateU =
    [["client_public_key.as_le_bytes()", "server_public_key.as_le_bytes()"]] := by decide
/-- C03: M2 = H(A | M1 | K) -/
theorem C03_source_layout_M2 : Gen.layoutServerProof =
    [["client_public_key.as_le_bytes()", "client_proof.as_le_bytes()", "session_key.as_le_bytes()"]] := by decide
/-- C03: xor hash = H(N) xor H(g) -/
theorem C03_source_layout_xor : Gen.layoutXorHash =
    [["large_safe_prime.as_le_bytes()"], ["[generator.as_u8()]"]] := by decide
/-- C02/C03: M1 = H(xor | H(U) | salt | A | B | K), server side (precomputed xor) and client side -/
theorem C02_source_layout_M1 :
    Gen.layoutClientProof = [["username.as_ref()"], ["PRECALCULATED_XOR_HASH", "username_hash", "salt.as_le_bytes()",
      "client_public_key.as_le_bytes()", "server_public_key.as_le_bytes()", "session_key.as_le_bytes()"]] ∧
    Gen.layoutClientProofCustom = [["username.as_ref()"], ["xor_hash.as_le_bytes()", "username_hash", "salt.as_le_bytes()",
      "client_public_key.as_le_bytes()", "server_public_key.as_le_bytes()", "session_key.as_le_bytes()"]] := by decide
/-- C05: reconnect proof = H(U | client data | server data | K) -/
theorem C05_source_layout : Gen.layoutReconnectProof =
    [["username.as_ref()", "client_data.as_le_bytes()", "server_data.as_le_bytes()", "session_key.as_le_bytes()"]] := by decide
/-- C06: world proof = H(U | 0u32 | client seed | server seed | K) -/
theorem C06_source_layout : Gen.layoutWorldProof =
    [["username.as_ref()", "0_u32.to_le_bytes()", "client_seed.to_le_bytes()", "server_seed.to_le_bytes()",
      "session_key.as_le_bytes()"]] := by decide
/-- C08: both TBC halves key themselves with HMAC(seed, session key) -/
theorem C08_source_layout : Gen.layoutTbcEncKey = [["key:s.as_slice()", "session_key"]] ∧
    Gen.layoutTbcDecKey = [["key:s.as_slice()", "session_key"]] := by decide
/-- C09: RC4 key = HMAC(direction constant, session key) -/
theorem C09_source_layout : Gen.layoutWrathInnerNew = [["key:key.as_slice()", "session_key"]] := by decide
/-- C16: hash = H(client salt | H(server salt | remapped digits)) -/
theorem C16_source_layout : Gen.layoutPinHash = [["server_salt", "bytes"], ["client_salt", "sha1"]] := by decide
/-- C17: HMAC(salt, files in argument order), then H(seed | checksum) -/
theorem C17_source_layout :
    Gen.layoutIntegrityGeneric = [["key:checksum_salt", "all_files"]] ∧
    Gen.layoutIntegrityMac = [["key:checksum_salt", "world_of_warcraft", "info_plist", "objects_xib", "wow_icns", "pkg_info"]] ∧
    Gen.layoutIntegrityChecksum = [["key:seed", "wow_exe", "fmod_dll", "ijl15_dll", "dbghelp_dll", "unicows_dll"]] ∧
    Gen.layoutIntegrityFinalise = [["seed", "checksum"]] := by decide
/-- C18: MD5(seed | session key) keys both RC4 and the HMAC; each entered value is MACed after encryption -/
theorem C18_source_layout :
    Gen.layoutMatrixCardNew = [["seed.to_le_bytes()", "session_key"], ["key:&md5"]] ∧
    Gen.layoutMatrixCardEnter = [["value"]] := by decide

end WowSrp
