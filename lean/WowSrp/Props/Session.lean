/-
Session refinement: `HObj.step` / `HObj.run` (Model/Session.lean, the typed form of the driver's
`hdrOp`) refine `Spec.specStep` / `Spec.specRun` (Spec/Session.lean) for every object form and every
op, under the well-formedness invariant `HObj.WF`. Core Lean + Std only.

Contents
* `HObj.abs`, `HObj.WF`, `WF_fresh*`                      abstraction, invariant, fresh objects
* `Session_step_refines`, `Session_run_refines`          the main theorems (all 6 forms x all 15 ops)
* `Session_step_needs_array_lengths`                     why the `op.WF` hypothesis is there (a counterexample)
* `Session_form_independent` (+ `_comb_eq_halves`, `_wcli_eq_halves`, `_wsrv_eq_halves`)   corollary (a)
* `Session_encrypt_side` (+ `_vt`, `Session_encrypt_concat_vt`)                            corollary (b)
* the `example`s after it                                 corollary (c), evaluated by `decide`
* `Session_form_independent_except_unsplit`, `Session_comb_eq_halves_except_unsplit`      corollary (a'): (a) without
                                                          side condition, on all answers except those to `unsplit`
* `Session_decrypt_side` (+ `_vt`, `Session_decrypt_side_indep`)                          corollary (b'): the mirror image
                                                          of (b) for the receiving side

How the proof goes: for every model function the session dispatches to there is an *equation* under the
invariant (`Half.encrypt_eq`, `Half.readServerHeader_eq`, `Rc4.apply_eq'`, `WClientDec.attempt_eq`, …:
"never panics, and the result is this term over the Spec functions"); the per-form lemmas
(`comb_step`, `halves_step`, `wcli_step`, `wcliH_step`, `wsrv_step`, `wsrvH_step`) rewrite with them op by op.

About the statement. The brief's `Session_step_refines (o) (op) (h : o.WF) : ∃ o' out, …` has no hypothesis
on `op`. That statement is FALSE for the model: `decrypt_server_header` / `decrypt_client_header` /
`attempt_decrypt_server_header` take `[u8; 4]` / `[u8; 6]` in Rust; the model (and `hdrOp`) take byte lists
and reach the parsers' `"header array length"` panic on any other length (`Session_step_needs_array_lengths`).
The hypothesis `op.WF` (`HOp.WF`, Model/Session.lean) says exactly "array arguments have their Rust length"
and nothing else; it is decidable, and true of everything the Rust type checker accepts.
-/
import WowSrp.Model.Session
import WowSrp.Spec.Session
import WowSrp.Lemmas.Rc4Spec
import WowSrp.Lemmas.WrathCodec
import WowSrp.Lemmas.HeaderIo
import WowSrp.Props.C09
namespace WowSrp
open Spec (Stream Ciphers SpecState specStep specRun)

/-! ## abstraction and invariant -/

/-- key length a half indexes: the 40-byte session key (Vanilla), the 20-byte HMAC (TBC) -/
def Exp.klen : Exp → Nat
  | .vanilla => 40
  | .tbc => 20

theorem Exp.encMod_klen (e : Exp) : e.encMod = e.klen := by cases e <;> decide
theorem Exp.decMod_klen (e : Exp) : e.decMod = e.klen := by cases e <;> decide
theorem Exp.klen_pos (e : Exp) : 0 < e.klen := by cases e <;> decide
theorem Exp.klen_le (e : Exp) : e.klen ≤ 255 := by cases e <;> decide

/-- a half *is* a stream position: key, position in the key, last ciphertext byte -/
def Half.abs (h : Half) : Stream := ⟨h.key, h.index, h.prev⟩
/-- and back -/
def Half.ofStream (s : Stream) : Half := ⟨s.key, s.n, s.prev⟩

@[simp] theorem Half.abs_ofStream (s : Stream) : (Half.ofStream s).abs = s := rfl
@[simp] theorem Half.ofStream_abs (h : Half) : Half.ofStream h.abs = h := rfl

/-- key of the expansion's length, position inside it -/
def Half.WF (e : Exp) (h : Half) : Prop := h.key.length = e.klen ∧ h.index < e.klen

theorem Half.WF.inv {e : Exp} {h : Half} (hw : h.WF e) : h.Inv e.klen :=
  ⟨e.klen_pos, e.klen_le, by rw [hw.1]; exact Nat.le_refl _, hw.2⟩

theorem Half.ofStream_after_WF (e : Exp) (h : Half) (hw : h.WF e) (c : Bytes) :
    (Half.ofStream (h.abs.after c)).WF e := by
  refine ⟨hw.1, ?_⟩
  show (h.index + c.length) % h.key.length < e.klen
  rw [hw.1]; exact Nat.mod_lt _ e.klen_pos

@[simp] theorem Half.ofStream_after_key (s : Stream) (c : Bytes) : (Half.ofStream (s.after c)).key = s.key := rfl

/-- the abstract session of an object -/
def HObj.abs : HObj → SpecState
  | .comb e hc => ⟨.vt e hc.encrypt.abs hc.decrypt.abs, false⟩
  | .halves e en de => ⟨.vt e en.abs de.abs, true⟩
  | .wcli c => ⟨.wcli c.encrypt.abs c.decrypt.rc4.abs c.decrypt.header, false⟩
  | .wcliH en de => ⟨.wcli en.abs de.rc4.abs de.header, true⟩
  | .wsrv c => ⟨.wsrv c.encrypt.rc4.abs c.decrypt.abs, false⟩
  | .wsrvH en de => ⟨.wsrv en.rc4.abs de.abs, true⟩

/-- well-formedness: key lengths 40 (Vanilla) / 20 (TBC), positions inside the key, both halves hold
    the same key; RC4 tables have their 256 entries (`Rc4.Inv`), the client's stash its 4 bytes -/
def HObj.WF : HObj → Prop
  | .comb e hc => hc.encrypt.WF e ∧ hc.decrypt.WF e ∧ hc.encrypt.key = hc.decrypt.key
  | .halves e en de => en.WF e ∧ de.WF e ∧ en.key = de.key
  | .wcli c => c.encrypt.Inv ∧ c.decrypt.rc4.Inv ∧ c.decrypt.header.length = 4
  | .wcliH en de => en.Inv ∧ de.rc4.Inv ∧ de.header.length = 4
  | .wsrv c => c.encrypt.rc4.Inv ∧ c.decrypt.Inv
  | .wsrvH en de => en.rc4.Inv ∧ de.Inv

/-! ## Vanilla / TBC: every model function under the invariant, as an equation -/

theorem Spec.recDec_length (key : Bytes) (n : Nat) (p : UInt8) (cs : Bytes) :
    (Spec.recDec key n p cs).length = cs.length := by
  induction cs generalizing n p with
  | nil => rfl
  | cons c cs ih => simp [Spec.recDec, ih]

theorem Half.encrypt_eq (e : Exp) (h : Half) (hw : h.WF e) (xs : Bytes) :
    h.encrypt e xs = .ok (Half.ofStream (h.abs.encrypt xs).1, (h.abs.encrypt xs).2) := by
  obtain ⟨h', hrun, _, hkey, hidx, hprev⟩ :=
    encrypt_spec e.klen h xs h.index hw.inv hw.1.symm (Nat.mod_eq_of_lt hw.2).symm
  unfold Half.encrypt
  rw [Exp.encMod_klen, hrun]
  obtain ⟨k, i, p⟩ := h'
  simp only at hkey hidx hprev
  simp only [Stream.encrypt, Stream.after, Half.abs, Half.ofStream, Spec.recEnc_length, hkey, hidx, hprev, hw.1]

theorem Half.decrypt_eq (e : Exp) (h : Half) (hw : h.WF e) (cs : Bytes) :
    h.decrypt e cs = .ok (Half.ofStream (h.abs.decrypt cs).1, (h.abs.decrypt cs).2) := by
  obtain ⟨h', hrun, _, hkey, hidx, hprev⟩ :=
    decrypt_spec e.klen h cs h.index hw.inv hw.1.symm (Nat.mod_eq_of_lt hw.2).symm
  unfold Half.decrypt
  rw [Exp.decMod_klen, hrun]
  obtain ⟨k, i, p⟩ := h'
  simp only at hkey hidx hprev
  simp only [Stream.decrypt, Stream.after, Half.abs, Half.ofStream, hkey, hidx, hprev, hw.1]

theorem Stream.encrypt_length (s : Stream) (xs : Bytes) : (s.encrypt xs).2.length = xs.length :=
  Spec.recEnc_length _ _ _ _
theorem Stream.decrypt_length (s : Stream) (cs : Bytes) : (s.decrypt cs).2.length = cs.length :=
  Spec.recDec_length _ _ _ _

/-- the model's array parsers are the Spec's `headerOf` on arrays of the right length -/
theorem parseServerHeader_eq (p : Bytes) (h : p.length = 4) : parseServerHeader p = .ok (Spec.headerOf p) := by
  match p, h with
  | [b0, b1, b2, b3], _ => simp [parseServerHeader, Spec.headerOf, ofBE, ofLE]

theorem parseClientHeader_eq (p : Bytes) (h : p.length = 6) : parseClientHeader p = .ok (Spec.headerOf p) := by
  match p, h with
  | [b0, b1, b2, b3, b4, b5], _ => simp [parseClientHeader, Spec.headerOf, ofBE, ofLE]

theorem Half.decryptServerHeader_eq (e : Exp) (h : Half) (hw : h.WF e) (wire : Bytes) (hl : wire.length = 4) :
    h.decryptServerHeader e wire =
      .ok (Half.ofStream (h.abs.decrypt wire).1, Spec.headerOf (h.abs.decrypt wire).2) := by
  simp only [Half.decryptServerHeader, Half.decrypt_eq e h hw, Out.bind_ok,
    parseServerHeader_eq _ ((Stream.decrypt_length _ _).trans hl), Out.pure_eq]

theorem Half.decryptClientHeader_eq (e : Exp) (h : Half) (hw : h.WF e) (wire : Bytes) (hl : wire.length = 6) :
    h.decryptClientHeader e wire =
      .ok (Half.ofStream (h.abs.decrypt wire).1, Spec.headerOf (h.abs.decrypt wire).2) := by
  simp only [Half.decryptClientHeader, Half.decrypt_eq e h hw, Out.bind_ok,
    parseClientHeader_eq _ ((Stream.decrypt_length _ _).trans hl), Out.pure_eq]

/-- result of a fixed-size read wrapper, as a function of what `read_exact` returned -/
def readRes (h : Half) : Except IoKind Bytes × List REv → IoRes Half (Nat × Nat) (List REv)
  | (.error k, rest) => ⟨h, .error k, rest⟩
  | (.ok wire, rest) => ⟨Half.ofStream (h.abs.decrypt wire).1, .ok (Spec.headerOf (h.abs.decrypt wire).2), rest⟩

theorem readExact_len (script : List REv) (n : Nat) (wire : Bytes) (rest : List REv)
    (h : readExact script n [] = (.ok wire, rest)) : wire.length = n := by
  have := readExact_length _ _ _ _ _ h
  simpa using this

theorem Half.readServerHeader_eq (e : Exp) (h : Half) (hw : h.WF e) (script : List REv) :
    h.readServerHeader e script = .ok (readRes h (readExact script 4 [])) := by
  unfold Half.readServerHeader
  have e4 : Gen.vanillaServerHeaderLength = 4 := rfl
  rw [e4]
  cases hre : readExact script 4 [] with
  | mk res rest =>
    cases res with
    | error k => rfl
    | ok wire =>
      simp only [Half.decryptServerHeader_eq e h hw wire (readExact_len _ _ _ _ hre), Out.bind_ok, Out.pure_eq, readRes]

theorem Half.readClientHeader_eq (e : Exp) (h : Half) (hw : h.WF e) (script : List REv) :
    h.readClientHeader e script = .ok (readRes h (readExact script 6 [])) := by
  unfold Half.readClientHeader
  have e6 : Gen.vanillaClientHeaderLength = 6 := rfl
  rw [e6]
  cases hre : readExact script 6 [] with
  | mk res rest =>
    cases res with
    | error k => rfl
    | ok wire =>
      simp only [Half.decryptClientHeader_eq e h hw wire (readExact_len _ _ _ _ hre), Out.bind_ok, Out.pure_eq, readRes]


theorem readRes_WF (e : Exp) (h : Half) (hw : h.WF e) (x : Except IoKind Bytes × List REv) :
    (readRes h x).state.WF e ∧ (readRes h x).state.key = h.key := by
  obtain ⟨res, rest⟩ := x
  cases res with
  | error k => exact ⟨hw, rfl⟩
  | ok wire => exact ⟨Half.ofStream_after_WF e h hw _, rfl⟩

theorem readRes_spec (e : Exp) (en h : Half) (n : Nat) (script : List REv) :
    (Ciphers.vt e en.abs h.abs).readHeader n script =
      (.vt e en.abs (readRes h (readExact script n [])).state.abs, rdOut h script (readRes h (readExact script n []))) := by
  unfold Ciphers.readHeader
  cases hre : readExact script n [] with
  | mk res rest =>
    cases res with
    | error k => simp [readRes, rdOut, Spec.consumed]
    | ok wire => rfl

theorem halves_step (e : Exp) (en de : Half) (op : HOp) (hop : op.WF) (h : (HObj.halves e en de).WF) :
    ∃ o' out, (HObj.halves e en de).step op = .ok (o', out) ∧ o'.WF ∧
      specStep (HObj.halves e en de).abs op = (o'.abs, out) := by
  obtain ⟨hen, hde, hk⟩ := h
  cases op with
  | enc d =>
    simp only [HObj.step, HObj.enc, Half.encrypt_eq e en hen, Out.bind_ok, Out.pure_eq]
    exact ⟨_, _, rfl, ⟨Half.ofStream_after_WF e en hen _, hde, hk⟩, rfl⟩
  | dec d =>
    simp only [HObj.step, HObj.dec, Half.decrypt_eq e de hde, Out.bind_ok, Out.pure_eq]
    exact ⟨_, _, rfl, ⟨hen, Half.ofStream_after_WF e de hde _, hk⟩, rfl⟩
  | encServer s o =>
    simp only [HObj.step, Half.encryptServerHeader, Half.encrypt_eq e en hen, Out.bind_ok, Out.pure_eq]
    exact ⟨_, _, rfl, ⟨Half.ofStream_after_WF e en hen _, hde, hk⟩, rfl⟩
  | encClient s o =>
    simp only [HObj.step, Half.encryptClientHeader, Half.encrypt_eq e en hen, Out.bind_ok, Out.pure_eq]
    exact ⟨_, _, rfl, ⟨Half.ofStream_after_WF e en hen _, hde, hk⟩, rfl⟩
  | decServer w =>
    simp only [HObj.step, Half.decryptServerHeader_eq e de hde w hop, Out.bind_ok, Out.pure_eq]
    exact ⟨_, _, rfl, ⟨hen, Half.ofStream_after_WF e de hde _, hk⟩, rfl⟩
  | decClient w =>
    simp only [HObj.step, Half.decryptClientHeader_eq e de hde w hop, Out.bind_ok, Out.pure_eq]
    exact ⟨_, _, rfl, ⟨hen, Half.ofStream_after_WF e de hde _, hk⟩, rfl⟩
  | readServer script =>
    simp only [HObj.step, Half.readServerHeader_eq e de hde, Out.bind_ok, Out.pure_eq]
    refine ⟨_, _, rfl, ⟨hen, (readRes_WF e de hde _).1, hk.trans (readRes_WF e de hde _).2.symm⟩, ?_⟩
    simp only [specStep, HObj.abs, Ciphers.step, Ciphers.plainOf, readRes_spec]
  | readClient script =>
    simp only [HObj.step, Half.readClientHeader_eq e de hde, Out.bind_ok, Out.pure_eq]
    refine ⟨_, _, rfl, ⟨hen, (readRes_WF e de hde _).1, hk.trans (readRes_WF e de hde _).2.symm⟩, ?_⟩
    simp only [specStep, HObj.abs, Ciphers.step, Ciphers.plainOf, readRes_spec]
  | writeServer s o script =>
    simp only [HObj.step, Half.writeServerHeader, Half.encryptServerHeader, Half.encrypt_eq e en hen, Out.bind_ok, Out.pure_eq]
    refine ⟨_, _, rfl, ⟨Half.ofStream_after_WF e en hen _, hde, hk⟩, ?_⟩
    simp only [specStep, HObj.abs, Ciphers.step, Ciphers.plainOf, Ciphers.encrypt, Spec.emit, wrOut]
    cases hw : writeAll script (en.abs.encrypt (serverHeaderBytes s o)).2 [] with
    | mk res sink => cases res <;> rfl
  | writeClient s o script =>
    simp only [HObj.step, Half.writeClientHeader, Half.encryptClientHeader, Half.encrypt_eq e en hen, Out.bind_ok, Out.pure_eq]
    refine ⟨_, _, rfl, ⟨Half.ofStream_after_WF e en hen _, hde, hk⟩, ?_⟩
    simp only [specStep, HObj.abs, Ciphers.step, Ciphers.plainOf, Ciphers.encrypt, Spec.emit, wrOut]
    cases hw : writeAll script (en.abs.encrypt (clientHeaderBytes s o)).2 [] with
    | mk res sink => cases res <;> rfl
  | attempt w => exact ⟨_, _, rfl, ⟨hen, hde, hk⟩, rfl⟩
  | large b => exact ⟨_, _, rfl, ⟨hen, hde, hk⟩, rfl⟩
  | split => exact ⟨_, _, rfl, ⟨hen, hde, hk⟩, rfl⟩
  | clone => exact ⟨_, _, rfl, ⟨hen, hde, hk⟩, rfl⟩
  | unsplit =>
    cases e with
    | tbc => exact ⟨_, _, rfl, ⟨hen, hde, hk⟩, rfl⟩
    | vanilla =>
      have : en.unsplit de = some ⟨de, en⟩ := by simp [Half.unsplit, Half.isPairOf, hk]
      simp only [HObj.step, this]
      exact ⟨_, _, rfl, ⟨hen, hde, hk⟩, rfl⟩
/-- the facade's read result carries the whole `HeaderCrypto`; "state unchanged" is about its decrypter
    (the whole object is unchanged ⇔ the half is) -/
theorem rdOut_comb (hc : HeaderCrypto) (script : List REv) (r : IoRes Half (Nat × Nat) (List REv)) :
    rdOut hc script ⟨{ hc with decrypt := r.state }, r.result, r.rest⟩ = rdOut hc.decrypt script r := by
  obtain ⟨d, e⟩ := hc
  unfold rdOut
  cases r.result with
  | ok v => rfl
  | error k => simp

theorem comb_step (e : Exp) (hc : HeaderCrypto) (op : HOp) (hop : op.WF) (h : (HObj.comb e hc).WF) :
    ∃ o' out, (HObj.comb e hc).step op = .ok (o', out) ∧ o'.WF ∧
      specStep (HObj.comb e hc).abs op = (o'.abs, out) := by
  obtain ⟨hen, hde, hk⟩ := h
  cases op with
  | enc d =>
    simp only [HObj.step, HObj.enc, HeaderCrypto.encryptData, Half.encrypt_eq e _ hen, Out.bind_ok, Out.pure_eq]
    exact ⟨_, _, rfl, ⟨Half.ofStream_after_WF e _ hen _, hde, hk⟩, rfl⟩
  | dec d =>
    simp only [HObj.step, HObj.dec, HeaderCrypto.decryptData, Half.decrypt_eq e _ hde, Out.bind_ok, Out.pure_eq]
    exact ⟨_, _, rfl, ⟨hen, Half.ofStream_after_WF e _ hde _, hk⟩, rfl⟩
  | encServer s o =>
    simp only [HObj.step, HeaderCrypto.encryptServerHeader, Half.encryptServerHeader, Half.encrypt_eq e _ hen, Out.bind_ok, Out.pure_eq]
    exact ⟨_, _, rfl, ⟨Half.ofStream_after_WF e _ hen _, hde, hk⟩, rfl⟩
  | encClient s o =>
    simp only [HObj.step, HeaderCrypto.encryptClientHeader, Half.encryptClientHeader, Half.encrypt_eq e _ hen, Out.bind_ok, Out.pure_eq]
    exact ⟨_, _, rfl, ⟨Half.ofStream_after_WF e _ hen _, hde, hk⟩, rfl⟩
  | decServer w =>
    simp only [HObj.step, HeaderCrypto.decryptServerHeader, Half.decryptServerHeader_eq e _ hde w hop, Out.bind_ok, Out.pure_eq]
    exact ⟨_, _, rfl, ⟨hen, Half.ofStream_after_WF e _ hde _, hk⟩, rfl⟩
  | decClient w =>
    cases e with
    | tbc =>
      simp only [HObj.step, HeaderCrypto.decryptClientHeader, Half.decryptClientHeader_eq _ _ hde w hop, Out.bind_ok, Out.pure_eq]
      exact ⟨_, _, rfl, ⟨hen, Half.ofStream_after_WF _ _ hde _, hk⟩, rfl⟩
    | vanilla =>
      simp only [HObj.step, HeaderCrypto.decryptClientHeader, HeaderCrypto.decryptData, Half.decrypt_eq _ _ hde, Out.bind_ok, Out.pure_eq,
        parseClientHeader_eq _ ((Stream.decrypt_length _ _).trans hop)]
      exact ⟨_, _, rfl, ⟨hen, Half.ofStream_after_WF _ _ hde _, hk⟩, rfl⟩
  | readServer script =>
    simp only [HObj.step, HeaderCrypto.readServerHeader, Half.readServerHeader_eq e _ hde, Out.bind_ok, Out.pure_eq,
      rdOut_comb]
    refine ⟨_, _, rfl, ⟨hen, (readRes_WF e _ hde _).1, hk.trans (readRes_WF e _ hde _).2.symm⟩, ?_⟩
    simp only [specStep, HObj.abs, Ciphers.step, Ciphers.plainOf, readRes_spec]
  | readClient script =>
    simp only [HObj.step, HeaderCrypto.readClientHeader, Half.readClientHeader_eq e _ hde, Out.bind_ok, Out.pure_eq,
      rdOut_comb]
    refine ⟨_, _, rfl, ⟨hen, (readRes_WF e _ hde _).1, hk.trans (readRes_WF e _ hde _).2.symm⟩, ?_⟩
    simp only [specStep, HObj.abs, Ciphers.step, Ciphers.plainOf, readRes_spec]
  | writeServer s o script =>
    simp only [HObj.step, HeaderCrypto.writeServerHeader, Half.writeServerHeader, Half.encryptServerHeader, Half.encrypt_eq e _ hen, Out.bind_ok, Out.pure_eq]
    refine ⟨_, _, rfl, ⟨Half.ofStream_after_WF e _ hen _, hde, hk⟩, ?_⟩
    simp only [specStep, HObj.abs, Ciphers.step, Ciphers.plainOf, Ciphers.encrypt, Spec.emit, wrOut]
    cases hw : writeAll script (hc.encrypt.abs.encrypt (serverHeaderBytes s o)).2 [] with
    | mk res sink => cases res <;> rfl
  | writeClient s o script =>
    simp only [HObj.step, HeaderCrypto.writeClientHeader, Half.writeClientHeader, Half.encryptClientHeader, Half.encrypt_eq e _ hen, Out.bind_ok, Out.pure_eq]
    refine ⟨_, _, rfl, ⟨Half.ofStream_after_WF e _ hen _, hde, hk⟩, ?_⟩
    simp only [specStep, HObj.abs, Ciphers.step, Ciphers.plainOf, Ciphers.encrypt, Spec.emit, wrOut]
    cases hw : writeAll script (hc.encrypt.abs.encrypt (clientHeaderBytes s o)).2 [] with
    | mk res sink => cases res <;> rfl
  | attempt w => exact ⟨_, _, rfl, ⟨hen, hde, hk⟩, rfl⟩
  | large b => exact ⟨_, _, rfl, ⟨hen, hde, hk⟩, rfl⟩
  | split => exact ⟨_, _, rfl, ⟨hen, hde, hk⟩, rfl⟩
  | clone => exact ⟨_, _, rfl, ⟨hen, hde, hk⟩, rfl⟩
  | unsplit => exact ⟨_, _, rfl, ⟨hen, hde, hk⟩, by cases e <;> rfl⟩

/-! ## Wrath: every model function under the invariant, as an equation -/

theorem Spec.Rc4.keystream_length (n : Nat) (st : Spec.Rc4) : (Spec.Rc4.keystream n st).length = n := by
  induction n generalizing st with
  | zero => rfl
  | succ n ih => simp [Spec.Rc4.keystream, ih]

theorem Spec.Rc4.crypt_length (st : Spec.Rc4) (xs : Bytes) : (st.crypt xs).2.length = xs.length := by
  simp [Spec.Rc4.crypt, Spec.Rc4.keystream_length]

theorem Rc4.abs_advance (n : Nat) (r : Rc4) : (Rc4.advance n r).abs = Spec.Rc4.advance n r.abs :=
  (Rc4.abs_stream n r).2

/-- model xor-with-keystream = Spec xor-with-keystream -/
theorem Rc4.xor_stream_eq (r : Rc4) (xs : Bytes) :
    xorBytes xs (Rc4.stream xs.length r) = (r.abs.crypt xs).2 := by
  simp only [Spec.Rc4.crypt, ← (Rc4.abs_stream xs.length r).1, xorBytes, List.zipWith_map_right, UInt8.ofNat_toNat]

/-- `apply_keystream` under the invariant: the Spec's output, `length` PRGA steps on -/
theorem Rc4.apply_eq' (r : Rc4) (h : r.Inv) (xs : Bytes) :
    r.apply xs = .ok (Rc4.advance xs.length r, (r.abs.crypt xs).2) := by
  rw [Rc4.apply_eq r h, Rc4.xor_stream_eq]

theorem Rc4.abs_crypt_fst (r : Rc4) (xs : Bytes) : (r.abs.crypt xs).1 = (Rc4.advance xs.length r).abs := by
  rw [Rc4.abs_advance]; rfl

theorem parseSmall_eq (p : Bytes) (h : p.length = 4) : parseSmall p = .ok (Spec.headerOf p) := by
  match p, h with
  | [b0, b1, b2, b3], _ => simp [parseSmall, Spec.headerOf, ofBE, ofLE]

theorem parseLarge_eq (p : Bytes) (h : p.length = 5) : parseLarge p = .ok (Spec.largeHeaderOf p) := by
  match p, h with
  | [b0, b1, b2, b3, b4], _ =>
    simp [parseLarge, Spec.largeHeaderOf, ofBE, ofLE, List.modifyHead]
    omega

theorem WServerEnc.encryptServerHeader_eq (h : WServerEnc) (hi : h.rc4.Inv) (size op : Nat) :
    h.encryptServerHeader size op =
      .ok (⟨Rc4.advance (wrathServerHeaderBytes size op).length h.rc4,
            (h.rc4.abs.crypt (wrathServerHeaderBytes size op)).2 ++
              h.serverHeader.drop (h.rc4.abs.crypt (wrathServerHeaderBytes size op)).2.length⟩,
           (h.rc4.abs.crypt (wrathServerHeaderBytes size op)).2) := by
  simp only [WServerEnc.encryptServerHeader, Rc4.apply_eq' _ hi, Out.bind_ok, Out.pure_eq]

theorem wServerDecryptHeader_eq (r : Rc4) (hi : r.Inv) (wire : Bytes) (hl : wire.length = 6) :
    wServerDecryptHeader r wire = .ok (Rc4.advance wire.length r, Spec.headerOf (r.abs.crypt wire).2) := by
  simp only [wServerDecryptHeader, Rc4.apply_eq' _ hi, Out.bind_ok, Out.pure_eq,
    parseClientHeader_eq _ ((Spec.Rc4.crypt_length _ _).trans hl)]

/-- result of the Wrath server's read wrapper, as a function of what `read_exact` returned -/
def rReadRes (r : Rc4) : Except IoKind Bytes × List REv → IoRes Rc4 (Nat × Nat) (List REv)
  | (.error k, rest) => ⟨r, .error k, rest⟩
  | (.ok wire, rest) => ⟨Rc4.advance wire.length r, .ok (Spec.headerOf (r.abs.crypt wire).2), rest⟩

theorem wServerReadHeader_eq (r : Rc4) (hi : r.Inv) (script : List REv) :
    wServerReadHeader r script = .ok (rReadRes r (readExact script 6 [])) := by
  unfold wServerReadHeader
  have e6 : Gen.wrathClientHeaderLength = 6 := rfl
  rw [e6]
  cases hre : readExact script 6 [] with
  | mk res rest =>
    cases res with
    | error k => rfl
    | ok wire =>
      simp only [wServerDecryptHeader_eq r hi wire (readExact_len _ _ _ _ hre), Out.bind_ok, Out.pure_eq, rReadRes]

theorem rReadRes_inv (r : Rc4) (hi : r.Inv) (x : Except IoKind Bytes × List REv) : (rReadRes r x).state.Inv := by
  obtain ⟨res, rest⟩ := x
  cases res with
  | error k => exact hi
  | ok wire => exact Rc4.advance_inv _ _ hi

theorem rReadRes_spec (en : Spec.Rc4) (r : Rc4) (script : List REv) :
    (Ciphers.wsrv en r.abs).readHeader 6 script =
      (.wsrv en (rReadRes r (readExact script 6 [])).state.abs, rdOut r script (rReadRes r (readExact script 6 []))) := by
  unfold Ciphers.readHeader
  cases hre : readExact script 6 [] with
  | mk res rest =>
    cases res with
    | error k => simp [rReadRes, rdOut, Spec.consumed]
    | ok wire => simp only [rReadRes, rdOut, Spec.consumed, Ciphers.decrypt, Rc4.abs_crypt_fst]

/-! the client decrypter -/

theorem WClientDec.attempt_eq (h : WClientDec) (hi : h.rc4.Inv) (wire : Bytes) (hl : wire.length = 4) :
    h.attempt wire =
      .ok (if Spec.isLarge (h.rc4.abs.crypt wire).2
           then (⟨Rc4.advance wire.length h.rc4, (h.rc4.abs.crypt wire).2⟩, .additionalByteRequired)
           else (⟨Rc4.advance wire.length h.rc4, h.header⟩,
                 .header (Spec.headerOf (h.rc4.abs.crypt wire).2).1 (Spec.headerOf (h.rc4.abs.crypt wire).2).2)) := by
  simp only [WClientDec.attempt, Rc4.apply_eq' _ hi, Out.bind_ok]
  have hp := (Spec.Rc4.crypt_length h.rc4.abs wire).trans hl
  generalize (h.rc4.abs.crypt wire).2 = p at hp
  match p, hp with
  | [b0, b1, b2, b3], _ =>
    simp only [Spec.isLarge, List.headD_cons]
    by_cases hlg : largeHeader b0 = true
    · simp only [hlg, if_true, Out.pure_eq]
    · simp only [hlg, Bool.false_eq_true, if_false, parseSmall_eq [b0, b1, b2, b3] rfl, Out.bind_ok, Out.pure_eq]

theorem WClientDec.decryptLarge_eq (h : WClientDec) (hi : h.rc4.Inv) (hh : h.header.length = 4) (b : UInt8) :
    h.decryptLarge b =
      .ok (⟨Rc4.advance 1 h.rc4, h.header⟩, Spec.largeHeaderOf (h.header ++ (h.rc4.abs.crypt [b]).2)) := by
  have hl : (h.header ++ (h.rc4.abs.crypt [b]).2).length = 5 := by
    rw [List.length_append, hh, Spec.Rc4.crypt_length]; rfl
  simp only [WClientDec.decryptLarge, Rc4.apply_eq' _ hi, Out.bind_ok, parseLarge_eq _ hl, Out.pure_eq,
    List.length_cons, List.length_nil]

/-- result of the Wrath client's read wrapper -/
def wReadRes (h : WClientDec) (script : List REv) : IoRes WClientDec (Nat × Nat) (List REv) :=
  match readExact script 4 [] with
  | (.error k, rest) => ⟨h, .error k, rest⟩
  | (.ok wire, rest) =>
    let p := (h.rc4.abs.crypt wire).2
    let r4 := Rc4.advance wire.length h.rc4
    if !Spec.isLarge p then ⟨⟨r4, h.header⟩, .ok (Spec.headerOf p), rest⟩ else
    match readExact rest 1 [] with
    | (.error k, rest') => ⟨⟨r4, p⟩, .error k, rest'⟩
    | (.ok fifth, rest') =>
      ⟨⟨Rc4.advance fifth.length r4, p⟩, .ok (Spec.largeHeaderOf (p ++ (r4.abs.crypt fifth).2)), rest'⟩

theorem list_length_one (l : Bytes) (h : l.length = 1) : [l.headD 0] = l := by
  match l, h with
  | [a], _ => rfl

theorem WClientDec.readServerHeader_eq (h : WClientDec) (hi : h.rc4.Inv) (script : List REv) :
    h.readServerHeader script = .ok (wReadRes h script) := by
  unfold WClientDec.readServerHeader wReadRes
  cases hre : readExact script 4 [] with
  | mk res rest =>
    cases res with
    | error k => rfl
    | ok wire =>
      have hl := readExact_len _ _ _ _ hre
      simp only [WClientDec.attempt_eq h hi wire hl, Out.bind_ok]
      by_cases hlg : Spec.isLarge (h.rc4.abs.crypt wire).2 = true
      · simp only [hlg, if_true, Bool.not_true, Bool.false_eq_true, if_false]
        cases hre2 : readExact rest 1 [] with
        | mk res2 rest2 =>
          cases res2 with
          | error k => rfl
          | ok fifth =>
            have hl2 := readExact_len _ _ _ _ hre2
            have hh : (h.rc4.abs.crypt wire).2.length = 4 := (Spec.Rc4.crypt_length _ _).trans hl
            simp only [WClientDec.decryptLarge_eq ⟨Rc4.advance wire.length h.rc4, (h.rc4.abs.crypt wire).2⟩ (Rc4.advance_inv _ _ hi) hh, Out.bind_ok, Out.pure_eq,
              list_length_one fifth hl2, hl2]
      · simp only [hlg, Bool.false_eq_true, if_false, Bool.not_false, if_true, Out.pure_eq]
theorem wReadRes_WF (h : WClientDec) (hi : h.rc4.Inv) (hh : h.header.length = 4) (script : List REv) :
    (wReadRes h script).state.rc4.Inv ∧ (wReadRes h script).state.header.length = 4 := by
  unfold wReadRes
  cases hre : readExact script 4 [] with
  | mk res rest =>
    cases res with
    | error k => exact ⟨hi, hh⟩
    | ok wire =>
      have hl := readExact_len _ _ _ _ hre
      have hp : (h.rc4.abs.crypt wire).2.length = 4 := (Spec.Rc4.crypt_length _ _).trans hl
      simp only
      split
      · exact ⟨Rc4.advance_inv _ _ hi, hh⟩
      · cases hre2 : readExact rest 1 [] with
        | mk res2 rest2 =>
          cases res2 with
          | error k => exact ⟨Rc4.advance_inv _ _ hi, hp⟩
          | ok fifth => exact ⟨Rc4.advance_inv _ _ (Rc4.advance_inv _ _ hi), hp⟩

/-- four PRGA steps move `i`: the state after a failed fifth-byte read is not the state before -/
theorem Rc4.advance_four_ne (r : Rc4) : Rc4.advance 4 r ≠ r := by
  intro h
  have hi : (Rc4.advance 4 r).i = r.i + 1 + 1 + 1 + 1 := rfl
  rw [h] at hi
  have := congrArg UInt8.toNat hi
  simp only [UInt8.toNat_add] at this
  have hlt := r.i.toNat_lt
  simp at this
  omega

theorem wReadRes_spec (en : Spec.Rc4) (h : WClientDec) (script : List REv) :
    Spec.wrathReadServer en h.rc4.abs h.header script =
      (.wcli en (wReadRes h script).state.rc4.abs (wReadRes h script).state.header,
       rdOut h script (wReadRes h script)) := by
  unfold Spec.wrathReadServer wReadRes
  cases hre : readExact script 4 [] with
  | mk res rest =>
    cases res with
    | error k => simp [rdOut, Spec.consumed]
    | ok wire =>
      have hl := readExact_len _ _ _ _ hre
      simp only
      split
      · simp only [rdOut, Spec.consumed, Rc4.abs_crypt_fst]
      · cases hre2 : readExact rest 1 [] with
        | mk res2 rest2 =>
          cases res2 with
          | error k =>
            have hne : (⟨Rc4.advance wire.length h.rc4, (h.rc4.abs.crypt wire).2⟩ : WClientDec) ≠ h := by
              intro heq
              have := congrArg WClientDec.rc4 heq
              simp only [hl] at this
              exact Rc4.advance_four_ne _ this
            simp only [rdOut, Spec.consumed, Rc4.abs_crypt_fst, hne, decide_false]
          | ok fifth => simp only [rdOut, Spec.consumed, Rc4.abs_crypt_fst]

/-- the facade's read result carries the whole `ClientCrypto`; "state unchanged" is about its decrypter -/
theorem rdOut_wcli (c : WClientCrypto) (script : List REv) (r : IoRes WClientDec (Nat × Nat) (List REv)) :
    rdOut c script ⟨{ c with decrypt := r.state }, r.result, r.rest⟩ = rdOut c.decrypt script r := by
  obtain ⟨d, e⟩ := c
  unfold rdOut
  cases r.result with
  | ok v => rfl
  | error k => simp

theorem rdOut_wsrv (c : WServerCrypto) (script : List REv) (r : IoRes Rc4 (Nat × Nat) (List REv)) :
    rdOut c script ⟨{ c with decrypt := r.state }, r.result, r.rest⟩ = rdOut c.decrypt script r := by
  obtain ⟨d, e⟩ := c
  unfold rdOut
  cases r.result with
  | ok v => rfl
  | error k => simp
theorem wcliH_step (en : Rc4) (de : WClientDec) (op : HOp) (hop : op.WF) (h : (HObj.wcliH en de).WF) :
    ∃ o' out, (HObj.wcliH en de).step op = .ok (o', out) ∧ o'.WF ∧
      specStep (HObj.wcliH en de).abs op = (o'.abs, out) := by
  obtain ⟨hen, hde, hh⟩ := h
  cases op with
  | enc d =>
    simp only [HObj.step, HObj.enc, Rc4.apply_eq' _ hen, Out.bind_ok, Out.pure_eq]
    refine ⟨_, _, rfl, ⟨Rc4.advance_inv _ _ hen, hde, hh⟩, ?_⟩
    simp only [specStep, HObj.abs, Ciphers.step, Ciphers.plainOf, Ciphers.encrypt, Spec.emit, Rc4.abs_crypt_fst]
  | dec d =>
    simp only [HObj.step, HObj.dec, WClientDec.decrypt, Rc4.apply_eq' _ hde, Out.bind_ok, Out.pure_eq]
    refine ⟨_, _, rfl, ⟨hen, Rc4.advance_inv _ _ hde, hh⟩, ?_⟩
    simp only [specStep, HObj.abs, Ciphers.step, Ciphers.plainOf, Ciphers.decrypt, Rc4.abs_crypt_fst]
  | encServer s o => exact ⟨_, _, rfl, ⟨hen, hde, hh⟩, rfl⟩
  | encClient s o =>
    simp only [HObj.step, wClientEncryptHeader, Rc4.apply_eq' _ hen, Out.bind_ok, Out.pure_eq]
    refine ⟨_, _, rfl, ⟨Rc4.advance_inv _ _ hen, hde, hh⟩, ?_⟩
    simp only [specStep, HObj.abs, Ciphers.step, Ciphers.plainOf, Ciphers.encrypt, Spec.emit, Rc4.abs_crypt_fst]
  | decServer w => exact ⟨_, _, rfl, ⟨hen, hde, hh⟩, rfl⟩
  | decClient w => exact ⟨_, _, rfl, ⟨hen, hde, hh⟩, rfl⟩
  | readServer script =>
    simp only [HObj.step, WClientDec.readServerHeader_eq de hde, Out.bind_ok, Out.pure_eq]
    refine ⟨_, _, rfl, ⟨hen, (wReadRes_WF de hde hh script).1, (wReadRes_WF de hde hh script).2⟩, ?_⟩
    simp only [specStep, HObj.abs, Ciphers.step, Ciphers.plainOf, wReadRes_spec]
  | readClient script => exact ⟨_, _, rfl, ⟨hen, hde, hh⟩, rfl⟩
  | writeServer s o script => exact ⟨_, _, rfl, ⟨hen, hde, hh⟩, rfl⟩
  | writeClient s o script =>
    simp only [HObj.step, wClientWriteHeader, wClientEncryptHeader, Rc4.apply_eq' _ hen, Out.bind_ok, Out.pure_eq]
    refine ⟨_, _, rfl, ⟨Rc4.advance_inv _ _ hen, hde, hh⟩, ?_⟩
    simp only [specStep, HObj.abs, Ciphers.step, Ciphers.plainOf, Ciphers.encrypt, Spec.emit, wrOut, Rc4.abs_crypt_fst]
    cases hw : writeAll script (en.abs.crypt (clientHeaderBytes s o)).2 [] with
    | mk res sink => cases res <;> rfl
  | attempt w =>
    simp only [HObj.step, WClientDec.attempt_eq de hde w hop, Out.bind_ok, Out.pure_eq]
    by_cases hlg : Spec.isLarge (de.rc4.abs.crypt w).2 = true
    · simp only [hlg, if_true]
      refine ⟨_, _, rfl, ⟨hen, Rc4.advance_inv _ _ hde, (Spec.Rc4.crypt_length _ _).trans hop⟩, ?_⟩
      simp only [specStep, HObj.abs, Ciphers.step, Ciphers.plainOf, hlg, if_true, attemptOut, Rc4.abs_crypt_fst]
    · simp only [hlg, Bool.false_eq_true, if_false]
      refine ⟨_, _, rfl, ⟨hen, Rc4.advance_inv _ _ hde, hh⟩, ?_⟩
      simp only [specStep, HObj.abs, Ciphers.step, Ciphers.plainOf, hlg, Bool.false_eq_true, if_false, attemptOut,
        Rc4.abs_crypt_fst]
  | large b =>
    simp only [HObj.step, WClientDec.decryptLarge_eq de hde hh, Out.bind_ok, Out.pure_eq]
    refine ⟨_, _, rfl, ⟨hen, Rc4.advance_inv _ _ hde, hh⟩, ?_⟩
    simp only [specStep, HObj.abs, Ciphers.step, Ciphers.plainOf, Rc4.abs_crypt_fst, List.length_cons, List.length_nil]
  | split => exact ⟨_, _, rfl, ⟨hen, hde, hh⟩, rfl⟩
  | clone => exact ⟨_, _, rfl, ⟨hen, hde, hh⟩, rfl⟩
  | unsplit => exact ⟨_, _, rfl, ⟨hen, hde, hh⟩, rfl⟩
theorem wcli_step (c : WClientCrypto) (op : HOp) (hop : op.WF) (h : (HObj.wcli c).WF) :
    ∃ o' out, (HObj.wcli c).step op = .ok (o', out) ∧ o'.WF ∧
      specStep (HObj.wcli c).abs op = (o'.abs, out) := by
  obtain ⟨hen, hde, hh⟩ := h
  cases op with
  | enc d =>
    simp only [HObj.step, HObj.enc, WClientCrypto.encryptData, Rc4.apply_eq' _ hen, Out.bind_ok, Out.pure_eq]
    refine ⟨_, _, rfl, ⟨Rc4.advance_inv _ _ hen, hde, hh⟩, ?_⟩
    simp only [specStep, HObj.abs, Ciphers.step, Ciphers.plainOf, Ciphers.encrypt, Spec.emit, Rc4.abs_crypt_fst]
  | dec d =>
    simp only [HObj.step, HObj.dec, WClientCrypto.decryptData, WClientDec.decrypt, Rc4.apply_eq' _ hde, Out.bind_ok, Out.pure_eq]
    refine ⟨_, _, rfl, ⟨hen, Rc4.advance_inv _ _ hde, hh⟩, ?_⟩
    simp only [specStep, HObj.abs, Ciphers.step, Ciphers.plainOf, Ciphers.decrypt, Rc4.abs_crypt_fst]
  | encServer s o => exact ⟨_, _, rfl, ⟨hen, hde, hh⟩, rfl⟩
  | encClient s o =>
    simp only [HObj.step, WClientCrypto.encryptClientHeader, wClientEncryptHeader, Rc4.apply_eq' _ hen, Out.bind_ok, Out.pure_eq]
    refine ⟨_, _, rfl, ⟨Rc4.advance_inv _ _ hen, hde, hh⟩, ?_⟩
    simp only [specStep, HObj.abs, Ciphers.step, Ciphers.plainOf, Ciphers.encrypt, Spec.emit, Rc4.abs_crypt_fst]
  | decServer w => exact ⟨_, _, rfl, ⟨hen, hde, hh⟩, rfl⟩
  | decClient w => exact ⟨_, _, rfl, ⟨hen, hde, hh⟩, rfl⟩
  | readServer script =>
    simp only [HObj.step, WClientCrypto.readServerHeader, WClientDec.readServerHeader_eq _ hde, Out.bind_ok, Out.pure_eq,
      rdOut_wcli]
    refine ⟨_, _, rfl, ⟨hen, (wReadRes_WF _ hde hh script).1, (wReadRes_WF _ hde hh script).2⟩, ?_⟩
    simp only [specStep, HObj.abs, Ciphers.step, Ciphers.plainOf, wReadRes_spec]
  | readClient script => exact ⟨_, _, rfl, ⟨hen, hde, hh⟩, rfl⟩
  | writeServer s o script => exact ⟨_, _, rfl, ⟨hen, hde, hh⟩, rfl⟩
  | writeClient s o script =>
    simp only [HObj.step, WClientCrypto.writeClientHeader, wClientWriteHeader, wClientEncryptHeader, Rc4.apply_eq' _ hen,
      Out.bind_ok, Out.pure_eq]
    refine ⟨_, _, rfl, ⟨Rc4.advance_inv _ _ hen, hde, hh⟩, ?_⟩
    simp only [specStep, HObj.abs, Ciphers.step, Ciphers.plainOf, Ciphers.encrypt, Spec.emit, wrOut, Rc4.abs_crypt_fst]
    cases hw : writeAll script (c.encrypt.abs.crypt (clientHeaderBytes s o)).2 [] with
    | mk res sink => cases res <;> rfl
  | attempt w =>
    simp only [HObj.step, WClientCrypto.attempt, WClientDec.attempt_eq _ hde w hop, Out.bind_ok, Out.pure_eq]
    by_cases hlg : Spec.isLarge (c.decrypt.rc4.abs.crypt w).2 = true
    · simp only [hlg, if_true]
      refine ⟨_, _, rfl, ⟨hen, Rc4.advance_inv _ _ hde, (Spec.Rc4.crypt_length _ _).trans hop⟩, ?_⟩
      simp only [specStep, HObj.abs, Ciphers.step, Ciphers.plainOf, hlg, if_true, attemptOut, Rc4.abs_crypt_fst]
    · simp only [hlg, Bool.false_eq_true, if_false]
      refine ⟨_, _, rfl, ⟨hen, Rc4.advance_inv _ _ hde, hh⟩, ?_⟩
      simp only [specStep, HObj.abs, Ciphers.step, Ciphers.plainOf, hlg, Bool.false_eq_true, if_false, attemptOut,
        Rc4.abs_crypt_fst]
  | large b =>
    simp only [HObj.step, WClientCrypto.decryptLarge, WClientDec.decryptLarge_eq _ hde hh, Out.bind_ok, Out.pure_eq]
    refine ⟨_, _, rfl, ⟨hen, Rc4.advance_inv _ _ hde, hh⟩, ?_⟩
    simp only [specStep, HObj.abs, Ciphers.step, Ciphers.plainOf, Rc4.abs_crypt_fst, List.length_cons, List.length_nil]
  | split => exact ⟨_, _, rfl, ⟨hen, hde, hh⟩, rfl⟩
  | clone => exact ⟨_, _, rfl, ⟨hen, hde, hh⟩, rfl⟩
  | unsplit => exact ⟨_, _, rfl, ⟨hen, hde, hh⟩, rfl⟩

theorem wsrvH_step (en : WServerEnc) (de : Rc4) (op : HOp) (hop : op.WF) (h : (HObj.wsrvH en de).WF) :
    ∃ o' out, (HObj.wsrvH en de).step op = .ok (o', out) ∧ o'.WF ∧
      specStep (HObj.wsrvH en de).abs op = (o'.abs, out) := by
  obtain ⟨hen, hde⟩ := h
  cases op with
  | enc d =>
    simp only [HObj.step, HObj.enc, WServerEnc.encrypt, Rc4.apply_eq' _ hen, Out.bind_ok, Out.pure_eq]
    refine ⟨_, _, rfl, ⟨Rc4.advance_inv _ _ hen, hde⟩, ?_⟩
    simp only [specStep, HObj.abs, Ciphers.step, Ciphers.plainOf, Ciphers.encrypt, Spec.emit, Rc4.abs_crypt_fst]
  | dec d =>
    simp only [HObj.step, HObj.dec, Rc4.apply_eq' _ hde, Out.bind_ok, Out.pure_eq]
    refine ⟨_, _, rfl, ⟨hen, Rc4.advance_inv _ _ hde⟩, ?_⟩
    simp only [specStep, HObj.abs, Ciphers.step, Ciphers.plainOf, Ciphers.decrypt, Rc4.abs_crypt_fst]
  | encServer s o =>
    simp only [HObj.step, WServerEnc.encryptServerHeader_eq _ hen, Out.bind_ok, Out.pure_eq]
    refine ⟨_, _, rfl, ⟨Rc4.advance_inv _ _ hen, hde⟩, ?_⟩
    simp only [specStep, HObj.abs, Ciphers.step, Ciphers.plainOf, Ciphers.encrypt, Spec.emit, Rc4.abs_crypt_fst]
  | encClient s o => exact ⟨_, _, rfl, ⟨hen, hde⟩, rfl⟩
  | decServer w => exact ⟨_, _, rfl, ⟨hen, hde⟩, rfl⟩
  | decClient w =>
    simp only [HObj.step, wServerDecryptHeader_eq _ hde w hop, Out.bind_ok, Out.pure_eq]
    refine ⟨_, _, rfl, ⟨hen, Rc4.advance_inv _ _ hde⟩, ?_⟩
    simp only [specStep, HObj.abs, Ciphers.step, Ciphers.plainOf, Ciphers.decHeader, Ciphers.decrypt, Rc4.abs_crypt_fst]
  | readServer script => exact ⟨_, _, rfl, ⟨hen, hde⟩, rfl⟩
  | readClient script =>
    simp only [HObj.step, wServerReadHeader_eq _ hde, Out.bind_ok, Out.pure_eq]
    refine ⟨_, _, rfl, ⟨hen, rReadRes_inv _ hde _⟩, ?_⟩
    simp only [specStep, HObj.abs, Ciphers.step, Ciphers.plainOf, rReadRes_spec]
  | writeServer s o script =>
    simp only [HObj.step, WServerEnc.writeServerHeader, WServerEnc.encryptServerHeader_eq _ hen, Out.bind_ok, Out.pure_eq]
    refine ⟨_, _, rfl, ⟨Rc4.advance_inv _ _ hen, hde⟩, ?_⟩
    simp only [specStep, HObj.abs, Ciphers.step, Ciphers.plainOf, Ciphers.encrypt, Spec.emit, wrOut, Rc4.abs_crypt_fst]
    cases hw : writeAll script (en.rc4.abs.crypt (wrathServerHeaderBytes s o)).2 [] with
    | mk res sink => cases res <;> rfl
  | writeClient s o script => exact ⟨_, _, rfl, ⟨hen, hde⟩, rfl⟩
  | attempt w => exact ⟨_, _, rfl, ⟨hen, hde⟩, rfl⟩
  | large b => exact ⟨_, _, rfl, ⟨hen, hde⟩, rfl⟩
  | split => exact ⟨_, _, rfl, ⟨hen, hde⟩, rfl⟩
  | clone => exact ⟨_, _, rfl, ⟨hen, hde⟩, rfl⟩
  | unsplit => exact ⟨_, _, rfl, ⟨hen, hde⟩, rfl⟩

theorem wsrv_step (c : WServerCrypto) (op : HOp) (hop : op.WF) (h : (HObj.wsrv c).WF) :
    ∃ o' out, (HObj.wsrv c).step op = .ok (o', out) ∧ o'.WF ∧
      specStep (HObj.wsrv c).abs op = (o'.abs, out) := by
  obtain ⟨hen, hde⟩ := h
  cases op with
  | enc d =>
    simp only [HObj.step, HObj.enc, WServerCrypto.encryptData, WServerEnc.encrypt, Rc4.apply_eq' _ hen, Out.bind_ok, Out.pure_eq]
    refine ⟨_, _, rfl, ⟨Rc4.advance_inv _ _ hen, hde⟩, ?_⟩
    simp only [specStep, HObj.abs, Ciphers.step, Ciphers.plainOf, Ciphers.encrypt, Spec.emit, Rc4.abs_crypt_fst]
  | dec d =>
    simp only [HObj.step, HObj.dec, WServerCrypto.decryptData, Rc4.apply_eq' _ hde, Out.bind_ok, Out.pure_eq]
    refine ⟨_, _, rfl, ⟨hen, Rc4.advance_inv _ _ hde⟩, ?_⟩
    simp only [specStep, HObj.abs, Ciphers.step, Ciphers.plainOf, Ciphers.decrypt, Rc4.abs_crypt_fst]
  | encServer s o =>
    simp only [HObj.step, WServerCrypto.encryptServerHeader, WServerEnc.encryptServerHeader_eq _ hen, Out.bind_ok, Out.pure_eq]
    refine ⟨_, _, rfl, ⟨Rc4.advance_inv _ _ hen, hde⟩, ?_⟩
    simp only [specStep, HObj.abs, Ciphers.step, Ciphers.plainOf, Ciphers.encrypt, Spec.emit, Rc4.abs_crypt_fst]
  | encClient s o => exact ⟨_, _, rfl, ⟨hen, hde⟩, rfl⟩
  | decServer w => exact ⟨_, _, rfl, ⟨hen, hde⟩, rfl⟩
  | decClient w =>
    simp only [HObj.step, WServerCrypto.decryptClientHeader, wServerDecryptHeader_eq _ hde w hop, Out.bind_ok, Out.pure_eq]
    refine ⟨_, _, rfl, ⟨hen, Rc4.advance_inv _ _ hde⟩, ?_⟩
    simp only [specStep, HObj.abs, Ciphers.step, Ciphers.plainOf, Ciphers.decHeader, Ciphers.decrypt, Rc4.abs_crypt_fst]
  | readServer script => exact ⟨_, _, rfl, ⟨hen, hde⟩, rfl⟩
  | readClient script =>
    simp only [HObj.step, WServerCrypto.readClientHeader, wServerReadHeader_eq _ hde, Out.bind_ok, Out.pure_eq, rdOut_wsrv]
    refine ⟨_, _, rfl, ⟨hen, rReadRes_inv _ hde _⟩, ?_⟩
    simp only [specStep, HObj.abs, Ciphers.step, Ciphers.plainOf, rReadRes_spec]
  | writeServer s o script =>
    simp only [HObj.step, WServerCrypto.writeServerHeader, WServerEnc.writeServerHeader,
      WServerEnc.encryptServerHeader_eq _ hen, Out.bind_ok, Out.pure_eq]
    refine ⟨_, _, rfl, ⟨Rc4.advance_inv _ _ hen, hde⟩, ?_⟩
    simp only [specStep, HObj.abs, Ciphers.step, Ciphers.plainOf, Ciphers.encrypt, Spec.emit, wrOut, Rc4.abs_crypt_fst]
    cases hw : writeAll script (c.encrypt.rc4.abs.crypt (wrathServerHeaderBytes s o)).2 [] with
    | mk res sink => cases res <;> rfl
  | writeClient s o script => exact ⟨_, _, rfl, ⟨hen, hde⟩, rfl⟩
  | attempt w => exact ⟨_, _, rfl, ⟨hen, hde⟩, rfl⟩
  | large b => exact ⟨_, _, rfl, ⟨hen, hde⟩, rfl⟩
  | split => exact ⟨_, _, rfl, ⟨hen, hde⟩, rfl⟩
  | clone => exact ⟨_, _, rfl, ⟨hen, hde⟩, rfl⟩
  | unsplit => exact ⟨_, _, rfl, ⟨hen, hde⟩, rfl⟩

/-! ## the main theorems -/

/-- **one op**: from a well-formed object, an op whose array arguments have their Rust lengths never
    panics, leaves a well-formed object, and answers / moves exactly as the Spec session does -/
theorem Session_step_refines (o : HObj) (op : HOp) (h : o.WF) (hop : op.WF) :
    ∃ o' out, o.step op = .ok (o', out) ∧ o'.WF ∧ specStep o.abs op = (o'.abs, out) := by
  cases o with
  | comb e hc => exact comb_step e hc op hop h
  | halves e en de => exact halves_step e en de op hop h
  | wcli c => exact wcli_step c op hop h
  | wsrv c => exact wsrv_step c op hop h
  | wcliH en de => exact wcliH_step en de op hop h
  | wsrvH en de => exact wsrvH_step en de op hop h

/-- **every op list** -/
theorem Session_run_refines (o : HObj) (ops : List HOp) (h : o.WF) (hops : ∀ op ∈ ops, op.WF) :
    ∃ o' outs, o.run ops = .ok (o', outs) ∧ o'.WF ∧ specRun o.abs ops = (o'.abs, outs) := by
  induction ops generalizing o with
  | nil => exact ⟨o, [], rfl, h, rfl⟩
  | cons op ops ih =>
    obtain ⟨o1, out, hs, hw1, hspec⟩ := Session_step_refines o op h (hops op (List.mem_cons_self ..))
    obtain ⟨o2, outs, hr, hw2, hspecs⟩ := ih o1 hw1 (fun x hx => hops x (List.mem_cons_of_mem _ hx))
    refine ⟨o2, out :: outs, ?_, hw2, ?_⟩
    · simp only [HObj.run, hs, hr, Out.bind_ok, Out.pure_eq]
    · simp only [specRun, hspec, hspecs]

/-- the hypothesis `op.WF` cannot be dropped: the brief's statement without it is false for the model,
    because `decrypt_server_header` takes a `[u8; 4]` and the model's array parser panics on any other
    length (the Rust type makes this unreachable; the string protocol of the driver does not) -/
theorem Session_step_needs_array_lengths :
    ∃ (o : HObj) (op : HOp) (p : String), o.WF ∧ o.step op = .panic p := by
  refine ⟨.halves .vanilla ⟨List.replicate 40 0, 0, 0⟩ ⟨List.replicate 40 0, 0, 0⟩, .decServer [], _, ?_, rfl⟩
  exact ⟨⟨rfl, by decide⟩, ⟨rfl, by decide⟩, rfl⟩

/-! ## fresh objects -/

theorem WF_fresh_vanilla (C : Crypto) (K : Bytes) (hK : K.length = 40) :
    (HObj.comb .vanilla (HeaderCrypto.new C .vanilla K)).WF ∧
    (HObj.comb .vanilla (HeaderCrypto.new C .vanilla K)).abs = ⟨.vt .vanilla ⟨K, 0, 0⟩ ⟨K, 0, 0⟩, false⟩ :=
  ⟨⟨⟨hK, (by decide : 0 < 40)⟩, ⟨hK, (by decide : 0 < 40)⟩, rfl⟩, rfl⟩

theorem WF_fresh_tbc (C : Crypto) (hC : C.WF) (K : Bytes) :
    (HObj.comb .tbc (HeaderCrypto.new C .tbc K)).WF ∧
    (HObj.comb .tbc (HeaderCrypto.new C .tbc K)).abs =
      ⟨.vt .tbc ⟨C.hmac Gen.tbcSeedEnc K, 0, 0⟩ ⟨C.hmac Gen.tbcSeedEnc K, 0, 0⟩, false⟩ :=
  ⟨⟨⟨hC.hmac_len _ _, (by decide : 0 < 20)⟩, ⟨hC.hmac_len _ _, (by decide : 0 < 20)⟩, rfl⟩, rfl⟩

/-- the Spec generator a Wrath half starts from: RC4 keyed with HMAC(direction constant, K), first 1024 bytes dropped -/
def wrathInit (C : Crypto) (key K : Bytes) : Spec.Rc4 :=
  Spec.Rc4.advance 1024 (Spec.Rc4.init ((C.hmac key K).map UInt8.toNat))

theorem WF_fresh_wcli (C : Crypto) (hC : C.WF) (K : Bytes) :
    ∃ c, WClientCrypto.new C K = .ok c ∧ (HObj.wcli c).WF ∧
      (HObj.wcli c).abs = ⟨.wcli (wrathInit C Gen.wrathS K) (wrathInit C Gen.wrathR K) [0, 0, 0, 0], false⟩ := by
  obtain ⟨h1, _, rR, hR, _, hcd⟩ := C09_halves C K
  obtain ⟨rS, hS, hSinv, hSabs, _⟩ := C09_inner_refines C hC K Gen.wrathS
  obtain ⟨rR', hR', hRinv, hRabs, _⟩ := C09_inner_refines C hC K Gen.wrathR
  rw [hR] at hR'; injection hR' with e; subst e
  refine ⟨⟨⟨rR, List.replicate 4 0⟩, rS⟩, ?_, ⟨hSinv, hRinv, rfl⟩, ?_⟩
  · simp only [WClientCrypto.new, hcd, h1, hS, Out.bind_ok, Out.pure_eq]
  · simp only [HObj.abs, hSabs, hRabs, wrathInit]; rfl

theorem WF_fresh_wsrv (C : Crypto) (hC : C.WF) (K : Bytes) :
    ∃ c, WServerCrypto.new C K = .ok c ∧ (HObj.wsrv c).WF ∧
      (HObj.wsrv c).abs = ⟨.wsrv (wrathInit C Gen.wrathR K) (wrathInit C Gen.wrathS K), false⟩ := by
  obtain ⟨_, h2, rR, hR, hse, _⟩ := C09_halves C K
  obtain ⟨rS, hS, hSinv, hSabs, _⟩ := C09_inner_refines C hC K Gen.wrathS
  obtain ⟨rR', hR', hRinv, hRabs, _⟩ := C09_inner_refines C hC K Gen.wrathR
  rw [hR] at hR'; injection hR' with e; subst e
  refine ⟨⟨rS, ⟨rR, List.replicate 5 0⟩⟩, ?_, ⟨hRinv, hSinv⟩, ?_⟩
  · simp only [WServerCrypto.new, hse, h2, hS, Out.bind_ok, Out.pure_eq]
  · simp only [HObj.abs, hSabs, hRabs, wrathInit]

/-- the Wrath constructors need nothing of the hash to be well formed (an empty HMAC output leaves the
    RC4 table the identity; the invariant only counts its entries) -/
theorem WF_fresh_wrath_any (C : Crypto) (K : Bytes) :
    (∃ c, WClientCrypto.new C K = .ok c ∧ (HObj.wcli c).WF) ∧
    (∃ c, WServerCrypto.new C K = .ok c ∧ (HObj.wsrv c).WF) := by
  obtain ⟨rS, hce, hsd, hSinv⟩ := wrath_pair_c2s C K
  obtain ⟨rR, hRinv, hse, hcd⟩ := wrath_pair_s2c C K
  constructor
  · refine ⟨⟨⟨rR, List.replicate Gen.wrathServerHeaderMinLength 0⟩, rS⟩, ?_, ⟨hSinv, hRinv, rfl⟩⟩
    simp only [WClientCrypto.new, hcd, hce, Out.bind_ok, Out.pure_eq]
  · refine ⟨⟨rS, ⟨rR, List.replicate Gen.wrathServerHeaderMaxLength 0⟩⟩, ?_, ⟨hRinv, hSinv⟩⟩
    simp only [WServerCrypto.new, hsd, hse, Out.bind_ok, Out.pure_eq]

/-- **fresh objects are well formed**, under the hypotheses the constructors' own lemmas need -/
theorem WF_fresh (C : Crypto) (K : Bytes) :
    (K.length = 40 → (HObj.comb .vanilla (HeaderCrypto.new C .vanilla K)).WF) ∧
    (C.WF → (HObj.comb .tbc (HeaderCrypto.new C .tbc K)).WF) ∧
    (∃ c, WClientCrypto.new C K = .ok c ∧ (HObj.wcli c).WF) ∧
    (∃ c, WServerCrypto.new C K = .ok c ∧ (HObj.wsrv c).WF) :=
  ⟨fun hK => (WF_fresh_vanilla C K hK).1, fun hC => (WF_fresh_tbc C hC K).1,
   (WF_fresh_wrath_any C K).1, (WF_fresh_wrath_any C K).2⟩

/-! ## the encrypt direction on its own -/

/-- the encrypt direction of a session: which kind of object, and its one cipher stream -/
inductive EncSt where
  | vt (e : Exp) (s : Stream)
  | wcli (r : Spec.Rc4)
  | wsrv (r : Spec.Rc4)
deriving DecidableEq, Repr

def Spec.Ciphers.encPart : Ciphers → EncSt
  | .vt e en _ => .vt e en
  | .wcli en _ _ => .wcli en
  | .wsrv en _ => .wsrv en

def EncSt.encrypt : EncSt → Bytes → EncSt × Bytes
  | .vt e s, xs => (.vt e (s.encrypt xs).1, (s.encrypt xs).2)
  | .wcli r, xs => (.wcli (r.crypt xs).1, (r.crypt xs).2)
  | .wsrv r, xs => (.wsrv (r.crypt xs).1, (r.crypt xs).2)

/-- `Ciphers.plainOf` looks at the kind of object only -/
def EncSt.plainOf : EncSt → HOp → Option Bytes
  | .vt e s, op => (Ciphers.vt e s s).plainOf op
  | .wcli r, op => (Ciphers.wcli r r []).plainOf op
  | .wsrv r, op => (Ciphers.wsrv r r).plainOf op

theorem Spec.Ciphers.plainOf_encPart (c : Ciphers) (op : HOp) : c.plainOf op = c.encPart.plainOf op := by
  cases c <;> cases op <;> rfl

theorem Spec.Ciphers.encrypt_encPart (c : Ciphers) (xs : Bytes) :
    (c.encrypt xs).1.encPart = (c.encPart.encrypt xs).1 ∧ (c.encrypt xs).2 = (c.encPart.encrypt xs).2 := by
  cases c <;> exact ⟨rfl, rfl⟩

theorem Spec.Ciphers.decrypt_encPart (c : Ciphers) (xs : Bytes) : (c.decrypt xs).1.encPart = c.encPart := by
  cases c <;> rfl

theorem Spec.Ciphers.decHeader_encPart (c : Ciphers) (xs : Bytes) : (c.decHeader xs).1.encPart = c.encPart :=
  c.decrypt_encPart xs

theorem Spec.Ciphers.readHeader_encPart (c : Ciphers) (n : Nat) (script : List REv) :
    (c.readHeader n script).1.encPart = c.encPart := by
  unfold Ciphers.readHeader
  cases readExact script n [] with
  | mk res rest =>
    cases res with
    | error k => rfl
    | ok wire => exact c.decrypt_encPart wire

theorem wrathReadServer_encPart (en de : Spec.Rc4) (stash : Bytes) (script : List REv) :
    (Spec.wrathReadServer en de stash script).1.encPart = .wcli en := by
  unfold Spec.wrathReadServer
  cases readExact script 4 [] with
  | mk res rest =>
    cases res with
    | error k => rfl
    | ok wire =>
      simp only
      split
      · rfl
      · cases readExact rest 1 [] with
        | mk res2 rest2 => cases res2 <;> rfl

/-- a decrypt-side op leaves the encrypt direction alone -/
theorem Spec.Ciphers.step_encPart (c c' : Ciphers) (op : HOp) (out : HOut) (hp : c.plainOf op = none)
    (h : c.step op = some (c', out)) : c'.encPart = c.encPart := by
  unfold Ciphers.step at h
  rw [hp] at h
  cases c with
  | vt e en de =>
    cases op <;> simp only [reduceCtorEq, Option.some.injEq] at h <;>
      (have h1 := congrArg Prod.fst h; simp only at h1; rw [← h1])
    · exact Ciphers.decrypt_encPart ..
    · exact Ciphers.decHeader_encPart ..
    · exact Ciphers.decHeader_encPart ..
    · exact Ciphers.readHeader_encPart ..
    · exact Ciphers.readHeader_encPart ..
  | wcli en de st =>
    cases op <;> simp only [reduceCtorEq, Option.some.injEq] at h <;>
      (have h1 := congrArg Prod.fst h; simp only at h1; rw [← h1])
    · exact Ciphers.decrypt_encPart ..
    · exact wrathReadServer_encPart ..
    · split <;> rfl
    · rfl
  | wsrv en de =>
    cases op <;> simp only [reduceCtorEq, Option.some.injEq] at h <;>
      (have h1 := congrArg Prod.fst h; simp only at h1; rw [← h1])
    · exact Ciphers.decrypt_encPart ..
    · exact Ciphers.decHeader_encPart ..
    · exact Ciphers.readHeader_encPart ..

/-- one op of a session, seen from the encrypt direction: an encrypt-side op encrypts its plaintext and
    shows the ciphertext through `emit`; any other op does not touch the direction -/
theorem specStep_encPart (s : SpecState) (op : HOp) :
    match s.ciphers.encPart.plainOf op with
    | some p => (specStep s op).1.ciphers.encPart = (s.ciphers.encPart.encrypt p).1 ∧
        (specStep s op).2 = Spec.emit op (s.ciphers.encPart.encrypt p).2
    | none => (specStep s op).1.ciphers.encPart = s.ciphers.encPart := by
  rw [← Ciphers.plainOf_encPart]
  have key : ∀ op : HOp, op ≠ .split → op ≠ .clone → op ≠ .unsplit →
      specStep s op = match s.ciphers.step op with
        | some (c', out) => ({ s with ciphers := c' }, out)
        | none => (s, .na) := by
    intro op h1 h2 h3
    cases op <;> first | rfl | contradiction
  by_cases h1 : op = .split
  · subst h1
    have : s.ciphers.plainOf .split = none := by cases s.ciphers <;> rfl
    rw [this]; rfl
  by_cases h2 : op = .clone
  · subst h2
    have : s.ciphers.plainOf .clone = none := by cases s.ciphers <;> rfl
    rw [this]; rfl
  by_cases h3 : op = .unsplit
  · subst h3
    have : s.ciphers.plainOf .unsplit = none := by cases s.ciphers <;> rfl
    rw [this]
    simp only [specStep]
    split <;> rfl
  rw [key op h1 h2 h3]
  cases hp : s.ciphers.plainOf op with
  | some p =>
    simp only [Ciphers.step, hp]
    exact ⟨(Ciphers.encrypt_encPart _ _).1, by rw [(Ciphers.encrypt_encPart _ _).2]⟩
  | none =>
    simp only
    cases hs : s.ciphers.step op with
    | none => rfl
    | some r => exact Ciphers.step_encPart _ _ _ _ hp hs

/-! ### chunking laws of the two Spec ciphers -/

/-- the recurrence looks at the position modulo the key length only -/
theorem Spec.recEnc_mod (key : Bytes) (n : Nat) (p : UInt8) (xs : Bytes) :
    Spec.recEnc key (n % key.length) p xs = Spec.recEnc key n p xs := by
  induction xs generalizing n p with
  | nil => rfl
  | cons x xs ih =>
    simp only [Spec.recEnc, Nat.mod_mod]
    rw [← ih (n % key.length + 1), ← ih (n + 1), Nat.mod_add_mod]

theorem Spec.recEnc_append (key : Bytes) (n : Nat) (p : UInt8) (a b : Bytes) :
    Spec.recEnc key n p (a ++ b) =
      Spec.recEnc key n p a ++ Spec.recEnc key (n + a.length) ((Spec.recEnc key n p a).getLastD p) b := by
  induction a generalizing n p with
  | nil => rfl
  | cons x a ih =>
    simp only [List.cons_append, Spec.recEnc, ih, List.length_cons, List.getLastD_cons]
    rw [Nat.add_assoc, Nat.add_comm 1]

theorem getLastD_append (a b : Bytes) (d : UInt8) : (a ++ b).getLastD d = b.getLastD (a.getLastD d) := by
  induction a generalizing d with
  | nil => rfl
  | cons x a ih =>
    cases b with
    | nil => simp
    | cons y b => simp only [List.cons_append, List.getLastD_cons, ih]

theorem Stream.encrypt_append (s : Stream) (a b : Bytes) :
    s.encrypt (a ++ b) = (((s.encrypt a).1.encrypt b).1, (s.encrypt a).2 ++ ((s.encrypt a).1.encrypt b).2) := by
  simp only [Stream.encrypt, Stream.after, Spec.recEnc_append, Spec.recEnc_mod, Spec.recEnc_length, getLastD_append,
    List.length_append, Nat.mod_add_mod, Nat.add_assoc]

theorem Spec.Rc4.keystream_add (m n : Nat) (st : Spec.Rc4) :
    Spec.Rc4.keystream (m + n) st = Spec.Rc4.keystream m st ++ Spec.Rc4.keystream n (Spec.Rc4.advance m st) := by
  induction m generalizing st with
  | zero => simp [Spec.Rc4.keystream, Spec.Rc4.advance]
  | succ m ih =>
    rw [Nat.add_right_comm]
    simp only [Spec.Rc4.keystream, Spec.Rc4.advance, ih, List.cons_append]

theorem Spec.Rc4.advance_add (m n : Nat) (st : Spec.Rc4) :
    Spec.Rc4.advance (m + n) st = Spec.Rc4.advance n (Spec.Rc4.advance m st) := by
  induction m generalizing st with
  | zero => simp [Spec.Rc4.advance]
  | succ m ih => rw [Nat.add_right_comm]; exact ih _

theorem Spec.Rc4.crypt_append (st : Spec.Rc4) (a b : Bytes) :
    st.crypt (a ++ b) = (((st.crypt a).1.crypt b).1, (st.crypt a).2 ++ ((st.crypt a).1.crypt b).2) := by
  simp only [Spec.Rc4.crypt, List.length_append, Spec.Rc4.advance_add, Spec.Rc4.keystream_add]
  rw [List.zipWith_append (by rw [Spec.Rc4.keystream_length])]


theorem EncSt.encrypt_append (E : EncSt) (a b : Bytes) :
    E.encrypt (a ++ b) = (((E.encrypt a).1.encrypt b).1, (E.encrypt a).2 ++ ((E.encrypt a).1.encrypt b).2) := by
  cases E with
  | vt e s => simp only [EncSt.encrypt, Stream.encrypt_append]
  | wcli r => simp only [EncSt.encrypt, Spec.Rc4.crypt_append]
  | wsrv r => simp only [EncSt.encrypt, Spec.Rc4.crypt_append]

theorem EncSt.encrypt_length (E : EncSt) (a : Bytes) : (E.encrypt a).2.length = a.length := by
  cases E with
  | vt e s => exact Stream.encrypt_length s a
  | wcli r => exact Spec.Rc4.crypt_length r a
  | wsrv r => exact Spec.Rc4.crypt_length r a

theorem EncSt.encrypt_nil (E : EncSt) : (E.encrypt []).2 = [] :=
  List.eq_nil_of_length_eq_zero (E.encrypt_length [])

/-- encrypting does not change which kind of object this is -/
theorem EncSt.plainOf_encrypt (E : EncSt) (a : Bytes) : (E.encrypt a).1.plainOf = E.plainOf := by
  funext op
  cases E <;> cases op <;> rfl

/-- all plaintext an op list pushes through the encrypt direction, in order (`pl`: `plainOf` of the object) -/
def encInput (pl : HOp → Option Bytes) : List HOp → Bytes
  | [] => []
  | op :: ops => (pl op).getD [] ++ encInput pl ops

/-- the answers to the encrypt-side ops of a list, cut out of one ciphertext stream -/
def encAnswers (pl : HOp → Option Bytes) : List HOp → Bytes → List HOut
  | [], _ => []
  | op :: ops, cipher =>
    match pl op with
    | some p => Spec.emit op (cipher.take p.length) :: encAnswers pl ops (cipher.drop p.length)
    | none => encAnswers pl ops cipher

/-- the answers of a run that belong to its encrypt-side ops -/
def encSide (pl : HOp → Option Bytes) : List HOp → List HOut → List HOut
  | op :: ops, out :: outs => if (pl op).isSome then out :: encSide pl ops outs else encSide pl ops outs
  | _, _ => []

/-- Spec level: the encrypt-side answers of any op list are cut out of the encryption of the
    concatenated plaintext in one go — whatever decrypt-side ops, splits, clones happen in between -/
theorem specRun_encrypt_side (s : SpecState) (ops : List HOp) :
    encSide s.ciphers.encPart.plainOf ops (specRun s ops).2 =
      encAnswers s.ciphers.encPart.plainOf ops
        (s.ciphers.encPart.encrypt (encInput s.ciphers.encPart.plainOf ops)).2 := by
  induction ops generalizing s with
  | nil => rfl
  | cons op ops ih =>
    have hstep := specStep_encPart s op
    have ih1 := ih (specStep s op).1
    simp only [specRun]
    cases hp : s.ciphers.encPart.plainOf op with
    | some p =>
      rw [hp] at hstep
      obtain ⟨h1, h2⟩ := hstep
      rw [h1, EncSt.plainOf_encrypt] at ih1
      simp only [encSide, hp, Option.isSome_some, if_true, encInput, Option.getD_some, encAnswers,
        EncSt.encrypt_append]
      have hl := s.ciphers.encPart.encrypt_length p
      rw [← hl, List.take_left, List.drop_left, ih1, h2]
    | none =>
      rw [hp] at hstep
      rw [hstep] at ih1
      simp only [encSide, hp, Option.isSome_none, Bool.false_eq_true, if_false, encInput, Option.getD_none,
        List.nil_append, encAnswers]
      exact ih1

/-- the position of a Vanilla/TBC stream is kept reduced mod the key length -/
def EncSt.Reduced : EncSt → Prop
  | .vt _ s => s.n < s.key.length
  | _ => True

theorem EncSt.encrypt_nil_fst (E : EncSt) (h : E.Reduced) : (E.encrypt []).1 = E := by
  cases E with
  | vt e s =>
    simp only [EncSt.Reduced] at h
    simp only [EncSt.encrypt, Stream.encrypt, Stream.after, Spec.recEnc, List.length_nil, Nat.add_zero,
      Nat.mod_eq_of_lt h, List.getLastD_nil]
  | wcli r => rfl
  | wsrv r => rfl

theorem EncSt.encrypt_reduced (E : EncSt) (h : E.Reduced) (a : Bytes) : (E.encrypt a).1.Reduced := by
  cases E with
  | vt e s =>
    simp only [EncSt.Reduced] at h
    exact Nat.mod_lt _ (by omega)
  | wcli r => trivial
  | wsrv r => trivial

/-- … and the direction ends where that one call ends -/
theorem specRun_encrypt_state (s : SpecState) (ops : List HOp) (hr : s.ciphers.encPart.Reduced) :
    (specRun s ops).1.ciphers.encPart =
      (s.ciphers.encPart.encrypt (encInput s.ciphers.encPart.plainOf ops)).1 := by
  induction ops generalizing s with
  | nil => exact (EncSt.encrypt_nil_fst _ hr).symm
  | cons op ops ih =>
    have hstep := specStep_encPart s op
    simp only [specRun]
    cases hp : s.ciphers.encPart.plainOf op with
    | some p =>
      rw [hp] at hstep
      obtain ⟨h1, h2⟩ := hstep
      have ih2 := ih (specStep s op).1 (by rw [h1]; exact EncSt.encrypt_reduced _ hr _)
      rw [h1, EncSt.plainOf_encrypt] at ih2
      simp only [encInput, hp, Option.getD_some, EncSt.encrypt_append, ih2]
    | none =>
      rw [hp] at hstep
      have ih2 := ih (specStep s op).1 (by rw [hstep]; exact hr)
      rw [hstep] at ih2
      simp only [encInput, hp, Option.getD_none, List.nil_append, ih2]

/-! ## corollary (b): the encrypt side depends only on the bytes offered to it -/

theorem HObj.abs_reduced (o : HObj) (h : o.WF) : o.abs.ciphers.encPart.Reduced := by
  cases o with
  | comb e hc => show hc.encrypt.index < hc.encrypt.key.length; rw [h.1.1]; exact h.1.2
  | halves e en de => show en.index < en.key.length; rw [h.1.1]; exact h.1.2
  | wcli c => trivial
  | wsrv c => trivial
  | wcliH en de => trivial
  | wsrvH en de => trivial

/-- **(b)** for every object form and every op list: the answers at the encrypt-side ops (`enc`, the typed
    header encrypters, the write wrappers) are those of ONE encryption of the concatenated plaintext, cut
    at the op boundaries and shown through `emit`; the encrypt direction ends where that one call ends.
    The decrypt-side ops, `split`, `clone`, `unsplit` in between do not matter. -/
theorem Session_encrypt_side (o : HObj) (ops : List HOp) (h : o.WF) (hops : ∀ op ∈ ops, op.WF) :
    ∃ o' outs, o.run ops = .ok (o', outs) ∧
      encSide o.abs.ciphers.encPart.plainOf ops outs =
        encAnswers o.abs.ciphers.encPart.plainOf ops
          (o.abs.ciphers.encPart.encrypt (encInput o.abs.ciphers.encPart.plainOf ops)).2 ∧
      o'.abs.ciphers.encPart =
        (o.abs.ciphers.encPart.encrypt (encInput o.abs.ciphers.encPart.plainOf ops)).1 := by
  obtain ⟨o', outs, hrun, _, hspec⟩ := Session_run_refines o ops h hops
  have h1 := specRun_encrypt_side o.abs ops
  have h2 := specRun_encrypt_state o.abs ops (o.abs_reduced h)
  rw [hspec] at h1 h2
  exact ⟨o', outs, hrun, h1, h2⟩

/-- (b) spelled out for Vanilla/TBC: the one ciphertext stream is `recEnc` of the concatenation, from the
    object's current position -/
theorem Session_encrypt_side_vt (e : Exp) (hc : HeaderCrypto) (ops : List HOp) (h : (HObj.comb e hc).WF)
    (hops : ∀ op ∈ ops, op.WF) :
    ∃ o' outs, (HObj.comb e hc).run ops = .ok (o', outs) ∧
      encSide (EncSt.vt e hc.encrypt.abs).plainOf ops outs =
        encAnswers (EncSt.vt e hc.encrypt.abs).plainOf ops
          (Spec.recEnc hc.encrypt.key hc.encrypt.index hc.encrypt.prev
            (encInput (EncSt.vt e hc.encrypt.abs).plainOf ops)) := by
  obtain ⟨o', outs, hrun, h1, _⟩ := Session_encrypt_side (.comb e hc) ops h hops
  exact ⟨o', outs, hrun, h1⟩

/-- the ciphertext an answer carries (`bytes`) -/
def HOut.payload : HOut → Bytes
  | .bytes b => b
  | _ => []

def HOp.isWrite : HOp → Bool
  | .writeServer .. | .writeClient .. => true
  | _ => false

theorem encAnswers_payload (pl : HOp → Option Bytes) (ops : List HOp) (hw : ∀ op ∈ ops, op.isWrite = false)
    (cipher : Bytes) (hl : cipher.length = (encInput pl ops).length) :
    (encAnswers pl ops cipher).flatMap HOut.payload = cipher := by
  induction ops generalizing cipher with
  | nil =>
    simp only [encInput, List.length_nil] at hl
    simp [encAnswers, List.eq_nil_of_length_eq_zero hl]
  | cons op ops ih =>
    have hw' : ∀ x ∈ ops, x.isWrite = false := fun x hx => hw x (List.mem_cons_of_mem _ hx)
    have hop := hw op (List.mem_cons_self ..)
    simp only [encAnswers]
    cases hp : pl op with
    | none =>
      simp only [encInput, hp, Option.getD_none, List.nil_append] at hl
      exact ih hw' cipher hl
    | some p =>
      simp only [encInput, hp, Option.getD_some, List.length_append] at hl
      have hem : ∀ c, (Spec.emit op c).payload = c := by
        intro c; cases op <;> first | rfl | simp [HOp.isWrite] at hop
      simp only [List.flatMap_cons, hem]
      rw [ih hw' (cipher.drop p.length) (by rw [List.length_drop]; omega), List.take_append_drop]

/-- (b), the sentence of the brief: without write wrappers in the list, the ciphertexts answered at the
    encrypt-side ops, concatenated, are `recEnc` of the concatenated plaintexts — whatever happens on
    the decrypt side in between -/
theorem Session_encrypt_concat_vt (e : Exp) (hc : HeaderCrypto) (ops : List HOp) (h : (HObj.comb e hc).WF)
    (hops : ∀ op ∈ ops, op.WF) (hw : ∀ op ∈ ops, op.isWrite = false) :
    ∃ o' outs, (HObj.comb e hc).run ops = .ok (o', outs) ∧
      (encSide (EncSt.vt e hc.encrypt.abs).plainOf ops outs).flatMap HOut.payload =
        Spec.recEnc hc.encrypt.key hc.encrypt.index hc.encrypt.prev
          (encInput (EncSt.vt e hc.encrypt.abs).plainOf ops) := by
  obtain ⟨o', outs, hrun, h1⟩ := Session_encrypt_side_vt e hc ops h hops
  refine ⟨o', outs, hrun, ?_⟩
  rw [h1]
  exact encAnswers_payload _ ops hw _ (Spec.recEnc_length ..)

/-! ## corollary (a): the object form does not matter -/

def EncSt.isVanilla : EncSt → Bool
  | .vt .vanilla _ => true
  | _ => false

theorem Spec.Ciphers.isVanilla_encPart (c : Ciphers) : c.isVanilla = c.encPart.isVanilla := by
  cases c with
  | vt e en de => cases e <;> rfl
  | wcli en de st => rfl
  | wsrv en de => rfl

theorem EncSt.isVanilla_encrypt (E : EncSt) (a : Bytes) : (E.encrypt a).1.isVanilla = E.isVanilla := by
  cases E with
  | vt e s => cases e <;> rfl
  | wcli r => rfl
  | wsrv r => rfl

/-- no op changes which expansion a session belongs to -/
theorem specStep_isVanilla (s : SpecState) (op : HOp) :
    (specStep s op).1.ciphers.isVanilla = s.ciphers.isVanilla := by
  have h := specStep_encPart s op
  rw [Ciphers.isVanilla_encPart, Ciphers.isVanilla_encPart]
  cases hp : s.ciphers.encPart.plainOf op with
  | some p => rw [hp] at h; rw [h.1, EncSt.isVanilla_encrypt]
  | none => rw [hp] at h; rw [h]

/-- the `isSplit` flag influences nothing but the answer to `unsplit` on Vanilla -/
theorem specStep_flag_indep (c : Ciphers) (b₁ b₂ : Bool) (op : HOp) (h : op ≠ .unsplit ∨ c.isVanilla = false) :
    (specStep ⟨c, b₁⟩ op).2 = (specStep ⟨c, b₂⟩ op).2 ∧
    (specStep ⟨c, b₁⟩ op).1.ciphers = (specStep ⟨c, b₂⟩ op).1.ciphers := by
  cases op with
  | unsplit =>
    have hv : c.isVanilla = false := by
      cases h with
      | inl h => exact absurd rfl h
      | inr h => exact h
    simp only [specStep, hv, Bool.false_and, Bool.false_eq_true, if_false, and_self]
  | split => exact ⟨rfl, rfl⟩
  | clone => exact ⟨rfl, rfl⟩
  | _ => simp only [specStep] <;> cases c.step _ <;> exact ⟨rfl, rfl⟩

theorem specRun_flag_indep (c : Ciphers) (b₁ b₂ : Bool) (ops : List HOp)
    (h : HOp.unsplit ∉ ops ∨ c.isVanilla = false) :
    (specRun ⟨c, b₁⟩ ops).2 = (specRun ⟨c, b₂⟩ ops).2 ∧
    (specRun ⟨c, b₁⟩ ops).1.ciphers = (specRun ⟨c, b₂⟩ ops).1.ciphers := by
  induction ops generalizing c b₁ b₂ with
  | nil => exact ⟨rfl, rfl⟩
  | cons op ops ih =>
    have hop : op ≠ .unsplit ∨ c.isVanilla = false := by
      cases h with
      | inl h => exact .inl (fun e => h (e ▸ List.mem_cons_self ..))
      | inr h => exact .inr h
    obtain ⟨h1, h2⟩ := specStep_flag_indep c b₁ b₂ op hop
    have hv := specStep_isVanilla ⟨c, b₁⟩ op
    have hops : HOp.unsplit ∉ ops ∨ (specStep ⟨c, b₁⟩ op).1.ciphers.isVanilla = false := by
      cases h with
      | inl h => exact .inl (fun hm => h (List.mem_cons_of_mem _ hm))
      | inr h => exact .inr (by rw [hv]; exact h)
    have e1 : (specStep ⟨c, b₁⟩ op).1 = ⟨(specStep ⟨c, b₁⟩ op).1.ciphers, (specStep ⟨c, b₁⟩ op).1.isSplit⟩ := rfl
    have e2 : (specStep ⟨c, b₂⟩ op).1 = ⟨(specStep ⟨c, b₁⟩ op).1.ciphers, (specStep ⟨c, b₂⟩ op).1.isSplit⟩ := by
      rw [h2]
    obtain ⟨i1, i2⟩ := ih (specStep ⟨c, b₁⟩ op).1.ciphers (specStep ⟨c, b₁⟩ op).1.isSplit
      (specStep ⟨c, b₂⟩ op).1.isSplit hops
    rw [← e1, ← e2] at i1 i2
    simp only [specRun, h1, i1, i2, and_self]

/-- **(a) object-form independence**: two well-formed objects with the same cipher streams — whatever
    their form (combined / split) — answer every op list identically and keep the same streams.
    The one exception is in the Spec itself: `unsplit` on a Vanilla object asks for the form. -/
theorem Session_form_independent (o₁ o₂ : HObj) (h₁ : o₁.WF) (h₂ : o₂.WF)
    (habs : o₁.abs.ciphers = o₂.abs.ciphers) (ops : List HOp) (hops : ∀ op ∈ ops, op.WF)
    (hun : HOp.unsplit ∉ ops ∨ o₁.abs.ciphers.isVanilla = false) :
    ∃ o₁' o₂' outs, o₁.run ops = .ok (o₁', outs) ∧ o₂.run ops = .ok (o₂', outs) ∧
      o₁'.abs.ciphers = o₂'.abs.ciphers := by
  obtain ⟨o₁', outs₁, hr₁, _, hs₁⟩ := Session_run_refines o₁ ops h₁ hops
  obtain ⟨o₂', outs₂, hr₂, _, hs₂⟩ := Session_run_refines o₂ ops h₂ hops
  have e₁ : o₁.abs = ⟨o₁.abs.ciphers, o₁.abs.isSplit⟩ := rfl
  have e₂ : o₂.abs = ⟨o₁.abs.ciphers, o₂.abs.isSplit⟩ := by rw [habs]
  obtain ⟨i1, i2⟩ := specRun_flag_indep o₁.abs.ciphers o₁.abs.isSplit o₂.abs.isSplit ops hun
  rw [← e₁, ← e₂, hs₁, hs₂] at i1 i2
  simp only at i1 i2
  subst i1
  exact ⟨o₁', o₂', outs₁, hr₁, hr₂, i2⟩

/-- Vanilla/TBC: the combined object and its own two halves (without the side condition, on all answers but
    those to `unsplit`: `Session_comb_eq_halves_except_unsplit` below) -/
theorem Session_comb_eq_halves (e : Exp) (hc : HeaderCrypto) (h : (HObj.comb e hc).WF) (ops : List HOp)
    (hops : ∀ op ∈ ops, op.WF) (hun : HOp.unsplit ∉ ops ∨ e = .tbc) :
    ∃ o₁' o₂' outs, (HObj.comb e hc).run ops = .ok (o₁', outs) ∧
      (HObj.halves e hc.encrypt hc.decrypt).run ops = .ok (o₂', outs) ∧ o₁'.abs.ciphers = o₂'.abs.ciphers :=
  Session_form_independent (.comb e hc) (.halves e hc.encrypt hc.decrypt) h h rfl ops hops
    (hun.imp id (fun he => by subst he; rfl))

/-- Wrath client: `ClientCrypto` and its two halves, every op list -/
theorem Session_wcli_eq_halves (c : WClientCrypto) (h : (HObj.wcli c).WF) (ops : List HOp)
    (hops : ∀ op ∈ ops, op.WF) :
    ∃ o₁' o₂' outs, (HObj.wcli c).run ops = .ok (o₁', outs) ∧
      (HObj.wcliH c.encrypt c.decrypt).run ops = .ok (o₂', outs) ∧ o₁'.abs.ciphers = o₂'.abs.ciphers :=
  Session_form_independent (.wcli c) (.wcliH c.encrypt c.decrypt) h h rfl ops hops (.inr rfl)

/-- Wrath server: `ServerCrypto` and its two halves, every op list -/
theorem Session_wsrv_eq_halves (c : WServerCrypto) (h : (HObj.wsrv c).WF) (ops : List HOp)
    (hops : ∀ op ∈ ops, op.WF) :
    ∃ o₁' o₂' outs, (HObj.wsrv c).run ops = .ok (o₁', outs) ∧
      (HObj.wsrvH c.encrypt c.decrypt).run ops = .ok (o₂', outs) ∧ o₁'.abs.ciphers = o₂'.abs.ciphers :=
  Session_form_independent (.wsrv c) (.wsrvH c.encrypt c.decrypt) h h rfl ops hops (.inr rfl)

/-! ## (c) non-vacuity: concrete sessions evaluated through `HObj.run` -/

def demoKey : Bytes := (List.range 40).map fun i => UInt8.ofNat (7 * i + 3)
def demoObj : HObj := .comb .vanilla (HeaderCrypto.new Crypto.real .vanilla demoKey)

/-- ten different op kinds on a Vanilla object; the two `unsplit`s show the one place where the form matters -/
def demoOps : List HOp :=
  [.encServer 12 0x1EE, .enc [1, 2, 3], .split, .decClient [0x10, 0x20, 0x30, 0x40, 0x50, 0x60], .dec [9],
   .attempt [0, 0, 0, 0], .clone, .encClient 4 0x1ED, .decServer [1, 2, 3, 4], .unsplit, .unsplit]

def Out.answers : Out (HObj × List HOut) → Option (List HOut)
  | .ok (_, outs) => some outs
  | .panic _ => none

example : demoObj.WF := (WF_fresh_vanilla Crypto.real demoKey (by decide)).1
example : ∀ op ∈ demoOps, op.WF := by decide

example : (demoObj.run demoOps).answers =
    some [.bytes [3, 9, 8, 33], .bytes [63, 99, 145], .done, .header 4890 906954753, .bytes [132], .na, .done,
          .bytes [197, 4, 179, 251, 75, 162], .header 52282 18499, .done, .na] := by
  decide

/-- the Spec session gives the same answers by evaluation (as `Session_run_refines` says it must) -/
example : (specRun demoObj.abs demoOps).2 =
    [.bytes [3, 9, 8, 33], .bytes [63, 99, 145], .done, .header 4890 906954753, .bytes [132], .na, .done,
     .bytes [197, 4, 179, 251, 75, 162], .header 52282 18499, .done, .na] := by
  decide
/-! the I/O wrappers: `readExact` / `writeAll` are defined by well-founded recursion, which `decide` does
    not unfold; their value on the concrete script is computed by `simp` with the equation lemmas first -/
def Out.answer : Out (HObj × HOut) → Option HOut
  | .ok (_, out) => some out
  | .panic _ => none

theorem demo_read1 : readExact [.data [1, 2], .interrupted, .data [3, 4, 5]] 4 [] = (.ok [1, 2, 3, 4], [.data [5]]) := by
  simp [readExact]
theorem demo_read2 : readExact [.data [1, 2], .err 7, .data [1]] 4 [] = (.error 7, [.data [1]]) := by
  simp [readExact]
theorem demo_read3 : readExact [.data [1, 2, 3, 4, 5, 6, 7]] 6 [] = (.ok [1, 2, 3, 4, 5, 6], [.data [7]]) := by
  simp [readExact]

example : (demoObj.step (.readServer [.data [1, 2], .interrupted, .data [3, 4, 5]])).answer =
    some (.readOk 523 6416 4) := by
  simp only [demoObj, HObj.step, HeaderCrypto.readServerHeader, Half.readServerHeader, Gen.vanillaServerHeaderLength, demo_read1]
  decide
example : (demoObj.step (.readServer [.data [1, 2], .err 7, .data [1]])).answer = some (.readErr 7 2 true) := by
  simp only [demoObj, HObj.step, HeaderCrypto.readServerHeader, Half.readServerHeader, Gen.vanillaServerHeaderLength, demo_read2]
  decide
example : (demoObj.step (.readClient [.data [1, 2, 3, 4, 5, 6, 7]])).answer = some (.readOk 523 656283920 6) := by
  simp only [demoObj, HObj.step, HeaderCrypto.readClientHeader, Half.readClientHeader, Gen.vanillaClientHeaderLength, demo_read3]
  decide
example : (demoObj.step (.writeServer 12 0x1EE [.accept 3, .interrupted, .accept 0])).answer =
    some (.writeErr 10 [3, 9, 8]) := by
  simp only [demoObj, HObj.step, HeaderCrypto.writeServerHeader, Half.writeServerHeader, writeAll_spec]
  decide

/-! ## corollary (a'), no side condition: everything but the answers to `unsplit` -/

/-- the answers of a run at the ops that are not `unsplit` -/
def exceptUnsplit : List HOp → List HOut → List HOut
  | op :: ops, out :: outs => if op = .unsplit then exceptUnsplit ops outs else out :: exceptUnsplit ops outs
  | _, _ => []

/-- whatever the `isSplit` flag: same next cipher streams; same answer unless the op is `unsplit` -/
theorem specStep_flag_indep' (c : Ciphers) (b₁ b₂ : Bool) (op : HOp) :
    (op ≠ .unsplit → (specStep ⟨c, b₁⟩ op).2 = (specStep ⟨c, b₂⟩ op).2) ∧
    (specStep ⟨c, b₁⟩ op).1.ciphers = (specStep ⟨c, b₂⟩ op).1.ciphers := by
  by_cases h : op = .unsplit
  · subst h
    refine ⟨fun hne => absurd rfl hne, ?_⟩
    have key : ∀ b, (specStep ⟨c, b⟩ .unsplit).1.ciphers = c := by
      intro b
      simp only [specStep]
      split <;> rfl
    rw [key, key]
  · obtain ⟨h1, h2⟩ := specStep_flag_indep c b₁ b₂ op (.inl h)
    exact ⟨fun _ => h1, h2⟩

theorem specRun_flag_indep' (c : Ciphers) (b₁ b₂ : Bool) (ops : List HOp) :
    exceptUnsplit ops (specRun ⟨c, b₁⟩ ops).2 = exceptUnsplit ops (specRun ⟨c, b₂⟩ ops).2 ∧
    (specRun ⟨c, b₁⟩ ops).1.ciphers = (specRun ⟨c, b₂⟩ ops).1.ciphers := by
  induction ops generalizing c b₁ b₂ with
  | nil => exact ⟨rfl, rfl⟩
  | cons op ops ih =>
    obtain ⟨h1, h2⟩ := specStep_flag_indep' c b₁ b₂ op
    have e1 : (specStep ⟨c, b₁⟩ op).1 = ⟨(specStep ⟨c, b₁⟩ op).1.ciphers, (specStep ⟨c, b₁⟩ op).1.isSplit⟩ := rfl
    have e2 : (specStep ⟨c, b₂⟩ op).1 = ⟨(specStep ⟨c, b₁⟩ op).1.ciphers, (specStep ⟨c, b₂⟩ op).1.isSplit⟩ := by
      rw [h2]
    obtain ⟨i1, i2⟩ := ih (specStep ⟨c, b₁⟩ op).1.ciphers (specStep ⟨c, b₁⟩ op).1.isSplit
      (specStep ⟨c, b₂⟩ op).1.isSplit
    rw [← e1, ← e2] at i1 i2
    simp only [specRun, exceptUnsplit]
    refine ⟨?_, i2⟩
    by_cases h : op = .unsplit
    · simp only [h, if_true] at i1 ⊢
      subst h
      exact i1
    · simp only [h, if_false, h1 h, i1]

theorem specRun_length (s : SpecState) (ops : List HOp) : (specRun s ops).2.length = ops.length := by
  induction ops generalizing s with
  | nil => rfl
  | cons op ops ih => simp only [specRun, List.length_cons, ih]

/-- **(a') object-form independence without side condition**: two well-formed objects with the same cipher
    streams — whatever their form — run every op list (`unsplit` included, Vanilla included) without panic,
    give the same answer to every op that is not an `unsplit`, and keep the same streams. (The answer to
    `unsplit` is the one thing that asks for the form: `done` from split Vanilla halves, `na` otherwise.) -/
theorem Session_form_independent_except_unsplit (o₁ o₂ : HObj) (h₁ : o₁.WF) (h₂ : o₂.WF)
    (habs : o₁.abs.ciphers = o₂.abs.ciphers) (ops : List HOp) (hops : ∀ op ∈ ops, op.WF) :
    ∃ o₁' o₂' outs₁ outs₂, o₁.run ops = .ok (o₁', outs₁) ∧ o₂.run ops = .ok (o₂', outs₂) ∧
      outs₁.length = ops.length ∧ outs₂.length = ops.length ∧
      exceptUnsplit ops outs₁ = exceptUnsplit ops outs₂ ∧ o₁'.abs.ciphers = o₂'.abs.ciphers := by
  obtain ⟨o₁', outs₁, hr₁, _, hs₁⟩ := Session_run_refines o₁ ops h₁ hops
  obtain ⟨o₂', outs₂, hr₂, _, hs₂⟩ := Session_run_refines o₂ ops h₂ hops
  have e₁ : o₁.abs = ⟨o₁.abs.ciphers, o₁.abs.isSplit⟩ := rfl
  have e₂ : o₂.abs = ⟨o₁.abs.ciphers, o₂.abs.isSplit⟩ := by rw [habs]
  obtain ⟨i1, i2⟩ := specRun_flag_indep' o₁.abs.ciphers o₁.abs.isSplit o₂.abs.isSplit ops
  have l₁ := specRun_length o₁.abs ops
  have l₂ := specRun_length o₂.abs ops
  rw [← e₁, ← e₂, hs₁, hs₂] at i1 i2
  rw [hs₁] at l₁
  rw [hs₂] at l₂
  exact ⟨o₁', o₂', outs₁, outs₂, hr₁, hr₂, l₁, l₂, i1, i2⟩

/-- Vanilla/TBC, no side condition: the combined object and its own two halves on any op list — `unsplit`
    may occur —: all answers except those to `unsplit` agree, and so do the cipher streams at the end -/
theorem Session_comb_eq_halves_except_unsplit (e : Exp) (hc : HeaderCrypto) (h : (HObj.comb e hc).WF)
    (ops : List HOp) (hops : ∀ op ∈ ops, op.WF) :
    ∃ o₁' o₂' outs₁ outs₂, (HObj.comb e hc).run ops = .ok (o₁', outs₁) ∧
      (HObj.halves e hc.encrypt hc.decrypt).run ops = .ok (o₂', outs₂) ∧
      outs₁.length = ops.length ∧ outs₂.length = ops.length ∧
      exceptUnsplit ops outs₁ = exceptUnsplit ops outs₂ ∧ o₁'.abs.ciphers = o₂'.abs.ciphers :=
  Session_form_independent_except_unsplit (.comb e hc) (.halves e hc.encrypt hc.decrypt) h h rfl ops hops

/-! ## the decrypt direction on its own -/

/-- the decrypt direction of a session: which kind of object, and its one cipher stream -/
inductive DecSt where
  | vt (e : Exp) (s : Stream)
  | wcli (r : Spec.Rc4)
  | wsrv (r : Spec.Rc4)
deriving DecidableEq, Repr

def Spec.Ciphers.decPart : Ciphers → DecSt
  | .vt e _ de => .vt e de
  | .wcli _ de _ => .wcli de
  | .wsrv _ de => .wsrv de

/-- the four plaintext bytes of a long server header the Wrath client keeps between the two steps of
    decrypting it (nothing on the other kinds of object) -/
def Spec.Ciphers.stash : Ciphers → Bytes
  | .wcli _ _ st => st
  | _ => []

/-- push wire bytes through the decrypt direction: new stream position, plaintext -/
def DecSt.decrypt : DecSt → Bytes → DecSt × Bytes
  | .vt e s, w => (.vt e (s.decrypt w).1, (s.decrypt w).2)
  | .wcli r, w => (.wcli (r.crypt w).1, (r.crypt w).2)
  | .wsrv r, w => (.wsrv (r.crypt w).1, (r.crypt w).2)

/-- which kind of object -/
inductive DKind where
  | vt
  | wcli
  | wsrv
deriving DecidableEq, Repr

def DecSt.kind : DecSt → DKind
  | .vt .. => .vt
  | .wcli .. => .wcli
  | .wsrv .. => .wsrv

/-- the decrypt-side ops of each kind of object (the methods that exist on it and take wire bytes) -/
def DKind.isDec : DKind → HOp → Bool
  | _, .dec _ => true
  | .vt, .decServer _ | .vt, .decClient _ | .vt, .readServer _ | .vt, .readClient _ => true
  | .wsrv, .decClient _ | .wsrv, .readClient _ => true
  | .wcli, .readServer _ | .wcli, .attempt _ | .wcli, .large _ => true
  | _, _ => false

/-- what a fixed-size `read_exact` hands to the cipher: the `n` bytes on success, nothing on failure -/
def readWire (script : List REv) (n : Nat) : Bytes :=
  match readExact script n [] with
  | (.ok wire, _) => wire
  | (.error _, _) => []

/-- **the wire bytes a decrypt-side op feeds the decrypt direction.** Array / slice arguments: the argument.
    Read wrappers: the bytes `read_exact` delivered — nothing if it failed. Wrath client
    `read_and_decrypt_server_header`: the four bytes, and the fifth if the first plaintext byte carries
    the marker bit *and* the second `read_exact` delivers it (a failure there still leaves the four
    consumed). Only that last case looks at the stream (through the plaintext it produces). -/
def DecSt.wire (D : DecSt) : HOp → Bytes
  | .dec w | .decServer w | .decClient w | .attempt w => w
  | .large b => [b]
  | .readClient script => readWire script 6
  | .readServer script =>
    match D with
    | .wcli r =>
      match readExact script 4 [] with
      | (.error _, _) => []
      | (.ok w4, rest) =>
        if !Spec.isLarge (r.crypt w4).2 then w4 else
        match readExact rest 1 [] with
        | (.error _, _) => w4
        | (.ok w5, _) => w4 ++ w5
    | _ => readWire script 4
  | _ => []

/-- answer of a fixed-size read wrapper, given the plaintext stream from here on -/
def readShow (script : List REv) (n : Nat) (stash plain : Bytes) : Nat × HOut × Bytes :=
  match readExact script n [] with
  | (.error k, rest) => (0, .readErr k (Spec.consumed script rest) true, stash)
  | (.ok wire, rest) =>
    let p := plain.take wire.length
    (wire.length, .readOk (Spec.headerOf p).1 (Spec.headerOf p).2 (Spec.consumed script rest), stash)

/-- **what a decrypt-side op answers, as a function of the plaintext stream alone**: `plain` is the
    decryption of all wire bytes from this op on; the result is how many of them this op uses, its
    answer, and the client's stash afterwards. No cipher state, no key: the reader scripts only say how
    many bytes arrive and which error ends a read. -/
def decShow (k : DKind) (stash : Bytes) (op : HOp) (plain : Bytes) : Nat × HOut × Bytes :=
  match op with
  | .dec w => (w.length, .bytes (plain.take w.length), stash)
  | .decServer w | .decClient w =>
    let p := plain.take w.length
    (w.length, .header (Spec.headerOf p).1 (Spec.headerOf p).2, stash)
  | .attempt w =>
    let p := plain.take w.length
    if Spec.isLarge p then (w.length, .more, p)
    else (w.length, .header (Spec.headerOf p).1 (Spec.headerOf p).2, stash)
  | .large _ =>
    let q := plain.take 1
    (1, .header (Spec.largeHeaderOf (stash ++ q)).1 (Spec.largeHeaderOf (stash ++ q)).2, stash)
  | .readClient script => readShow script 6 stash plain
  | .readServer script =>
    match k with
    | .wcli =>
      match readExact script 4 [] with
      | (.error e, rest) => (0, .readErr e (Spec.consumed script rest) true, stash)
      | (.ok w4, rest) =>
        let p := plain.take w4.length
        if !Spec.isLarge p then
          (w4.length, .readOk (Spec.headerOf p).1 (Spec.headerOf p).2 (Spec.consumed script rest), stash)
        else
        match readExact rest 1 [] with
        | (.error e, rest') => (w4.length, .readErr e (Spec.consumed script rest') false, p)
        | (.ok w5, rest') =>
          let q := (plain.drop w4.length).take w5.length
          (w4.length + w5.length,
           .readOk (Spec.largeHeaderOf (p ++ q)).1 (Spec.largeHeaderOf (p ++ q)).2 (Spec.consumed script rest'), p)
    | _ => readShow script 4 stash plain
  | _ => (0, .na, stash)

/-- all wire bytes an op list pushes through the decrypt direction, in order -/
def decInput : DecSt → List HOp → Bytes
  | _, [] => []
  | D, op :: ops =>
    if D.kind.isDec op then D.wire op ++ decInput (D.decrypt (D.wire op)).1 ops else decInput D ops

/-- the answers to the decrypt-side ops of a list, cut out of one plaintext stream; and the stash at the end -/
def decCut (k : DKind) : Bytes → List HOp → Bytes → List HOut × Bytes
  | stash, [], _ => ([], stash)
  | stash, op :: ops, plain =>
    if k.isDec op then
      let r := decShow k stash op plain
      let rs := decCut k r.2.2 ops (plain.drop r.1)
      (r.2.1 :: rs.1, rs.2)
    else decCut k stash ops plain

/-- the answers of a run that belong to its decrypt-side ops -/
def decSide (k : DKind) : List HOp → List HOut → List HOut
  | op :: ops, out :: outs => if k.isDec op then out :: decSide k ops outs else decSide k ops outs
  | _, _ => []

/-! ### chunking laws, decrypt direction -/

theorem Spec.recDec_mod (key : Bytes) (n : Nat) (p : UInt8) (cs : Bytes) :
    Spec.recDec key (n % key.length) p cs = Spec.recDec key n p cs := by
  induction cs generalizing n p with
  | nil => rfl
  | cons c cs ih =>
    simp only [Spec.recDec, Nat.mod_mod]
    rw [← ih (n % key.length + 1), ← ih (n + 1), Nat.mod_add_mod]

theorem Spec.recDec_append (key : Bytes) (n : Nat) (p : UInt8) (a b : Bytes) :
    Spec.recDec key n p (a ++ b) =
      Spec.recDec key n p a ++ Spec.recDec key (n + a.length) (a.getLastD p) b := by
  induction a generalizing n p with
  | nil => rfl
  | cons x a ih =>
    simp only [List.cons_append, Spec.recDec, ih, List.length_cons, List.getLastD_cons]
    rw [Nat.add_assoc, Nat.add_comm 1]

theorem Stream.decrypt_append (s : Stream) (a b : Bytes) :
    s.decrypt (a ++ b) = (((s.decrypt a).1.decrypt b).1, (s.decrypt a).2 ++ ((s.decrypt a).1.decrypt b).2) := by
  simp only [Stream.decrypt, Stream.after, Spec.recDec_append, Spec.recDec_mod, getLastD_append,
    List.length_append, Nat.mod_add_mod, Nat.add_assoc]

theorem DecSt.decrypt_append (D : DecSt) (a b : Bytes) :
    D.decrypt (a ++ b) = (((D.decrypt a).1.decrypt b).1, (D.decrypt a).2 ++ ((D.decrypt a).1.decrypt b).2) := by
  cases D with
  | vt e s => simp only [DecSt.decrypt, Stream.decrypt_append]
  | wcli r => simp only [DecSt.decrypt, Spec.Rc4.crypt_append]
  | wsrv r => simp only [DecSt.decrypt, Spec.Rc4.crypt_append]

theorem DecSt.decrypt_length (D : DecSt) (a : Bytes) : (D.decrypt a).2.length = a.length := by
  cases D with
  | vt e s => exact Stream.decrypt_length s a
  | wcli r => exact Spec.Rc4.crypt_length r a
  | wsrv r => exact Spec.Rc4.crypt_length r a

theorem DecSt.kind_decrypt (D : DecSt) (a : Bytes) : (D.decrypt a).1.kind = D.kind := by
  cases D <;> rfl

/-- the position of a Vanilla/TBC stream is kept reduced mod the key length -/
def DecSt.Reduced : DecSt → Prop
  | .vt _ s => s.n < s.key.length
  | _ => True

theorem DecSt.decrypt_nil_fst (D : DecSt) (h : D.Reduced) : (D.decrypt []).1 = D := by
  cases D with
  | vt e s =>
    simp only [DecSt.Reduced] at h
    simp only [DecSt.decrypt, Stream.decrypt, Stream.after, List.length_nil, Nat.add_zero,
      Nat.mod_eq_of_lt h, List.getLastD_nil]
  | wcli r => rfl
  | wsrv r => rfl

theorem DecSt.decrypt_reduced (D : DecSt) (h : D.Reduced) (a : Bytes) : (D.decrypt a).1.Reduced := by
  cases D with
  | vt e s =>
    simp only [DecSt.Reduced] at h
    exact Nat.mod_lt _ (by omega)
  | wcli r => trivial
  | wsrv r => trivial

/-! ### one op of a session, seen from the decrypt direction -/

/-- a decrypt-side op pushes its wire bytes through the decrypt direction and answers what `decShow` reads
    off the plaintext (whatever plaintext follows: `tail`); any other op touches neither the direction
    nor the stash -/
def DecStepOK (s : SpecState) (op : HOp) : Prop :=
  if s.ciphers.decPart.kind.isDec op then
    (specStep s op).1.ciphers.decPart = (s.ciphers.decPart.decrypt (s.ciphers.decPart.wire op)).1 ∧
    ∀ tail, decShow s.ciphers.decPart.kind s.ciphers.stash op
        ((s.ciphers.decPart.decrypt (s.ciphers.decPart.wire op)).2 ++ tail) =
      ((s.ciphers.decPart.wire op).length, (specStep s op).2, (specStep s op).1.ciphers.stash)
  else (specStep s op).1.ciphers.decPart = s.ciphers.decPart ∧
    (specStep s op).1.ciphers.stash = s.ciphers.stash

/-- the fixed-size read wrappers -/
theorem readHeader_dec (c : Ciphers) (n : Nat) (script : List REv) (hr : c.decPart.Reduced) :
    (c.readHeader n script).1.decPart = (c.decPart.decrypt (readWire script n)).1 ∧
    (c.readHeader n script).1.stash = c.stash ∧
    ∀ st tail, readShow script n st ((c.decPart.decrypt (readWire script n)).2 ++ tail) =
      ((readWire script n).length, (c.readHeader n script).2, st) := by
  cases hre : readExact script n [] with
  | mk res rest =>
    cases res with
    | error k =>
      have e1 : c.readHeader n script = (c, .readErr k (Spec.consumed script rest) true) := by
        simp only [Ciphers.readHeader, hre]
      have e2 : readWire script n = [] := by simp only [readWire, hre]
      rw [e1, e2]
      refine ⟨(DecSt.decrypt_nil_fst _ hr).symm, rfl, fun st tail => ?_⟩
      simp only [readShow, hre]
      rfl
    | ok wire =>
      have ht : ∀ tail, List.take wire.length ((c.decPart.decrypt wire).2 ++ tail) = (c.decPart.decrypt wire).2 :=
        fun tail => List.take_left' (DecSt.decrypt_length _ _)
      simp only [Ciphers.readHeader, readWire, readShow, hre, ht]
      cases c <;> exact ⟨rfl, rfl, fun _ _ => rfl⟩

/-- the Wrath client's variable-length read wrapper -/
theorem wrathReadServer_dec (en de : Spec.Rc4) (st : Bytes) (script : List REv) :
    (Spec.wrathReadServer en de st script).1.decPart =
        ((DecSt.wcli de).decrypt ((DecSt.wcli de).wire (.readServer script))).1 ∧
    ∀ tail, decShow .wcli st (.readServer script)
        (((DecSt.wcli de).decrypt ((DecSt.wcli de).wire (.readServer script))).2 ++ tail) =
      (((DecSt.wcli de).wire (.readServer script)).length, (Spec.wrathReadServer en de st script).2,
        (Spec.wrathReadServer en de st script).1.stash) := by
  cases hre : readExact script 4 [] with
  | mk res rest =>
    cases res with
    | error k =>
      simp only [Spec.wrathReadServer, DecSt.wire, decShow, hre]
      exact ⟨rfl, fun _ => rfl⟩
    | ok w4 =>
      have ht : ∀ tail, List.take w4.length ((de.crypt w4).2 ++ tail) = (de.crypt w4).2 :=
        fun tail => List.take_left' (Spec.Rc4.crypt_length _ _)
      by_cases hlg : Spec.isLarge (de.crypt w4).2 = true
      · cases hre2 : readExact rest 1 [] with
        | mk res2 rest2 =>
          cases res2 with
          | error k =>
            simp only [Spec.wrathReadServer, DecSt.wire, decShow, hre, hre2, hlg, Bool.not_true, Bool.false_eq_true,
              if_false, DecSt.decrypt, ht]
            exact ⟨rfl, fun _ => rfl⟩
          | ok w5 =>
            have ht5 : ∀ tail, List.take w4.length ((de.crypt w4).2 ++ (((de.crypt w4).1.crypt w5).2 ++ tail)) =
                (de.crypt w4).2 :=
              fun tail => List.take_left' (Spec.Rc4.crypt_length _ _)
            have hd5 : ∀ tail, List.drop w4.length ((de.crypt w4).2 ++ (((de.crypt w4).1.crypt w5).2 ++ tail)) =
                ((de.crypt w4).1.crypt w5).2 ++ tail :=
              fun tail => List.drop_left' (Spec.Rc4.crypt_length _ _)
            have ht6 : ∀ tail, List.take w5.length (((de.crypt w4).1.crypt w5).2 ++ tail) =
                ((de.crypt w4).1.crypt w5).2 :=
              fun tail => List.take_left' (Spec.Rc4.crypt_length _ _)
            simp only [Spec.wrathReadServer, DecSt.wire, decShow, hre, hre2, hlg, Bool.not_true, Bool.false_eq_true,
              if_false, DecSt.decrypt, Spec.Rc4.crypt_append, List.append_assoc, ht5, hd5, ht6, List.length_append]
            exact ⟨rfl, fun _ => rfl⟩
      · simp only [Spec.wrathReadServer, DecSt.wire, decShow, hre, hlg, Bool.not_false, if_true, DecSt.decrypt, ht]
        exact ⟨rfl, fun _ => rfl⟩

theorem decStepOK_vt (e : Exp) (en de : Stream) (b : Bool) (op : HOp) (hr : de.n < de.key.length) :
    DecStepOK ⟨.vt e en de, b⟩ op := by
  have ht : ∀ (w tail : Bytes), List.take w.length ((de.decrypt w).2 ++ tail) = (de.decrypt w).2 :=
    fun w tail => List.take_left' (Stream.decrypt_length _ _)
  cases op with
  | enc d => exact ⟨rfl, rfl⟩
  | dec w =>
    refine ⟨rfl, fun tail => ?_⟩
    simp only [decShow, Ciphers.decPart, DecSt.wire, DecSt.decrypt, ht]
    rfl
  | encServer s o => exact ⟨rfl, rfl⟩
  | encClient s o => exact ⟨rfl, rfl⟩
  | decServer w =>
    refine ⟨rfl, fun tail => ?_⟩
    simp only [decShow, Ciphers.decPart, DecSt.wire, DecSt.decrypt, ht]
    rfl
  | decClient w =>
    refine ⟨rfl, fun tail => ?_⟩
    simp only [decShow, Ciphers.decPart, DecSt.wire, DecSt.decrypt, ht]
    rfl
  | readServer script =>
    obtain ⟨h1, h2, h3⟩ := readHeader_dec (.vt e en de) 4 script hr
    exact ⟨h1, fun tail => (h3 _ tail).trans (Prod.ext rfl (Prod.ext rfl h2.symm))⟩
  | readClient script =>
    obtain ⟨h1, h2, h3⟩ := readHeader_dec (.vt e en de) 6 script hr
    exact ⟨h1, fun tail => (h3 _ tail).trans (Prod.ext rfl (Prod.ext rfl h2.symm))⟩
  | writeServer s o script => exact ⟨rfl, rfl⟩
  | writeClient s o script => exact ⟨rfl, rfl⟩
  | attempt w => exact ⟨rfl, rfl⟩
  | large b => exact ⟨rfl, rfl⟩
  | split => exact ⟨rfl, rfl⟩
  | clone => exact ⟨rfl, rfl⟩
  | unsplit => cases b <;> cases e <;> exact ⟨rfl, rfl⟩

theorem decStepOK_wsrv (en de : Spec.Rc4) (b : Bool) (op : HOp) :
    DecStepOK ⟨.wsrv en de, b⟩ op := by
  have ht : ∀ (w tail : Bytes), List.take w.length ((de.crypt w).2 ++ tail) = (de.crypt w).2 :=
    fun w tail => List.take_left' (Spec.Rc4.crypt_length _ _)
  cases op with
  | enc d => exact ⟨rfl, rfl⟩
  | dec w =>
    refine ⟨rfl, fun tail => ?_⟩
    simp only [decShow, Ciphers.decPart, DecSt.wire, DecSt.decrypt, ht]
    rfl
  | encServer s o => exact ⟨rfl, rfl⟩
  | encClient s o => exact ⟨rfl, rfl⟩
  | decServer w => exact ⟨rfl, rfl⟩
  | decClient w =>
    refine ⟨rfl, fun tail => ?_⟩
    simp only [decShow, Ciphers.decPart, DecSt.wire, DecSt.decrypt, ht]
    rfl
  | readServer script => exact ⟨rfl, rfl⟩
  | readClient script =>
    obtain ⟨h1, h2, h3⟩ := readHeader_dec (.wsrv en de) 6 script trivial
    exact ⟨h1, fun tail => (h3 _ tail).trans (Prod.ext rfl (Prod.ext rfl h2.symm))⟩
  | writeServer s o script => exact ⟨rfl, rfl⟩
  | writeClient s o script => exact ⟨rfl, rfl⟩
  | attempt w => exact ⟨rfl, rfl⟩
  | large b => exact ⟨rfl, rfl⟩
  | split => exact ⟨rfl, rfl⟩
  | clone => exact ⟨rfl, rfl⟩
  | unsplit => cases b <;> exact ⟨rfl, rfl⟩

theorem decStepOK_wcli (en de : Spec.Rc4) (st : Bytes) (b : Bool) (op : HOp) :
    DecStepOK ⟨.wcli en de st, b⟩ op := by
  have ht : ∀ (w tail : Bytes), List.take w.length ((de.crypt w).2 ++ tail) = (de.crypt w).2 :=
    fun w tail => List.take_left' (Spec.Rc4.crypt_length _ _)
  cases op with
  | enc d => exact ⟨rfl, rfl⟩
  | dec w =>
    refine ⟨rfl, fun tail => ?_⟩
    simp only [decShow, Ciphers.decPart, DecSt.wire, DecSt.decrypt, ht]
    rfl
  | encServer s o => exact ⟨rfl, rfl⟩
  | encClient s o => exact ⟨rfl, rfl⟩
  | decServer w => exact ⟨rfl, rfl⟩
  | decClient w => exact ⟨rfl, rfl⟩
  | readServer script => exact wrathReadServer_dec en de st script
  | readClient script => exact ⟨rfl, rfl⟩
  | writeServer s o script => exact ⟨rfl, rfl⟩
  | writeClient s o script => exact ⟨rfl, rfl⟩
  | attempt w =>
    by_cases hlg : Spec.isLarge (de.crypt w).2 = true
    · refine ⟨?_, fun tail => ?_⟩
      · simp only [specStep, Ciphers.step, Ciphers.plainOf, hlg, if_true]; rfl
      · simp only [decShow, Ciphers.decPart, DecSt.wire, DecSt.decrypt, ht, specStep, Ciphers.step, Ciphers.plainOf,
          hlg, if_true]
        rfl
    · refine ⟨?_, fun tail => ?_⟩
      · simp only [specStep, Ciphers.step, Ciphers.plainOf, hlg, Bool.false_eq_true, if_false]; rfl
      · simp only [decShow, Ciphers.decPart, DecSt.wire, DecSt.decrypt, ht, specStep, Ciphers.step, Ciphers.plainOf,
          hlg, Bool.false_eq_true, if_false]
        rfl
  | large byte =>
    have ht1 : ∀ tail : Bytes, List.take 1 ((de.crypt [byte]).2 ++ tail) = (de.crypt [byte]).2 :=
      fun tail => List.take_left' (Spec.Rc4.crypt_length _ _)
    refine ⟨rfl, fun tail => ?_⟩
    simp only [decShow, Ciphers.decPart, DecSt.wire, DecSt.decrypt, Ciphers.stash, ht1]
    rfl
  | split => exact ⟨rfl, rfl⟩
  | clone => exact ⟨rfl, rfl⟩
  | unsplit => cases b <;> exact ⟨rfl, rfl⟩

theorem specStep_decPart (s : SpecState) (op : HOp) (hr : s.ciphers.decPart.Reduced) : DecStepOK s op := by
  obtain ⟨c, b⟩ := s
  cases c with
  | vt e en de => exact decStepOK_vt e en de b op hr
  | wcli en de st => exact decStepOK_wcli en de st b op
  | wsrv en de => exact decStepOK_wsrv en de b op

/-- Spec level: the decrypt-side answers of any op list are read off ONE decryption of the concatenated
    wire bytes — whatever encrypt-side ops, splits, clones happen in between —, the direction ends where
    that one call ends, and so does the stash -/
theorem specRun_decrypt_side (s : SpecState) (ops : List HOp) (hr : s.ciphers.decPart.Reduced) :
    decSide s.ciphers.decPart.kind ops (specRun s ops).2 =
      (decCut s.ciphers.decPart.kind s.ciphers.stash ops
        (s.ciphers.decPart.decrypt (decInput s.ciphers.decPart ops)).2).1 ∧
    (specRun s ops).1.ciphers.decPart = (s.ciphers.decPart.decrypt (decInput s.ciphers.decPart ops)).1 ∧
    (specRun s ops).1.ciphers.stash =
      (decCut s.ciphers.decPart.kind s.ciphers.stash ops
        (s.ciphers.decPart.decrypt (decInput s.ciphers.decPart ops)).2).2 := by
  induction ops generalizing s with
  | nil => exact ⟨rfl, (DecSt.decrypt_nil_fst _ hr).symm, rfl⟩
  | cons op ops ih =>
    have hstep := specStep_decPart s op hr
    unfold DecStepOK at hstep
    by_cases hd : s.ciphers.decPart.kind.isDec op = true
    · rw [if_pos hd] at hstep
      obtain ⟨h1, h2⟩ := hstep
      have hr1 : (specStep s op).1.ciphers.decPart.Reduced := by rw [h1]; exact DecSt.decrypt_reduced _ hr _
      obtain ⟨i1, i2, i3⟩ := ih (specStep s op).1 hr1
      rw [h1, DecSt.kind_decrypt] at i1 i3
      rw [h1] at i2
      simp only [specRun, decSide, decInput, decCut, hd, if_true, DecSt.decrypt_append, h2,
        List.drop_left' (DecSt.decrypt_length _ _)]
      exact ⟨by rw [i1], i2, i3⟩
    · rw [if_neg hd] at hstep
      obtain ⟨h1, h2⟩ := hstep
      have hr1 : (specStep s op).1.ciphers.decPart.Reduced := by rw [h1]; exact hr
      obtain ⟨i1, i2, i3⟩ := ih (specStep s op).1 hr1
      rw [h1, h2] at i1 i3
      rw [h1] at i2
      simp only [specRun, decSide, decInput, decCut, hd, Bool.false_eq_true, if_false]
      exact ⟨i1, i2, i3⟩

/-! ## corollary (b'): the decrypt side depends only on the wire bytes fed to it -/

theorem HObj.abs_dec_reduced (o : HObj) (h : o.WF) : o.abs.ciphers.decPart.Reduced := by
  cases o with
  | comb e hc => show hc.decrypt.index < hc.decrypt.key.length; rw [h.2.1.1]; exact h.2.1.2
  | halves e en de => show de.index < de.key.length; rw [h.2.1.1]; exact h.2.1.2
  | wcli c => trivial
  | wsrv c => trivial
  | wcliH en de => trivial
  | wsrvH en de => trivial

/-- **(b') the mirror image of `Session_encrypt_side`**, for every object form and every op list: the
    answers at the decrypt-side ops (`dec`, the typed header decrypters, the read wrappers, Wrath's
    `attempt` / `large`) are read off ONE decryption of the concatenated wire bytes the decrypt direction
    consumed (`decInput`: array / slice arguments as given; for a read wrapper the bytes `read_exact`
    delivered, nothing if it failed — except Wrath's failure at the fifth byte, which has consumed four),
    cut at the op boundaries and shown by `decShow` (a function of the plaintext and the reader script
    alone); the decrypt direction ends where that one call ends, and the client's stash is the one the
    cut leaves. The encrypt-side ops, `split`, `clone`, `unsplit` in between do not matter. -/
theorem Session_decrypt_side (o : HObj) (ops : List HOp) (h : o.WF) (hops : ∀ op ∈ ops, op.WF) :
    ∃ o' outs, o.run ops = .ok (o', outs) ∧
      decSide o.abs.ciphers.decPart.kind ops outs =
        (decCut o.abs.ciphers.decPart.kind o.abs.ciphers.stash ops
          (o.abs.ciphers.decPart.decrypt (decInput o.abs.ciphers.decPart ops)).2).1 ∧
      o'.abs.ciphers.decPart =
        (o.abs.ciphers.decPart.decrypt (decInput o.abs.ciphers.decPart ops)).1 ∧
      o'.abs.ciphers.stash =
        (decCut o.abs.ciphers.decPart.kind o.abs.ciphers.stash ops
          (o.abs.ciphers.decPart.decrypt (decInput o.abs.ciphers.decPart ops)).2).2 := by
  obtain ⟨o', outs, hrun, _, hspec⟩ := Session_run_refines o ops h hops
  obtain ⟨h1, h2, h3⟩ := specRun_decrypt_side o.abs ops (o.abs_dec_reduced h)
  rw [hspec] at h1 h2 h3
  exact ⟨o', outs, hrun, h1, h2, h3⟩

/-- (b') spelled out for Vanilla/TBC: the one plaintext stream is `recDec` of the concatenated wire bytes,
    from the object's current position; no stash -/
theorem Session_decrypt_side_vt (e : Exp) (hc : HeaderCrypto) (ops : List HOp) (h : (HObj.comb e hc).WF)
    (hops : ∀ op ∈ ops, op.WF) :
    ∃ o' outs, (HObj.comb e hc).run ops = .ok (o', outs) ∧
      decSide .vt ops outs =
        (decCut .vt [] ops
          (Spec.recDec hc.decrypt.key hc.decrypt.index hc.decrypt.prev
            (decInput (.vt e hc.decrypt.abs) ops))).1 := by
  obtain ⟨o', outs, hrun, h1, _⟩ := Session_decrypt_side (.comb e hc) ops h hops
  exact ⟨o', outs, hrun, h1⟩

/-- only the decrypt-side ops of a list feed the decrypt direction … -/
theorem decInput_filter (k : DKind) (ops : List HOp) (D : DecSt) (hk : D.kind = k) :
    decInput D (ops.filter k.isDec) = decInput D ops := by
  induction ops generalizing D with
  | nil => rfl
  | cons op ops ih =>
    by_cases hd : k.isDec op = true
    · simp only [List.filter_cons, hd, if_true, decInput, hk]
      rw [ih _ ((DecSt.kind_decrypt _ _).trans hk)]
    · simp only [List.filter_cons, hd, Bool.false_eq_true, if_false, decInput, hk]
      exact ih D hk

/-- … and only they are answered from it -/
theorem decCut_filter (k : DKind) (ops : List HOp) (stash plain : Bytes) :
    decCut k stash (ops.filter k.isDec) plain = decCut k stash ops plain := by
  induction ops generalizing stash plain with
  | nil => rfl
  | cons op ops ih =>
    by_cases hd : k.isDec op = true
    · simp only [List.filter_cons, hd, if_true, decCut, ih]
    · simp only [List.filter_cons, hd, Bool.false_eq_true, if_false, decCut, ih]

/-- **the sentence of the brief**: two sessions — any two object forms, any two op lists — whose decrypt
    directions start in the same state (stream and stash) and whose op lists contain the same
    decrypt-side ops in the same order give the same answers at those ops and end with the same decrypt
    direction, *whatever* the two encrypt directions are and whatever encrypt-side ops, `split`s,
    `clone`s, `unsplit`s are interleaved in either list -/
theorem Session_decrypt_side_indep (o₁ o₂ : HObj) (ops₁ ops₂ : List HOp) (h₁ : o₁.WF) (h₂ : o₂.WF)
    (hops₁ : ∀ op ∈ ops₁, op.WF) (hops₂ : ∀ op ∈ ops₂, op.WF)
    (hD : o₁.abs.ciphers.decPart = o₂.abs.ciphers.decPart) (hst : o₁.abs.ciphers.stash = o₂.abs.ciphers.stash)
    (hsame : ops₁.filter o₁.abs.ciphers.decPart.kind.isDec = ops₂.filter o₁.abs.ciphers.decPart.kind.isDec) :
    ∃ o₁' o₂' outs₁ outs₂, o₁.run ops₁ = .ok (o₁', outs₁) ∧ o₂.run ops₂ = .ok (o₂', outs₂) ∧
      decSide o₁.abs.ciphers.decPart.kind ops₁ outs₁ = decSide o₁.abs.ciphers.decPart.kind ops₂ outs₂ ∧
      o₁'.abs.ciphers.decPart = o₂'.abs.ciphers.decPart ∧ o₁'.abs.ciphers.stash = o₂'.abs.ciphers.stash := by
  obtain ⟨o₁', outs₁, r₁, a₁, b₁, c₁⟩ := Session_decrypt_side o₁ ops₁ h₁ hops₁
  obtain ⟨o₂', outs₂, r₂, a₂, b₂, c₂⟩ := Session_decrypt_side o₂ ops₂ h₂ hops₂
  rw [← hD] at a₂ b₂ c₂
  rw [← hst] at a₂ c₂
  have hi : decInput o₁.abs.ciphers.decPart ops₁ = decInput o₁.abs.ciphers.decPart ops₂ := by
    rw [← decInput_filter _ ops₁ _ rfl, ← decInput_filter _ ops₂ _ rfl, hsame]
  have hc : ∀ st pl, decCut o₁.abs.ciphers.decPart.kind st ops₁ pl = decCut o₁.abs.ciphers.decPart.kind st ops₂ pl := by
    intro st pl
    rw [← decCut_filter _ ops₁, ← decCut_filter _ ops₂, hsame]
  refine ⟨o₁', o₂', outs₁, outs₂, r₁, r₂, ?_, ?_, ?_⟩
  · rw [a₁, a₂, hi, hc]
  · rw [b₁, b₂, hi]
  · rw [c₁, c₂, hi, hc]

/-! ### non-vacuity of (b') and (a'): the demo session, evaluated -/

/-- the wire bytes the decrypt side of `demoOps` consumes: `decClient`'s six, `dec`'s one, `decServer`'s four -/
example : decInput demoObj.abs.ciphers.decPart demoOps = [0x10, 0x20, 0x30, 0x40, 0x50, 0x60, 9, 1, 2, 3, 4] := by
  decide

/-- one decryption of those eleven bytes, cut by `decCut`, gives the three decrypt-side answers of the run
    (cf. the `example` for `demoObj.run demoOps` above) -/
example :
    (decCut .vt [] demoOps
      (demoObj.abs.ciphers.decPart.decrypt [0x10, 0x20, 0x30, 0x40, 0x50, 0x60, 9, 1, 2, 3, 4]).2).1 =
    [.header 4890 906954753, .bytes [132], .header 52282 18499] := by
  decide

example : decSide .vt demoOps
    [.bytes [3, 9, 8, 33], .bytes [63, 99, 145], .done, .header 4890 906954753, .bytes [132], .na, .done,
     .bytes [197, 4, 179, 251, 75, 162], .header 52282 18499, .done, .na] =
    [.header 4890 906954753, .bytes [132], .header 52282 18499] := by
  decide

/-- Wrath client, the two-step long header on the Spec session: a generator over the identity table (first
    keystream byte 2, so `82 01 02 03` decrypts to a marker byte), `attempt` answers `more`, an `enc` in
    between, then `large`; `decCut` reads the same two answers off one decryption of the five bytes -/
example :
    let s : SpecState := ⟨.wcli ⟨List.range 256, 0, 0⟩ ⟨List.range 256, 0, 0⟩ [0, 0, 0, 0], false⟩
    let ops : List HOp := [.attempt [0x82, 1, 2, 3], .enc [1], .large 7]
    decInput s.ciphers.decPart ops = [0x82, 1, 2, 3, 7] ∧
    decSide .wcli ops (specRun s ops).2 = [.more, .header 1029 2574] ∧
    (decCut .wcli [0, 0, 0, 0] ops (s.ciphers.decPart.decrypt [0x82, 1, 2, 3, 7]).2) =
      ([.more, .header 1029 2574], [0x80, 4, 5, 14]) := by
  decide +kernel

/-- (a') the two `unsplit` answers of `demoOps` are the only ones that ask for the form -/
example : exceptUnsplit demoOps
    [.bytes [3, 9, 8, 33], .bytes [63, 99, 145], .done, .header 4890 906954753, .bytes [132], .na, .done,
     .bytes [197, 4, 179, 251, 75, 162], .header 52282 18499, .done, .na] =
    [.bytes [3, 9, 8, 33], .bytes [63, 99, 145], .done, .header 4890 906954753, .bytes [132], .na, .done,
     .bytes [197, 4, 179, 251, 75, 162], .header 52282 18499] := by
  decide

end WowSrp

#print axioms WowSrp.Session_step_refines
#print axioms WowSrp.Session_run_refines
#print axioms WowSrp.Session_step_needs_array_lengths
#print axioms WowSrp.WF_fresh
#print axioms WowSrp.WF_fresh_wcli
#print axioms WowSrp.WF_fresh_wsrv
#print axioms WowSrp.Session_form_independent
#print axioms WowSrp.Session_comb_eq_halves
#print axioms WowSrp.Session_wcli_eq_halves
#print axioms WowSrp.Session_wsrv_eq_halves
#print axioms WowSrp.Session_encrypt_side
#print axioms WowSrp.Session_encrypt_concat_vt
#print axioms WowSrp.Session_form_independent_except_unsplit
#print axioms WowSrp.Session_comb_eq_halves_except_unsplit
#print axioms WowSrp.Session_decrypt_side
#print axioms WowSrp.Session_decrypt_side_vt
#print axioms WowSrp.Session_decrypt_side_indep
