/-
Published test vectors for the executable hash primitives (`Crypto.real`), checked by kernel evaluation.
These are TESTS (finitely many inputs), labelled as such: they tie `Crypto.real` — what the driver runs and
what `C03_xor_hash_real` is about — to FIPS 180-4 (SHA-1), RFC 2202 (HMAC-SHA1) and RFC 1321 (MD5).
The sha-1 / hmac / md5 crates themselves are tied to `Crypto.real` by every correspondence run.
-/
import WowSrp.Model.Crypto
namespace WowSrp

def ascii (s : String) : Bytes := s.toUTF8.toList

/-- FIPS 180-4: SHA-1("abc") -/
example : Crypto.real.sha1 (ascii "abc") = unhex "a9993e364706816aba3e25717850c26c9cd0d89d" := by decide +kernel
/-- SHA-1("") -/
example : Crypto.real.sha1 [] = unhex "da39a3ee5e6b4b0d3255bfef95601890afd80709" := by decide +kernel
/-- FIPS 180-4 two-block message -/
example : Crypto.real.sha1 (ascii "abcdbcdecdefdefgefghfghighijhijkijkljklmklmnlmnomnopnopq")
    = unhex "84983e441c3bd26ebaae4aa1f95129e5e54670f1" := by decide +kernel
/-- RFC 2202 test case 2 -/
example : Crypto.real.hmac (ascii "Jefe") (ascii "what do ya want for nothing?")
    = unhex "effcdf6ae5eb2fa2d27416d5f184df9c259a7c79" := by decide +kernel
/-- RFC 2202 test case 1 -/
example : Crypto.real.hmac (List.replicate 20 0x0b) (ascii "Hi There")
    = unhex "b617318655057264e28bc0b6fb378c8ef146be00" := by decide +kernel
/-- RFC 2202 test case 6 (key longer than the block size is hashed first) -/
example : Crypto.real.hmac (List.replicate 80 0xaa) (ascii "Test Using Larger Than Block-Size Key - Hash Key First")
    = unhex "aa4ae5e15272d00e95705637ce8a3b55ed402112" := by decide +kernel
/-- RFC 1321: MD5("") / MD5("abc") / MD5 of the 80-digit message -/
example : Crypto.real.md5 [] = unhex "d41d8cd98f00b204e9800998ecf8427e" := by decide +kernel
example : Crypto.real.md5 (ascii "abc") = unhex "900150983cd24fb0d6963f7d28e17f72" := by decide +kernel
example : Crypto.real.md5 (ascii "12345678901234567890123456789012345678901234567890123456789012345678901234567890")
    = unhex "57edf4a22be3c955ac49da2e2107b67a" := by decide +kernel

end WowSrp
