/-
Line-protocol driver for the Model (DESIGN.md Appendix B; the same protocol is implemented by
harness/src/main.rs against the real crate). One operation per input line, one canonical result
line per operation. Imports Model files only (no Mathlib) so it links as a `lean_exe`.

  wowsrp_model [num|rug]
-/
import WowSrp.Model.Srp
import WowSrp.Model.World
import WowSrp.Model.Pin
import WowSrp.Model.Integrity
import WowSrp.Model.MatrixCard
import WowSrp.Model.Rng
import WowSrp.Model.Session
open WowSrp

def C : Crypto := Crypto.real

/-- RNG stream handed to one op -/
structure Rng where
  bytes : Bytes
  used : Nat := 0

abbrev M := StateT Rng (Except String)

def draw (n : Nat) : M Bytes := do
  let r ← get
  if r.bytes.length < n then throw "rng-exhausted"
  set { r with bytes := r.bytes.drop n, used := r.used + n }
  pure (r.bytes.take n)

/-- run a Model generator that consumes the front of the RNG stream -/
def drawWith {α} (f : Bytes → Option (α × Bytes)) : M α := do
  let r ← get
  match f r.bytes with
  | none => throw "rng-exhausted"
  | some (v, rest) =>
    set { r with bytes := rest, used := r.used + (r.bytes.length - rest.length) }
    pure v

def liftOut {α} : Out α → M α
  | .ok a => pure a
  | .panic _ => throw "panic"

def decodeUtf8 (s : String) : Option (List Char) :=
  match String.fromUTF8? (ByteArray.mk (unhex s).toArray) with
  | some str => some str.toList
  | none => none

def nat! (s : String) : Nat := s.toNat!

def fnvStep (h : UInt64) (b : UInt8) : UInt64 := (h ^^^ b.toUInt64) * 0x100000001b3
def fnvInit : UInt64 := 0xcbf29ce484222325
def fnvBytes (h : UInt64) (bs : Bytes) : UInt64 := bs.foldl fnvStep h
def hex64 (h : UInt64) : String := hex ((leN 8 h.toNat).reverse)

def nsText (s : String) : M NStr :=
  match decodeUtf8 s with
  | none => throw "badutf8"
  | some cs =>
    match NStr.new cs with
    | .ok n => pure n
    | .err _ => throw "badcred"
    | .panic _ => throw "panic"

def pkErrStr : PKErr → String
  | .isZero => "zero"
  | .modIsZero => "modzero"

def opNsNew (s : String) : String :=
  match decodeUtf8 s with
  | none => "badutf8"
  | some cs =>
    match NStr.new cs with
    | .ok n =>
      match n.asRefOut with
      | .ok t => s!"ok {hex t}"
      | .panic _ => "panic"
    | .err .tooLong => "err toolong"
    | .err (.notAllowed c) => s!"err char {c.toNat}"
    | .panic _ => "panic"

def ordStr : Ordering → String
  | .lt => "lt"
  | .eq => "eq"
  | .gt => "gt"

def opNsCmp (a b : String) : String :=
  match decodeUtf8 a, decodeUtf8 b with
  | some ca, some cb =>
    match NStr.new ca, NStr.new cb with
    | .ok na, .ok nb =>
      let e := if na = nb then "1" else "0"
      s!"{ordStr (na.derivedCmp nb)} {e} {e}"
    | _, _ => "invalid"
  | _, _ => "badutf8"

def fullLogin (be : Backend) (u p : String) : M (SrpServer × SrpClient) := do
  let U ← nsText u
  let P ← nsText p
  let salt ← draw 32
  let ver ← liftOut (SrpVerifier.fromUsernameAndPassword C be U P salt)
  let b ← draw 32
  let proof ← liftOut (ver.intoProof be b)
  let a ← draw 32
  let cc ← liftOut (SrpClientChallenge.new C be U P gBig Gen.largeSafePrimeLE proof.serverPublicKey proof.salt a)
  match PublicKey.fromLE cc.clientPublicKey with
  | .error _ => throw "fail badA"
  | .ok A =>
    let K ← liftOut (calculateSessionKey C be A proof.serverPublicKey proof.passwordVerifier proof.serverPrivateKey)
    let M1s := calculateClientProof C proof.username.asRef K A proof.serverPublicKey proof.salt
    if cc.clientProof != M1s then throw "fail m1" else
    let chal ← draw 16
    match ← liftOut (proof.intoServer C be A cc.clientProof chal) with
    | .error _ => throw "fail m1"
    | .ok (srv, M2) =>
      match cc.verifyServerProof C M2 with
      | .error _ => throw "fail m2"
      | .ok cl => pure (srv, cl)

/-! ### header sessions -/

/- The object forms (`HObj`), the typed op vocabulary (`HOp`), the typed answers (`HOut`) and the dispatch of one op to the model
   functions (`HObj.step`) live in `WowSrp/Model/Session.lean`; `Props/Session.lean` proves that ANY op sequence run through `HObj.step`
   refines the two-stream specification of `Spec/Session.lean`.  The driver only parses tokens and prints answers, so the thing the
   differential test runs against the real crate is the thing the theorem is about. -/

def parseREv (s : String) : List REv :=
  if s = "-" then [] else
  (s.splitOn ",").map fun t =>
    match t.toList with
    | 'D' :: r => .data (unhex (String.ofList r))
    | 'I' :: _ => .interrupted
    | 'E' :: r => .err (String.ofList r).toNat!
    | _ => .eof

def parseWEv (s : String) : List WEv :=
  if s = "-" then [] else
  (s.splitOn ",").map fun t =>
    match t.toList with
    | 'A' :: r => .accept (String.ofList r).toNat!
    | 'I' :: _ => .interrupted
    | 'E' :: r => .err (String.ofList r).toNat!
    | _ => .accept 0

def zeros16 : Bytes := List.replicate 16 0

/-- token -> typed op (`none`: not part of the session vocabulary) -/
def parseOp (tok : String) : Option HOp :=
  match tok.splitOn ":" with
  | ["e", d] | ["ae", d] => some (.enc (unhex d))
  | ["d", d] | ["ad", d] => some (.dec (unhex d))
  | ["es", s, op] => some (.encServer (nat! s) (nat! op))
  | ["ec", s, op] => some (.encClient (nat! s) (nat! op))
  | ["ds", d] => some (.decServer (unhex d))
  | ["dc", d] => some (.decClient (unhex d))
  | ["rs", sc] => some (.readServer (parseREv sc))
  | ["rc", sc] => some (.readClient (parseREv sc))
  | ["ws", s, op, sc] => some (.writeServer (nat! s) (nat! op) (parseWEv sc))
  | ["wc", s, op, sc] => some (.writeClient (nat! s) (nat! op) (parseWEv sc))
  | ["at", d] => some (.attempt (unhex d))
  | ["lg", d] => some (.large ((unhex d).headD 0))
  | ["split"] => some .split
  | ["unsplit"] => some .unsplit
  | ["clone"] => some .clone
  | _ => none

/-- typed answer -> the text the harness prints for the same call -/
def outStr (op : HOp) : HOut → String
  | .bytes b => hex b
  | .header s o => match op with
    | .attempt _ => s!"h:{s}:{o}"
    | _ => s!"{s}:{o}"
  | .readOk s o u => s!"ok:{s}:{o}:u{u}"
  | .readErr k u same => s!"err:{k}:u{u}:same{if same then "1" else "0"}"
  | .writeOk sink => s!"ok:{hex sink}"
  | .writeErr k sink => s!"err:{k}:{hex sink}"
  | .more => "more"
  | .done => "ok"
  | .refused => "err"
  | .na => "na"

def hdrOp (o : HObj) (tok : String) : M (HObj × String) := do
  match parseOp tok with
  | some op => do
    let (o', out) ← liftOut (o.step op)
    pure (o', outStr op out)
  | none =>
  -- two probes that are not session ops: they build a second object / look at the state and throw the copies away
  match tok.splitOn ":" with
  | ["pairwith", k] =>
    match o with
    | .comb .vanilla hc =>
      let other := HeaderCrypto.new C .vanilla (unhex k)
      let a := if hc.encrypt.isPairOf other.decrypt then "1" else "0"
      let b := if other.encrypt.isPairOf hc.decrypt then "1" else "0"
      let u := match hc.encrypt.unsplit other.decrypt with | some _ => "ok" | none => "err"
      pure (o, s!"{a}:{b}:{u}")
    | .halves .vanilla en de =>
      let other := HeaderCrypto.new C .vanilla (unhex k)
      let a := if en.isPairOf other.decrypt then "1" else "0"
      let b := if other.encrypt.isPairOf de then "1" else "0"
      let u := match en.unsplit other.decrypt with | some _ => "ok" | none => "err"
      pure (o, s!"{a}:{b}:{u}")
    | _ => pure (o, "na")
  | ["pr"] => do
    let (_, e) ← liftOut (o.enc zeros16)
    let (_, d) ← liftOut (o.dec zeros16)
    match o with
    | .wcli c => do
      let (_, (s, op)) ← liftOut (c.decrypt.decryptLarge 0)
      pure (o, s!"{hex e}:{hex d}:{s}:{op}")
    | .wcliH _ de => do
      let (_, (s, op)) ← liftOut (de.decryptLarge 0)
      pure (o, s!"{hex e}:{hex d}:{s}:{op}")
    | _ => pure (o, s!"{hex e}:{hex d}")
  | _ => throw "bad-op"

def hdrNew (exp role : String) (K : Bytes) : M HObj :=
  match exp with
  | "v" => pure (.comb .vanilla (HeaderCrypto.new C .vanilla K))
  | "t" => pure (.comb .tbc (HeaderCrypto.new C .tbc K))
  | "w" =>
    if role = "s" then do let c ← liftOut (WServerCrypto.new C K); pure (.wsrv c)
    else do let c ← liftOut (WClientCrypto.new C K); pure (.wcli c)
  | _ => throw "bad-op"

def hdrRun (o : HObj) : List String → M (List String)
  | [] => pure []
  | t :: ts => do
    let (o', r) ← hdrOp o t
    let rs ← hdrRun o' ts
    pure (r :: rs)

def probeStr (o : HObj) : M String := do
  let (_, r) ← hdrOp o "pr"
  pure r

def digitsStr (bs : Bytes) : String := String.join (bs.map fun b => toString b.toNat)

/-- Wrath header sweep: server encrypts headers for sizes lo..hi-1, the client decodes through the
    read path; digest over (emitted length, decoded size, decoded opcode) -/
def wSweep (K : Bytes) (lo hi opc : Nat) : M String := do
  let srv ← liftOut (WServerCrypto.new C K)
  let cli ← liftOut (WClientCrypto.new C K)
  let mut se := srv.encrypt
  let mut cd := cli.decrypt
  let mut h := fnvInit
  let mut bad := 0
  for size in [lo:hi] do
    let (se', out) ← liftOut (se.encryptServerHeader size opc)
    se := se'
    let r ← liftOut (cd.readServerHeader [.data out])
    cd := r.state
    match r.result with
    | .ok (s, o) =>
      h := fnvBytes h (leN 1 out.length ++ leN 4 s ++ leN 2 o)
      if s != size || o != opc || !r.rest.isEmpty then bad := bad + 1
    | .error _ => bad := bad + 1
  pure s!"fnv {hex64 h} bad={bad}"

/-- full step table of the recurrence ciphers (see harness `hdr.steps`) -/
def hdrSteps (exp : String) (K : Bytes) : M String := do
  let base ← hdrNew exp "s" K
  let l := if exp = "v" then 40 else 20
  let mut h := fnvInit
  let mut n := 0
  for pos in [0:l] do
    for prev in [0:256] do
      if pos == 0 && prev != 0 then continue
      let mut e := base
      if pos > 0 then
        let (e1, _) ← liftOut (base.enc ((List.replicate (pos - 1) 0)))
        let mut found := false
        for x in [0:256] do
          if found then break
          let (c, b) ← liftOut (e1.enc ([UInt8.ofNat x]))
          if b.headD 0 == UInt8.ofNat prev then
            e := c
            found := true
        if !found then throw "bad-op"
      let mut d := base
      if pos > 0 then
        let (d1, _) ← liftOut (base.dec ((List.replicate (pos - 1) 0 ++ [UInt8.ofNat prev])))
        d := d1
      for x in [0:256] do
        let (_, b) ← liftOut (e.enc ([UInt8.ofNat x]))
        h := fnvStep h (b.headD 0)
        let (_, b2) ← liftOut (d.dec ([UInt8.ofNat x]))
        h := fnvStep h (b2.headD 0)
        n := n + 1
  pure s!"fnv {hex64 h} n={n}"

def lcgNext (x : UInt64) : UInt64 := x * 6364136223846793005 + 1442695040888963407

/-- public-key sweep over the family "every byte is 0 or N's byte" -/
def pkSweep (seed count : Nat) : String := Id.run do
  let mut x : UInt64 := UInt64.ofNat seed
  let mut h := fnvInit
  let mut nOk := 0
  let mut nZero := 0
  let mut nMod := 0
  for _ in [0:count] do
    x := lcgNext x
    let mask := (x >>> 16).toNat % 4294967296
    let key := (List.range 32).map fun i =>
      if (mask >>> i) % 2 = 1 then Gen.largeSafePrimeLE[i]! else (0 : UInt8)
    match PublicKey.fromLE key with
    | .ok _ => nOk := nOk + 1; h := fnvStep h 0
    | .error .isZero => nZero := nZero + 1; h := fnvStep h 1
    | .error .modIsZero => nMod := nMod + 1; h := fnvStep h 2
  pure s!"fnv {hex64 h} ok={nOk} zero={nZero} mod={nMod}"

def encodeUtf8 (cs : List Char) : Bytes := (String.ofList cs).toUTF8.toList

/-- normalised-string sweep: every scalar in [lo, hi) at position `pos` of a string of `len` 'a's -/
def nsSweep (lo hi pos len : Nat) : String := Id.run do
  let mut h := fnvInit
  let mut nOk := 0
  let mut nLen := 0
  let mut nChar := 0
  for v in [lo:hi] do
    if 0xD800 ≤ v && v ≤ 0xDFFF then continue
    if v > 0x10FFFF then continue
    let c := Char.ofNat v
    let cs := (List.replicate pos 'a') ++ [c] ++ List.replicate (len - pos - 1) 'a'
    match NStr.new cs with
    | .ok n => nOk := nOk + 1; h := fnvBytes (fnvStep h 0) n.asRef
    | .err .tooLong => nLen := nLen + 1; h := fnvStep h 1
    | .err (.notAllowed c) => nChar := nChar + 1; h := fnvBytes (fnvStep h 2) (leN 4 c.toNat)
    | .panic _ => h := fnvStep h 3
  pure s!"fnv {hex64 h} ok={nOk} len={nLen} char={nChar}"

def pinSweep (pin lo hi step : Nat) (ss cs : Bytes) : M String := do
  let mut h := fnvInit
  let mut seed := lo
  let mut n := 0
  while seed < hi do
    match ← liftOut (pinCalculateHash C pin seed ss cs) with
    | some d => h := fnvBytes h d
    | none => h := fnvStep h 0xff
    seed := seed + step
    n := n + 1
  pure s!"fnv {hex64 h} n={n}"

def runOp (be : Backend) (args : List String) : M String := do
  match args with
  | ["ns.new", s] => do
    let r := opNsNew s
    if r == "badutf8" then throw r else pure r      -- not a Rust `str` at all: the harness reports it the same way
  | ["ns.cmp", a, b] => do
    let r := opNsCmp a b
    if r == "badutf8" then throw r else pure r
  | ["ns.sweep", lo, hi, pos, len] => pure (nsSweep (nat! lo) (nat! hi) (nat! pos) (nat! len))
  | ["pk.from", k] =>
    match PublicKey.fromLE (unhex k) with
    | .ok key => pure s!"ok {hex key}"
    | .error e => pure s!"err {pkErrStr e}"
  | ["pk.sweep", seed, count] => pure (pkSweep (nat! seed) (nat! count))
  | ["srv.register", u, p] => do
    let U ← nsText u
    let P ← nsText p
    let salt ← draw 32
    let v ← liftOut (SrpVerifier.fromUsernameAndPassword C be U P salt)
    pure s!"ok {hex v.username.asRef} {hex v.passwordVerifier} {hex v.salt}"
  | ["srv.proof", u, v, salt] => do
    let U ← nsText u
    let ver := SrpVerifier.fromDatabaseValues U (unhex v) (unhex salt)
    let b ← draw 32
    let p ← liftOut (ver.intoProof be b)
    pure s!"ok {hex p.serverPublicKey} {hex p.salt}"
  | ["srv.server", u, v, salt, a, m1] => do
    let U ← nsText u
    let ver := SrpVerifier.fromDatabaseValues U (unhex v) (unhex salt)
    let b ← draw 32
    let p ← liftOut (ver.intoProof be b)
    match PublicKey.fromLE (unhex a) with
    | .error e => pure s!"badA {pkErrStr e}"
    | .ok A =>
      -- the challenge is drawn only on the success path
      let K ← liftOut (calculateSessionKey C be A p.serverPublicKey p.passwordVerifier p.serverPrivateKey)
      let M1s := calculateClientProof C p.username.asRef K A p.serverPublicKey p.salt
      let chal ← if unhex m1 != M1s then pure [] else draw 16
      match ← liftOut (p.intoServer C be A (unhex m1) chal) with
      | .error e => pure s!"err {hex e.clientProof} {hex e.serverProof}"
      | .ok (srv, M2) => pure s!"ok {hex srv.sessionKey} {hex M2} {hex srv.reconnectChallengeData}"
  | ["cli.new", u, p, g, n, b, salt] => do
    let U ← nsText u
    let P ← nsText p
    match PublicKey.fromLE (unhex b) with
    | .error e => pure s!"badB {pkErrStr e}"
    | .ok B =>
      let a ← draw 32
      let cc ← liftOut (SrpClientChallenge.new C be U P (nat! g) (unhex n) B (unhex salt) a)
      pure s!"ok {hex cc.clientPublicKey} {hex cc.clientProof}"
  | ["cli.verify", u, p, g, n, b, salt, m2] => do
    let U ← nsText u
    let P ← nsText p
    match PublicKey.fromLE (unhex b) with
    | .error e => pure s!"badB {pkErrStr e}"
    | .ok B =>
      let a ← draw 32
      let cc ← liftOut (SrpClientChallenge.new C be U P (nat! g) (unhex n) B (unhex salt) a)
      match cc.verifyServerProof C (unhex m2) with
      | .ok cl => pure s!"ok {hex cl.sessionKey}"
      | .error e => pure s!"err {hex e.clientProof} {hex e.serverProof}"
  | ["login", us, ps, uc, pc, via] => do
    match decodeUtf8 us, decodeUtf8 ps, decodeUtf8 uc, decodeUtf8 pc with
    | some cus, some cps, some cuc, some cpc =>
      -- the four strings are validated before anything is drawn (`NormalizedString::new` precedes every RNG use)
      match NStr.new cus, NStr.new cps, NStr.new cuc, NStr.new cpc with
      | .ok _, .ok _, .ok _, .ok _ => pure ()
      | _, _, _, _ => return "fail credentials"
      let salt ← draw 32
      let b ← draw 32
      let a ← draw 32
      -- the challenge is only drawn when the server accepts; peek without consuming on failure
      let r0 := runLogin C be cus cps cuc cpc ((nat! via) % 10 != 0) salt b a (List.replicate 16 0)
      match r0 with
      | .ok .. =>
        let chal ← draw 16
        match runLogin C be cus cps cuc cpc ((nat! via) % 10 != 0) salt b a chal with
        | .ok ks kc A B m1 m2 v => pure s!"ok {hex ks} {hex kc} {hex A} {hex B} {hex m1} {hex m2} {hex v}"
        | .fail st => pure s!"fail {st}"
        | .panic _ => throw "panic"
      | .fail st => pure s!"fail {st}"
      | .panic _ => throw "panic"
    | _, _, _, _ => throw "badutf8"
  | "recon" :: u :: p :: k :: rest => do
    let (srv, _) ← fullLogin be u p
    let mut s := srv
    let mut out := s!"ok {hex s.reconnectChallengeData}"
    let mut r := rest
    for _ in [0:nat! k] do
      match r with
      | cd :: pr :: r' =>
        let d ← draw 16
        let (v, s') := s.verifyReconnectionAttempt C (unhex cd) (unhex pr) d
        s := s'
        out := out ++ s!" {if v then 1 else 0} {hex s.reconnectChallengeData}"
        r := r'
      | _ => throw "bad-op"
    pure out
  | ["cli.recon", u, p, sc] => do
    let (_, cl) ← fullLogin be u p
    let cd ← draw 16
    let (c, pr) := cl.calculateReconnectValues C (unhex sc) cd
    pure s!"ok {hex c} {hex pr}"
  | ["world.cli", exp, u, k, ss] => do
    let U ← nsText u
    let d ← draw 4
    let seed := ProofSeed.ofDraw d
    match exp with
    | "w" =>
      let (proof, c) ← liftOut (ProofSeed.wrathIntoClient C seed U (unhex k) (nat! ss))
      let pr ← probeStr (.wcli c)
      pure s!"ok {hex proof} {ProofSeed.seed seed} {pr}"
    | _ =>
      let e := if exp = "t" then Exp.tbc else Exp.vanilla
      let (proof, hc) := ProofSeed.intoClientHeaderCrypto C e seed U (unhex k) (nat! ss)
      let pr ← probeStr (.comb e hc)
      pure s!"ok {hex proof} {ProofSeed.seed seed} {pr}"
  | ["world.srv", exp, u, k, proof, cs] => do
    let U ← nsText u
    let d ← draw 4
    let seed := ProofSeed.ofDraw d
    match exp with
    | "w" =>
      match ← liftOut (ProofSeed.wrathIntoServer C seed U (unhex k) (unhex proof) (nat! cs)) with
      | .ok c => do let pr ← probeStr (.wsrv c); pure s!"ok {seed} {pr}"
      | .error e => pure s!"err {hex e.clientProof} {hex e.serverProof} {seed}"
    | _ =>
      let e := if exp = "t" then Exp.tbc else Exp.vanilla
      match ProofSeed.intoServerHeaderCrypto C e seed U (unhex k) (unhex proof) (nat! cs) with
      | .ok hc => do let pr ← probeStr (.comb e hc); pure s!"ok {seed} {pr}"
      | .error er => pure s!"err {hex er.clientProof} {hex er.serverProof} {seed}"
  | "hdr" :: exp :: role :: k :: ops => do
    let o ← hdrNew exp role (unhex k)
    let rs ← hdrRun o ops
    pure (" ".intercalate rs)
  | ["thr", exp, role, k, ech, dch] => do
    -- two halves driven from two threads in the real crate; the model runs them one after the other
    let o ← hdrNew exp role (unhex k)
    let es := if ech = "-" then [] else (ech.splitOn ",").map unhex
    let ds := if dch = "-" then [] else (dch.splitOn ",").map unhex
    let mut oe := o
    let mut eo : List String := []
    for c in es do
      let (o', out) ← liftOut (oe.enc (c))
      oe := o'
      eo := eo ++ [hex out]
    let mut od := o
    let mut dout : List String := []
    for c in ds do
      let (o', out) ← liftOut (od.dec (c))
      od := o'
      dout := dout ++ [hex out]
    let j := fun (l : List String) => if l.isEmpty then "-" else ",".intercalate l
    pure s!"{j eo} {j dout}"
  | ["hdr.steps", exp, k] => hdrSteps exp (unhex k)
  | ["w.sweep", k, lo, hi, opc] => wSweep (unhex k) (nat! lo) (nat! hi) (nat! opc)
  | ["pin.hash", pin, seed, ss, cs] => do
    match ← liftOut (pinCalculateHash C (nat! pin) (nat! seed) (unhex ss) (unhex cs)) with
    | some h => pure s!"some {hex h}"
    | none => pure "none"
  | ["pin.verify", pin, seed, ss, cs, h] => do
    let r ← liftOut (pinVerify C (nat! pin) (nat! seed) (unhex ss) (unhex cs) (unhex h))
    pure (if r then "1" else "0")
  | ["pin.sweep", pin, lo, hi, step, ss, cs] => pinSweep (nat! pin) (nat! lo) (nat! hi) (nat! step) (unhex ss) (unhex cs)
  | ["integ.win", f1, f2, f3, f4, f5, salt, pk] =>
    pure (hex (integrityWindows C (unhex f1) (unhex f2) (unhex f3) (unhex f4) (unhex f5) (unhex salt) (unhex pk)))
  | ["integ.mac", f1, f2, f3, f4, f5, salt, pk] =>
    pure (hex (integrityMac C (unhex f1) (unhex f2) (unhex f3) (unhex f4) (unhex f5) (unhex salt) (unhex pk)))
  | ["integ.gen", all, salt, pk] => pure (hex (integrityGeneric C (unhex all) (unhex salt) (unhex pk)))
  | ["integ.recon", salt] => pure (hex (integrityReconnect C (unhex salt)))
  | ["mc.cell", d, h, w, data, x, y] =>
    match MatrixCard.fromData (nat! d) (nat! h) (nat! w) (unhex data) with
    | none => pure "nocard"
    | some card => do let c ← liftOut (card.getNumberAt (nat! x) (nat! y)); pure s!"ok {hex c}"
  | ["mc.printed", d, h, w, data, i] =>
    match MatrixCard.fromData (nat! d) (nat! h) (nat! w) (unhex data) with
    | none => pure "nocard"
    | some card => do
      match ← liftOut (card.printed (nat! i)) with
      | some c => pure s!"some {digitsStr c}"
      | none => pure "none"
  | ["mc.new", d, h, w] => do
    let n := nat! d * nat! h * nat! w
    let r ← get
    match fillDigits (r.bytes.length / 4 + 1) n r.bytes with
    | none => throw "rng-exhausted"
    | some (ds, rest) =>
      set { r with bytes := rest, used := r.used + (r.bytes.length - rest.length) }
      pure s!"ok {hex ds}"
  | ["mc.coords", count, h, seed, w, k, round] => do
    let v ← liftOut (MCVerifier.new C (nat! count) (nat! h) (nat! seed) (nat! w) (unhex k))
    match ← liftOut (v.getCoordinates (nat! round)) with
    | some (x, y) => pure s!"some {x} {y}"
    | none => pure "none"
  | ["mc.coordseq", count, h, seed, w, k, rounds] => do
    let v ← liftOut (MCVerifier.new C (nat! count) (nat! h) (nat! seed) (nat! w) (unhex k))
    let mut out : List String := []
    for r in rounds.splitOn "," do
      match ← liftOut (v.getCoordinates (nat! r)) with
      | some (x, y) => out := out ++ [s!"{x}:{y}"]
      | none => out := out ++ ["none"]
    pure (" ".intercalate out)
  | ["mc.proof", count, h, seed, w, k, vals] => do
    let v ← liftOut (MCVerifier.new C (nat! count) (nat! h) (nat! seed) (nat! w) (unhex k))
    let v' ← liftOut (v.enterValues (unhex vals))
    pure s!"ok {hex (v'.intoProof C)}"
  | ["mc.verify", d, h, w, data, count, seed, k, proof] =>
    match MatrixCard.fromData (nat! d) (nat! h) (nat! w) (unhex data) with
    | none => pure "nocard"
    | some card => do
      let r ← liftOut (verifyMatrixCardHash C card (nat! count) (nat! seed) (unhex k) (unhex proof))
      pure (if r then "1" else "0")
  | ["mc.flow", d, h, w, data, count, seed, k] =>
    match MatrixCard.fromData (nat! d) (nat! h) (nat! w) (unhex data) with
    | none => pure "nocard"
    | some card => do
      let mut v ← liftOut (MCVerifier.new C (nat! count) card.height (nat! seed) card.width (unhex k))
      let mut stop : Option String := none
      for round in [0:nat! count] do
        if stop.isSome then break
        match ← liftOut (v.getCoordinates round) with
        | none => stop := some s!"none@{round}"
        | some (x, y) =>
          match ← liftOut (card.printed (y * card.width + x)) with
          | none => stop := some s!"unprinted@{round}"
          | some digits => v ← liftOut (v.enterValues digits)
      match stop with
      | some s => pure s
      | none =>
        let proof := v.intoProof C
        let ok ← liftOut (verifyMatrixCardHash C card (nat! count) (nat! seed) (unhex k) proof)
        pure s!"ok {hex proof} {if ok then 1 else 0}"
  | ["rng.pinseed"] => do let v ← drawWith getPinGridSeed; pure s!"{v}"
  | ["rng.pinsalt"] => do let v ← drawWith getPinSalt; pure (hex v)
  | ["rng.integsalt"] => do let v ← drawWith getIntegritySalt; pure (hex v)
  | ["rng.mcseed"] => do let v ← drawWith getMatrixCardSeed; pure s!"{v}"
  | ["rng.proofseed.default", _] => do let v ← drawWith proofSeedNew; pure s!"{ProofSeed.seed v}"
  | ["rng.proofseed", _] => do let v ← drawWith proofSeedNew; pure s!"{ProofSeed.seed v}"
  | _ => throw "bad-op"

def step (be : Backend) (line : String) : String :=
  let line := line.trimAscii.toString
  let (cmd, rng) := match line.splitOn " | " with
    | [c, r] => (c, unhex r)
    | _ => (line, [])
  let args := (cmd.splitOn " ").filter (· ≠ "")
  match (runOp be args).run { bytes := rng } with
  | .ok (s, r) => s!"{s} ~{r.used}"
  | .error e => e

partial def loop (be : Backend) (h out : IO.FS.Stream) : IO Unit := do
  let line ← h.getLine
  if line.isEmpty then return ()
  out.putStrLn (step be line)
  loop be h out

def main (args : List String) : IO Unit := do
  let be := if args.contains "rug" then Backend.rug else Backend.num
  loop be (← IO.getStdin) (← IO.getStdout)
